import GeffModel.WriteRead
import GeffProofs.Store
import GeffProofs.Vlen
/-! Lemmas about the write path and the unmasked read path (`GeffModel/WriteRead.lean`):
what `writeCore` leaves in the store (`Written`), and what `readCore` makes of such a store. -/
namespace Geff.WR
open Geff.Np Geff.Store
open Gen.Paths (NODES EDGES IDS PROPS VALUES MISSING DATA)

/-! ### what the property quantifies over -/

/-- dtype of the elements of an object array (`int64` for the empty one) -/
abbrev elemDtype (es : List NdArr) : Dtype := Geff.Vlen.dataDtype es

/-- the supported dtypes of an ordinary property (float16 is upcast on the way) -/
def denseDtypes : List Dtype := [.bool, .i8, .i16, .i32, .i64, .u8, .u16, .u32, .u64, .f16, .f32, .f64, .str]
/-- the supported element dtypes of a variable-length property -/
def vlenDtypes : List Dtype := [.bool, .i8, .i16, .i32, .i64, .u8, .u16, .u32, .u64, .f32, .f64, .str]

/-- what the codec (C11) has to provide: on well-formed homogeneous input `encode` succeeds, `decode`
inverts it, the offset table is `uint64` and `data` has the element dtype -/
structure VlenCodec.Lawful (c : VlenCodec) : Prop where
  roundtrip : ∀ es, (∀ e ∈ es, e.WF) → Geff.Vlen.Homogeneous es →
    ∃ v d, c.encode es = .ok (v, d) ∧ c.decode v d = .ok es ∧ v.dtype = .u64 ∧ d.dtype = elemDtype es

/-- a property the writer can store under `name`: a valid node name, a boolean missing mask (if any),
a supported dtype; for a variable-length property well-formed elements of one dtype and one rank -/
def Writable (name : String) (p : PropArr) : Prop :=
  validName name = true ∧ (∀ m, p.missing = some m → m.dtype = .bool) ∧
  match p.values with
  | .dense a => a.dtype ∈ denseDtypes
  | .obj es => (∀ e ∈ es, e.WF) ∧ Geff.Vlen.Homogeneous es ∧ elemDtype es ∈ vlenDtypes

/-- dtype recorded in the metadata for a property -/
def dtypeOfProp (p : PropArr) : Dtype :=
  match (upcast p).values with
  | .dense a => a.dtype
  | .obj es => elemDtype es

/-- the metadata entry the writer records for `p` stored under `name` -/
def metaOf (name : String) (p : PropArr) : PropMeta := ⟨name, (dtypeOfProp p).name, some (isVarlen p)⟩

theorem validName_ne (n : String) (h : validName n = true) : n ≠ "" ∧ n ≠ "." ∧ n ≠ ".." := by
  simp [validName] at h
  exact ⟨h.1.1.1.1.1, h.1.1.1.1.2, h.1.1.1.2⟩

theorem upcast_dense (p : PropArr) (a : NdArr) (h : p.values = .dense a) :
    upcast p = if a.dtype = .f16 then { p with values := .dense (f16to32 a) } else p := by
  unfold upcast; rw [h]

theorem upcast_obj (p : PropArr) (es : List NdArr) (h : p.values = .obj es) : upcast p = p := by
  unfold upcast; rw [h]

theorem upcast_missing (p : PropArr) : (upcast p).missing = p.missing := by
  cases h : p.values with
  | dense a => rw [upcast_dense p a h]; split <;> rfl
  | obj es => rw [upcast_obj p es h]

theorem isVarlen_upcast (p : PropArr) : isVarlen (upcast p) = isVarlen p := by
  cases h : p.values with
  | dense a => rw [upcast_dense p a h]; split <;> simp [isVarlen, h]
  | obj es => rw [upcast_obj p es h]

theorem homogeneous_all (es : List NdArr) (h : Geff.Vlen.Homogeneous es) :
    es.all (fun e => decide (e.dtype = elemDtype es)) = true := by
  cases es with
  | nil => rfl
  | cons e rest =>
    simp only [List.all_eq_true, decide_eq_true_eq]
    intro x hx
    exact (h x hx e (by simp)).1

theorem mem_valid_of_dense (d : Dtype) (h : d ∈ denseDtypes) (h16 : d ≠ .f16) : d ∈ validDtypes ∧ d ≠ .bytes := by
  cases d <;> simp_all [denseDtypes, validDtypes]

theorem mem_valid_of_vlen (d : Dtype) (h : d ∈ vlenDtypes) : d ∈ validDtypes ∧ d ≠ .bytes := by
  cases d <;> simp_all [vlenDtypes, validDtypes]

theorem mkPropMeta_ok (name : String) (d : Dtype) (b : Bool) (hn : name ≠ "") (hd : d ∈ validDtypes ∧ d ≠ .bytes) :
    mkPropMeta name d b = .ok ⟨name, d.name, some b⟩ := by
  unfold mkPropMeta
  rw [if_neg hn, if_pos hd]; rfl

/-- the dtype recorded for a writable property is one whose name parses back to it -/
theorem metaDtype_ok (name : String) (p : PropArr) (hw : Writable name p) :
    metaDtype (upcast p).values = .ok (dtypeOfProp p) ∧ (dtypeOfProp p ∈ validDtypes ∧ dtypeOfProp p ≠ .bytes) := by
  obtain ⟨_, _, hv⟩ := hw
  unfold dtypeOfProp
  cases hval : p.values with
  | dense a =>
    rw [hval] at hv
    rw [upcast_dense p a hval]
    by_cases h16 : a.dtype = .f16
    · simp [h16, metaDtype, f16to32, validDtypes, pure, Except.pure]
    · simp only [h16, if_false, hval, metaDtype]
      exact ⟨rfl, mem_valid_of_dense _ hv h16⟩
  | obj es =>
    rw [hval] at hv
    obtain ⟨_, hh, hd⟩ := hv
    rw [upcast_obj p es hval, hval]
    simp only [metaDtype]
    rw [if_pos (homogeneous_all es hh)]
    exact ⟨rfl, mem_valid_of_vlen _ hd⟩

theorem createPropsMetadata_ok (name : String) (p : PropArr) (hw : Writable name p) :
    createPropsMetadata name p = .ok (metaOf name p, upcast p) := by
  have hne := (validName_ne name hw.1).1
  obtain ⟨h1, h2⟩ := metaDtype_ok name p hw
  unfold createPropsMetadata metaOf
  rw [h1]
  simp only [bind, Except.bind]
  rw [mkPropMeta_ok name _ _ hne h2, isVarlen_upcast]
  rfl

/-! ### one property in the store -/

/-- the store holds property `p` (as written: after the upcast) in the group `q` -/
structure PropAt (c : VlenCodec) (s : St) (q : Path) (p : PropArr) : Prop where
  grp : get s q = some (.group [])
  arrays : ∃ v d, encodeProp c p = .ok (v, d) ∧ get s (q ++ [VALUES]) = some (.array v) ∧
    get s (q ++ [MISSING]) = p.missing.map .array ∧ get s (q ++ [DATA]) = d.map .array

theorem PropAt.frame {c : VlenCodec} {s s' : St} {q : Path} {p : PropArr} (h : PropAt c s q p)
    (hf : ∀ suf, get s' (q ++ suf) = get s (q ++ suf)) : PropAt c s' q p := by
  obtain ⟨hg, v, d, he, hv, hm, hd⟩ := h
  refine ⟨?_, v, d, he, ?_, ?_, ?_⟩
  · have := hf []; simp only [List.append_nil] at this; rw [this, hg]
  · rw [hf, hv]
  · rw [hf, hm]
  · rw [hf, hd]

theorem encodeProp_ok (c : VlenCodec) (hc : c.Lawful) (name : String) (p : PropArr) (hw : Writable name p) :
    ∃ v d, encodeProp c (upcast p) = .ok (v, d) := by
  obtain ⟨_, _, hv⟩ := hw
  cases hval : p.values with
  | dense a =>
    rw [upcast_dense p a hval]
    split
    · exact ⟨_, _, rfl⟩
    · unfold encodeProp; rw [hval]; exact ⟨_, _, rfl⟩
  | obj es =>
    rw [hval] at hv
    obtain ⟨hwf, hh, _⟩ := hv
    obtain ⟨v, d, he, _⟩ := hc.roundtrip es hwf hh
    rw [upcast_obj p es hval]
    unfold encodeProp
    rw [hval]
    simp only [he, bind, Except.bind]
    exact ⟨_, _, rfl⟩

theorem VALUES_ne_MISSING : VALUES ≠ MISSING := by decide
theorem VALUES_ne_DATA : VALUES ≠ DATA := by decide
theorem MISSING_ne_DATA : MISSING ≠ DATA := by decide

theorem append_singleton_ne (q : Path) (a b : String) (h : a ≠ b) : q ++ [a] ≠ q ++ [b] := by
  intro hh; exact h (by simpa using hh)

theorem append_singleton_ne_self (q : Path) (a : String) : q ++ [a] ≠ q := by
  intro hh
  have := congrArg List.length hh
  simp at this

theorem get_storeProp_other (s : St) (q r : Path) (v : NdArr) (m d : Option NdArr)
    (h0 : r ≠ q) (hV : r ≠ q ++ [VALUES]) (hM : r ≠ q ++ [MISSING]) (hD : r ≠ q ++ [DATA]) :
    get (storeProp s q v m d) r = get s r := by
  unfold storeProp
  cases m <;> cases d <;>
    simp only [get_set_other _ _ _ _ hD, get_set_other _ _ _ _ hM, get_set_other _ _ _ _ hV,
      get_set_other _ _ _ _ h0]

theorem get_storeProp_self (s : St) (q : Path) (v : NdArr) (m d : Option NdArr) :
    get (storeProp s q v m d) q = some (.group []) := by
  unfold storeProp
  cases m <;> cases d <;>
    simp only [get_set_other _ _ _ _ (append_singleton_ne_self q _).symm, get_set_same]

theorem get_storeProp_values (s : St) (q : Path) (v : NdArr) (m d : Option NdArr) :
    get (storeProp s q v m d) (q ++ [VALUES]) = some (.array v) := by
  unfold storeProp
  cases m <;> cases d <;>
    simp only [get_set_other _ _ _ _ (append_singleton_ne q _ _ VALUES_ne_DATA),
      get_set_other _ _ _ _ (append_singleton_ne q _ _ VALUES_ne_MISSING), get_set_same]

theorem get_storeProp_missing (s : St) (q : Path) (v : NdArr) (m d : Option NdArr)
    (hf : get s (q ++ [MISSING]) = none) :
    get (storeProp s q v m d) (q ++ [MISSING]) = m.map .array := by
  unfold storeProp
  cases m <;> cases d <;>
    simp only [get_set_other _ _ _ _ (append_singleton_ne q _ _ MISSING_ne_DATA),
      get_set_other _ _ _ _ (append_singleton_ne q _ _ VALUES_ne_MISSING).symm,
      get_set_other _ _ _ _ (append_singleton_ne_self q _), get_set_same, hf, Option.map_none, Option.map_some]

theorem get_storeProp_data (s : St) (q : Path) (v : NdArr) (m d : Option NdArr)
    (hf : get s (q ++ [DATA]) = none) :
    get (storeProp s q v m d) (q ++ [DATA]) = d.map .array := by
  unfold storeProp
  cases m <;> cases d <;>
    simp only [get_set_other _ _ _ _ (append_singleton_ne q _ _ MISSING_ne_DATA).symm,
      get_set_other _ _ _ _ (append_singleton_ne q _ _ VALUES_ne_DATA).symm,
      get_set_other _ _ _ _ (append_singleton_ne_self q _), get_set_same, hf, Option.map_none, Option.map_some]

theorem writeProp_spec (c : VlenCodec) (hc : c.Lawful) (pre : Path) (s : St) (name : String) (p : PropArr)
    (hw : Writable name p) (hfresh : ∀ suf, get s (pre ++ name :: suf) = none) :
    ∃ s', writeProp c pre s name p = .ok (s', metaOf name p) ∧
      (∀ q, (∀ suf, q ≠ pre ++ name :: suf) → get s' q = get s q) ∧
      PropAt c s' (pre ++ [name]) (upcast p) := by
  obtain ⟨v, d, he⟩ := encodeProp_ok c hc name p hw
  have hn := validName_ne name hw.1
  have hnone : get s (pre ++ [name]) = none := hfresh []
  refine ⟨storeProp s (pre ++ [name]) v (upcast p).missing d, ?_, ?_, ?_⟩
  · unfold writeProp
    rw [createPropsMetadata_ok name p hw]
    simp only [bind, Except.bind, he]
    rw [if_neg (by simp [hn.2.1, hn.2.2])]
    simp only [hw.1, Bool.not_true, Bool.false_eq_true, if_false, pure, Except.pure, hnone]
  · intro q hq
    apply get_storeProp_other
    · exact hq []
    · have := hq [VALUES]; simpa using this
    · have := hq [MISSING]; simpa using this
    · have := hq [DATA]; simpa using this
  · refine ⟨get_storeProp_self _ _ _ _ _, v, d, he, get_storeProp_values _ _ _ _ _, ?_, ?_⟩
    · apply get_storeProp_missing
      have := hfresh [MISSING]; simpa using this
    · apply get_storeProp_data
      have := hfresh [DATA]; simpa using this

/-- `write_props_arrays`' loop: every property with a fresh place is stored, nothing else changes,
and the metadata entries are the expected ones (for every list of properties with distinct names) -/
theorem writePropsLoop_spec (c : VlenCodec) (hc : c.Lawful) (pre : Path) :
    ∀ (ps : Props) (s : St),
      (ps.map (·.1)).Nodup →
      (∀ kp ∈ ps, Writable kp.1 kp.2) →
      (∀ kp ∈ ps, ∀ suf, get s (pre ++ kp.1 :: suf) = none) →
      ∃ s', writePropsLoop c pre s ps = .ok (s', ps.map (fun kp => metaOf kp.1 kp.2)) ∧
        (∀ q, (∀ kp ∈ ps, ∀ suf, q ≠ pre ++ kp.1 :: suf) → get s' q = get s q) ∧
        (∀ kp ∈ ps, PropAt c s' (pre ++ [kp.1]) (upcast kp.2)) := by
  intro ps
  induction ps with
  | nil =>
    intro s _ _ _
    exact ⟨s, rfl, fun _ _ => rfl, fun _ h => by cases h⟩
  | cons kp rest ih =>
    intro s hnd hw hfresh
    obtain ⟨name, p⟩ := kp
    simp only [List.map_cons, List.nodup_cons] at hnd
    obtain ⟨hnotin, hnd'⟩ := hnd
    obtain ⟨s1, h1, hframe1, hat1⟩ := writeProp_spec c hc pre s name p (hw _ (List.mem_cons_self ..))
      (hfresh _ (List.mem_cons_self ..))
    have hne : ∀ kp' ∈ rest, kp'.1 ≠ name := fun kp' hm hh => hnotin (hh ▸ List.mem_map.2 ⟨kp', hm, rfl⟩)
    have hfresh1 : ∀ kp' ∈ rest, ∀ suf, get s1 (pre ++ kp'.1 :: suf) = none := by
      intro kp' hm suf
      rw [hframe1 _ (fun suf' => path_ne_of_name_ne pre _ _ _ _ (hne kp' hm))]
      exact hfresh kp' (List.mem_cons_of_mem _ hm) suf
    obtain ⟨s2, h2, hframe2, hat2⟩ := ih s1 hnd' (fun kp' hm => hw kp' (List.mem_cons_of_mem _ hm)) hfresh1
    refine ⟨s2, ?_, ?_, ?_⟩
    · simp only [writePropsLoop, bind, Except.bind, h1, h2, List.map_cons]; rfl
    · intro q hq
      rw [hframe2 q (fun kp' hm => hq kp' (List.mem_cons_of_mem _ hm)),
        hframe1 q (hq _ (List.mem_cons_self ..))]
    · intro kp' hm
      rcases List.mem_cons.1 hm with rfl | hm'
      · apply hat1.frame
        intro suf
        apply hframe2
        intro kp' hm' suf'
        have : pre ++ [name] ++ suf = pre ++ name :: suf := by simp
        rw [this]
        exact path_ne_of_name_ne pre _ _ _ _ (hne kp' hm').symm
      · exact hat2 kp' hm'

/-- `write_props_arrays` (no unsquish) into a group that exists and has no `props` entry yet -/
theorem writePropsArrays_spec (c : VlenCodec) (hc : c.Lawful) (grp : String) (s : St) (ps : Props)
    (hroot : ∃ e, get s [] = some e) (hgrp : ∃ e, get s [grp] = some e)
    (hfresh : ∀ suf, get s (grp :: PROPS :: suf) = none)
    (hnd : (ps.map (·.1)).Nodup) (hw : ∀ kp ∈ ps, Writable kp.1 kp.2) :
    ∃ s', writePropsArrays c s grp ps none = .ok (s', ps.map (fun kp => metaOf kp.1 kp.2)) ∧
      get s' [grp, PROPS] = some (.group []) ∧
      (∀ q, ¬ [grp, PROPS] <+: q → get s' q = get s q) ∧
      (∀ k, (get s' [grp, PROPS, k]).isSome ↔ k ∈ ps.map (·.1)) ∧
      (∀ kp ∈ ps, PropAt c s' [grp, PROPS, kp.1] (upcast kp.2)) := by
  obtain ⟨e0, he0⟩ := hroot
  obtain ⟨e1, he1⟩ := hgrp
  have hnone : get s [grp, PROPS] = none := hfresh []
  have hens : ensureGroup (ensureGroup (ensureGroup s []) [grp]) [grp, PROPS] = set s [grp, PROPS] (.group []) := by
    rw [ensureGroup_of_some s [] e0 he0, ensureGroup_of_some s [grp] e1 he1, ensureGroup_of_none s _ hnone]
  let s1 := set s [grp, PROPS] (.group [])
  have hfresh1 : ∀ kp ∈ ps, ∀ suf, get s1 ([grp, PROPS] ++ kp.1 :: suf) = none := by
    intro kp _ suf
    show get (set s [grp, PROPS] (.group [])) _ = none
    rw [get_set_other _ _ _ _ (by simp)]
    exact hfresh _
  obtain ⟨s', hloop, hframe, hat⟩ := writePropsLoop_spec c hc [grp, PROPS] ps s1 hnd hw hfresh1
  have hpre : get s' [grp, PROPS] = some (.group []) := by
    rw [hframe _ (fun kp _ suf => by simp)]
    exact get_set_same _ _ _
  refine ⟨s', ?_, hpre, ?_, ?_, ?_⟩
  · unfold writePropsArrays
    simp only [bind, Except.bind, pure, Except.pure, hens]
    have : get (set s [grp, PROPS] (.group [])) [grp, PROPS] = some (.group []) := get_set_same _ _ _
    rw [this]
    exact hloop
  · intro q hq
    rw [hframe q (fun kp _ suf hh => hq (by rw [hh]; exact List.prefix_append _ _))]
    exact get_set_other _ _ _ _ (fun hh => hq (by rw [hh]; exact List.prefix_refl _))
  · intro k
    constructor
    · intro hk
      refine Classical.byContradiction fun hnot => ?_
      have hfr : get s' [grp, PROPS, k] = get s1 [grp, PROPS, k] := by
        apply hframe
        intro kp hm suf hh
        have : k = kp.1 ∧ suf = [] := by simpa using hh
        exact hnot (List.mem_map.2 ⟨kp, hm, this.1.symm⟩)
      rw [hfr] at hk
      have : get s1 [grp, PROPS, k] = none := by
        show get (set s [grp, PROPS] (.group [])) _ = none
        rw [get_set_other _ _ _ _ (by simp)]
        exact hfresh [k]
      rw [this] at hk
      cases hk
    · intro hk
      obtain ⟨kp, hm, rfl⟩ := List.mem_map.1 hk
      have := (hat kp hm).grp
      simp only [List.cons_append, List.nil_append] at this
      rw [this]; rfl
  · intro kp hm
    exact hat kp hm

/-! ### the whole write -/

theorem NODES_ne_EDGES : NODES ≠ EDGES := by decide
theorem IDS_ne_PROPS : IDS ≠ PROPS := by decide

/-- the target holds nothing of a geff yet: no `geff` attribute on the root (if there is a root at
all) and no entry under `nodes` or `edges`.  Anything else (foreign attributes, sibling groups and
arrays) may be there. -/
structure Fresh (s0 : St) : Prop where
  root : get s0 [] = none ∨ ∃ a, get s0 [] = some (.group a) ∧ ∀ kv ∈ a, kv.1 ≠ "geff"
  nodes : ∀ suf, get s0 (NODES :: suf) = none
  edges : ∀ suf, get s0 (EDGES :: suf) = none

/-- the metadata `write_arrays` stores: the caller's, with the entries of the written properties
added or updated -/
def attrOf (md : CallerMeta) (nps eps : Props) : GeffAttr :=
  ⟨md.directed, md.axes, addOrUpdate md.nodeProps (nps.map (fun kp => metaOf kp.1 kp.2)),
    addOrUpdate md.edgeProps (eps.map (fun kp => metaOf kp.1 kp.2))⟩

/-- what `writeCore` leaves behind (`nps`/`eps`: the node/edge properties it stored) -/
structure Written (c : VlenCodec) (s0 s' : St) (nid eid : NdArr) (nps eps : Props) (attr : GeffAttr) : Prop where
  root : ∃ a, get s' [] = some (.group a) ∧ lookupKey "geff" a = some (.geff attr)
  nodesGrp : get s' [NODES] = some (.group [])
  edgesGrp : get s' [EDGES] = some (.group [])
  nodeIds : get s' [NODES, IDS] = some (.array nid)
  edgeIds : get s' [EDGES, IDS] = some (.array eid)
  nodePropsGrp : get s' [NODES, PROPS] = some (.group [])
  edgePropsGrp : get s' [EDGES, PROPS] = some (.group [])
  nodeNames : ∀ k, (get s' [NODES, PROPS, k]).isSome ↔ k ∈ nps.map (·.1)
  edgeNames : ∀ k, (get s' [EDGES, PROPS, k]).isSome ↔ k ∈ eps.map (·.1)
  nodeProps : ∀ kp ∈ nps, PropAt c s' [NODES, PROPS, kp.1] (upcast kp.2)
  edgeProps : ∀ kp ∈ eps, PropAt c s' [EDGES, PROPS, kp.1] (upcast kp.2)
  /-- foreign siblings are untouched -/
  foreign : ∀ k suf, k ≠ NODES → k ≠ EDGES → get s' (k :: suf) = get s0 (k :: suf)

theorem writeCore_spec (c : VlenCodec) (hc : c.Lawful) (s0 : St) (g : InMem) (md : CallerMeta) (nps eps : Props)
    (hfresh : Fresh s0)
    (hdt : g.nodeIds.dtype = g.edgeIds.dtype) (hint : g.nodeIds.dtype.isInteger = true)
    (hlen : g.nodeIds.len?.isSome = true)
    (hnps : nodePropsToWrite g md = some nps) (heps : g.edgeProps = some eps)
    (hnd_n : (nps.map (·.1)).Nodup) (hw_n : ∀ kp ∈ nps, Writable kp.1 kp.2)
    (hnd_e : (eps.map (·.1)).Nodup) (hw_e : ∀ kp ∈ eps, Writable kp.1 kp.2)
    (hax : checkAxes md.axes (some nps) = .ok ()) :
    ∃ s', writeCore c s0 g md = .ok s' ∧ Written c s0 s' g.nodeIds g.edgeIds nps eps (attrOf md nps eps) := by
  -- the root group
  obtain ⟨a0, hroot1, hnogeff⟩ : ∃ a0, get (ensureGroup s0 []) [] = some (.group a0) ∧ ∀ kv ∈ a0, kv.1 ≠ "geff" := by
    rcases hfresh.root with h | ⟨a, h, ha⟩
    · exact ⟨[], by rw [get_ensureGroup_same, h]; rfl, fun _ h => by cases h⟩
    · exact ⟨a, by rw [get_ensureGroup_same, h]; rfl, ha⟩
  let s1 := ensureGroup s0 []
  have hs1 : ∀ q, q ≠ [] → get s1 q = get s0 q := fun q hq => get_ensureGroup_other _ _ _ hq
  have hgeff : hasGeff s1 = false := by
    show hasGeff (ensureGroup s0 []) = false
    unfold hasGeff
    rw [hroot1]
    simp only [List.any_eq_false, decide_eq_true_eq]
    exact hnogeff
  -- the id arrays
  let s2 := set (set (set (set s1 [NODES] (.group [])) [NODES, IDS] (.array g.nodeIds)) [EDGES] (.group []))
    [EDGES, IDS] (.array g.edgeIds)
  have hids : writeIdArrays s1 g.nodeIds g.edgeIds = .ok s2 := by
    unfold writeIdArrays
    rw [if_neg (by simpa using hdt), hint]
    simp only [Bool.not_true, Bool.false_eq_true, if_false, pure, Except.pure]
    rw [ensureGroup_of_some s1 [] _ hroot1]
    unfold setArray
    have h1 : get s1 [NODES] = none := by rw [hs1 _ (by simp)]; exact hfresh.nodes []
    rw [ensureGroup_of_none _ _ h1]
    have h2 : get (set (set s1 [NODES] (.group [])) ([NODES] ++ [IDS]) (.array g.nodeIds)) [EDGES] = none := by
      rw [get_set_other _ _ _ _ (by decide), get_set_other _ _ _ _ (by decide), hs1 _ (by simp)]
      exact hfresh.edges []
    rw [ensureGroup_of_none _ _ h2]
    rfl
  have hget2 : ∀ q, get s2 q = if q = [EDGES, IDS] then some (.array g.edgeIds) else if q = [EDGES] then some (.group [])
      else if q = [NODES, IDS] then some (.array g.nodeIds) else if q = [NODES] then some (.group []) else get s1 q := by
    intro q
    show get (set (set (set (set s1 [NODES] (.group [])) [NODES, IDS] (.array g.nodeIds)) [EDGES] (.group []))
      [EDGES, IDS] (.array g.edgeIds)) q = _
    simp only [get_set]
  have hR2 : get s2 [] = some (.group a0) := by
    rw [hget2]
    simp only [(by decide : ([] : Path) ≠ [EDGES, IDS]), (by decide : ([] : Path) ≠ [EDGES]),
      (by decide : ([] : Path) ≠ [NODES, IDS]), (by decide : ([] : Path) ≠ [NODES]), if_false]
    exact hroot1
  have hN2 : get s2 [NODES] = some (.group []) := by
    rw [hget2]
    simp only [(by decide : [NODES] ≠ [EDGES, IDS]), (by decide : [NODES] ≠ [EDGES]),
      (by decide : [NODES] ≠ [NODES, IDS]), if_false, if_true]
  have hE2 : get s2 [EDGES] = some (.group []) := by
    rw [hget2]
    simp only [(by decide : [EDGES] ≠ [EDGES, IDS]), if_false, if_true]
  -- node properties
  obtain ⟨s3, hw3, hgrp3, hframe3, hnames3, hat3⟩ := writePropsArrays_spec c hc NODES s2 nps ⟨_, hR2⟩ ⟨_, hN2⟩
    (by
      intro suf
      rw [hget2]
      rw [if_neg (by simp [NODES_ne_EDGES]), if_neg (by simp [NODES_ne_EDGES]), if_neg (by simp [IDS_ne_PROPS.symm]),
        if_neg (by simp), hs1 _ (by simp)]
      exact hfresh.nodes _)
    hnd_n hw_n
  -- edge properties
  obtain ⟨s4, hw4, hgrp4, hframe4, hnames4, hat4⟩ := writePropsArrays_spec c hc EDGES s3 eps
    ⟨_, by rw [hframe3 _ (by decide), hR2]⟩ ⟨_, by rw [hframe3 _ (by decide), hE2]⟩
    (by
      intro suf
      rw [hframe3 _ (by simp [NODES_ne_EDGES]), hget2]
      rw [if_neg (by simp [IDS_ne_PROPS.symm]), if_neg (by simp), if_neg (by simp [NODES_ne_EDGES.symm]),
        if_neg (by simp [NODES_ne_EDGES.symm]), hs1 _ (by simp)]
      exact hfresh.edges _)
    hnd_e hw_e
  have hroot4 : get s4 [] = some (.group a0) := by
    rw [hframe4 _ (by decide), hframe3 _ (by decide), hR2]
  let attr := attrOf md nps eps
  let s5 := set s4 [] (.group (setAttr a0 "geff" (.geff attr)))
  have hs5 : ∀ q, q ≠ [] → get s5 q = get s4 q := fun q hq => get_set_other _ _ _ _ hq
  refine ⟨s5, ?_, ?_⟩
  · have htail : writeTail c s2 g md {} = .ok s5 := by
      unfold writeTail
      simp only [hnps, heps, writePropsOpt, hw3, hw4, propsAfterUnsquish, hax, bind, Except.bind, pure, Except.pure,
        writeMeta, hroot4]
      rfl
    have hids' : writeIdArrays (ensureGroup s0 []) g.nodeIds g.edgeIds = .ok s2 := hids
    have hgeff' : hasGeff (ensureGroup s0 []) = false := hgeff
    have hnone : g.nodeIds.len?.isNone = false := by
      cases h : g.nodeIds.len? with
      | none => rw [h] at hlen; cases hlen
      | some n => rfl
    unfold writeCore
    simp only [bind, Except.bind, hgeff', Bool.false_eq_true, if_false, hids', hnone]
    exact htail
  · have hn5 : ∀ suf, get s5 (NODES :: suf) = get s3 (NODES :: suf) := by
      intro suf
      rw [hs5 _ (by simp), hframe4 _ (by simp [NODES_ne_EDGES.symm])]
    have he5 : ∀ suf, get s5 (EDGES :: suf) = get s4 (EDGES :: suf) := fun suf => hs5 _ (by simp)
    refine ⟨⟨_, get_set_same _ _ _, lookup_setAttr_same _ _ _⟩, ?_, ?_, ?_, ?_, ?_, ?_, ?_, ?_, ?_, ?_, ?_⟩
    · rw [hn5, hframe3 _ (by decide), hN2]
    · rw [he5, hframe4 _ (by decide), hframe3 _ (by decide), hE2]
    · rw [hn5, hframe3 _ (by decide), hget2]
      simp only [(by decide : [NODES, IDS] ≠ [EDGES, IDS]), (by decide : [NODES, IDS] ≠ [EDGES]), if_false, if_true]
    · rw [he5, hframe4 _ (by decide), hframe3 _ (by decide), hget2]
      simp only [if_true]
    · rw [hn5, hgrp3]
    · rw [he5, hgrp4]
    · intro k; rw [hn5, hnames3]
    · intro k; rw [he5, hnames4]
    · intro kp hm
      exact (hat3 kp hm).frame (fun suf => hn5 _)
    · intro kp hm
      exact (hat4 kp hm).frame (fun suf => he5 _)
    · intro k suf hkn hke
      rw [hs5 _ (by simp), hframe4 _ (fun h => hke (List.cons_prefix_cons.1 h).1.symm),
        hframe3 _ (fun h => hkn (List.cons_prefix_cons.1 h).1.symm), hget2]
      rw [if_neg (by simp [hke]), if_neg (by simp [hke]), if_neg (by simp [hkn]), if_neg (by simp [hkn]),
        hs1 _ (by simp)]

/-! ### reading back -/

theorem lookupKey_mem {β} (k : String) (l : List (String × β)) (v : β) (h : lookupKey k l = some v) : (k, v) ∈ l := by
  unfold lookupKey at h
  cases hf : l.find? (fun kv => kv.1 = k) with
  | none => simp [hf] at h
  | some kv =>
    rw [hf] at h
    have hk := List.find?_some hf
    have hm := List.mem_of_find?_eq_some hf
    simp only [decide_eq_true_eq] at hk
    simp only [Option.map_some, Option.some.injEq] at h
    rw [← hk, ← h]
    exact hm

theorem lookupKey_isSome_iff {β} (k : String) (l : List (String × β)) :
    (lookupKey k l).isSome ↔ k ∈ l.map (·.1) := by
  unfold lookupKey
  rw [Option.isSome_map, List.find?_isSome]
  simp only [decide_eq_true_eq, List.mem_map]

theorem lookupKey_map_self {β} (l : List String) (F : String → β) (k : String) :
    lookupKey k (l.map (fun x => (x, F x))) = if k ∈ l then some (F k) else none := by
  induction l with
  | nil => rfl
  | cons a t ih =>
    unfold lookupKey at ih ⊢
    simp only [List.map_cons, List.find?_cons]
    by_cases h : a = k
    · subst h; simp
    · have h' : ¬ k = a := fun hh => h hh.symm
      simp only [h, decide_false, List.mem_cons, h', false_or]
      exact ih

theorem mapM_ok {α β} (f : α → Outcome β) (g : α → β) (l : List α) (h : ∀ x ∈ l, f x = .ok (g x)) :
    l.mapM f = .ok (l.map g) := by
  induction l with
  | nil => rfl
  | cons a t ih =>
    rw [List.mapM_cons, h a (List.mem_cons_self ..), ih (fun x hx => h x (List.mem_cons_of_mem _ hx))]
    rfl

theorem castTo_self (a : NdArr) : castTo a.dtype a = .ok a := by
  unfold castTo; rw [if_pos rfl]; rfl

/-- the entries of the written properties, as found in the stored metadata: whatever the caller's
metadata said, dtype and varlength are the ones of the written arrays -/
theorem lookup_addOrUpdate (ex : List (String × PropMeta)) (new : List PropMeta)
    (hnd : (new.map (·.identifier)).Nodup) (pm : PropMeta) (hm : pm ∈ new) :
    ∃ pm', lookupKey pm.identifier (addOrUpdate ex new) = some pm' ∧ pm'.dtype = pm.dtype ∧
      pm'.varlength = pm.varlength := by
  have hfind : new.find? (fun x => x.identifier = pm.identifier) = some pm := by
    clear ex
    induction new with
    | nil => cases hm
    | cons a t ih =>
      simp only [List.map_cons, List.nodup_cons] at hnd
      rw [List.find?_cons]
      rcases List.mem_cons.1 hm with rfl | hm'
      · simp
      · have : a.identifier ≠ pm.identifier := fun hh => hnd.1 (hh ▸ List.mem_map.2 ⟨pm, hm', rfl⟩)
        simp only [this, decide_false]
        exact ih hnd.2 hm'
  have hfst : ∀ kv, (updEntry new kv).1 = kv.1 := by
    intro kv; unfold updEntry; split <;> rfl
  have hmapfind : ∀ (l : List (String × PropMeta)), (l.map (updEntry new)).find? (fun kv => kv.1 = pm.identifier) =
      (l.find? (fun kv => kv.1 = pm.identifier)).map (updEntry new) := by
    intro l
    induction l with
    | nil => rfl
    | cons a t ih =>
      simp only [List.map_cons, List.find?_cons, hfst]
      by_cases h : a.1 = pm.identifier
      · simp [h]
      · simp only [h, decide_false]; exact ih
  have hident : ∀ (l : List PropMeta), lookupKey pm.identifier (l.map (fun x => (x.identifier, x))) =
      l.find? (fun x => x.identifier = pm.identifier) := by
    intro l
    unfold lookupKey
    induction l with
    | nil => rfl
    | cons a t ih =>
      simp only [List.map_cons, List.find?_cons]
      by_cases h : a.identifier = pm.identifier
      · simp [h]
      · simp only [h, decide_false]; exact ih
  have happ : ∀ (l1 l2 : List (String × PropMeta)), lookupKey pm.identifier (l1 ++ l2) =
      (lookupKey pm.identifier l1).or (lookupKey pm.identifier l2) := by
    intro l1 l2
    unfold lookupKey
    rw [List.find?_append]
    cases l1.find? (fun kv => kv.1 = pm.identifier) <;> rfl
  unfold addOrUpdate
  rw [happ]
  cases hex : lookupKey pm.identifier ex with
  | some v =>
    obtain ⟨kv, hkv⟩ : ∃ kv, ex.find? (fun kv => kv.1 = pm.identifier) = some kv := by
      unfold lookupKey at hex
      cases h : ex.find? (fun kv => kv.1 = pm.identifier) with
      | none => rw [h] at hex; cases hex
      | some kv => exact ⟨kv, rfl⟩
    have hk : kv.1 = pm.identifier := by simpa using List.find?_some hkv
    have : lookupKey pm.identifier (ex.map (updEntry new)) = some (updEntry new kv).2 := by
      unfold lookupKey; rw [hmapfind, hkv]; rfl
    rw [this]
    refine ⟨(updEntry new kv).2, rfl, ?_, ?_⟩ <;>
    · unfold updEntry
      rw [hk, hfind]
  | none =>
    have : lookupKey pm.identifier (ex.map (updEntry new)) = none := by
      unfold lookupKey at hex ⊢
      rw [hmapfind]
      cases h : ex.find? (fun kv => kv.1 = pm.identifier) with
      | none => rfl
      | some kv => rw [h] at hex; cases hex
    rw [this, Option.none_or, hident, List.find?_filter]
    have hfilt : new.find? (fun a => (lookupKey a.identifier ex).isNone && decide (a.identifier = pm.identifier)) = some pm := by
      clear hfind hmapfind hident happ this
      induction new with
      | nil => cases hm
      | cons a t ih =>
        simp only [List.map_cons, List.nodup_cons] at hnd
        rw [List.find?_cons]
        rcases List.mem_cons.1 hm with rfl | hm'
        · simp [hex]
        · have : a.identifier ≠ pm.identifier := fun hh => hnd.1 (hh ▸ List.mem_map.2 ⟨pm, hm', rfl⟩)
          simp only [this, decide_false, Bool.and_false]
          exact ih hnd.2 hm' (fun kv => by unfold updEntry; split <;> rfl)
    refine ⟨pm, ?_, rfl, rfl⟩
    rw [← hfilt]
    congr 1
    funext a
    cases lookupKey a.identifier ex <;> simp

theorem readProp_of_propAt (c : VlenCodec) (s : St) (pre : Path) (k : String) (p : PropArr)
    (h : PropAt c s (pre ++ [k]) p) :
    ∃ v d, encodeProp c p = .ok (v, d) ∧ readProp s pre k = .ok ⟨v, p.missing, d⟩ := by
  obtain ⟨hg, v, d, he, hv, hm, hd⟩ := h
  refine ⟨v, d, he, ?_⟩
  have eV : pre ++ [k, VALUES] = pre ++ [k] ++ [VALUES] := by simp
  have eM : pre ++ [k, MISSING] = pre ++ [k] ++ [MISSING] := by simp
  have eD : pre ++ [k, DATA] = pre ++ [k] ++ [DATA] := by simp
  unfold readProp expectGroup expectArray optArray
  rw [hg, eV, hv, eM, hm, eD, hd]
  cases p.missing <;> cases d <;> rfl

theorem castOpt_ok (d : Dtype) (o : Option NdArr) (h : ∀ m, o = some m → castTo d m = .ok m) : castOpt d o = .ok o := by
  unfold castOpt
  cases o with
  | none => rfl
  | some m => simp only [h m rfl, bind, Except.bind, pure, Except.pure]

theorem loadPropToMemory_written (c : VlenCodec) (hc : c.Lawful) (name : String) (p : PropArr)
    (hw : Writable name p) (v : NdArr) (d : Option NdArr) (he : encodeProp c (upcast p) = .ok (v, d))
    (pm : PropMeta) (hdt : pm.dtype = (dtypeOfProp p).name) (hvl : pm.varlength = some (isVarlen p)) :
    loadPropToMemory c ⟨v, (upcast p).missing, d⟩ pm = .ok (upcast p) := by
  obtain ⟨_, hmiss, hv⟩ := hw
  have hmopt : castOpt .bool (upcast p).missing = .ok (upcast p).missing := by
    apply castOpt_ok
    intro m hm
    rw [upcast_missing] at hm
    have := hmiss m hm
    rw [← this]; exact castTo_self m
  unfold loadPropToMemory
  rw [hdt, Dtype.ofName_name, hvl]
  simp only [Option.getD_some, bind, Except.bind, pure, Except.pure, hmopt]
  cases hval : p.values with
  | dense a =>
    have hnv : isVarlen p = false := by unfold isVarlen; rw [hval]
    have hup : ∃ a', (upcast p).values = .dense a' := by
      rw [upcast_dense p a hval]; split
      · exact ⟨_, rfl⟩
      · exact ⟨a, hval⟩
    obtain ⟨a', ha'⟩ := hup
    have hdt' : dtypeOfProp p = a'.dtype := by unfold dtypeOfProp; rw [ha']
    have hvd : v = a' ∧ d = none := by
      unfold encodeProp at he; rw [ha'] at he
      simp only [pure, Except.pure, Except.ok.injEq, Prod.mk.injEq] at he
      exact ⟨he.1.symm, he.2.symm⟩
    rw [hnv, hdt', hvd.1, hvd.2]
    simp only [Bool.false_eq_true, if_false, castTo_self, castOpt, pure, Except.pure]
    cases hu : upcast p with
    | mk vals miss => rw [hu] at ha'; simp only at ha'; rw [ha']
  | obj es =>
    rw [hval] at hv
    obtain ⟨hwf, hh, _⟩ := hv
    have hvl' : isVarlen p = true := by unfold isVarlen; rw [hval]
    have hup := upcast_obj p es hval
    have hdt' : dtypeOfProp p = elemDtype es := by unfold dtypeOfProp; rw [hup, hval]
    obtain ⟨v', d', henc, hdec, hvdt, hddt⟩ := hc.roundtrip es hwf hh
    have hvd : v = v' ∧ d = some d' := by
      unfold encodeProp at he; rw [hup, hval] at he
      simp only [henc, bind, Except.bind, pure, Except.pure, Except.ok.injEq, Prod.mk.injEq] at he
      exact ⟨he.1.symm, he.2.symm⟩
    rw [hvl', hdt', hvd.1, hvd.2, hup]
    have c1 : castTo .u64 v' = .ok v' := by rw [← hvdt]; exact castTo_self v'
    have c2 : castOpt (elemDtype es) (some d') = .ok (some d') := by
      apply castOpt_ok; intro m hm; cases hm; rw [← hddt]; exact castTo_self d'
    simp only [if_true, c1, c2, hdec]
    cases hu : p with
    | mk vals miss => rw [hu] at hval; simp only at hval; rw [hval]

/-- reading one of the groups `nodes` / `edges` of a written store gives back the stored properties -/
theorem readGroup_written (c : VlenCodec) (hc : c.Lawful) (s : St) (grp : String) (ps : Props)
    (mds : List (String × PropMeta))
    (hgrp : get s [grp] = some (.group []))
    (hpg : get s [grp, PROPS] = some (.group []))
    (hnames : ∀ k, (get s [grp, PROPS, k]).isSome ↔ k ∈ ps.map (·.1))
    (hat : ∀ kp ∈ ps, PropAt c s [grp, PROPS, kp.1] (upcast kp.2))
    (hw : ∀ kp ∈ ps, Writable kp.1 kp.2)
    (hmd : ∀ kp ∈ ps, ∃ pm, lookupKey kp.1 mds = some pm ∧ pm.dtype = (dtypeOfProp kp.2).name ∧
      pm.varlength = some (isVarlen kp.2)) :
    ∃ names zs res, propNames s grp = .ok names ∧ readProps s [grp, PROPS] names = .ok zs ∧
      loadProps c mds zs = .ok res ∧ ∀ k, lookupKey k res = (lookupKey k ps).map upcast := by
  let names := groupKeys s [grp, PROPS]
  have hmem : ∀ k, k ∈ names ↔ k ∈ ps.map (·.1) := by
    intro k
    show k ∈ groupKeys s [grp, PROPS] ↔ _
    rw [mem_groupKeys]
    constructor
    · intro hg
      apply (hnames k).1
      unfold isGroup at hg
      have : [grp, PROPS] ++ [k] = [grp, PROPS, k] := rfl
      rw [this] at hg
      cases hgk : get s [grp, PROPS, k] with
      | none => rw [hgk] at hg; cases hg
      | some e => rfl
    · intro hk
      obtain ⟨kp, hm, rfl⟩ := List.mem_map.1 hk
      have := (hat kp hm).grp
      unfold isGroup
      have e : [grp, PROPS] ++ [kp.1] = [grp, PROPS, kp.1] := rfl
      rw [e, this]
  -- for a listed name: the property, what is read, what is loaded
  have hkey : ∀ k ∈ names, ∃ p, lookupKey k ps = some p ∧ (k, p) ∈ ps := by
    intro k hk
    have := (lookupKey_isSome_iff k ps).2 ((hmem k).1 hk)
    cases hl : lookupKey k ps with
    | none => rw [hl] at this; cases this
    | some p => exact ⟨p, rfl, lookupKey_mem k ps p hl⟩
  let Z : String → ZarrProp := fun k => match readProp s [grp, PROPS] k with
    | .ok z => z
    | .error _ => default
  let P : String → PropArr := fun k => ((lookupKey k ps).map upcast).getD default
  have hread : ∀ k ∈ names, ∃ p v d, (k, p) ∈ ps ∧ lookupKey k ps = some p ∧ encodeProp c (upcast p) = .ok (v, d) ∧
      readProp s [grp, PROPS] k = .ok ⟨v, (upcast p).missing, d⟩ := by
    intro k hk
    obtain ⟨p, hl, hm⟩ := hkey k hk
    obtain ⟨v, d, he, hr⟩ := readProp_of_propAt c s [grp, PROPS] k (upcast p) (hat (k, p) hm)
    exact ⟨p, v, d, hm, hl, he, hr⟩
  refine ⟨names, names.map (fun k => (k, Z k)), names.map (fun k => (k, P k)), ?_, ?_, ?_, ?_⟩
  · unfold propNames expectGroup
    rw [hgrp, hpg]; rfl
  · unfold readProps
    apply mapM_ok
    intro k hk
    obtain ⟨p, v, d, _, _, _, hr⟩ := hread k hk
    show (do let z ← readProp s [grp, PROPS] k; pure (k, z)) = _
    have hZ : Z k = ⟨v, (upcast p).missing, d⟩ := by show (match readProp s [grp, PROPS] k with | .ok z => z | .error _ => default) = _; rw [hr]
    rw [hr, hZ]; rfl
  · unfold loadProps
    have : (names.map (fun k => (k, P k))) = (names.map (fun k => (k, Z k))).map (fun kz => (kz.1, P kz.1)) := by
      rw [List.map_map]; rfl
    rw [this]
    apply mapM_ok
    intro kz hkz
    obtain ⟨k, hk, rfl⟩ := List.mem_map.1 hkz
    obtain ⟨p, v, d, hm, hl, he, hr⟩ := hread k hk
    obtain ⟨pm, hpm, hdt, hvl⟩ := hmd (k, p) hm
    have hZ : Z k = ⟨v, (upcast p).missing, d⟩ := by show (match readProp s [grp, PROPS] k with | .ok z => z | .error _ => default) = _; rw [hr]
    have hP : P k = upcast p := by show ((lookupKey k ps).map upcast).getD default = _; rw [hl]; rfl
    simp only [hpm, hZ, bind, Except.bind, pure, Except.pure,
      loadPropToMemory_written c hc k p (hw (k, p) hm) v d he pm hdt hvl, hP]
  · intro k
    rw [lookupKey_map_self]
    by_cases hk : k ∈ names
    · obtain ⟨p, hl, _⟩ := hkey k hk
      rw [if_pos hk, hl]
      show some (((lookupKey k ps).map upcast).getD default) = _
      rw [hl]; rfl
    · rw [if_neg hk]
      have : ¬ (lookupKey k ps).isSome := fun h => hk ((hmem k).2 ((lookupKey_isSome_iff k ps).1 h))
      cases hl : lookupKey k ps with
      | none => rfl
      | some p => rw [hl] at this; exact absurd rfl this

theorem stored_meta (ex : List (String × PropMeta)) (ps : Props) (hnd : (ps.map (·.1)).Nodup) :
    ∀ kp ∈ ps, ∃ pm, lookupKey kp.1 (addOrUpdate ex (ps.map (fun kp => metaOf kp.1 kp.2))) = some pm ∧
      pm.dtype = (dtypeOfProp kp.2).name ∧ pm.varlength = some (isVarlen kp.2) := by
  intro kp hm
  have hids : ((ps.map (fun kp => metaOf kp.1 kp.2)).map (·.identifier)) = ps.map (·.1) := by
    rw [List.map_map]; rfl
  have := lookup_addOrUpdate ex (ps.map (fun kp => metaOf kp.1 kp.2)) (by rw [hids]; exact hnd)
    (metaOf kp.1 kp.2) (List.mem_map.2 ⟨kp, hm, rfl⟩)
  exact this

/-- the reader on what the writer left: ids, metadata and every property come back -/
theorem readCore_written (c : VlenCodec) (hc : c.Lawful) (s0 s' : St) (nid eid : NdArr) (nps eps : Props)
    (md : CallerMeta) (hW : Written c s0 s' nid eid nps eps (attrOf md nps eps))
    (hnd_n : (nps.map (·.1)).Nodup) (hw_n : ∀ kp ∈ nps, Writable kp.1 kp.2)
    (hnd_e : (eps.map (·.1)).Nodup) (hw_e : ∀ kp ∈ eps, Writable kp.1 kp.2) :
    ∃ r, readCore c s' = .ok r ∧ r.nodeIds = nid ∧ r.edgeIds = eid ∧ r.md = attrOf md nps eps ∧
      (∀ k, lookupKey k r.nodeProps = (lookupKey k nps).map upcast) ∧
      (∀ k, lookupKey k r.edgeProps = (lookupKey k eps).map upcast) := by
  obtain ⟨a, hroot, hgeff⟩ := hW.root
  obtain ⟨nn, nz, nres, hn1, hn2, hn3, hn4⟩ := readGroup_written c hc s' NODES nps (attrOf md nps eps).nodeProps
    hW.nodesGrp hW.nodePropsGrp hW.nodeNames hW.nodeProps hw_n (stored_meta md.nodeProps nps hnd_n)
  obtain ⟨en, ez, eres, he1, he2, he3, he4⟩ := readGroup_written c hc s' EDGES eps (attrOf md nps eps).edgeProps
    hW.edgesGrp hW.edgePropsGrp hW.edgeNames hW.edgeProps hw_e (stored_meta md.edgeProps eps hnd_e)
  refine ⟨⟨nid, eid, nres, eres, attrOf md nps eps⟩, ?_, rfl, rfl, rfl, hn4, he4⟩
  unfold readCore
  have hm : readMeta s' = .ok (attrOf md nps eps) := by
    unfold readMeta; rw [hroot]; simp only [hgeff]; rfl
  have hg : expectGroup s' [] = .ok () := by unfold expectGroup; rw [hroot]; rfl
  have h1 : expectArray s' [NODES, IDS] = .ok nid := by unfold expectArray; rw [hW.nodeIds]; rfl
  have h2 : expectArray s' [EDGES, IDS] = .ok eid := by unfold expectArray; rw [hW.edgeIds]; rfl
  simp only [hg, hm, h1, h2, hn1, he1, hn2, he2, hn3, he3, bind, Except.bind, pure, Except.pure]

/-! ### the codec of C11 is lawful -/

theorem vlenCodec_lawful : vlenCodec.Lawful := by
  constructor
  intro es hwf hh
  have henc := Geff.Vlen.serializeVlen_eq es hh
  have hdec := Geff.Vlen.deserialize_serialize es hwf henc
  refine ⟨(Geff.Vlen.encode es).valuesArr, (Geff.Vlen.encode es).dataArr, ?_, ?_, ?_, rfl⟩
  · show ofVlen (Geff.Vlen.serializeVlen es) = _
    rw [henc]; rfl
  · show ofVlen (Geff.Vlen.deserializeVlen _ _) = _
    rw [hdec]; rfl
  · unfold Geff.Vlen.Encoded.valuesArr
    split <;> rfl

/-! ### empty axis properties and the axis check -/

def emptyF64 : PropArr := ⟨.dense { dtype := .f64, shape := [0], flat := [] }, none⟩

def axStep (acc : Props) (ax : String) : Props :=
  if acc.any (fun kv => kv.1 = ax) then acc else acc ++ [(ax, emptyF64)]

theorem addEmptyAxes_some (names : List String) (ps : Props) :
    addEmptyAxes (some names) ps = names.foldl axStep ps := rfl

theorem any_name_iff (acc : Props) (ax : String) : acc.any (fun kv => kv.1 = ax) = true ↔ ax ∈ acc.map (·.1) := by
  simp only [List.any_eq_true, decide_eq_true_eq, List.mem_map]

theorem foldl_axStep_spec (names : List String) : ∀ (ps : Props),
    (ps.map (·.1)).Nodup →
    ((names.foldl axStep ps).map (·.1)).Nodup ∧
    (∀ kp ∈ names.foldl axStep ps, kp ∈ ps ∨ (kp.1 ∈ names ∧ kp.2 = emptyF64)) ∧
    (∀ kp ∈ ps, kp ∈ names.foldl axStep ps) ∧
    (∀ ax ∈ names, ax ∈ (names.foldl axStep ps).map (·.1)) := by
  induction names with
  | nil => intro ps h; exact ⟨h, fun kp hm => Or.inl hm, fun kp hm => hm, fun _ h => by cases h⟩
  | cons a t ih =>
    intro ps hnd
    have hstep_nd : ((axStep ps a).map (·.1)).Nodup := by
      unfold axStep
      by_cases h : ps.any (fun kv => kv.1 = a) = true
      · rw [if_pos h]; exact hnd
      · rw [if_neg h]
        have hnot : a ∉ ps.map (·.1) := fun hh => h ((any_name_iff ps a).2 hh)
        rw [List.map_append, List.nodup_append]
        refine ⟨hnd, by simp, ?_⟩
        intro x hx y hy
        simp only [List.map_cons, List.map_nil, List.mem_singleton] at hy
        subst hy
        exact fun hxy => hnot (hxy ▸ hx)
    have hstep_mem : ∀ kp ∈ axStep ps a, kp ∈ ps ∨ (kp.1 = a ∧ kp.2 = emptyF64) := by
      intro kp hm
      unfold axStep at hm
      split at hm
      · exact Or.inl hm
      · rcases List.mem_append.1 hm with h | h
        · exact Or.inl h
        · simp only [List.mem_singleton] at h; subst h; exact Or.inr ⟨rfl, rfl⟩
    have hstep_sub : ∀ kp ∈ ps, kp ∈ axStep ps a := by
      intro kp hm; unfold axStep; split
      · exact hm
      · exact List.mem_append_left _ hm
    have hstep_a : a ∈ (axStep ps a).map (·.1) := by
      unfold axStep
      by_cases h : ps.any (fun kv => kv.1 = a) = true
      · rw [if_pos h]; exact (any_name_iff ps a).1 h
      · rw [if_neg h]; simp
    obtain ⟨h1, h2, h3, h4⟩ := ih (axStep ps a) hstep_nd
    refine ⟨h1, ?_, ?_, ?_⟩
    · intro kp hm
      rcases h2 kp hm with h | ⟨h, h'⟩
      · rcases hstep_mem kp h with h | ⟨h, h'⟩
        · exact Or.inl h
        · exact Or.inr ⟨by rw [h]; exact List.mem_cons_self .., h'⟩
      · exact Or.inr ⟨List.mem_cons_of_mem _ h, h'⟩
    · intro kp hm; exact h3 kp (hstep_sub kp hm)
    · intro ax hax
      rcases List.mem_cons.1 hax with rfl | h
      · obtain ⟨kp, hm, hk⟩ := List.mem_map.1 hstep_a
        exact List.mem_map.2 ⟨kp, h3 kp hm, hk⟩
      · exact h4 ax h

theorem forM_ok {α} (f : α → Outcome Unit) (l : List α) (h : ∀ x ∈ l, f x = .ok ()) : l.forM f = .ok () := by
  induction l with
  | nil => rfl
  | cons a t ih =>
    have : (a :: t).forM f = (do f a; t.forM f) := by simp [List.forM]
    rw [this, h a (List.mem_cons_self ..)]
    exact ih (fun x hx => h x (List.mem_cons_of_mem _ hx))

/-! ### well-formed graphs (what C01 quantifies over) -/

/-- the rows of a property line up with `n` graph elements -/
def RowsOK (n : Nat) (p : PropArr) : Prop :=
  (∀ m, p.missing = some m → m.shape = [n] ∧ m.WF ∧ ∀ v ∈ m.flat, ∃ x, v = .b x) ∧
  match p.values with
  | .dense a => a.shape.head? = some n ∧ a.WF
  | .obj es => es.length = n

/-- a well-formed in-memory graph with `n` nodes, `e` edges, node properties `nps`, edge properties `eps` -/
structure WFGeff (g : InMem) (n e : Nat) (nps eps : Props) : Prop where
  nodeShape : g.nodeIds.shape = [n]
  edgeShape : g.edgeIds.shape = [e, 2]
  idInt : g.nodeIds.dtype.isInteger = true
  idSame : g.edgeIds.dtype = g.nodeIds.dtype
  nodeIdsWF : g.nodeIds.WF
  edgeIdsWF : g.edgeIds.WF
  nodeProps : g.nodeProps = some nps
  edgeProps : g.edgeProps = some eps
  nodeNames : (nps.map (·.1)).Nodup
  edgeNames : (eps.map (·.1)).Nodup
  nodeOK : ∀ kp ∈ nps, Writable kp.1 kp.2 ∧ RowsOK n kp.2
  edgeOK : ∀ kp ∈ eps, Writable kp.1 kp.2 ∧ RowsOK e kp.2

/-- the caller's axes are consistent with the graph (docs/specification.md: an axis names a 1-D node
property without missing values); on an empty graph an axis may have no property yet -/
def AxesOK (md : CallerMeta) (n : Nat) (nps : Props) : Prop :=
  ∀ axes, md.axes = some axes → ∀ ax ∈ axes, validName ax = true ∧
    (n = 0 ∨ ∃ a, lookupKey ax nps = some ⟨.dense a, none⟩ ∧ a.shape = [n] ∧ a.WF ∧ a.dtype ≠ .str)

/-- the node properties the reader must return: the ones given, plus — documented in `write_arrays` —
an empty float64 property for every axis without one when the graph is empty -/
def expectedNodeProps (md : CallerMeta) (n : Nat) (nps : Props) : Props :=
  if n = 0 then addEmptyAxes md.axes nps else nps

theorem nodePropsToWrite_eq (g : InMem) (md : CallerMeta) (n : Nat) (nps : Props)
    (hs : g.nodeIds.shape = [n]) (hp : g.nodeProps = some nps) :
    nodePropsToWrite g md = some (expectedNodeProps md n nps) := by
  unfold nodePropsToWrite expectedNodeProps NdArr.len?
  rw [hs, hp]
  cases n with
  | zero => rfl
  | succ k => simp

theorem writable_emptyF64 (ax : String) (h : validName ax = true) : Writable ax emptyF64 :=
  ⟨h, (fun m hm => (by cases hm)), (by show Dtype.f64 ∈ denseDtypes; decide)⟩

theorem expected_spec (md : CallerMeta) (n : Nat) (nps : Props) (hnd : (nps.map (·.1)).Nodup)
    (hok : ∀ kp ∈ nps, Writable kp.1 kp.2 ∧ RowsOK n kp.2) (hax : AxesOK md n nps) :
    ((expectedNodeProps md n nps).map (·.1)).Nodup ∧
    (∀ kp ∈ expectedNodeProps md n nps, Writable kp.1 kp.2) ∧
    checkAxes md.axes (some (expectedNodeProps md n nps)) = .ok () := by
  unfold expectedNodeProps
  cases haxes : md.axes with
  | none =>
    have : addEmptyAxes none nps = nps := rfl
    rw [this]
    simp only [ite_self]
    exact ⟨hnd, fun kp hm => (hok kp hm).1, rfl⟩
  | some names =>
    have hA := hax names haxes
    by_cases hn : n = 0
    · rw [if_pos hn, addEmptyAxes_some]
      obtain ⟨h1, h2, _, h4⟩ := foldl_axStep_spec names nps hnd
      refine ⟨h1, ?_, ?_⟩
      · intro kp hm
        rcases h2 kp hm with h | ⟨h, h'⟩
        · exact (hok kp h).1
        · rw [h']; exact writable_emptyF64 kp.1 (hA kp.1 h).1
      · unfold checkAxes
        simp only []
        apply forM_ok
        intro ax hmem
        have hs := (lookupKey_isSome_iff ax (names.foldl axStep nps)).2 (h4 ax hmem)
        cases hl : lookupKey ax (names.foldl axStep nps) with
        | none => rw [hl] at hs; cases hs
        | some p =>
          simp only []
          rcases h2 (ax, p) (lookupKey_mem _ _ _ hl) with h | ⟨_, h'⟩
          · have hr := (hok (ax, p) h).2.2
            simp only at hr
            unfold axisMinMaxOutcome
            cases hv : p.values with
            | dense a =>
              rw [hv] at hr
              simp only []
              have : a.len? = some 0 := by unfold NdArr.len?; rw [hr.1, hn]
              unfold axisMinMaxDense
              rw [if_neg (by rw [this]; simp), if_pos this]; rfl
            | obj es =>
              rw [hv] at hr
              simp only at hr
              have : es = [] := List.eq_nil_of_length_eq_zero (by rw [hr, hn])
              rw [this]; rfl
          · simp only at h'
            rw [h']; rfl
    · rw [if_neg hn]
      refine ⟨hnd, fun kp hm => (hok kp hm).1, ?_⟩
      unfold checkAxes
      simp only []
      apply forM_ok
      intro ax hmem
      rcases (hA ax hmem).2 with h0 | ⟨a, hl, hsh, hwf, hstr⟩
      · exact absurd h0 hn
      · rw [hl]
        simp only [axisMinMaxOutcome]
        have hlen : a.len? = some n := by unfold NdArr.len?; rw [hsh]; rfl
        have hne : a.flat.isEmpty = false := by
          unfold NdArr.WF at hwf
          rw [hsh] at hwf
          have : a.flat.length = n := by rw [hwf]; simp [prod]
          cases hf : a.flat with
          | nil => rw [hf] at this; exact absurd this.symm hn
          | cons x t => rfl
        unfold axisMinMaxDense
        rw [if_neg (by rw [hlen]; simp), if_neg (by rw [hlen]; simpa using hn), if_neg hstr,
          if_neg (by simp [allMissing, hne])]
        rfl

/-- the rows of every property the writer stores line up with the ids (also the added empty axis properties) -/
theorem expected_rows (md : CallerMeta) (n : Nat) (nps : Props) (hnd : (nps.map (·.1)).Nodup)
    (hok : ∀ kp ∈ nps, Writable kp.1 kp.2 ∧ RowsOK n kp.2) :
    ∀ kp ∈ expectedNodeProps md n nps, RowsOK n kp.2 := by
  unfold expectedNodeProps
  by_cases hn : n = 0
  · rw [if_pos hn]
    cases haxes : md.axes with
    | none => intro kp hm; exact (hok kp hm).2
    | some names =>
      rw [addEmptyAxes_some]
      intro kp hm
      rcases (foldl_axStep_spec names nps hnd).2.1 kp hm with h | ⟨_, h⟩
      · exact (hok kp h).2
      · rw [h, hn]
        exact ⟨(fun m hm => (by cases hm)), rfl, (by decide)⟩
  · rw [if_neg hn]
    intro kp hm; exact (hok kp hm).2

/-! ### the error branch: a variable-length property whose elements differ in dtype or rank -/

/-- what the codec (C11) has to provide on the error side: elements that do not share one dtype and one
rank are refused with `ValueError` -/
def VlenCodec.Rejects (c : VlenCodec) : Prop :=
  ∀ es, ¬ Geff.Vlen.Homogeneous es → c.encode es = .error .valueError

theorem vlenCodec_rejects : vlenCodec.Rejects := by
  intro es hh
  show ofVlen (Geff.Vlen.serializeVlen es) = _
  unfold Geff.Vlen.serializeVlen
  rcases Geff.Vlen.serializeVlenPy_cases (es.map .arr) with ⟨l, h1, h2, _⟩ | ⟨_, h2⟩
  · have := Geff.Vlen.map_arr_injective h1
    subst this
    exact absurd h2 hh
  · rw [h2]; rfl

theorem createPropsMetadata_error (name : String) (p : PropArr) (e : Err)
    (h : createPropsMetadata name p = .error e) : e = .valueError := by
  unfold createPropsMetadata at h
  cases hm : metaDtype (upcast p).values with
  | error e' =>
    have : e' = .valueError := by
      unfold metaDtype at hm
      split at hm
      · cases hm
      · split at hm
        · cases hm
        · simp only [throw, throwThe, MonadExceptOf.throw, Except.error.injEq] at hm; exact hm.symm
    rw [hm] at h
    simp only [bind, Except.bind, Except.error.injEq] at h
    rw [← h, this]
  | ok dt =>
    rw [hm] at h
    simp only [bind, Except.bind] at h
    cases hk : mkPropMeta name dt (isVarlen (upcast p)) with
    | error e' =>
      have : e' = .valueError := by
        unfold mkPropMeta at hk
        split at hk
        · simp only [throw, throwThe, MonadExceptOf.throw, Except.error.injEq] at hk; exact hk.symm
        · split at hk
          · cases hk
          · simp only [throw, throwThe, MonadExceptOf.throw, Except.error.injEq] at hk; exact hk.symm
      rw [hk] at h
      simp only [Except.error.injEq] at h
      rw [← h, this]
    | ok pm => rw [hk] at h; cases h

/-- writing such a property fails with `ValueError`, whatever its name and whatever the store holds -/
theorem writeProp_inhomogeneous (c : VlenCodec) (hr : c.Rejects) (pre : Path) (s : St) (name : String)
    (es : List NdArr) (m : Option NdArr) (hh : ¬ Geff.Vlen.Homogeneous es) :
    writeProp c pre s name ⟨.obj es, m⟩ = .error .valueError := by
  unfold writeProp
  cases hc : createPropsMetadata name ⟨.obj es, m⟩ with
  | error e =>
    rw [createPropsMetadata_error _ _ _ hc]; rfl
  | ok r =>
    have hr2 : r.2 = ⟨.obj es, m⟩ := by
      unfold createPropsMetadata at hc
      have hu : upcast ⟨.obj es, m⟩ = ⟨.obj es, m⟩ := rfl
      rw [hu] at hc
      cases hm : metaDtype (PVals.obj es) with
      | error _ => rw [hm] at hc; cases hc
      | ok dt =>
        rw [hm] at hc
        simp only [bind, Except.bind] at hc
        cases hk : mkPropMeta name dt (isVarlen ⟨.obj es, m⟩) with
        | error _ => rw [hk] at hc; cases hc
        | ok pm => rw [hk] at hc; cases hc; rfl
    obtain ⟨pm, p'⟩ := r
    simp only at hr2
    subst hr2
    simp only [bind, Except.bind, encodeProp, hr es hh]

/-- the loop stops with that `ValueError` when the properties before it are writable -/
theorem writePropsLoop_error (c : VlenCodec) (hc : c.Lawful) (hr : c.Rejects) (pre : Path) (name : String)
    (es : List NdArr) (m : Option NdArr) (hh : ¬ Geff.Vlen.Homogeneous es) (post : Props) :
    ∀ (ps : Props) (s : St), (ps.map (·.1)).Nodup → (∀ kp ∈ ps, Writable kp.1 kp.2) →
      (∀ kp ∈ ps, ∀ suf, get s (pre ++ kp.1 :: suf) = none) →
      writePropsLoop c pre s (ps ++ (name, ⟨.obj es, m⟩) :: post) = .error .valueError := by
  intro ps
  induction ps with
  | nil =>
    intro s _ _ _
    simp only [List.nil_append, writePropsLoop, writeProp_inhomogeneous c hr pre s name es m hh, bind, Except.bind]
  | cons kp rest ih =>
    intro s hnd hw hfresh
    obtain ⟨k, p⟩ := kp
    simp only [List.map_cons, List.nodup_cons] at hnd
    obtain ⟨s1, h1, hframe1, _⟩ := writeProp_spec c hc pre s k p (hw _ (List.mem_cons_self ..)) (hfresh _ (List.mem_cons_self ..))
    have hne : ∀ kp' ∈ rest, kp'.1 ≠ k := fun kp' hm hhh => hnd.1 (hhh ▸ List.mem_map.2 ⟨kp', hm, rfl⟩)
    have hfresh1 : ∀ kp' ∈ rest, ∀ suf, get s1 (pre ++ kp'.1 :: suf) = none := by
      intro kp' hm suf
      rw [hframe1 _ (fun suf' => path_ne_of_name_ne pre _ _ _ _ (hne kp' hm))]
      exact hfresh kp' (List.mem_cons_of_mem _ hm) suf
    have := ih s1 hnd.2 (fun kp' hm => hw kp' (List.mem_cons_of_mem _ hm)) hfresh1
    simp only [List.cons_append, writePropsLoop, h1, this, bind, Except.bind]

theorem writePropsArrays_error (c : VlenCodec) (hc : c.Lawful) (hr : c.Rejects) (grp : String) (s : St)
    (ps post : Props) (name : String) (es : List NdArr) (m : Option NdArr) (hh : ¬ Geff.Vlen.Homogeneous es)
    (hroot : ∃ e, get s [] = some e) (hgrp : ∃ e, get s [grp] = some e)
    (hfresh : ∀ suf, get s (grp :: PROPS :: suf) = none)
    (hnd : (ps.map (·.1)).Nodup) (hw : ∀ kp ∈ ps, Writable kp.1 kp.2) :
    writePropsArrays c s grp (ps ++ (name, ⟨.obj es, m⟩) :: post) none = .error .valueError := by
  obtain ⟨e0, he0⟩ := hroot
  obtain ⟨e1, he1⟩ := hgrp
  have hnone : get s [grp, PROPS] = none := hfresh []
  have hens : ensureGroup (ensureGroup (ensureGroup s []) [grp]) [grp, PROPS] = set s [grp, PROPS] (.group []) := by
    rw [ensureGroup_of_some s [] e0 he0, ensureGroup_of_some s [grp] e1 he1, ensureGroup_of_none s _ hnone]
  have hfresh1 : ∀ kp ∈ ps, ∀ suf, get (set s [grp, PROPS] (.group [])) ([grp, PROPS] ++ kp.1 :: suf) = none := by
    intro kp _ suf
    rw [get_set_other _ _ _ _ (by simp)]
    exact hfresh _
  unfold writePropsArrays
  simp only [bind, Except.bind, pure, Except.pure, hens]
  have : get (set s [grp, PROPS] (.group [])) [grp, PROPS] = some (.group []) := get_set_same _ _ _
  rw [this]
  exact writePropsLoop_error c hc hr [grp, PROPS] name es m hh post ps _ hnd hw hfresh1

end Geff.WR
