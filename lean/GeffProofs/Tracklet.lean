import Mathlib.Logic.Relation
import GeffProofs.Reach
import GeffProofs.Lineage
import GeffModel.Tracklet

set_option linter.unusedSectionVars false
namespace Geff.Tracklet
open Geff.Graph Geff.Lineage Relation
variable {α L : Type} [DecidableEq α] [DecidableEq L]

/-! ## list lemmas about `dedup` -/
theorem dedup_eq_nil (l : List α) : dedup l = [] ↔ l = [] := by
  cases l <;> simp [dedup]

theorem dedup_eq_singleton_iff (l : List α) (b : α) :
    dedup l = [b] ↔ l ≠ [] ∧ ∀ x ∈ l, x = b := by
  cases l with
  | nil => simp [dedup]
  | cons x xs =>
    simp only [dedup, List.cons.injEq, List.filter_eq_nil_iff, mem_dedup, ne_eq, decide_not,
      Bool.not_eq_eq_eq_not, Bool.not_true, decide_eq_false_iff_not, Decidable.not_not,
      reduceCtorEq, not_false_eq_true, List.mem_cons, forall_eq_or_imp, true_and]
    constructor
    · rintro ⟨rfl, h⟩; exact ⟨rfl, h⟩
    · rintro ⟨rfl, h⟩; exact ⟨rfl, h⟩

theorem length_dedup_eq_zero (l : List α) : (dedup l).length = 0 ↔ l = [] := by
  rw [List.length_eq_zero_iff, dedup_eq_nil]

theorem length_dedup_eq_one (l : List α) :
    (dedup l).length = 1 ↔ ∃ b, l ≠ [] ∧ ∀ x ∈ l, x = b := by
  rw [List.length_eq_one_iff]
  exact exists_congr fun b => dedup_eq_singleton_iff l b

theorem length_dedup_le_one (l : List α) :
    ¬ 1 < (dedup l).length ↔ ∀ x ∈ l, ∀ y ∈ l, x = y := by
  constructor
  · intro h x hx y hy
    have h1 : (dedup l).length = 1 := by
      have : (dedup l).length ≠ 0 := by
        rw [Ne, length_dedup_eq_zero]; rintro rfl; simp at hx
      omega
    obtain ⟨b, _, hb⟩ := (length_dedup_eq_one l).1 h1
    rw [hb x hx, hb y hy]
  · intro h
    cases l with
    | nil => simp [dedup]
    | cons a t =>
      have : (dedup (a :: t)).length = 1 :=
        (length_dedup_eq_one _).2 ⟨a, by simp, fun x hx => h x hx a (by simp)⟩
      omega

/-! ## membership in the model's lists -/
theorem mem_succs (es : List (α × α)) (u w : α) : w ∈ succs es u ↔ (u, w) ∈ es := by
  unfold succs
  simp only [mem_dedup, List.mem_map, List.mem_filter, decide_eq_true_eq]
  constructor
  · rintro ⟨⟨a, b⟩, ⟨hm, rfl⟩, rfl⟩; exact hm
  · intro h; exact ⟨(u, w), ⟨h, rfl⟩, rfl⟩

theorem mem_preds (es : List (α × α)) (v w : α) : w ∈ preds es v ↔ (w, v) ∈ es := by
  unfold preds
  simp only [mem_dedup, List.mem_map, List.mem_filter, decide_eq_true_eq]
  constructor
  · rintro ⟨⟨a, b⟩, ⟨hm, rfl⟩, rfl⟩; exact hm
  · intro h; exact ⟨(w, v), ⟨h, rfl⟩, rfl⟩

theorem mem_inner (es : List (α × α)) (C : List α) (a b : α) :
    (a, b) ∈ inner es C ↔ (a, b) ∈ es ∧ a ∈ C ∧ b ∈ C := by
  unfold inner; simp

/-! ## Prop-level vocabulary (docs/tracking.md) -/
/-- directed edge relation -/
def E (es : List (α × α)) (a b : α) : Prop := (a, b) ∈ es
/-- *tracklet edge*: the only edge leaving its source and the only edge entering its target -/
def T (es : List (α × α)) (a b : α) : Prop :=
  E es a b ∧ (∀ w, E es a w → w = b) ∧ (∀ w, E es w b → w = a)
def symT (es : List (α × α)) (a b : α) : Prop := T es a b ∨ T es b a
/-- edge between two nodes carrying tracklet id `t` -/
def ES (nl : List (α × L)) (es : List (α × α)) (t : L) (a b : α) : Prop :=
  E es a b ∧ (a, t) ∈ nl ∧ (b, t) ∈ nl
def AdjS (nl : List (α × L)) (es : List (α × α)) (t : L) (a b : α) : Prop :=
  ES nl es t a b ∨ ES nl es t b a

/-- The nodes carrying id `t` form a maximal unbranched path: every edge among them is a tracklet
edge, they are connected through such edges, and no tracklet edge leaves or enters the class. -/
structure GoodTracklet (nl : List (α × L)) (es : List (α × α)) (t : L) : Prop where
  inner_T : ∀ a b, ES nl es t a b → T es a b
  connected : ∀ a b, (a, t) ∈ nl → (b, t) ∈ nl → ReflTransGen (AdjS nl es t) a b
  maximal : ∀ a b, T es a b → ((a, t) ∈ nl ↔ (b, t) ∈ nl)

theorem succs_length_one_iff (es : List (α × α)) (a b : α) (hab : E es a b) :
    (succs es a).length = 1 ↔ ∀ w, E es a w → w = b := by
  unfold succs
  rw [length_dedup_eq_one]
  have hb : b ∈ (es.filter (fun e => e.1 = a)).map (·.2) := by
    have := (mem_succs es a b).2 hab
    unfold succs at this; exact (mem_dedup _ _).1 this
  constructor
  · rintro ⟨c, _, hc⟩ w hw
    have hw' : w ∈ (es.filter (fun e => e.1 = a)).map (·.2) := by
      have := (mem_succs es a w).2 hw
      unfold succs at this; exact (mem_dedup _ _).1 this
    rw [hc w hw', hc b hb]
  · intro h
    refine ⟨b, List.ne_nil_of_mem hb, fun x hx => h x ?_⟩
    have : x ∈ succs es a := by unfold succs; exact (mem_dedup _ _).2 hx
    exact (mem_succs es a x).1 this

theorem preds_length_one_iff (es : List (α × α)) (a b : α) (hab : E es a b) :
    (preds es b).length = 1 ↔ ∀ w, E es w b → w = a := by
  unfold preds
  rw [length_dedup_eq_one]
  have hb : a ∈ (es.filter (fun e => e.2 = b)).map (·.1) := by
    have := (mem_preds es b a).2 hab
    unfold preds at this; exact (mem_dedup _ _).1 this
  constructor
  · rintro ⟨c, _, hc⟩ w hw
    have hw' : w ∈ (es.filter (fun e => e.2 = b)).map (·.1) := by
      have := (mem_preds es b w).2 hw
      unfold preds at this; exact (mem_dedup _ _).1 this
    rw [hc w hw', hc a hb]
  · intro h
    refine ⟨a, List.ne_nil_of_mem hb, fun x hx => h x ?_⟩
    have : x ∈ preds es b := by unfold preds; exact (mem_dedup _ _).2 hx
    exact (mem_preds es b x).1 this

theorem succs_eq_singleton_iff (es : List (α × α)) (a b : α) :
    succs es a = [b] ↔ E es a b ∧ ∀ w, E es a w → w = b := by
  constructor
  · intro h
    have hb : b ∈ succs es a := by rw [h]; simp
    refine ⟨(mem_succs es a b).1 hb, fun w hw => ?_⟩
    have : w ∈ succs es a := (mem_succs es a w).2 hw
    rw [h] at this; simpa using this
  · rintro ⟨hab, h⟩
    unfold succs
    rw [dedup_eq_singleton_iff]
    have hb : b ∈ succs es a := (mem_succs es a b).2 hab
    unfold succs at hb
    refine ⟨List.ne_nil_of_mem ((mem_dedup _ _).1 hb), fun x hx => h x ?_⟩
    have : x ∈ succs es a := by unfold succs; exact (mem_dedup _ _).2 hx
    exact (mem_succs es a x).1 this

theorem preds_eq_singleton_iff (es : List (α × α)) (a b : α) :
    preds es b = [a] ↔ E es a b ∧ ∀ w, E es w b → w = a := by
  constructor
  · intro h
    have hb : a ∈ preds es b := by rw [h]; simp
    refine ⟨(mem_preds es b a).1 hb, fun w hw => ?_⟩
    have : w ∈ preds es b := (mem_preds es b w).2 hw
    rw [h] at this; simpa using this
  · rintro ⟨hab, h⟩
    unfold preds
    rw [dedup_eq_singleton_iff]
    have hb : a ∈ preds es b := (mem_preds es b a).2 hab
    unfold preds at hb
    refine ⟨List.ne_nil_of_mem ((mem_dedup _ _).1 hb), fun x hx => h x ?_⟩
    have : x ∈ preds es b := by unfold preds; exact (mem_dedup _ _).2 hx
    exact (mem_preds es b x).1 this


/-! ## a weakly connected digraph with out-degree ≤ 1 has at most one sink (dually: source) -/
omit [DecidableEq α] in
theorem reaches_of_conn (es : List (α × α))
    (hfun : ∀ a b c, (a, b) ∈ es → (a, c) ∈ es → b = c)
    (u : α) (hu : ∀ b, (u, b) ∉ es) :
    ∀ x, Conn es u x → ReflTransGen (E es) x u := by
  intro x hx
  induction hx with
  | refl => exact ReflTransGen.refl
  | @tail b c _ hbc ih =>
    rcases hbc with h | h
    · rcases ReflTransGen.cases_head ih with hbu | ⟨y, hby, hyu⟩
      · subst hbu; exact absurd h (hu _)
      · have : y = c := hfun _ _ _ hby h
        subst this; exact hyu
    · exact ReflTransGen.head h ih

theorem sink_unique (es : List (α × α))
    (hfun : ∀ a b c, (a, b) ∈ es → (a, c) ∈ es → b = c)
    (u e : α) (hu : ∀ b, (u, b) ∉ es) (he : ∀ b, (e, b) ∉ es)
    (hconn : Conn es u e) : e = u := by
  have h := reaches_of_conn es hfun u hu e hconn
  rcases ReflTransGen.cases_head h with h | ⟨y, hey, _⟩
  · exact h
  · exact absurd hey (he y)

theorem conn_swap (es : List (α × α)) {a b : α} (h : Conn es a b) :
    Conn (es.map Prod.swap) a b := by
  induction h with
  | refl => exact ReflTransGen.refl
  | @tail x y _ hxy ih =>
    refine ih.tail ?_
    unfold Adj at *
    rcases hxy with h | h
    · right; exact List.mem_map.2 ⟨(x, y), h, rfl⟩
    · left; exact List.mem_map.2 ⟨(y, x), h, rfl⟩

theorem source_unique (es : List (α × α))
    (hfun : ∀ a b c, (b, a) ∈ es → (c, a) ∈ es → b = c)
    (u e : α) (hu : ∀ b, (b, u) ∉ es) (he : ∀ b, (b, e) ∉ es)
    (hconn : Conn es u e) : e = u := by
  have hsw : ∀ x y, (x, y) ∈ es.map Prod.swap ↔ (y, x) ∈ es := by
    intro x y
    simp only [List.mem_map, Prod.exists, Prod.swap_prod_mk, Prod.mk.injEq]
    constructor
    · rintro ⟨a, b, h, rfl, rfl⟩; exact h
    · intro h; exact ⟨y, x, h, rfl, rfl⟩
  apply sink_unique (es.map Prod.swap) _ u e _ _ (conn_swap es hconn)
  · intro a b c h1 h2; exact hfun a b c ((hsw _ _).1 h1) ((hsw _ _).1 h2)
  · intro b h; exact hu b ((hsw _ _).1 h)
  · intro b h; exact he b ((hsw _ _).1 h)

/-! ## Kahn elimination -/
omit [DecidableEq α] in
theorem exists_min (f : α → Nat) (l : List α) (h : l ≠ []) : ∃ v ∈ l, ∀ w ∈ l, f v ≤ f w := by
  induction l with
  | nil => exact absurd rfl h
  | cons a t ih =>
    by_cases ht : t = []
    · subst ht; exact ⟨a, by simp, by simp⟩
    · obtain ⟨v, hv, hmin⟩ := ih ht
      by_cases hav : f a ≤ f v
      · refine ⟨a, by simp, ?_⟩
        intro w hw
        rcases List.mem_cons.1 hw with rfl | hw
        · exact Nat.le_refl _
        · exact Nat.le_trans hav (hmin w hw)
      · refine ⟨v, List.mem_cons_of_mem _ hv, ?_⟩
        intro w hw
        rcases List.mem_cons.1 hw with rfl | hw
        · omega
        · exact hmin w hw

/-- a graph with a rank function strictly increasing along its edges passes Kahn's test -/
theorem kahn_of_rank (es : List (α × α)) (rank : α → Nat) (hr : ∀ e ∈ es, rank e.1 < rank e.2) :
    ∀ (n : Nat) (vs : List α), vs.length ≤ n → kahn es n vs = true := by
  intro n
  induction n with
  | zero =>
    intro vs h
    have : vs = [] := List.eq_nil_of_length_eq_zero (by omega)
    subst this; rfl
  | succ n ih =>
    intro vs h
    unfold kahn
    split
    · rename_i hnone
      cases vs with
      | nil => rfl
      | cons a t =>
        exfalso
        obtain ⟨v, hv, hmin⟩ := exists_min rank (a :: t) (by simp)
        have := List.find?_eq_none.1 hnone v hv
        simp only [Bool.not_eq_true', Bool.not_eq_false, List.any_eq_true, decide_eq_true_eq] at this
        obtain ⟨e, he, h2, h1⟩ := this
        have := hr e he
        have := hmin e.1 h1
        rw [h2] at *
        omega
    · rename_i v hsome
      apply ih
      have hv : v ∈ vs := List.mem_of_find?_eq_some hsome
      have : (vs.filter (· ≠ v)).length < vs.length :=
        List.length_filter_lt_length_iff_exists.2 ⟨v, hv, by simp⟩
      omega

/-- if Kahn's test passes on a non-empty vertex list, some vertex has no incoming edge from it … -/
theorem source_of_kahn (es : List (α × α)) (n : Nat) (vs : List α) (hne : vs ≠ [])
    (h : kahn es (n + 1) vs = true) :
    ∃ v ∈ vs, ∀ e ∈ es, e.2 = v → e.1 ∉ vs := by
  unfold kahn at h
  split at h
  · cases vs with
    | nil => exact absurd rfl hne
    | cons a t => simp at h
  · rename_i v hsome
    refine ⟨v, List.mem_of_find?_eq_some hsome, ?_⟩
    have := List.find?_some hsome
    simp only [Bool.not_eq_true', List.any_eq_false, decide_eq_true_eq, not_and] at this
    intro e he h2; exact this e he h2

/-- … and some vertex has no outgoing edge into it -/
theorem sink_of_kahn (es : List (α × α)) :
    ∀ (n : Nat) (vs : List α), vs ≠ [] → kahn es n vs = true →
      ∃ v ∈ vs, ∀ e ∈ es, e.1 = v → e.2 ∉ vs := by
  intro n
  induction n with
  | zero =>
    intro vs hne h
    cases vs with
    | nil => exact absurd rfl hne
    | cons a t => simp [kahn] at h
  | succ n ih =>
    intro vs hne h
    unfold kahn at h
    split at h
    · cases vs with
      | nil => exact absurd rfl hne
      | cons a t => simp at h
    · rename_i u hsome
      have hu : u ∈ vs := List.mem_of_find?_eq_some hsome
      have hsrc := List.find?_some hsome
      simp only [Bool.not_eq_true', List.any_eq_false, decide_eq_true_eq, not_and] at hsrc
      by_cases hemp : vs.filter (· ≠ u) = []
      · refine ⟨u, hu, ?_⟩
        intro e he h1 h2
        have : e.2 = u := by
          have := List.filter_eq_nil_iff.1 hemp e.2 h2
          simpa using this
        exact hsrc e he this (h1 ▸ hu)
      · obtain ⟨v, hv, hsink⟩ := ih _ hemp h
        have hv' := List.mem_filter.1 hv
        refine ⟨v, hv'.1, ?_⟩
        intro e he h1 h2
        by_cases h3 : e.2 = u
        · exact hsrc e he h3 (h1 ▸ hv'.1)
        · exact hsink e he h1 (List.mem_filter.2 ⟨h2, by simpa using h3⟩)


/-! ## shape of the model's control flow -/
theorem checkEnds_ok_iff (es : List (α × α)) (s e : α) :
    checkEnds es s e = .ok ↔
      (¬ ∃ p, preds es s = [p] ∧ (succs es p).length = 1) ∧
      (¬ ∃ n, succs es e = [n] ∧ (preds es n).length = 1) := by
  unfold checkEnds
  constructor
  · intro h
    split at h
    · rename_i p hp
      split at h
      · cases h
      · rename_i hlen
        refine ⟨?_, ?_⟩
        · rintro ⟨p', hp', hl⟩
          rw [hp] at hp'; cases hp'; exact hlen hl
        · split at h
          · rename_i n hn
            split at h
            · cases h
            · rename_i hlen2
              rintro ⟨n', hn', hl⟩
              rw [hn] at hn'; cases hn'; exact hlen2 hl
          · rename_i hno
            rintro ⟨n', hn', _⟩
            exact hno n' hn'
    · rename_i hno
      refine ⟨?_, ?_⟩
      · rintro ⟨p', hp', _⟩; exact hno p' hp'
      · split at h
        · rename_i n hn
          split at h
          · cases h
          · rename_i hlen2
            rintro ⟨n', hn', hl⟩
            rw [hn] at hn'; cases hn'; exact hlen2 hl
        · rename_i hno2
          rintro ⟨n', hn', _⟩
          exact hno2 n' hn'
  · rintro ⟨h1, h2⟩
    have hfwd : (match succs es e with
        | [n] => if (preds es n).length = 1 then Verdict.extendFwd n else Verdict.ok
        | _ => Verdict.ok) = Verdict.ok := by
      split
      · rename_i n hn
        split
        · rename_i hl; exact absurd ⟨n, hn, hl⟩ h2
        · rfl
      · rfl
    split
    · rename_i p hp
      split
      · rename_i hl; exact absurd ⟨p, hp, hl⟩ h1
      · exact hfwd
    · exact hfwd

theorem checkTracklet_ok_iff_steps (nl : List (α × L)) (es : List (α × α)) (t : L) :
    checkTracklet nl es t = .ok ↔
      (∀ v ∈ nodesWith nl t, ¬ 1 < (preds (inner es (nodesWith nl t)) v).length ∧
                              ¬ 1 < (succs (inner es (nodesWith nl t)) v).length) ∧
      (∀ e ∈ inner es (nodesWith nl t), (succs es e.1).length = 1 ∧ (preds es e.2).length = 1) ∧
      kahn (inner es (nodesWith nl t)) (nodesWith nl t).length (nodesWith nl t) = true ∧
      ∃ r rest s e, nodesWith nl t = r :: rest ∧
        (∀ x ∈ nodesWith nl t, x ∈ component (inner es (nodesWith nl t)) (nodesWith nl t) r) ∧
        (nodesWith nl t).find? (fun v => (preds (inner es (nodesWith nl t)) v).length = 0) = some s ∧
        (nodesWith nl t).find? (fun v => (succs (inner es (nodesWith nl t)) v).length = 0) = some e ∧
        checkEnds es s e = .ok := by
  unfold checkTracklet
  simp only
  generalize nodesWith nl t = C
  constructor
  · intro h
    split at h
    · cases h
    rename_i h1
    split at h
    · cases h
    rename_i h2
    split at h
    · cases h
    rename_i h3
    simp only [List.any_eq_true, decide_eq_true_eq, not_exists, not_and, not_or] at h1 h2
    refine ⟨fun v hv => h1 v hv, fun e he => ?_, by simpa using h3, ?_⟩
    · have := h2 e he
      exact ⟨Decidable.not_not.1 this.1, Decidable.not_not.1 this.2⟩
    · split at h
      · cases h
      rename_i r rest
      split at h
      · cases h
      rename_i h4
      split at h
      · cases h
      rename_i s hs
      split at h
      · cases h
      rename_i e he
      refine ⟨r, rest, s, e, rfl, ?_, hs, he, h⟩
      simpa using h4
  · rintro ⟨h1, h2, h3, r, rest, s, e, hC, h4, hs, he, hends⟩
    subst hC
    rw [if_neg, if_neg, if_neg]
    · simp only
      rw [if_neg, hs, he]
      · exact hends
      · simpa using h4
    · simp only [Bool.not_eq_true', Bool.not_eq_false]; exact h3
    · simp only [List.any_eq_true, decide_eq_true_eq, not_exists, not_and, not_or]
      intro x hx
      have := h2 x hx
      exact ⟨by simp [this.1], by simp [this.2]⟩
    · simp only [List.any_eq_true, decide_eq_true_eq, not_exists, not_and, not_or]
      intro x hx
      exact h1 x hx


/-! ## the model's verdict on one tracklet id ⇔ `GoodTracklet` -/
theorem succs_le_one_iff (es : List (α × α)) (u : α) :
    ¬ 1 < (succs es u).length ↔ ∀ b c, (u, b) ∈ es → (u, c) ∈ es → b = c := by
  unfold succs
  rw [length_dedup_le_one]
  constructor
  · intro h b c hb hc
    apply h
    · have := (mem_succs es u b).2 hb; unfold succs at this; exact (mem_dedup _ _).1 this
    · have := (mem_succs es u c).2 hc; unfold succs at this; exact (mem_dedup _ _).1 this
  · intro h x hx y hy
    apply h
    · have : x ∈ succs es u := by unfold succs; exact (mem_dedup _ _).2 hx
      exact (mem_succs es u x).1 this
    · have : y ∈ succs es u := by unfold succs; exact (mem_dedup _ _).2 hy
      exact (mem_succs es u y).1 this

theorem preds_le_one_iff (es : List (α × α)) (v : α) :
    ¬ 1 < (preds es v).length ↔ ∀ b c, (b, v) ∈ es → (c, v) ∈ es → b = c := by
  unfold preds
  rw [length_dedup_le_one]
  constructor
  · intro h b c hb hc
    apply h
    · have := (mem_preds es v b).2 hb; unfold preds at this; exact (mem_dedup _ _).1 this
    · have := (mem_preds es v c).2 hc; unfold preds at this; exact (mem_dedup _ _).1 this
  · intro h x hx y hy
    apply h
    · have : x ∈ preds es v := by unfold preds; exact (mem_dedup _ _).2 hx
      exact (mem_preds es v x).1 this
    · have : y ∈ preds es v := by unfold preds; exact (mem_dedup _ _).2 hy
      exact (mem_preds es v y).1 this

theorem succs_length_zero_iff (es : List (α × α)) (u : α) :
    (succs es u).length = 0 ↔ ∀ w, (u, w) ∉ es := by
  rw [List.length_eq_zero_iff, List.eq_nil_iff_forall_not_mem]
  exact forall_congr' fun w => not_congr (mem_succs es u w)

theorem preds_length_zero_iff (es : List (α × α)) (v : α) :
    (preds es v).length = 0 ↔ ∀ w, (w, v) ∉ es := by
  rw [List.length_eq_zero_iff, List.eq_nil_iff_forall_not_mem]
  exact forall_congr' fun w => not_congr (mem_preds es v w)

theorem mem_S_iff (nl : List (α × L)) (es : List (α × α)) (t : L) (a b : α) :
    (a, b) ∈ inner es (nodesWith nl t) ↔ ES nl es t a b := by
  rw [mem_inner, mem_nodesWith, mem_nodesWith]; rfl

theorem conn_S_iff (nl : List (α × L)) (es : List (α × α)) (t : L) (a b : α) :
    Conn (inner es (nodesWith nl t)) a b ↔ ReflTransGen (AdjS nl es t) a b := by
  have : ∀ x y, Adj (inner es (nodesWith nl t)) x y ↔ AdjS nl es t x y := by
    intro x y; unfold Adj AdjS; rw [mem_S_iff, mem_S_iff]
  constructor
  · intro h
    induction h with
    | refl => exact ReflTransGen.refl
    | tail _ hxy ih => exact ih.tail ((this _ _).1 hxy)
  · intro h
    induction h with
    | refl => exact ReflTransGen.refl
    | tail _ hxy ih => exact ih.tail ((this _ _).2 hxy)

theorem T_of_lengths (es : List (α × α)) (a b : α) (hab : E es a b)
    (h1 : (succs es a).length = 1) (h2 : (preds es b).length = 1) : T es a b :=
  ⟨hab, (succs_length_one_iff es a b hab).1 h1, (preds_length_one_iff es a b hab).1 h2⟩

/-- soundness: no error message for `t` ⇒ the class of `t` is a maximal unbranched path
(any digraph, cycles allowed) -/
theorem good_of_ok (nl : List (α × L)) (es : List (α × α)) (t : L)
    (h : checkTracklet nl es t = .ok) : GoodTracklet nl es t := by
  obtain ⟨h1, h2, _, r, rest, s, e, hC, h4, hs, he, hends⟩ :=
    (checkTracklet_ok_iff_steps nl es t).1 h
  have hV : ∀ e ∈ inner es (nodesWith nl t), e.1 ∈ nodesWith nl t ∧ e.2 ∈ nodesWith nl t := by
    intro e he; exact ((mem_inner es _ e.1 e.2).1 he).2
  have hconn : ∀ a b, (a, t) ∈ nl → (b, t) ∈ nl → Conn (inner es (nodesWith nl t)) a b := by
    intro a b ha hb
    have ha' := (mem_component_iff _ _ r hV a).1 (h4 a ((mem_nodesWith nl t a).2 ha))
    have hb' := (mem_component_iff _ _ r hV b).1 (h4 b ((mem_nodesWith nl t b).2 hb))
    exact (conn_symm _ ha').trans hb'
  have hinner : ∀ a b, ES nl es t a b → T es a b := by
    intro a b hab
    have := h2 (a, b) ((mem_S_iff nl es t a b).2 hab)
    exact T_of_lengths es a b hab.1 this.1 this.2
  have hs' := List.find?_some hs
  have he' := List.find?_some he
  simp only [decide_eq_true_eq] at hs' he'
  have hsC : (s, t) ∈ nl := (mem_nodesWith nl t s).1 (List.mem_of_find?_eq_some hs)
  have heC : (e, t) ∈ nl := (mem_nodesWith nl t e).1 (List.mem_of_find?_eq_some he)
  obtain ⟨hback, hfwd⟩ := (checkEnds_ok_iff es s e).1 hends
  refine ⟨hinner, fun a b ha hb => (conn_S_iff nl es t a b).1 (hconn a b ha hb), ?_⟩
  intro a b hT
  constructor
  · intro ha
    refine Classical.byContradiction fun hb => ?_
    -- `a` has no successor inside the class, so it is the end node the code found
    have hasink : ∀ w, (a, w) ∉ inner es (nodesWith nl t) := by
      intro w hw
      have hw' := (mem_S_iff nl es t a w).1 hw
      have : w = b := hT.2.1 w hw'.1
      subst this; exact hb hw'.2.2
    have hesink := (succs_length_zero_iff _ e).1 he'
    have hfun : ∀ x y z, (x, y) ∈ inner es (nodesWith nl t) → (x, z) ∈ inner es (nodesWith nl t) → y = z := by
      intro x y z hy hz
      have hx : x ∈ nodesWith nl t := ((mem_inner es _ x y).1 hy).2.1
      exact (succs_le_one_iff _ x).1 (h1 x hx).2 y z hy hz
    have : e = a := sink_unique _ hfun a e hasink hesink (hconn a e ha heC)
    subst this
    exact hfwd ⟨b, (succs_eq_singleton_iff es e b).2 ⟨hT.1, hT.2.1⟩,
      (preds_length_one_iff es e b hT.1).2 hT.2.2⟩
  · intro hb
    refine Classical.byContradiction fun ha => ?_
    have hbsrc : ∀ w, (w, b) ∉ inner es (nodesWith nl t) := by
      intro w hw
      have hw' := (mem_S_iff nl es t w b).1 hw
      have : w = a := hT.2.2 w hw'.1
      subst this; exact ha hw'.2.1
    have hssrc := (preds_length_zero_iff _ s).1 hs'
    have hfun : ∀ x y z, (y, x) ∈ inner es (nodesWith nl t) → (z, x) ∈ inner es (nodesWith nl t) → y = z := by
      intro x y z hy hz
      have hx : x ∈ nodesWith nl t := ((mem_inner es _ y x).1 hy).2.2
      exact (preds_le_one_iff _ x).1 (h1 x hx).1 y z hy hz
    have : s = b := source_unique _ hfun b s hbsrc hssrc (hconn b s hb hsC)
    subst this
    exact hback ⟨a, (preds_eq_singleton_iff es a s).2 ⟨hT.1, hT.2.2⟩,
      (succs_length_one_iff es a s hT.1).2 hT.2.1⟩

/-- completeness: on an acyclic graph (a rank function strictly increasing along the edges) a
maximal unbranched path produces no error message -/
theorem ok_of_good (nl : List (α × L)) (es : List (α × α)) (t : L)
    (rank : α → Nat) (hr : ∀ e ∈ es, rank e.1 < rank e.2) (ht : ∃ u, (u, t) ∈ nl)
    (h : GoodTracklet nl es t) : checkTracklet nl es t = .ok := by
  rw [checkTracklet_ok_iff_steps]
  have hV : ∀ e ∈ inner es (nodesWith nl t), e.1 ∈ nodesWith nl t ∧ e.2 ∈ nodesWith nl t := by
    intro e he; exact ((mem_inner es _ e.1 e.2).1 he).2
  have hkahn : kahn (inner es (nodesWith nl t)) (nodesWith nl t).length (nodesWith nl t) = true :=
    kahn_of_rank _ rank (fun e he => hr e (List.mem_filter.1 he).1) _ _ (Nat.le_refl _)
  obtain ⟨u, hu⟩ := ht
  have hne : nodesWith nl t ≠ [] := List.ne_nil_of_mem ((mem_nodesWith nl t u).2 hu)
  obtain ⟨r, rest, hC⟩ := List.exists_cons_of_ne_nil hne
  have hlen : (nodesWith nl t).length = rest.length + 1 := by rw [hC]; rfl
  -- a source and a sink exist
  have hsrc : ∃ s, (nodesWith nl t).find?
      (fun v => (preds (inner es (nodesWith nl t)) v).length = 0) = some s := by
    obtain ⟨v, hv, hvs⟩ := source_of_kahn _ rest.length _ hne (hlen ▸ hkahn)
    apply Option.isSome_iff_exists.1
    rw [List.find?_isSome]
    refine ⟨v, hv, ?_⟩
    simp only [decide_eq_true_eq]
    rw [preds_length_zero_iff]
    intro w hw
    exact hvs (w, v) hw rfl (hV _ hw).1
  have hsnk : ∃ e, (nodesWith nl t).find?
      (fun v => (succs (inner es (nodesWith nl t)) v).length = 0) = some e := by
    obtain ⟨v, hv, hvs⟩ := sink_of_kahn _ _ _ hne hkahn
    apply Option.isSome_iff_exists.1
    rw [List.find?_isSome]
    refine ⟨v, hv, ?_⟩
    simp only [decide_eq_true_eq]
    rw [succs_length_zero_iff]
    intro w hw
    exact hvs (v, w) hw rfl (hV _ hw).2
  obtain ⟨s, hs⟩ := hsrc
  obtain ⟨e, he⟩ := hsnk
  have hs' := List.find?_some hs
  have he' := List.find?_some he
  simp only [decide_eq_true_eq] at hs' he'
  have hsC : (s, t) ∈ nl := (mem_nodesWith nl t s).1 (List.mem_of_find?_eq_some hs)
  have heC : (e, t) ∈ nl := (mem_nodesWith nl t e).1 (List.mem_of_find?_eq_some he)
  refine ⟨?_, ?_, hkahn, r, rest, s, e, hC, ?_, hs, he, ?_⟩
  · intro v _
    constructor
    · rw [preds_le_one_iff]
      intro b c hb hc
      have hb' := h.inner_T b v ((mem_S_iff nl es t b v).1 hb)
      have hc' := (mem_S_iff nl es t c v).1 hc
      exact (hb'.2.2 c hc'.1).symm
    · rw [succs_le_one_iff]
      intro b c hb hc
      have hb' := h.inner_T v b ((mem_S_iff nl es t v b).1 hb)
      have hc' := (mem_S_iff nl es t v c).1 hc
      exact (hb'.2.1 c hc'.1).symm
  · intro e he
    have hT := h.inner_T e.1 e.2 ((mem_S_iff nl es t e.1 e.2).1 he)
    exact ⟨(succs_length_one_iff es _ _ hT.1).2 hT.2.1, (preds_length_one_iff es _ _ hT.1).2 hT.2.2⟩
  · intro x hx
    rw [mem_component_iff _ _ r hV x, conn_S_iff]
    apply h.connected
    · apply (mem_nodesWith nl t r).1; rw [hC]; simp
    · exact (mem_nodesWith nl t x).1 hx
  · rw [checkEnds_ok_iff]
    constructor
    · rintro ⟨p, hp, hl⟩
      obtain ⟨hps, hall⟩ := (preds_eq_singleton_iff es p s).1 hp
      have hT : T es p s := ⟨hps, (succs_length_one_iff es p s hps).1 hl, hall⟩
      have hpC : (p, t) ∈ nl := (h.maximal p s hT).2 hsC
      exact (preds_length_zero_iff _ s).1 hs' p ((mem_S_iff nl es t p s).2 ⟨hps, hpC, hsC⟩)
    · rintro ⟨n, hn, hl⟩
      obtain ⟨hen, hall⟩ := (succs_eq_singleton_iff es e n).1 hn
      have hT : T es e n := ⟨hen, hall, (preds_length_one_iff es e n hen).1 hl⟩
      have hnC : (n, t) ∈ nl := (h.maximal e n hT).1 heC
      exact (succs_length_zero_iff _ e).1 he' n ((mem_S_iff nl es t e n).2 ⟨hen, heC, hnC⟩)


/-! ## the two Python exceptions of the loop body are unreachable -/
theorem checkEnds_ne_exc (es : List (α × α)) (s e : α) (name : String) :
    checkEnds es s e ≠ .exc name := by
  unfold checkEnds
  intro h
  repeat' split at h
  all_goals cases h

theorem checkTracklet_ne_exc (nl : List (α × L)) (es : List (α × α)) (t : L)
    (ht : ∃ u, (u, t) ∈ nl) (name : String) : checkTracklet nl es t ≠ .exc name := by
  obtain ⟨u, hu⟩ := ht
  have hne : nodesWith nl t ≠ [] := List.ne_nil_of_mem ((mem_nodesWith nl t u).2 hu)
  have hV : ∀ e ∈ inner es (nodesWith nl t), e.1 ∈ nodesWith nl t ∧ e.2 ∈ nodesWith nl t := by
    intro e he; exact ((mem_inner es _ e.1 e.2).1 he).2
  obtain ⟨r, rest, hC⟩ := List.exists_cons_of_ne_nil hne
  unfold checkTracklet
  simp only
  rw [hC] at hV hne ⊢
  simp only
  intro h
  split at h
  · cases h
  split at h
  · cases h
  split at h
  · cases h
  rename_i hk
  simp only [Bool.not_eq_true', Bool.not_eq_false] at hk
  split at h
  · cases h
  split at h
  · rename_i hnone
    obtain ⟨v, hv, hvs⟩ := source_of_kahn _ rest.length _ hne hk
    have := List.find?_eq_none.1 hnone v hv
    simp only [decide_eq_true_eq] at this
    apply this
    rw [preds_length_zero_iff]
    intro w hw
    exact hvs (w, v) hw rfl (hV _ hw).1
  split at h
  · rename_i hnone
    obtain ⟨v, hv, hvs⟩ := sink_of_kahn _ _ _ hne hk
    have := List.find?_eq_none.1 hnone v hv
    simp only [decide_eq_true_eq] at this
    apply this
    rw [succs_length_zero_iff]
    intro w hw
    exact hvs (v, w) hw rfl (hV _ hw).2
  exact checkEnds_ne_exc _ _ _ _ h

/-! ## the error list -/
theorem mem_trackletErrors (nl : List (α × L)) (es : List (α × α)) (t : L) (v : Verdict α) :
    (t, v) ∈ trackletErrors nl es ↔
      (∃ u, (u, t) ∈ nl) ∧ checkTracklet nl es t = v ∧ v ≠ .ok := by
  unfold trackletErrors
  simp only [List.mem_filterMap, mem_dedup, List.mem_map]
  constructor
  · rintro ⟨t', ⟨⟨u, l⟩, hm, rfl⟩, h⟩
    split at h
    · cases h
    · rename_i hv
      cases h
      exact ⟨⟨u, hm⟩, rfl, fun h => hv h⟩
  · rintro ⟨⟨u, hu⟩, rfl, hne⟩
    refine ⟨t, ⟨(u, t), hu, rfl⟩, ?_⟩
    split
    · rename_i h; exact absurd h hne
    · rfl

/-! ## acyclicity -/
/-- acyclicity as used by the proofs: a rank (e.g. time) strictly increasing along every edge -/
def Ranked (es : List (α × α)) : Prop := ∃ rank : α → Nat, ∀ e ∈ es, rank e.1 < rank e.2

theorem ranked_iff_no_cycle (es : List (α × α)) :
    Ranked es ↔ ∀ a, ¬ TransGen (E es) a a := by
  constructor
  · rintro ⟨rank, hr⟩ a h
    have key : ∀ x y, TransGen (E es) x y → rank x < rank y := by
      intro x y hxy
      induction hxy with
      | single h => exact hr _ h
      | tail _ h ih => exact Nat.lt_trans ih (hr _ h)
    exact Nat.lt_irrefl _ (key a a h)
  · induction es with
    | nil => intro _; exact ⟨fun _ => 0, by simp⟩
    | cons e es' ih =>
      intro hno
      obtain ⟨a, b⟩ := e
      have hmono : ∀ x y, E es' x y → E ((a, b) :: es') x y := fun x y h => List.mem_cons_of_mem _ h
      obtain ⟨rank, hr⟩ := ih (fun x h => hno x (TransGen.mono hmono _ _ h))
      classical
      refine ⟨fun v => rank v + if ReflTransGen (E es') b v then rank a + 1 else 0, ?_⟩
      intro e he
      rcases List.mem_cons.1 he with rfl | he
      · have hna : ¬ ReflTransGen (E es') b a := by
          intro h
          apply hno a
          have h1 : TransGen (E ((a, b) :: es')) a b := TransGen.single (List.mem_cons_self ..)
          exact TransGen.trans_left h1 (ReflTransGen.mono hmono _ _ h)
        simp only [hna, if_false, ReflTransGen.refl, if_true]
        omega
      · have := hr e he
        by_cases hu : ReflTransGen (E es') b e.1
        · have hv : ReflTransGen (E es') b e.2 := hu.tail he
          simp only [hu, hv, if_true]; omega
        · simp only [hu, if_false]; omega

/-! ## the documented definition, globally and per tracklet -/
/-- Documented definition (docs/tracking.md) for a labelling given as (node, id) pairs:
adjacent labelled nodes share an id exactly when the edge between them is a tracklet edge, and
nodes with equal ids are connected through tracklet edges. -/
structure TrackletSpec (nl : List (α × L)) (es : List (α × α)) : Prop where
  edge_iff : ∀ u v l l', (u, l) ∈ nl → (v, l') ∈ nl → E es u v → (l = l' ↔ T es u v)
  connected : ∀ a b l, (a, l) ∈ nl → (b, l) ∈ nl → ReflTransGen (symT es) a b

/-- the same when some nodes carry no id (flagged missing): additionally no tracklet edge joins a
labelled and an unlabelled node (a tracklet must not be extendable into an unlabelled node) -/
structure TrackletSpecMasked (nl : List (α × L)) (es : List (α × α)) : Prop
    extends TrackletSpec nl es where
  closed : ∀ a b, T es a b → ((∃ l, (a, l) ∈ nl) ↔ (∃ l, (b, l) ∈ nl))

theorem good_of_not_label (nl : List (α × L)) (es : List (α × α)) (t : L)
    (h : ¬ ∃ u, (u, t) ∈ nl) : GoodTracklet nl es t :=
  ⟨fun a _ hab => absurd ⟨a, hab.2.1⟩ h, fun a _ ha _ => absurd ⟨a, ha⟩ h,
   fun a b _ => ⟨fun ha => absurd ⟨a, ha⟩ h, fun hb => absurd ⟨b, hb⟩ h⟩⟩

theorem good_of_spec (nl : List (α × L)) (es : List (α × α))
    (h : TrackletSpecMasked nl es) (t : L) : GoodTracklet nl es t := by
  have hmax : ∀ a b, T es a b → ((a, t) ∈ nl ↔ (b, t) ∈ nl) := by
    intro a b hT
    constructor
    · intro ha
      obtain ⟨l', hb⟩ := (h.closed a b hT).1 ⟨t, ha⟩
      have : t = l' := (h.edge_iff a b t l' ha hb hT.1).2 hT
      subst this; exact hb
    · intro hb
      obtain ⟨l', ha⟩ := (h.closed a b hT).2 ⟨t, hb⟩
      have : l' = t := (h.edge_iff a b l' t ha hb hT.1).2 hT
      subst this; exact ha
  refine ⟨?_, ?_, hmax⟩
  · rintro a b ⟨hab, ha, hb⟩
    exact (h.edge_iff a b t t ha hb hab).1 rfl
  · intro a b ha hb
    have hconn := h.connected a b t ha hb
    have key : ∀ x, ReflTransGen (symT es) a x →
        (x, t) ∈ nl ∧ ReflTransGen (AdjS nl es t) a x := by
      intro x hax
      induction hax with
      | refl => exact ⟨ha, ReflTransGen.refl⟩
      | @tail x y _ hxy ih =>
        obtain ⟨hx, hpath⟩ := ih
        rcases hxy with hT | hT
        · have hy := (hmax x y hT).1 hx
          exact ⟨hy, hpath.tail (Or.inl ⟨hT.1, hx, hy⟩)⟩
        · have hy := (hmax y x hT).2 hx
          exact ⟨hy, hpath.tail (Or.inr ⟨hT.1, hy, hx⟩)⟩
    exact (key b hconn).2

theorem spec_of_good (nl : List (α × L)) (es : List (α × α))
    (huniq : ∀ u l l', (u, l) ∈ nl → (u, l') ∈ nl → l = l')
    (h : ∀ t, GoodTracklet nl es t) : TrackletSpecMasked nl es := by
  refine ⟨⟨?_, ?_⟩, ?_⟩
  · intro u v l l' hu hv huv
    constructor
    · rintro rfl; exact (h l).inner_T u v ⟨huv, hu, hv⟩
    · intro hT
      exact huniq v l l' (((h l).maximal u v hT).1 hu) hv
  · intro a b l ha hb
    have key : ∀ x, ReflTransGen (AdjS nl es l) a x → ReflTransGen (symT es) a x := by
      intro x hx
      induction hx with
      | refl => exact ReflTransGen.refl
      | tail _ hxy ih =>
        refine ih.tail ?_
        rcases hxy with hxy | hxy
        · exact Or.inl ((h l).inner_T _ _ hxy)
        · exact Or.inr ((h l).inner_T _ _ hxy)
    exact key b ((h l).connected a b ha hb)
  · intro a b hT
    constructor
    · rintro ⟨l, ha⟩; exact ⟨l, ((h l).maximal a b hT).1 ha⟩
    · rintro ⟨l, hb⟩; exact ⟨l, ((h l).maximal a b hT).2 hb⟩

/-- when every edge endpoint is a labelled node the extra clause is vacuous -/
theorem masked_iff_spec (nl : List (α × L)) (es : List (α × α))
    (hV : ∀ e ∈ es, e.1 ∈ nl.map (·.1) ∧ e.2 ∈ nl.map (·.1)) :
    TrackletSpecMasked nl es ↔ TrackletSpec nl es := by
  constructor
  · intro h; exact h.toTrackletSpec
  · intro h
    refine ⟨h, ?_⟩
    intro a b hT
    obtain ⟨ha, hb⟩ := hV (a, b) hT.1
    obtain ⟨⟨a', la⟩, hma, rfl⟩ := List.mem_map.1 ha
    obtain ⟨⟨b', lb⟩, hmb, rfl⟩ := List.mem_map.1 hb
    exact ⟨fun _ => ⟨lb, hmb⟩, fun _ => ⟨la, hma⟩⟩

theorem uniq_of_nodup (nl : List (α × L)) (h : (nl.map (·.1)).Nodup) :
    ∀ u l l', (u, l) ∈ nl → (u, l') ∈ nl → l = l' := by
  induction nl with
  | nil => intro u l l' h1; simp at h1
  | cons p t ih =>
    simp only [List.map_cons, List.nodup_cons, List.mem_map, not_exists, not_and] at h
    intro u l l' h1 h2
    rcases List.mem_cons.1 h1 with e1 | m1 <;> rcases List.mem_cons.1 h2 with e2 | m2
    · rw [← e1] at e2; cases e2; rfl
    · subst e1; exact absurd rfl (h.1 (u, l') m2)
    · subst e2; exact absurd rfl (h.1 (u, l) m1)
    · exact ih h.2 u l l' m1 m2

/-! ## `_nodes_with_id` -/
theorem nodesWithId_none (nodes : List α) (values : List L) :
    nodesWithId nodes values none = some (nodes.zip values) := rfl

theorem filterMap_zip_sublist {β : Type} (zs : List β) (m : List Bool) :
    ((zs.zip m).filterMap fun p => if p.2 then none else some p.1).Sublist zs := by
  induction zs generalizing m with
  | nil => simp
  | cons z zs ih =>
    cases m with
    | nil => simp
    | cons b m =>
      simp only [List.zip_cons_cons, List.filterMap_cons]
      cases b
      · simp only [Bool.false_eq_true, if_false]
        exact List.Sublist.cons_cons _ (ih m)
      · simp only [if_true]
        exact List.Sublist.cons _ (ih m)

theorem map_fst_zip_sublist {β γ : Type} (l1 : List β) (l2 : List γ) :
    ((l1.zip l2).map (·.1)).Sublist l1 := by
  induction l1 generalizing l2 with
  | nil => simp
  | cons a t ih =>
    cases l2 with
    | nil => simp
    | cons b t2 =>
      simp only [List.zip_cons_cons, List.map_cons]
      exact List.Sublist.cons_cons _ (ih t2)

theorem nodesWithId_sublist (nodes : List α) (values : List L) (m : List Bool)
    (nl : List (α × L)) (h : nodesWithId nodes values (some m) = some nl) :
    nl.Sublist (nodes.zip values) := by
  unfold nodesWithId at h
  simp only at h
  split at h
  · cases h
    exact filterMap_zip_sublist _ _
  · cases h

/-- a (node, id) pair survives iff it sits at a position whose flag is `false` -/
theorem mem_nodesWithId (nodes : List α) (values : List L) (m : List Bool)
    (nl : List (α × L)) (h : nodesWithId nodes values (some m) = some nl) (p : α × L) :
    p ∈ nl ↔ (p, false) ∈ (nodes.zip values).zip m := by
  unfold nodesWithId at h
  simp only at h
  split at h
  · cases h
    simp only [List.mem_filterMap]
    constructor
    · rintro ⟨⟨q, b⟩, hm, hq⟩
      cases b
      · simp only [Bool.false_eq_true, if_false, Option.some.injEq] at hq
        subst hq; exact hm
      · simp at hq
    · intro hm
      exact ⟨(p, false), hm, by simp⟩
  · cases h

theorem nodesWithId_nodup (nodes : List α) (values : List L) (m : Option (List Bool))
    (nl : List (α × L)) (h : nodesWithId nodes values m = some nl) (hn : nodes.Nodup) :
    (nl.map (·.1)).Nodup := by
  have hsub : nl.Sublist (nodes.zip values) := by
    cases m with
    | none => rw [nodesWithId_none] at h; cases h; exact List.Sublist.refl _
    | some m => exact nodesWithId_sublist nodes values m nl h
  have h1 : (nl.map (·.1)).Sublist ((nodes.zip values).map (·.1)) := hsub.map _
  have h2 : ((nodes.zip values).map (·.1)).Sublist nodes :=
    map_fst_zip_sublist _ _
  exact (h1.trans h2).nodup hn

end Geff.Tracklet
