import Gen.MockData
import GeffProofs.MockData
/-! Helper lemmas: the source-translated mock-data generators `Gen.MockData.*` (translator T24) equal the
hand-written model `Geff.MockData.*`.

T24 emits every top-level `if` paragraph of `create_dummy_in_mem_geff` as a definition of its own
(`blockIncludeT … blockIncludeMissing`: the variables it reads are parameters, those it changes are
returned) and the function itself as the chain of these paragraphs.  Each paragraph is proved equal to the
corresponding step of the model for ALL arguments:
* `blockT_eq … blockX_eq` — the four axis paragraphs = `axStep` (the model's `addAxis` when requested);
* `blockEdges_eq` — the `(0, 2)` reshape;
* `blockXn_eq`, `blockXe_eq` — the extra-property paragraphs = the model's `extras`; the generated `for`
  loop is characterised by the hand-written one-step specification `stepSpec` (= the model's `stepOut`
  + insertion) and an induction over the items (`forIn_extras`); the generated loop body is consumed by
  unification (`show (forIn … _ >>= _) = _; rw [forIn_extras]`);
* `blockVl_eq` — the var-length paragraph = `withVarLength` incl. the D15 boundary; the generated loop
  over `range(num_nodes)` is characterised by the invariant `vlState n k` (`forIn_cubes`, `vl_step`);
* `blockMs_eq` — the sparse paragraph = `withSparse` on both sides (`everyOther_eq`, `mask_eq`);
and `dummy_eq` composes them: `create_dummy_in_mem_geff` as written = the model, for every parameter
record.  `mock_eq` and the wrapper lemmas do the same for the forwarding layer. -/
namespace GeffProofs.MockDataGen
open Geff.MockData Geff.PyDoMock

theorem bind_pure' {α : Type} (x : Outcome α) : (x >>= fun t => pure t) = x := by cases x <;> rfl

@[simp] theorem ok_bind {α β : Type} (v : α) (f : α → Outcome β) : (Outcome.ok v >>= f) = f v := rfl
@[simp] theorem ve_bind {α β : Type} (f : α → Outcome β) : (Outcome.valueError >>= f) = .valueError := rfl
@[simp] theorem other_bind {α β : Type} (n : String) (f : α → Outcome β) : (Outcome.other n >>= f) = .other n := rfl
@[simp] theorem pure_eq {α : Type} (v : α) : (pure v : Outcome α) = .ok v := rfl

theorem dictGet_dictSet {β : Type} (d : Dict β) (k : String) (v : β) : dictGet? (dictSet d k v) k = some v := by
  unfold dictGet? dictSet
  split
  · rename_i h
    induction d with
    | nil => simp at h
    | cons x t ih =>
      simp only [List.map_cons, List.find?_cons]
      by_cases hx : x.1 == k
      · simp [hx]
      · simp only [hx, Bool.false_eq_true, ↓reduceIte]
        simp only [List.any_cons, hx, Bool.false_or] at h
        simpa using ih h
  · rename_i h
    simp only [List.find?_append]
    have : List.find? (fun kv => kv.1 == k) d = none := by
      rw [List.find?_eq_none]; intro x hx hk; exact h (List.any_eq_true.2 ⟨x, hx, hk⟩)
    simp [this]

theorem addAxis_eq (ok : Bool) (n : Nat) (props : Dict PropOut) (axes : List AxisOut) (name ty unit d : String)
    (v : Values) :
    Gen.MockData.addAxis ok n props axes name ty unit ⟨npName d, n, .vals v⟩ =
      .ok (dictSet props name (axisTriple n name unit d v).2.1,
           axes ++ [{ name := name, type := ty, unit := unit, hasMinMax := decide (n > 0) }],
           (name, (axisTriple n name unit d v).2.2)) := by
  unfold Gen.MockData.addAxis
  by_cases hn : n > 0
  · have h0 : ¬ n = 0 := by omega
    simp [mkPropDict, hn, arrMin, arrMax, h0, dictGetItem, dictGet_dictSet, createPropsMetadata, axisTriple, mkAxis]
  · have h0 : n = 0 := by omega
    simp [mkPropDict, h0, dictGetItem, dictGet_dictSet, createPropsMetadata, axisTriple, mkAxis]

theorem compM_ok {α β : Type} (f : α → Outcome β) (g : α → β) (l : List α) (h : ∀ a ∈ l, f a = .ok (g a)) :
    compM f l = .ok (l.map g) := by
  induction l with
  | nil => rfl
  | cons a t ih =>
    simp only [compM, h a (by simp), ih (fun b hb => h b (by simp [hb])), List.map_cons]

theorem tColumn_eq (n : Nat) :
    compM (fun i => do let t1 ← pyFloorDiv (i * 5) n; pure (t1 + 1)) (List.range n) =
      .ok ((List.range n).map (fun i => i * 5 / n + 1)) := by
  apply compM_ok
  intro i hi
  have : n ≠ 0 := by intro h; subst h; simp at hi
  simp [pyFloorDiv, this]

theorem tColumn_ints (n : Nat) : natInts ((List.range n).map (fun i => i * 5 / n + 1)) = tValues n := by
  simp [natInts, tValues, Int.natCast_ediv]

/-- one `if include_*:` paragraph in the model's words -/
def axStep (n : Nat) (c : Bool) (name type unit dtype : String) (values : Values) (s : Acc × List AxisOut) :
    Acc × List AxisOut :=
  if c then Geff.MockData.addAxis n s name type unit dtype values else s

def axOut (s : Acc × List AxisOut) : Dict PropOut × List AxisOut × List PropMeta := (s.1.props, s.2, s.1.metas)

theorem blockT_eq (ok : Bool) (dts : AxisDtypes) (n : Nat) (c : Bool) (s : Acc × List AxisOut) :
    Gen.MockData.blockIncludeT ok dts n c s.1.props s.1.metas s.2 =
      .ok (axOut (axStep n c "t" "time" "second" dts.time (.ints (tValues n)) s)) := by
  unfold Gen.MockData.blockIncludeT
  cases c
  · simp [axStep, axOut]
  · rw [tColumn_eq]
    simp [axStep, axOut, npArrayInts, tColumn_ints, addAxis_eq, Geff.MockData.addAxis, Acc.push, axisTriple]

theorem blockZ_eq (ok : Bool) (dts : AxisDtypes) (n : Nat) (c : Bool) (s : Acc × List AxisOut) :
    Gen.MockData.blockIncludeZ ok dts n c s.1.props s.1.metas s.2 =
      .ok (axOut (axStep n c "z" "space" "nanometer" dts.position (.linspace "0.5" "0.1" n) s)) := by
  unfold Gen.MockData.blockIncludeZ
  cases c
  · simp [axStep, axOut]
  · simp [axStep, axOut, npLinspace, addAxis_eq, Geff.MockData.addAxis, Acc.push, axisTriple]

theorem blockY_eq (ok : Bool) (dts : AxisDtypes) (n : Nat) (c : Bool) (s : Acc × List AxisOut) :
    Gen.MockData.blockIncludeY ok dts n c s.1.props s.1.metas s.2 =
      .ok (axOut (axStep n c "y" "space" "nanometer" dts.position (.linspace "100.0" "500.0" n) s)) := by
  unfold Gen.MockData.blockIncludeY
  cases c
  · simp [axStep, axOut]
  · simp [axStep, axOut, npLinspace, addAxis_eq, Geff.MockData.addAxis, Acc.push, axisTriple]

theorem blockX_eq (ok : Bool) (dts : AxisDtypes) (n : Nat) (c : Bool) (s : Acc × List AxisOut) :
    Gen.MockData.blockIncludeX ok dts n c s.1.props s.1.metas s.2 =
      .ok (axOut (axStep n c "x" "space" "nanometer" dts.position (.linspace "1.0" "0.1" n) s)) := by
  unfold Gen.MockData.blockIncludeX
  cases c
  · simp [axStep, axOut]
  · simp [axStep, axOut, npLinspace, addAxis_eq, Geff.MockData.addAxis, Acc.push, axisTriple]

theorem blockEdges_eq (ok : Bool) (es : List (Int × Int)) (d : String) :
    Gen.MockData.blockEdges ok (npArrayPairs es d) = .ok ⟨npName d, es, [es.length, 2]⟩ := by
  unfold Gen.MockData.blockEdges
  cases es <;> simp [npArrayPairs, EdgeArr.shape0, EdgeArr.reshape02]


/-! ### the var-length paragraph -/
def vlState (n k : Nat) : Arr := ⟨"object", n, .obj (cubeSlots k ++ List.replicate (n - k) none)⟩

theorem cubeSlots_succ (k : Nat) :
    cubeSlots (k + 1) = cubeSlots k ++ [some { shape := [k, k, k], dtype := "uint64", fill := (k : Int) }] := by
  simp [cubeSlots, List.range_succ]

theorem cubeSlots_length (k : Nat) : (cubeSlots k).length = k := by simp [cubeSlots]

theorem forIn_cubes (n : Nat) (body : Nat → Arr → Outcome (ForInStep Arr))
    (hstep : ∀ k, k < n → body k (vlState n k) = .ok (.yield (vlState n (k + 1)))) :
    ∀ m k, k + m = n → forIn (List.range' k m) (vlState n k) body = .ok (vlState n n) := by
  intro m
  induction m with
  | zero => intro k hk; have : k = n := by omega
            subst this; simp
  | succ m ih =>
    intro k hk
    rw [List.range'_succ, List.forIn_cons, hstep k (by omega)]
    simp only [ok_bind]
    exact ih (k + 1) (by omega)

theorem vl_step (n k : Nat) (h : k < n) :
    setItemObj (vlState n k) k (Elem.times (npOnes [k, k, k] "uint64") k) = .ok (vlState n (k + 1)) := by
  have hn : n - k = (n - (k + 1)) + 1 := by omega
  have hnp : npName "uint64" = "uint64" := by decide
  simp only [setItemObj, vlState]
  rw [hn, List.replicate_succ]
  have hlen : k < (cubeSlots k ++ none :: List.replicate (n - (k + 1)) none).length := by
    simp [cubeSlots_length]
  simp only [hlen, ↓reduceIte]
  rw [cubeSlots_succ]
  simp [List.set_append, cubeSlots_length, Elem.times, npOnes, hnp]

theorem firstOnly_eq (n : Nat) (h : n > 0) : (List.replicate n false).set 0 true = firstOnly n := by
  cases n with
  | zero => omega
  | succ m =>
    simp only [firstOnly, List.replicate_succ, List.set_cons_zero]
    apply List.ext_getElem
    · simp
    · intro i h1 h2
      cases i <;> simp

theorem everyOther_eq (n : Nat) : setEveryOther (npZerosBool n) = everyOther n := by
  simp only [setEveryOther, npZerosBool, everyOther, List.length_replicate]
  apply List.map_congr_left
  intro i hi
  have hlt := List.mem_range.1 hi
  by_cases h : i % 2 == 0 <;> simp [h, hlt, List.getD_eq_getElem?_getD, List.getElem?_replicate]

def outPM (a : Acc) : Dict PropOut × List PropMeta := (a.props, a.metas)

theorem blockVl_eq (ok : Bool) (n : Nat) (vl : Bool) (a : Acc) :
    Gen.MockData.blockIncludeVarlength ok n vl a.props a.metas =
      if vl && n == 0 && !ok then .other "IndexError" else .ok (outPM (withVarLength vl n a)) := by
  unfold Gen.MockData.blockIncludeVarlength
  cases vl
  · simp [withVarLength, outPM]
  · have hloop : forIn (List.range n) (npEmptyObj n) (fun node __s =>
          have values := __s;
          have shape := List.replicate 3 node;
          do
          let t1 ← setItemObj values node ((npOnes shape "uint64").times node)
          have values : Arr := t1
          pure (ForInStep.yield values)) = .ok (vlState n n) := by
      rw [List.range_eq_range']
      have h0 : npEmptyObj n = vlState n 0 := by simp [npEmptyObj, vlState, cubeSlots]
      rw [h0]
      apply forIn_cubes n _ _ n 0 (by omega)
      intro k hk
      simp [vl_step n k hk]
    simp only [Bool.true_and]
    by_cases hn : n = 0
    · subst hn
      cases ok <;> simp [npEmptyObj, mkPropDict, cubeSlots, npZerosBool, createPropsMetadata, withVarLength, outPM,
        Acc.push, varLengthTriple, varLengthProp, firstOnly]
    · have hpos : n > 0 := by omega
      simp only [hloop]
      simp [hn, hpos, setItemMask, npZerosBool, firstOnly_eq n hpos, mkPropDict, vlState, createPropsMetadata, elemDtype,
        withVarLength, outPM, Acc.push, varLengthTriple, varLengthProp]


/-! ### the sparse paragraph -/
theorem mask_eq (j : Nat) :
    (if decide (j > 0) = true then setEveryOther (npZerosBool j) else npZerosBool j) = everyOther j := by
  by_cases h : j > 0
  · simp [h, everyOther_eq]
  · have : j = 0 := by omega
    subst this; simp [npZerosBool, everyOther]

theorem blockMs_eq (ok : Bool) (n : Nat) (ms : Bool) (a e : Acc) (edges : EdgeArr) (k : Nat)
    (hk : edges.shape = [k, 2]) :
    Gen.MockData.blockIncludeMissing ok n ms a.props a.metas edges e.props e.metas =
      .ok ((withSparse ms n a).props, (withSparse ms k e).props, (withSparse ms n a).metas,
           (withSparse ms k e).metas) := by
  unfold Gen.MockData.blockIncludeMissing
  cases ms
  · simp [withSparse]
  · have hl : EdgeArr.pyLen edges = .ok k := by simp [EdgeArr.pyLen, hk]
    have hnp : npName "float64" = "float64" := by decide
    have e1 := everyOther_eq
    have z0 : npZerosBool 0 = everyOther 0 := rfl
    cases n <;> cases k <;>
      simp [hl, e1, z0, hnp, npArange, natInts, mkPropDict, createPropsMetadata, withSparse, Acc.push,
        sparseTriple, sparseProp, sparseMeta]

/-! ### the extra-property paragraphs -/
def stepSpec (len : Nat) (kv : PyKey × Req) (props : Dict PropOut) (metas : List PropMeta) :
    Outcome (ForInStep (Dict PropOut × List PropMeta)) :=
  match stepOut len kv with
  | .ok t => .ok (.yield (dictSet props t.1 t.2.1, metas ++ [(t.1, t.2.2)]))
  | .valueError => .valueError
  | .other n => .other n

def outAcc : Outcome Acc → Outcome (Dict PropOut × List PropMeta)
  | .ok a => .ok (a.props, a.metas)
  | .valueError => .valueError
  | .other n => .other n

theorem forIn_extras (len : Nat) (body : PyKey × Req → Dict PropOut × List PropMeta → Outcome (ForInStep (Dict PropOut × List PropMeta)))
    (hstep : ∀ kv props metas, body kv (props, metas) = stepSpec len kv props metas) :
    ∀ items props metas, forIn items (props, metas) body = outAcc (extraLoop len ⟨props, metas⟩ items) := by
  intro items
  induction items with
  | nil => intro props metas; simp [extraLoop, outAcc]
  | cons it rest ih =>
    intro props metas
    rw [List.forIn_cons, hstep]
    simp only [stepSpec, extraLoop, extraStep]
    cases hs : stepOut len it with
    | ok t => simp only [ok_bind]; rw [ih]; rfl
    | valueError => simp [outAcc]
    | other n => simp [outAcc]

theorem dtypeStr_eq : Gen.MockData.DTypeStr = dtypeStrs := by decide

theorem blockXn_eq (ok : Bool) (n : Nat) (x : Extra) (a : Acc) :
    Gen.MockData.blockExtraNodeProps ok n x a.props a.metas = outAcc (extras n a x) := by
  obtain ⟨props0, metas0⟩ := a
  unfold Gen.MockData.blockExtraNodeProps
  cases x with
  | none => simp [Extra.isNone, extras, outAcc]
  | notDict => simp [Extra.isNone, Extra.isDict, raiseValueError, extras, outAcc]
  | dict items =>
    simp only [Extra.isNone, Extra.isDict, extraItems, ok_bind, Bool.not_false, Bool.not_true, if_true,
      Bool.false_eq_true, if_false, pure_eq, extras]
    show (forIn items (props0, metas0) _ >>= _) = _
    rw [forIn_extras n]
    · cases extraLoop n ⟨props0, metas0⟩ items <;> simp [outAcc]
    · intro kv props metas
      obtain ⟨k, r⟩ := kv
      cases k with
      | none => simp [stepSpec, stepOut, narrowStr, raiseValueError]
      | some k =>
        cases r with
        | auto d =>
          by_cases hd : d ∈ dtypeStrs
          · by_cases h1 : d = "str"
            · subst h1
              have hs : "str" ∈ dtypeStrs := by decide
              simp [stepSpec, stepOut, narrowStr, Req.isStr, Req.str, dtypeStr_eq, hs, autoValues, npArrayStrs,
                mkPropDict, dictGetItem, dictGet_dictSet, createPropsMetadata]
            · by_cases h2 : (d = "int" ∨ d = "int8" ∨ d = "uint8" ∨ d = "int16" ∨ d = "uint16")
              · simp [stepSpec, stepOut, narrowStr, Req.isStr, Req.str, dtypeStr_eq, hd, h1, h2, autoValues, intStrs, npArange, natInts,
                  mkPropDict, dictGetItem, dictGet_dictSet, createPropsMetadata]
              · simp [stepSpec, stepOut, narrowStr, Req.isStr, Req.str, dtypeStr_eq, hd, h1, h2, autoValues, intStrs, npLinspace,
                  mkPropDict, dictGetItem, dictGet_dictSet, createPropsMetadata]
          · simp [stepSpec, stepOut, narrowStr, Req.isStr, Req.str, dtypeStr_eq, hd, raiseValueError]
        | arr d l tag =>
          by_cases hl : l = n
          · simp [stepSpec, stepOut, narrowStr, Req.isStr, Req.isNdarray, Req.pyLen, Req.arr', hl, mkPropDict, dictGetItem,
              dictGet_dictSet, createPropsMetadata]
          · simp [stepSpec, stepOut, narrowStr, Req.isStr, Req.isNdarray, Req.pyLen, hl, raiseValueError]
        | bad => simp [stepSpec, stepOut, narrowStr, Req.isStr, Req.isNdarray, raiseValueError]

theorem blockXe_eq (ok : Bool) (n : Nat) (x : Extra) (edges : EdgeArr) (a : Acc) (hk : edges.shape = [n, 2]) :
    Gen.MockData.blockExtraEdgeProps ok x edges a.props a.metas = outAcc (extras n a x) := by
  have hpl : EdgeArr.pyLen edges = .ok n := by simp [EdgeArr.pyLen, hk]
  obtain ⟨props0, metas0⟩ := a
  unfold Gen.MockData.blockExtraEdgeProps
  cases x with
  | none => simp [Extra.isNone, extras, outAcc]
  | notDict => simp [Extra.isNone, Extra.isDict, raiseValueError, extras, outAcc]
  | dict items =>
    simp only [Extra.isNone, Extra.isDict, extraItems, ok_bind, Bool.not_false, Bool.not_true, if_true,
      Bool.false_eq_true, if_false, pure_eq, extras]
    show (forIn items (props0, metas0) _ >>= _) = _
    rw [forIn_extras n]
    · cases extraLoop n ⟨props0, metas0⟩ items <;> simp [outAcc]
    · intro kv props metas
      obtain ⟨k, r⟩ := kv
      cases k with
      | none => simp [hpl, stepSpec, stepOut, narrowStr, raiseValueError]
      | some k =>
        cases r with
        | auto d =>
          by_cases hd : d ∈ dtypeStrs
          · by_cases h1 : d = "str"
            · subst h1
              have hs : "str" ∈ dtypeStrs := by decide
              simp [hpl, stepSpec, stepOut, narrowStr, Req.isStr, Req.str, dtypeStr_eq, hs, autoValues, npArrayStrs,
                mkPropDict, dictGetItem, dictGet_dictSet, createPropsMetadata]
            · by_cases h2 : (d = "int" ∨ d = "int8" ∨ d = "uint8" ∨ d = "int16" ∨ d = "uint16")
              · simp [hpl, stepSpec, stepOut, narrowStr, Req.isStr, Req.str, dtypeStr_eq, hd, h1, h2, autoValues, intStrs, npArange, natInts,
                  mkPropDict, dictGetItem, dictGet_dictSet, createPropsMetadata]
              · simp [hpl, stepSpec, stepOut, narrowStr, Req.isStr, Req.str, dtypeStr_eq, hd, h1, h2, autoValues, intStrs, npLinspace,
                  mkPropDict, dictGetItem, dictGet_dictSet, createPropsMetadata]
          · simp [hpl, stepSpec, stepOut, narrowStr, Req.isStr, Req.str, dtypeStr_eq, hd, raiseValueError]
        | arr d l tag =>
          by_cases hl : l = n
          · simp [hpl, stepSpec, stepOut, narrowStr, Req.isStr, Req.isNdarray, Req.pyLen, Req.arr', hl, mkPropDict, dictGetItem,
              dictGet_dictSet, createPropsMetadata]
          · simp [hpl, stepSpec, stepOut, narrowStr, Req.isStr, Req.isNdarray, Req.pyLen, hl, raiseValueError]
        | bad => simp [hpl, stepSpec, stepOut, narrowStr, Req.isStr, Req.isNdarray, raiseValueError]


def genDummy (ok : Bool) (p : Params) : Outcome Geff :=
  Gen.MockData.createDummyInMemGeff ok p.idDtype ⟨p.posDtype, p.timeDtype⟩ p.directed p.numNodes p.numEdges
    p.extraNode p.extraEdge p.t p.z p.y p.x p.vl p.ms

theorem dummy_eq (ok : Bool) (p : Params) : genDummy ok p = createDummyInMemGeff ok p := by
  obtain ⟨idD, tD, pD, dir, n, m, xn, xe, t, z, y, x, vl, ms⟩ := p
  unfold genDummy Gen.MockData.createDummyInMemGeff createDummyInMemGeff
  dsimp only
  have hax : axesAcc ⟨idD, tD, pD, dir, n, m, xn, xe, t, z, y, x, vl, ms⟩ =
      axStep n x "x" "space" "nanometer" pD (.linspace "1.0" "0.1" n)
        (axStep n y "y" "space" "nanometer" pD (.linspace "100.0" "500.0" n)
          (axStep n z "z" "space" "nanometer" pD (.linspace "0.5" "0.1" n)
            (axStep n t "t" "time" "second" tD (.ints (tValues n)) (({} : Acc), [])))) := rfl
  have hT : Gen.MockData.blockIncludeT ok ⟨pD, tD⟩ n t [] [] [] =
      .ok (axOut (axStep n t "t" "time" "second" tD (.ints (tValues n)) (({} : Acc), []))) :=
    blockT_eq ok ⟨pD, tD⟩ n t (({} : Acc), [])
  rw [hax, hT]; simp only [ok_bind, axOut]
  rw [blockZ_eq]; simp only [ok_bind, axOut]
  rw [blockY_eq]; simp only [ok_bind, axOut]
  rw [blockX_eq]; simp only [ok_bind, axOut]
  generalize axStep n x "x" "space" "nanometer" pD (.linspace "1.0" "0.1" n)
        (axStep n y "y" "space" "nanometer" pD (.linspace "100.0" "500.0" n)
          (axStep n z "z" "space" "nanometer" pD (.linspace "0.5" "0.1" n)
            (axStep n t "t" "time" "second" tD (.ints (tValues n)) (({} : Acc), [])))) = s4
  cases hg : Gen.MockEdges.gen dir (n : Int) (m : Int) with
  | error e => simp [castEdges]
  | ok es =>
    simp only [castEdges, ok_bind]
    rw [blockEdges_eq]; simp only [ok_bind]
    rw [blockXn_eq]
    cases hxn : extras n s4.1 xn with
    | valueError => simp [outAcc]
    | other e => simp [outAcc]
    | ok na =>
      simp only [outAcc, ok_bind]
      have hXe : Gen.MockData.blockExtraEdgeProps ok xe ⟨npName idD, es, [es.length, 2]⟩ [] [] =
          outAcc (extras es.length {} xe) := blockXe_eq ok es.length xe _ ({} : Acc) rfl
      rw [hXe]
      cases hxe : extras es.length {} xe with
      | valueError => simp [outAcc]
      | other e => simp [outAcc]
      | ok ea =>
        simp only [outAcc, ok_bind]
        rw [blockVl_eq]
        by_cases hc : (vl && n == 0 && !ok) = true
        · simp [hc]
        · simp only [hc, Bool.false_eq_true, if_false, ok_bind, outPM]
          rw [blockMs_eq ok n ms _ _ _ es.length rfl]
          simp [createOrUpdateMetadata, addOrUpdatePropsMetadata, mkInMemoryGeff, npArange, assemble, metaDict]


def genMock (ok : Bool) (p : Params) : Outcome (MemStore × Geff) :=
  Gen.MockData.createMockGeff ok p.idDtype ⟨p.posDtype, p.timeDtype⟩ p.directed p.numNodes p.numEdges
    p.extraNode p.extraEdge p.t p.z p.y p.x p.vl p.ms

/-- **`create_mock_geff` as written**: the inner generator as written on the same thirteen arguments,
one write into a fresh store, both returned. -/
theorem mock_eq (ok : Bool) (a : String) (b : AxisDtypes) (c : Bool) (n m : Nat) (xn xe : Extra) (t z y x vl ms : Bool) :
    Gen.MockData.createMockGeff ok a b c n m xn xe t z y x vl ms =
      match Gen.MockData.createDummyInMemGeff ok a b c n m xn xe t z y x vl ms with
      | .ok g => .ok (⟨[g]⟩, g)
      | .valueError => .valueError
      | .other e => .other e := by
  unfold Gen.MockData.createMockGeff
  cases Gen.MockData.createDummyInMemGeff ok a b c n m xn xe t z y x vl ms <;>
    simp [writeArraysInto, writeArrays, MemStore.new]

theorem simple2d_eq (ok : Bool) (n m : Nat) (d : Bool) : Gen.MockData.createSimple2dGeff ok n m d =
    genMock ok (simpleParams n m d false true true) := by
  rfl

theorem simple3d_eq (ok : Bool) (n m : Nat) (d : Bool) : Gen.MockData.createSimple3dGeff ok n m d =
    genMock ok (simpleParams n m d true true true) := by
  rfl

theorem simpleTemporal_eq (ok : Bool) (n m : Nat) (d : Bool) : Gen.MockData.createSimpleTemporalGeff ok n m d =
    genMock ok (simpleParams n m d false false false) := by
  rfl

theorem empty_eq (ok d : Bool) : Gen.MockData.createEmptyGeff ok d =
    genMock ok { idDtype := "uint", timeDtype := "float64", posDtype := "float64", directed := d,
                 numNodes := 0, numEdges := 0, t := false, z := false, y := false, x := false } := by
  rfl

/-- a model result `(written, geff)` read as a generated one `(store, geff)` -/
def embed : Outcome (Written × Geff) → Outcome (MemStore × Geff)
  | .ok (w, g) => .ok (⟨[w.geff]⟩, g)
  | .valueError => .valueError
  | .other e => .other e

/-- if the inner generator as written agrees with the model at `p`, so does `create_mock_geff` -/
theorem genMock_of_genDummy (ok : Bool) (p : Params) (h : genDummy ok p = createDummyInMemGeff ok p) :
    genMock ok p = embed (createMockGeff ok p) := by
  unfold genMock
  rw [mock_eq]
  have h' : Gen.MockData.createDummyInMemGeff ok p.idDtype ⟨p.posDtype, p.timeDtype⟩ p.directed p.numNodes p.numEdges
      p.extraNode p.extraEdge p.t p.z p.y p.x p.vl p.ms = createDummyInMemGeff ok p := h
  rw [h']
  unfold createMockGeff
  cases createDummyInMemGeff ok p <;> simp [embed, writeArrays]

end GeffProofs.MockDataGen
