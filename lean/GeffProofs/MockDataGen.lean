import Gen.MockData
import GeffProofs.MockData
/-! Helper lemmas: the source-translated mock-data generators `Gen.MockData.*` (translator T24) against
the hand-written model `Geff.MockData.*`.

* `addAxis_eq`: the nested `_add_axis` as written = the model's `addAxis` step (property, axis entry,
  metadata entry) for every node count, name, unit, dtype and value pattern;
* `mock_eq`: `create_mock_geff` as written = "run `create_dummy_in_mem_geff` as written on the SAME
  thirteen arguments, write the result once into a fresh store, return both";
* the four wrappers as written = `create_mock_geff` as written on the documented constants;
* `genParams` / `embed`: how a model parameter record is passed to the generated functions and how a
  model result is read as a generated one. -/
namespace GeffProofs.MockDataGen
open Geff.MockData Geff.PyDoMock

@[simp] theorem ok_bind {α β : Type} (v : α) (f : α → Outcome β) : (Outcome.ok v >>= f) = f v := rfl
@[simp] theorem ve_bind {α β : Type} (f : α → Outcome β) : (Outcome.valueError >>= f) = .valueError := rfl
@[simp] theorem other_bind {α β : Type} (n : String) (f : α → Outcome β) : (Outcome.other n >>= f) = .other n := rfl
@[simp] theorem pure_eq {α : Type} (v : α) : (pure v : Outcome α) = .ok v := rfl

theorem bind_pure' {α : Type} (x : Outcome α) : (x >>= fun t => pure t) = x := by cases x <;> rfl

/-- `d[k] = v; d[k]` -/
theorem dictGet_dictSet {β : Type} (d : Dict β) (k : String) (v : β) : dictGet? (dictSet d k v) k = some v := by
  unfold dictGet? dictSet
  split
  · rename_i h
    induction d with
    | nil => simp at h
    | cons x t ih =>
      simp only [List.map_cons, List.find?_cons]
      by_cases hx : x.1 == k
      · simp [hx]
      · simp only [hx, Bool.false_eq_true, ↓reduceIte]
        simp only [List.any_cons, hx, Bool.false_or] at h
        simpa using ih h
  · rename_i h
    simp only [List.find?_append]
    have : List.find? (fun kv => kv.1 == k) d = none := by
      rw [List.find?_eq_none]; intro x hx hk; exact h (List.any_eq_true.2 ⟨x, hx, hk⟩)
    simp [this]

/-- **`_add_axis` as written** stores the coordinate column under the axis name, appends the axis
(with bounds iff there is a node) and returns the metadata entry — the model's `addAxis` step. -/
theorem addAxis_eq (ok : Bool) (n : Nat) (props : Dict PropOut) (axes : List AxisOut) (name ty unit d : String)
    (v : Values) :
    Gen.MockData.addAxis ok n props axes name ty unit ⟨npName d, n, .vals v⟩ =
      .ok (dictSet props name (axisTriple n name unit d v).2.1,
           axes ++ [{ name := name, type := ty, unit := unit, hasMinMax := decide (n > 0) }],
           (name, (axisTriple n name unit d v).2.2)) := by
  unfold Gen.MockData.addAxis
  by_cases hn : n > 0
  · have h0 : ¬ n = 0 := by omega
    simp [mkPropDict, hn, arrMin, arrMax, h0, dictGetItem, dictGet_dictSet, createPropsMetadata, axisTriple, mkAxis]
  · have h0 : n = 0 := by omega
    simp [mkPropDict, h0, dictGetItem, dictGet_dictSet, createPropsMetadata, axisTriple, mkAxis]

/-- the time column `[(i * 5 // num_nodes) + 1 for i in range(num_nodes)]` as written never divides
by zero and is the model's `tValues` -/
theorem compM_ok {α β : Type} (f : α → Outcome β) (g : α → β) (l : List α) (h : ∀ a ∈ l, f a = .ok (g a)) :
    compM f l = .ok (l.map g) := by
  induction l with
  | nil => rfl
  | cons a t ih =>
    simp only [compM, h a (by simp), ih (fun b hb => h b (by simp [hb])), List.map_cons]

theorem tColumn_eq (n : Nat) :
    compM (fun i => do let t1 ← pyFloorDiv (i * 5) n; pure (t1 + 1)) (List.range n) =
      .ok ((List.range n).map (fun i => i * 5 / n + 1)) := by
  apply compM_ok
  intro i hi
  have : n ≠ 0 := by intro h; subst h; simp at hi
  simp [pyFloorDiv, this]

theorem tColumn_ints (n : Nat) : natInts ((List.range n).map (fun i => i * 5 / n + 1)) = tValues n := by
  simp [natInts, tValues, Int.natCast_ediv]

/-- how a model parameter record is handed to the generated `create_dummy_in_mem_geff` / `create_mock_geff` -/
def genDummy (ok : Bool) (p : Params) : Outcome Geff :=
  Gen.MockData.createDummyInMemGeff ok p.idDtype ⟨p.posDtype, p.timeDtype⟩ p.directed p.numNodes p.numEdges
    p.extraNode p.extraEdge p.t p.z p.y p.x p.vl p.ms

def genMock (ok : Bool) (p : Params) : Outcome (MemStore × Geff) :=
  Gen.MockData.createMockGeff ok p.idDtype ⟨p.posDtype, p.timeDtype⟩ p.directed p.numNodes p.numEdges
    p.extraNode p.extraEdge p.t p.z p.y p.x p.vl p.ms

/-- **`create_mock_geff` as written**: the inner generator as written on the same thirteen arguments,
one write into a fresh store, both returned. -/
theorem mock_eq (ok : Bool) (a : String) (b : AxisDtypes) (c : Bool) (n m : Nat) (xn xe : Extra) (t z y x vl ms : Bool) :
    Gen.MockData.createMockGeff ok a b c n m xn xe t z y x vl ms =
      match Gen.MockData.createDummyInMemGeff ok a b c n m xn xe t z y x vl ms with
      | .ok g => .ok (⟨[g]⟩, g)
      | .valueError => .valueError
      | .other e => .other e := by
  unfold Gen.MockData.createMockGeff
  cases Gen.MockData.createDummyInMemGeff ok a b c n m xn xe t z y x vl ms <;>
    simp [writeArraysInto, writeArrays, MemStore.new]

theorem simple2d_eq (ok : Bool) (n m : Nat) (d : Bool) : Gen.MockData.createSimple2dGeff ok n m d =
    genMock ok (simpleParams n m d false true true) := by
  rfl

theorem simple3d_eq (ok : Bool) (n m : Nat) (d : Bool) : Gen.MockData.createSimple3dGeff ok n m d =
    genMock ok (simpleParams n m d true true true) := by
  rfl

theorem simpleTemporal_eq (ok : Bool) (n m : Nat) (d : Bool) : Gen.MockData.createSimpleTemporalGeff ok n m d =
    genMock ok (simpleParams n m d false false false) := by
  rfl

theorem empty_eq (ok d : Bool) : Gen.MockData.createEmptyGeff ok d =
    genMock ok { idDtype := "uint", timeDtype := "float64", posDtype := "float64", directed := d,
                 numNodes := 0, numEdges := 0, t := false, z := false, y := false, x := false } := by
  rfl

/-- a model result `(written, geff)` read as a generated one `(store, geff)` -/
def embed : Outcome (Written × Geff) → Outcome (MemStore × Geff)
  | .ok (w, g) => .ok (⟨[w.geff]⟩, g)
  | .valueError => .valueError
  | .other e => .other e

/-- if the inner generator as written agrees with the model at `p`, so does `create_mock_geff` -/
theorem genMock_of_genDummy (ok : Bool) (p : Params) (h : genDummy ok p = createDummyInMemGeff ok p) :
    genMock ok p = embed (createMockGeff ok p) := by
  unfold genMock
  rw [mock_eq]
  have h' : Gen.MockData.createDummyInMemGeff ok p.idDtype ⟨p.posDtype, p.timeDtype⟩ p.directed p.numNodes p.numEdges
      p.extraNode p.extraEdge p.t p.z p.y p.x p.vl p.ms = createDummyInMemGeff ok p := h
  rw [h']
  unfold createMockGeff
  cases createDummyInMemGeff ok p <;> simp [embed, writeArrays]

end GeffProofs.MockDataGen
