import GeffProofs.KVHistory
import Gen.StoreGuard
/-! # The generated guard layer (`Gen/StoreGuard.lean`, translator T19) equals the hand-written
key-view model (`GeffModel/KV.lean`)

`Gen.StoreGuard.removeTilde / detectZarrSpecVersion / setupZarrGroup / deleteGeff / checkForGeff` are
regenerated from `geff/core_io/_utils.py` on every run.  Here each is proved equal — as a program:
same mutations, same outcome, on every store state — to a hand-written specification:
`expand`, `detectSpec` (below) and `Geff.KV.setupZarrGroup / deleteGeff / checkForGeff`.  The proofs
use only the monad laws of `Prog`, the definitions of the primitives of `GeffModel/PyDoStore.lean`
and case analysis over the store kind, so a rewrite of the source that translates to the same steps
does not disturb them, while a change of what is done leaves an equality unprovable. -/
set_option linter.unusedSimpArgs false
namespace Geff.StoreGuardGen
open Geff.KV Geff.KV.Prog Geff.PyDoStore Gen.Paths

/-! ## monad plumbing -/

theorem bind_pure_right {α} (p : Prog α) : Prog.bind p Prog.pure = p := by
  apply Prog.ext; intro kv
  simp only [ops_bind, val_bind]
  rcases (p kv).val with e | a <;> simp

theorem bind_pure_unit (p : Prog Unit) : Prog.bind p (fun _ => Prog.pure ()) = p := bind_pure_right p

theorem look_bind' {β} (f : KV → Prog β) (s : KV) : Prog.bind Prog.look f s = f s s := look_bind f s

theorem tryExcept_raise {α} (e : Outcome) (h : Outcome → Prog α) : tryExcept (Prog.raise e) h = h e := by
  funext kv
  simp [tryExcept, PyDoStore.tryCatch, Prog.raise, run_nil]

theorem tryExcept_ok {α} (p : Prog α) (h : Outcome → Prog α) (kv : KV) (ops : List Op) (a : α)
    (hp : p kv = ⟨ops, .ok a⟩) : tryExcept p h kv = ⟨ops, .ok a⟩ := by
  simp [tryExcept, PyDoStore.tryCatch, hp]

theorem tryExcept_err {α} (p : Prog α) (h : Outcome → Prog α) (kv : KV) (e : Outcome)
    (hp : p kv = ⟨[], .error e⟩) : tryExcept p h kv = h e kv := by
  simp [tryExcept, PyDoStore.tryCatch, hp, run_nil]

/-! ## `remove_tilde` -/

/-- specification of `remove_tilde`: a location with `~` becomes the `str` `expanduser` returns -/
def expand : StoreRef → StoreRef
  | .str .home => .str .no
  | .path .home => .str .no
  | .path .inner => .str .inner
  | s => s

theorem removeTilde_eq (d : Docs) (s : StoreRef) : Gen.StoreGuard.removeTilde d s = Prog.pure (expand s) := by
  unfold Gen.StoreGuard.removeTilde
  rcases s with t | t | _ | _ | ⟨l, o⟩ | o <;> try rcases t with _ | _ | _
  all_goals rfl

theorem expand_unexpanded (s : StoreRef) : (expand s).unexpanded = false := by
  rcases s with t | t | _ | _ | ⟨l, o⟩ | o <;> try rcases t with _ | _ | _
  all_goals rfl

theorem expand_kind (s : StoreRef) : (expand s).kind = s.kind := by
  rcases s with t | t | _ | _ | ⟨l, o⟩ | o <;> try rcases t with _ | _ | _
  all_goals rfl

theorem expand_of_expanded (s : StoreRef) (h : s.unexpanded = false) (hm : s.modelled = true) :
    (expand s).kind = s.kind ∧ isStrOrPath (expand s) = isStrOrPath s := by
  rcases s with t | t | _ | _ | ⟨l, o⟩ | o <;> try rcases t with _ | _ | _
  all_goals first | exact ⟨rfl, rfl⟩ | simp [StoreRef.unexpanded, StoreRef.modelled] at h hm


/-! ## `setup_zarr_group` -/

/-- store-like values (everything except the `str` that `store.path` evaluates to) -/
def storeLike : StoreRef → Bool | .pathOfObj _ => false | _ => true

theorem openGroup_a (d : Docs) (s : StoreRef) (f : Fmt) (hu : s.unexpanded = false) (hl : storeLike s = true) :
    openGroup d s .a (some f) = Prog.bind (Geff.KV.setupZarrGroup d f) (fun _ => Prog.pure ⟨s, f⟩) := by
  unfold openGroup
  rcases s with t | t | _ | _ | ⟨l, o⟩ | o <;> simp [hu, storeLike] at hl ⊢ <;> rfl

theorem expand_storeLike (s : StoreRef) (h : storeLike s = true) : storeLike (expand s) = true := by
  rcases s with t | t | _ | _ | ⟨l, o⟩ | o <;> try rcases t with _ | _ | _
  all_goals first | rfl | simp [storeLike] at h

/-- `setup_zarr_group(store, zarr_format=f)` = expand `~`, then `open_group(mode="a", zarr_format=f)` -/
theorem setupZarrGroup_eq (d : Docs) (s : StoreRef) (f : Fmt) (hl : storeLike s = true) :
    Gen.StoreGuard.setupZarrGroup d s f =
      Prog.bind (Geff.KV.setupZarrGroup d f) (fun _ => Prog.pure ⟨expand s, f⟩) := by
  unfold Gen.StoreGuard.setupZarrGroup
  simp only [bind_def, pure_def, removeTilde_eq, pure_bind, zarrVersionStartsWith]
  have h3 : ("3" == "3") = true := by decide
  have h2 : ("2" == "3") = false := by decide
  simp only [h3, h2, Bool.and_false, if_true, Bool.false_eq_true, if_false, pure_bind,
    openGroup_a d (expand s) f (expand_unexpanded s) (expand_storeLike s hl), bind_assoc]


/-! ## `check_for_geff` -/

/-- evaluation of read-only steps -/
theorem bind_apply {α β} (p : Prog α) (f : α → Prog β) (kv : KV) :
    Prog.bind p f kv = match p kv with
      | ⟨ops, .error e⟩ => ⟨ops, .error e⟩
      | ⟨ops, .ok a⟩ => ⟨ops ++ (f a (run kv ops)).ops, (f a (run kv ops)).val⟩ := by
  unfold Prog.bind
  rcases p kv with ⟨ops, v⟩
  cases v <;> rfl

theorem res_eta {α} (r : Res α) : (⟨r.ops, r.val⟩ : Res α) = r := by cases r; rfl

theorem checkForGeff_eq (d : Docs) (s : StoreRef) (zf : Option Fmt) (kv : KV)
    (hu : s.unexpanded = false) (hm : s.modelled = true) :
    Gen.StoreGuard.checkForGeff d s zf kv = ⟨[], .ok (Geff.KV.checkForGeff s.kind kv)⟩ := by
  unfold Gen.StoreGuard.checkForGeff Geff.KV.checkForGeff
  rcases s with t | t | _ | _ | ⟨l, o⟩ | o <;> try rcases t with _ | _ | _
  all_goals first | (simp [StoreRef.unexpanded, StoreRef.modelled] at hu hm; done) | skip
  all_goals
    cases kv with
    | nil => simp [bind_def, pure_def, bind_apply, isStrOrPath, isStr, isPath, pyAnd, pyOr, osPathExists, Prog.look, Prog.pure,
        Prog.raise, run_nil, tryExcept, PyDoStore.tryCatch, openGroup, StoreRef.unexpanded, findRoot, rootGroupFmt, has, KV.get,
        StoreRef.kind, exc, pyIsInstance, mro]
    | cons hd tl =>
      cases hr : rootGroupFmt (hd :: tl) with
      | none => simp [hr, bind_def, pure_def, bind_apply, isStrOrPath, isStr, isPath, pyAnd, pyOr, osPathExists, Prog.look, Prog.pure,
          Prog.raise, run_nil, tryExcept, PyDoStore.tryCatch, openGroup, StoreRef.unexpanded, findRoot,
          StoreRef.kind, exc, pyIsInstance, mro]
      | some f =>
        cases ha : (geffAttrIn f (hd :: tl)).isSome <;> cases hn : memberIn f (hd :: tl) NODES <;>
        cases he : memberIn f (hd :: tl) EDGES <;>
        simp [hr, ha, hn, he, bind_def, pure_def, bind_apply, isStrOrPath, isStr, isPath, pyAnd, pyOr, osPathExists, Prog.look, Prog.pure,
          Prog.raise, run_nil, tryExcept, PyDoStore.tryCatch, openGroup, StoreRef.unexpanded, findRoot,
          StoreRef.kind, exc, pyIsInstance, mro, attrsContainsGeff, groupContains]


/-! ## `delete_geff` -/

theorem storeLike_of_modelled (s : StoreRef) (h : s.modelled = true) : storeLike s = true := by
  cases s <;> first | rfl | simp [StoreRef.modelled] at h

theorem deleteGeff_eq (d : Docs) (s : StoreRef) (f : Fmt) (hu : s.unexpanded = false) (hm : s.modelled = true) :
    Gen.StoreGuard.deleteGeff d s f = Geff.KV.deleteGeff d s.kind f := by
  unfold Gen.StoreGuard.deleteGeff Geff.KV.deleteGeff deleteRoot
  simp only [bind_def, pure_def, setupZarrGroup_eq d s f (storeLike_of_modelled s hm), bind_assoc, pure_bind,
    delItem, groupKeys, expand_kind]
  congr 1; funext _; congr 1; funext _; congr 1; funext _; congr 1; funext kv
  have hlen : ((members f kv).length == 0) = (members f kv).isEmpty := by
    cases members f kv <;> rfl
  rw [hlen]
  have hAttr : pyIsInstance (exc "AttributeError") ["AttributeError"] = true := by decide
  rcases s with t | t | _ | _ | ⟨l, o⟩ | o <;> try rcases t with _ | _ | _
  all_goals first | (simp [StoreRef.unexpanded, StoreRef.modelled] at hu hm; done) | skip
  all_goals cases (members f kv).isEmpty
  all_goals simp [isPath, isStr, isStrOrPath, rmtree, StoreRef.kind, delAttrGeff, attrPath, raise_bind, tryExcept_raise, hAttr,
    bind_assoc, pure_bind, bind_pure_unit]

end Geff.StoreGuardGen
