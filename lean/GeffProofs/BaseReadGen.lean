import Gen.BaseRead
import GeffProofs.PartialRead
import GeffProofs.SerializationGen
/-! Helper lemmas: the source-translated reader `Gen.BaseRead.*` (translator T20, `harness/translators/t20_pydo_base_read.py`) equals the
hand-written model `Geff.PRead.*` of `GeffModel/PartialRead.lean`.  Straight-line code is unfolded;
each generated `for` loop is characterised by a hand-written one-step specification plus an
induction over the list, the generated loop body being consumed by unification (as in
`GeffProofs/SerializationGen.lean`). -/
namespace GeffProofs.BaseReadGen
open Geff.Np Geff.PRead Geff.PyDoRead Geff.Vlen

/-! ## `_mask_to_indices`, `_load_zarr_subset` -/

theorem maskToIndices_eq (mask : Option (List Bool)) (n : Nat) :
    Gen.BaseRead.maskToIndices mask n = Geff.PRead.maskToIndices mask n := by
  cases mask with
  | none => rfl
  | some m =>
    simp only [Gen.BaseRead.maskToIndices, Geff.PRead.maskToIndices, maskShape, npAsarrayMask, npWhere0, raiseIndexError]
    by_cases h : m.length = n <;> simp [h, bind, Except.bind, pure, Except.pure]

def packRows {α} (trail : List Nat) (r : Res (List α)) : Res (NArr α) := r.map (fun rows => ⟨trail, rows⟩)

theorem loadZarrSubset_eq {α} (z : ZArr α) (idx : Option (List Nat)) :
    Gen.BaseRead.loadZarrSubset z idx = packRows z.trail (Geff.PRead.loadZarrSubset z.rows idx) := by
  cases idx with
  | none => rfl
  | some is =>
    cases is with
    | nil =>
      -- with or without the explicit empty-selection case of the source: `oindex` of no indices is no rows
      simp [Gen.BaseRead.loadZarrSubset, Geff.PRead.loadZarrSubset, packRows, npEmpty, oindex, npAsarray, ZArr.shape, bind, Except.bind, pure, Except.pure, Except.map]
    | cons i t =>
      simp only [Gen.BaseRead.loadZarrSubset, Geff.PRead.loadZarrSubset, packRows, oindex, npAsarray]
      generalize (List.mapM _ (i :: t) : Res (List α)) = X
      cases X <;> simp [bind, Except.bind, pure, Except.pure, Except.map]
/-! ## the var-length branch: `Gen.Serialization.deserializeVlenPropertyData` on the table as an ndarray -/

/-- what `validate_structure` and the uint64 cast guarantee about the offset table of a var-length
property: rank ≤ 2, `prod trail` scalars per row, every scalar a non-negative integer -/
def RowsOk (trail : List Nat) (rows : List (List Val)) : Prop :=
  trail.length ≤ 1 ∧ ∀ r ∈ rows, r.length = prod trail ∧ ∀ v ∈ r, (valNat? v).isSome = true

theorem mapM_valNat (r : List Val) (h : ∀ v ∈ r, (valNat? v).isSome = true) :
    ∃ l, r.mapM valNat? = some l ∧ l.length = r.length := by
  induction r with
  | nil => exact ⟨[], rfl, rfl⟩
  | cons v t ih =>
    obtain ⟨l, hl, hlen⟩ := ih (fun x hx => h x (List.mem_cons_of_mem _ hx))
    have hv := h v (by simp)
    cases hv' : valNat? v with
    | none => simp [hv'] at hv
    | some o => exact ⟨o :: l, by simp [List.mapM_cons, hv', hl], by simp [hlen]⟩

theorem rows_bridge (dt : Dtype) (d : List Val) (w : Nat) (hw : 0 < w) (rows : List (List Val))
    (h : ∀ r ∈ rows, r.length = w ∧ ∀ v ∈ r, (valNat? v).isSome = true) :
    ∃ prs, parseRows w rows.length rows.flatten = some prs ∧
      rows.mapM (decodeValuesRow dt d) = ofVlen (decodeRows dt d prs) := by
  induction rows with
  | nil => exact ⟨[], rfl, rfl⟩
  | cons r rs ih =>
    obtain ⟨prs, hp, hm⟩ := ih (fun x hx => h x (List.mem_cons_of_mem _ hx))
    obtain ⟨hlen, hv⟩ := h r (by simp)
    obtain ⟨l, hl, hll⟩ := mapM_valNat r hv
    cases l with
    | nil => simp at hll; omega
    | cons o sh =>
      refine ⟨(o, sh) :: prs, ?_, ?_⟩
      · simp only [List.length_cons, parseRows, List.flatten_cons]
        rw [List.take_left' hlen, List.drop_left' hlen, hl, hp]
      · rw [List.mapM_cons, hm]
        simp only [decodeValuesRow, hl, decodeRows]
        cases decodeRow dt d (o, sh) <;> simp [ofVlen, bind, Except.bind]
        cases decodeRows dt d prs <;> simp [ofVlen, pure, Except.pure]

theorem decodeRows_modelled (dt : Dtype) (d : List Val) (prs : List (Nat × List Nat)) (w : String) :
    decodeRows dt d prs ≠ .unmodelled w := by
  induction prs with
  | nil => simp [decodeRows]
  | cons p t ih =>
    have hrow : (∃ a, decodeRow dt d p = .ok a) ∨ decodeRow dt d p = .valueError := by
      simp only [decodeRow]
      by_cases hc : (List.take (prod p.2) (List.drop p.1 d)).length = prod p.2
      · exact Or.inl ⟨_, if_pos hc⟩
      · exact Or.inr (if_neg hc)
    rcases hrow with ⟨a, ha⟩ | ha
    · simp only [decodeRows, ha]
      cases h : decodeRows dt d t <;> simp_all
    · simp [decodeRows, ha]

theorem flatten_length_one (rows : List (List Val)) (h : ∀ r ∈ rows, r.length = 1) :
    rows.flatten.length = rows.length := by
  induction rows with
  | nil => rfl
  | cons r rs ih =>
    simp [h r (by simp), ih (fun x hx => h x (List.mem_cons_of_mem _ hx))]; omega

theorem vlen_bridge {μ : Type} (dt : Dtype) (trail : List Nat) (rows : List (List Val)) (d : List Val)
    (m : μ) (h : RowsOk trail rows) :
    ofVlen (Gen.Serialization.deserializeVlenPropertyData
        (⟨.u64, rows.length :: trail, rows.flatten⟩ : NdArr) m (⟨dt, [d.length], d⟩ : NdArr))
      = (fun es => (es.map some, m)) <$> deserialize dt trail rows d := by
  obtain ⟨hrank, hrows⟩ := h
  have key : ofVlen (GeffProofs.SerializationGen.liftList m
        (deserializeVlen (⟨.u64, rows.length :: trail, rows.flatten⟩ : NdArr) (⟨dt, [d.length], d⟩ : NdArr)))
      = (fun es => (es.map some, m)) <$> deserialize dt trail rows d ∧
      ∀ w, deserializeVlen (⟨.u64, rows.length :: trail, rows.flatten⟩ : NdArr) (⟨dt, [d.length], d⟩ : NdArr) ≠ .unmodelled w := by
    cases rows with
    | nil =>
      match trail, hrank with
      | [], _ => simp [deserializeVlen, deserialize, GeffProofs.SerializationGen.liftList, ofVlen]
      | [w], _ => simp [deserializeVlen, deserialize, GeffProofs.SerializationGen.liftList, ofVlen]
    | cons r rs =>
      match trail, hrank with
      | [], _ => simp [deserializeVlen, deserialize, GeffProofs.SerializationGen.liftList, ofVlen]
      | [w], _ =>
        by_cases hw : w = 0
        · subst hw; simp [deserializeVlen, deserialize, GeffProofs.SerializationGen.liftList, ofVlen]
        · have hrows' : ∀ x ∈ r :: rs, x.length = w ∧ ∀ v ∈ x, (valNat? v).isSome = true := by
            intro x hx; have := hrows x hx; simpa [prod] using this
          obtain ⟨prs, hp, hm⟩ := rows_bridge dt d w (by omega) (r :: rs) hrows'
          simp only [deserializeVlen, deserialize, List.length_cons] at hp ⊢
          simp only [hw, hp, hm]
          constructor
          · cases decodeRows dt d prs <;> simp [GeffProofs.SerializationGen.liftList, ofVlen]
          · intro w'; exact decodeRows_modelled dt d prs w'
  rw [GeffProofs.SerializationGen.deserialize_eq _ _ m ?_ key.2]
  · exact key.1
  · intro n hn
    simp only [List.cons.injEq] at hn
    obtain ⟨rfl, rfl⟩ := hn
    exact flatten_length_one rows (fun r hr => by simpa [prod] using (hrows r hr).1)
/-! ## `_load_prop_to_memory` -/

def toGenValues : Values → GValues
  | .dense dt tr rows => .dense ⟨dt, tr, rows⟩
  | .object es => .object (es.map some)
def toGenProp (p : MemProp) : GMemProp := ⟨toGenValues p.values, p.missing⟩

/-- the offset table of a var-length property, after the uint64 cast -/
def TableOk (cast : Dtype → Val → Val) (zp : ZarrProp) : Prop :=
  RowsOk zp.values.trail (zp.values.rows.map (·.map (cast .u64)))

theorem loadZarrSubset_mem {α} (rows : List α) (idx : Option (List Nat)) (out : List α)
    (h : Geff.PRead.loadZarrSubset rows idx = .ok out) : ∀ r ∈ out, r ∈ rows := by
  cases idx with
  | none => simp [Geff.PRead.loadZarrSubset] at h; subst h; exact fun r hr => hr
  | some is =>
    simp only [Geff.PRead.loadZarrSubset] at h
    induction is generalizing out with
    | nil => simp [pure, Except.pure] at h; subst h; simp
    | cons i t ih =>
      rw [List.mapM_cons] at h
      cases hi : rows[i]? with
      | none => simp [hi, bind, Except.bind] at h
      | some x =>
        simp only [hi, bind, Except.bind] at h
        generalize hX : (List.mapM _ t : Res (List α)) = X at h
        cases X with
        | error e => simp at h
        | ok l =>
          simp [pure, Except.pure] at h
          subst h
          intro r hr
          rcases List.mem_cons.1 hr with rfl | hr
          · exact List.mem_of_getElem? hi
          · exact ih l hX r hr

theorem loadPropToMemory_eq (cast : Dtype → Val → Val) (zp : ZarrProp) (mask : Option (List Bool))
    (pm : PropMeta) (htab : pm.varlength = true → TableOk cast zp) :
    Gen.BaseRead.loadPropToMemory cast zp mask pm
      = toGenProp <$> Geff.PRead.loadPropToMemory cast zp mask pm := by
  unfold Gen.BaseRead.loadPropToMemory Geff.PRead.loadPropToMemory
  have hs : shapeAt (propValues zp).shape 0 = .ok zp.values.rows.length := rfl
  rw [hs]
  simp only [ok_bind, maskToIndices_eq, loadZarrSubset_eq]
  cases hidx : Geff.PRead.maskToIndices mask zp.values.rows.length with
  | error e => rfl
  | ok idx =>
    simp only [ok_bind, propValues]
    cases hrows : Geff.PRead.loadZarrSubset zp.values.rows idx with
    | error e => rfl
    | ok rows =>
      simp only [ok_bind, packRows, Except.map]
      have hmem := loadZarrSubset_mem _ _ _ hrows
      obtain ⟨⟨trail, allrows⟩, missing, data⟩ := zp
      obtain ⟨dt, vl, rest⟩ := pm
      have fin : ∀ (ms : Option (List Bool)),
          (match data with
            | some d =>
              if vl = true then
                (ofVlen (Gen.Serialization.deserializeVlenPropertyData
                    (asDtype cast { trail := trail, rows := rows } (if vl = true then Dtype.u64 else npDtype dt)).toNdArr
                    ms (npArrayFlat cast d (npDtype dt))) >>= fun t7 => pure (GMemProp.ofVlenDict t7) : Res GMemProp)
              else pure { values := GValues.dense (asDtype cast { trail := trail, rows := rows }
                      (if vl = true then Dtype.u64 else npDtype dt)), missing := ms }
            | none =>
              if vl = true then (raiseValueError : Res GMemProp)
              else pure { values := GValues.dense (asDtype cast { trail := trail, rows := rows }
                      (if vl = true then Dtype.u64 else npDtype dt)), missing := ms })
          = toGenProp <$> assemble cast ⟨⟨trail, allrows⟩, missing, data⟩ ⟨dt, vl, rest⟩ rows ms := by
        intro ms
        cases vl with
        | false => cases data <;> simp [assemble, toGenProp, toGenValues, asDtype, npDtype]
        | true =>
          cases data with
          | none => simp [assemble, raiseValueError]
          | some d =>
            have hok : RowsOk trail (rows.map (·.map (cast .u64))) := by
              have := htab rfl
              simp only [TableOk] at this
              refine ⟨this.1, ?_⟩
              intro r hr
              obtain ⟨r0, hr0, rfl⟩ := List.mem_map.1 hr
              exact this.2 _ (List.mem_map.2 ⟨r0, hmem r0 hr0, rfl⟩)
            have hb := vlen_bridge dt trail (rows.map (·.map (cast .u64))) (d.map (cast dt)) ms hok
            simp only [assemble, asDtype, RowArr.toNdArr, npArrayFlat, npDtype, if_true, List.length_map] at hb ⊢
            simp only [Option.map]
            rw [hb]
            cases deserialize dt trail (List.map (fun x => List.map (cast Dtype.u64) x) rows) (List.map (cast dt) d) <;>
              simp [toGenProp, toGenValues, GMemProp.ofVlenDict]
      cases missing with
      | none =>
        have := fin none
        cases data with
        | none => cases vl <;> simp [hasMissing, hasData, assemble, raiseValueError, toGenProp, toGenValues, asDtype, npDtype, bind, Except.bind]
        | some d => simp_all [hasMissing, hasData, propDataAll]
      | some m =>
        simp only [hasMissing, propMissing, Option.isSome_some, if_true, ok_bind]
        cases hm : Geff.PRead.loadZarrSubset m idx with
        | error e => rfl
        | ok mm =>
          have := fin (some mm)
          cases data with
          | none => cases vl <;> simp [hasData, assemble, raiseValueError, toGenProp, toGenValues, asDtype, npDtype, npArrayBool, bind, Except.bind]
          | some d => simp_all [hasData, propDataAll, npArrayBool]
/-! ## the loops of `build` -/

def toGenProps (l : List (String × MemProp)) : List (String × GMemProp) := l.map (fun q => (q.1, toGenProp q.2))

/-- every loaded var-length property has a well-formed offset table -/
def TablesOk (cast : Dtype → Val → Val) (md : List (String × PropMeta)) (ps : List (String × ZarrProp)) : Prop :=
  ∀ q ∈ ps, ∀ pm, lookup q.1 md = some pm → pm.varlength = true → TableOk cast q.2

/-- one iteration of `for name, props in self.…_props.items()` -/
def propStep (cast : Dtype → Val → Val) (md : List (String × PropMeta)) (mask : Option (List Bool))
    (q : String × ZarrProp) (acc : List (String × GMemProp)) : Res (ForInStep (List (String × GMemProp))) := do
  let pm ← dictGet md q.1
  let p ← Gen.BaseRead.loadPropToMemory cast q.2 mask pm
  pure (.yield (dictSet acc q.1 p))

theorem hasKey_false_of_not_mem {β} {k : String} {d : List (String × β)} (h : k ∉ keys d) : hasKey k d = false := by
  cases hk : hasKey k d with
  | false => rfl
  | true => exact absurd ((hasKey_iff k d).1 hk) h

theorem propLoop_spec (cast : Dtype → Val → Val) (md : List (String × PropMeta)) (mask : Option (List Bool))
    (body : String × ZarrProp → List (String × GMemProp) → Res (ForInStep (List (String × GMemProp))))
    (hstep : ∀ q acc, body q acc = propStep cast md mask q acc)
    (ps : List (String × ZarrProp)) (hnd : (keys ps).Nodup) (htab : TablesOk cast md ps) :
    ∀ acc, (∀ k ∈ keys ps, k ∉ keys acc) →
      forIn ps acc body = (fun l => acc ++ toGenProps l) <$> loadProps cast md mask ps := by
  induction ps with
  | nil => intro acc _; simp [loadProps, toGenProps, pure, Except.pure]
  | cons q t ih =>
    intro acc hacc
    obtain ⟨name, zp⟩ := q
    rw [List.forIn_cons, hstep]
    simp only [propStep, loadProps, dictGet]
    cases hl : lookup name md with
    | none => rfl
    | some pm =>
      simp only [ok_bind, pure_eq]
      rw [loadPropToMemory_eq cast zp mask pm (htab (name, zp) (by simp) pm hl)]
      cases hp : Geff.PRead.loadPropToMemory cast zp mask pm with
      | error e => simp [pure, Except.pure, bind, Except.bind, Functor.map, Except.map]
      | ok p =>
        simp only [map_ok, ok_bind, pure_eq]
        have hn : name ∉ keys acc := hacc name (by simp [keys])
        have hset : dictSet acc name (toGenProp p) = acc ++ [(name, toGenProp p)] := by
          simp [dictSet, Geff.PRead.insert, hasKey_false_of_not_mem hn]
        have hnd' : (keys t).Nodup ∧ name ∉ keys t := by
          simp only [keys, List.map_cons, List.nodup_cons] at hnd; exact ⟨hnd.2, hnd.1⟩
        rw [hset, ih hnd'.1 (fun q hq => htab q (List.mem_cons_of_mem _ hq))]
        · cases loadProps cast md mask t <;> simp [toGenProps, pure, Except.pure, bind, Except.bind, Functor.map, Except.map]
        · intro k hk
          simp only [keys, List.map_append, List.mem_append, List.map_cons, List.map_nil, List.mem_singleton, not_or]
          refine ⟨hacc k (by simp only [keys, List.map_cons]; exact List.mem_cons_of_mem _ hk), ?_⟩
          rintro rfl; exact hnd'.2 hk

/-- one iteration of the metadata pruning loops, through a lens on the metadata object -/
def pruneStep (get : GMeta → List (String × PropMeta)) (set : GMeta → List (String × PropMeta) → GMeta)
    (loaded : List String) (prop : String) (om : GMeta) : Res (ForInStep GMeta) :=
  if !(loaded.contains prop) then do
    let t ← dictDel (get om) prop
    pure (.yield (set om t))
  else pure (.yield om)

theorem pruneLoop_spec (get : GMeta → List (String × PropMeta)) (set : GMeta → List (String × PropMeta) → GMeta)
    (hgs : ∀ s d, get (set s d) = d) (hss : ∀ s d d', set (set s d) d' = set s d')
    (loaded : List String) (body : String → GMeta → Res (ForInStep GMeta))
    (hstep : ∀ prop om, body prop om = pruneStep get set loaded prop om)
    (ks : List String) (hnd : ks.Nodup) (om : GMeta) :
    ∀ d, (∀ k ∈ ks, hasKey k d = true) →
      forIn ks (set om d) body = .ok (set om (d.filter (fun p => !(ks.contains p.1 && !loaded.contains p.1)))) := by
  induction ks with
  | nil =>
    intro d _
    have : List.filter (fun _ => true) d = d := List.filter_eq_self.2 (fun _ _ => rfl)
    simp [pure, Except.pure, this]
  | cons k t ih =>
    intro d hd
    have hkm : loaded.contains k = true ↔ k ∈ loaded := by simp
    have hnd' := List.nodup_cons.1 hnd
    rw [List.forIn_cons, hstep]
    simp only [pruneStep]
    by_cases hk : loaded.contains k = true
    · simp only [hk, Bool.not_true, Bool.false_eq_true, if_false, pure_eq, ok_bind]
      rw [ih hnd'.2 d (fun x hx => hd x (List.mem_cons_of_mem _ hx))]
      congr 2
      apply List.filter_congr
      intro p _
      by_cases hpk : p.1 = k
      · simp only [hpk, hk]; simp
      · simp [hpk]
    · simp only [hk, Bool.not_false, if_true, dictDel, hgs, hd k (by simp), ok_bind, pure_eq, hss]
      rw [ih hnd'.2]
      · congr 2
        rw [List.filter_filter]
        apply List.filter_congr
        intro p _
        by_cases hpk : p.1 = k
        · have : k ∉ loaded := fun h => hk (hkm.2 h)
          simp [hpk, this]
        · simp [hpk]
      · intro x hx
        have hxk : x ≠ k := by rintro rfl; exact hnd'.1 hx
        have := hd x (List.mem_cons_of_mem _ hx)
        simp only [hasKey, List.any_eq_true, List.mem_filter] at this ⊢
        obtain ⟨p, hp, hpx⟩ := this
        refine ⟨p, ⟨hp, ?_⟩, hpx⟩
        simp at hpx
        simp [hpx, hxk]
/-! ## `build` -/

def toGen (g : InMem) : GInMem :=
  { metadata := ⟨g.nodeMeta, g.edgeMeta, g.metaRest⟩, nodeIds := ⟨[], g.nodeIds⟩,
    nodeProps := toGenProps g.nodeProps, edgeIds := ⟨[2], g.edgeIds⟩, edgeProps := toGenProps g.edgeProps }

theorem hasKey_of_mem_keys {β} {k : String} {d : List (String × β)} (h : k ∈ keys d) : hasKey k d = true :=
  (hasKey_iff k d).2 h

theorem prune_filter (md : List (String × PropMeta)) (loaded : List (String × ZarrProp)) :
    md.filter (fun p => !((keys md).contains p.1 && !(keys loaded).contains p.1)) = pruneMeta md loaded := by
  unfold pruneMeta
  apply List.filter_congr
  intro p hp
  have hm : p.1 ∈ keys md := List.mem_map.2 ⟨p, hp, rfl⟩
  simp [hm, hasKey_eq_contains]

/-- everything after the edge selection in `build`: the edge property loop and the two pruning loops -/
theorem build_tail (cast : Dtype → Val → Val) (r : Reader) (m' : Option (List Bool)) (nodesA : NArr Int)
    (np : List (String × GMemProp)) (edgesOut : NArr (Int × Int))
    (b1 : String × ZarrProp → List (String × GMemProp) → Res (ForInStep (List (String × GMemProp))))
    (b2 b3 : String → GMeta → Res (ForInStep GMeta))
    (h1 : ∀ q acc, b1 q acc = propStep cast r.store.edgeMeta m' q acc)
    (h2 : ∀ p om, b2 p om = pruneStep (·.nodePropsMetadata) (fun s d => { s with nodePropsMetadata := d })
      (keys r.nodeProps) p om)
    (h3 : ∀ p om, b3 p om = pruneStep (·.edgePropsMetadata) (fun s d => { s with edgePropsMetadata := d })
      (keys r.edgeProps) p om)
    (he : (keys r.edgeProps).Nodup) (hmn : (keys r.store.nodeMeta).Nodup) (hme : (keys r.store.edgeMeta).Nodup)
    (hte : TablesOk cast r.store.edgeMeta r.edgeProps) :
    (do let s1 ← forIn r.edgeProps [] b1
        let s2 ← forIn (keys r.store.nodeMeta)
          ({ nodePropsMetadata := r.store.nodeMeta, edgePropsMetadata := r.store.edgeMeta, rest := r.store.metaRest } : GMeta) b2
        let s3 ← forIn (keys r.store.edgeMeta) s2 b3
        pure ({ metadata := s3, nodeIds := nodesA, nodeProps := np, edgeIds := edgesOut, edgeProps := s1 } : GInMem))
    = (fun ep => ({ metadata := ⟨pruneMeta r.store.nodeMeta r.nodeProps, pruneMeta r.store.edgeMeta r.edgeProps, r.store.metaRest⟩,
                    nodeIds := nodesA, nodeProps := np, edgeIds := edgesOut, edgeProps := toGenProps ep } : GInMem))
        <$> loadProps cast r.store.edgeMeta m' r.edgeProps := by
  rw [propLoop_spec cast r.store.edgeMeta m' b1 h1 r.edgeProps he hte [] (by simp [keys])]
  have l2 := pruneLoop_spec (·.nodePropsMetadata) (fun s d => { s with nodePropsMetadata := d }) (fun _ _ => rfl)
    (fun _ _ _ => rfl) (keys r.nodeProps) b2 h2 (keys r.store.nodeMeta) hmn
    ⟨r.store.nodeMeta, r.store.edgeMeta, r.store.metaRest⟩ r.store.nodeMeta (fun k hk => hasKey_of_mem_keys hk)
  have l3 := pruneLoop_spec (·.edgePropsMetadata) (fun s d => { s with edgePropsMetadata := d }) (fun _ _ => rfl)
    (fun _ _ _ => rfl) (keys r.edgeProps) b3 h3 (keys r.store.edgeMeta) hme
    ⟨pruneMeta r.store.nodeMeta r.nodeProps, r.store.edgeMeta, r.store.metaRest⟩ r.store.edgeMeta
    (fun k hk => hasKey_of_mem_keys hk)
  simp only [prune_filter] at l2 l3
  cases loadProps cast r.store.edgeMeta m' r.edgeProps with
  | error e => rfl
  | ok ep =>
    simp only [map_ok, ok_bind, List.nil_append]
    rw [l2]; simp only [ok_bind]; rw [l3]; rfl

theorem endpointsIn_length (nodes : List Int) (edges : List (Int × Int)) : (endpointsIn nodes edges).length = edges.length := by
  simp [endpointsIn]

theorem maskToIndices_len {em : Option (List Bool)} {n : Nat} {ei} (h : Geff.PRead.maskToIndices em n = .ok ei) :
    ∀ m, em = some m → m.length = n := by
  intro m hm; subst hm
  simp only [Geff.PRead.maskToIndices] at h
  by_cases hl : m.length = n
  · exact hl
  · simp [hl] at h

theorem build_fin (cast : Dtype → Val → Val) (r : Reader) (nodes : List Int) (np : List (String × MemProp))
    (m' : Option (List Bool)) :
    (fun ep => ({ metadata := ⟨pruneMeta r.store.nodeMeta r.nodeProps, pruneMeta r.store.edgeMeta r.edgeProps, r.store.metaRest⟩,
                  nodeIds := ⟨[], nodes⟩, nodeProps := toGenProps np, edgeIds := ⟨[2], (match m' with | some m => filterByMask r.store.edges m | none => r.store.edges)⟩,
                  edgeProps := toGenProps ep } : GInMem))
        <$> loadProps cast r.store.edgeMeta m' r.edgeProps
    = toGen <$> (do
        let edgeProps ← loadProps cast r.store.edgeMeta m' r.edgeProps
        pure { nodeIds := nodes,
               edgeIds := (match m' with | some m => filterByMask r.store.edges m | none => r.store.edges),
               nodeProps := np, edgeProps := edgeProps, nodeMeta := pruneMeta r.store.nodeMeta r.nodeProps,
               edgeMeta := pruneMeta r.store.edgeMeta r.edgeProps, metaRest := r.store.metaRest }) := by
  cases loadProps cast r.store.edgeMeta m' r.edgeProps <;> rfl

theorem build_eq (cast : Dtype → Val → Val) (r : Reader) (nm em : Option (List Bool))
    (hn : (keys r.nodeProps).Nodup) (he : (keys r.edgeProps).Nodup)
    (hmn : (keys r.store.nodeMeta).Nodup) (hme : (keys r.store.edgeMeta).Nodup)
    (htn : TablesOk cast r.store.nodeMeta r.nodeProps) (hte : TablesOk cast r.store.edgeMeta r.edgeProps) :
    Gen.BaseRead.build cast r nm em = toGen <$> Geff.PRead.build cast r nm em := by
  unfold Gen.BaseRead.build Geff.PRead.build
  have hs : shapeAt (selfNodes r).shape 0 = .ok r.store.ids.length := rfl
  rw [hs]
  simp only [ok_bind, maskToIndices_eq, loadZarrSubset_eq]
  cases hni : Geff.PRead.maskToIndices nm r.store.ids.length with
  | error e => rfl
  | ok ni =>
    simp only [ok_bind, selfNodes]
    cases hnodes : Geff.PRead.loadZarrSubset r.store.ids ni with
    | error e => rfl
    | ok nodes =>
      simp only [ok_bind, packRows, Except.map]
      rw [propLoop_spec cast r.store.nodeMeta nm _ ?hs1 r.nodeProps hn htn [] (by simp [keys])]
      case hs1 => intro q acc; rfl
      cases hnp : loadProps cast r.store.nodeMeta nm r.nodeProps with
      | error e => rfl
      | ok np =>
        simp only [map_ok, ok_bind, List.nil_append]
        have hs2 : shapeAt (npAsarray (zarrGetAll (selfEdges r))).shape 0 = .ok r.store.edges.length := rfl
        rw [hs2]
        simp only [ok_bind]
        cases hei : Geff.PRead.maskToIndices em r.store.edges.length with
        | error e => rfl
        | ok ei =>
          have hel := maskToIndices_len hei
          simp only [ok_bind, dictKeys, selfMetadata, deepcopy, npAsarray, zarrGetAll, selfEdges]
          have fin := build_fin cast r nodes np
          cases nm with
          | none =>
            simp only [Option.isSome_none, Bool.false_eq_true, if_false, combineEdgeMask]
            cases em with
            | none =>
              simp only [getSel, ok_bind]
              rw [build_tail cast r none _ _ _ _ _ _ ?h1 ?h2 ?h3 he hmn hme hte]
              case h1 => intro _ _; rfl
              case h2 => intro _ _; rfl
              case h3 => intro _ _; rfl
              exact fin none
            | some m =>
              have hm := hel m rfl
              simp only [getSel, boolIndex, hm, if_true, ok_bind]
              rw [build_tail cast r (some m) _ _ _ _ _ _ ?h1 ?h2 ?h3 he hmn hme hte]
              case h1 => intro _ _; rfl
              case h2 => intro _ _; rfl
              case h3 => intro _ _; rfl
              exact fin (some m)
          | some nmv =>
            simp only [Option.isSome_some, if_true, combineEdgeMask]
            cases em with
            | none =>
              simp only [getSel, boolIndex, isinAllAxis1, endpointsIn_length, if_true, ok_bind]
              rw [build_tail cast r (some (endpointsIn nodes r.store.edges)) _ _ _ _ _ _ ?h1 ?h2 ?h3 he hmn hme hte]
              case h1 => intro _ _; rfl
              case h2 => intro _ _; rfl
              case h3 => intro _ _; rfl
              exact fin (some _)
            | some m =>
              have hm := hel m rfl
              have hz : (List.zipWith (· && ·) m (endpointsIn nodes r.store.edges)).length = r.store.edges.length := by
                simp [endpointsIn_length, hm]
              simp only [npLogicalAnd, isinAllAxis1, endpointsIn_length, hm, if_true, ok_bind, getSel, boolIndex, hz]
              rw [build_tail cast r (some (List.zipWith (· && ·) m (endpointsIn nodes r.store.edges))) _ _ _ _ _ _ ?h1 ?h2 ?h3 he hmn hme hte]
              case h1 => intro _ _; rfl
              case h2 => intro _ _; rfl
              case h3 => intro _ _; rfl
              exact fin (some _)
/-! ## `read_node_props`, `read_edge_props` (state monad) -/

/-- how a `read_*_props` call of the hand-written model (new reader, pending exception) is packaged
by the state monad of the generated code -/
def packRead (x : Reader × Option Err) : Except Err Unit × Reader :=
  match x.2 with
  | none => (.ok (), x.1)
  | some e => (.error e, x.1)

theorem rdm_bind {α β} (x : RdM α) (f : α → RdM β) (r : Reader) :
    (x >>= f) r = match x r with
      | (.ok a, r') => f a r'
      | (.error e, r') => (.error e, r') := rfl

/-- one iteration of `for name in names: self.…_props[name] = self._read_prop(name, …)` -/
def readStep (t : PropType) (name : String) : RdM (ForInStep PUnit) := do
  let self ← getSelf
  let zp ← liftRes (readProp self name t)
  match t with
  | .node => setNodeProps (dictSet self.nodeProps name zp)
  | .edge => setEdgeProps (dictSet self.edgeProps name zp)
  pure (ForInStep.yield PUnit.unit)

theorem readLoopN_spec (body : String → PUnit → RdM (ForInStep PUnit))
    (hstep : ∀ n u, body n u = readStep .node n) (ns : List String) :
    ∀ r : Reader, forIn ns PUnit.unit body r =
      (match (readLoop r.store.nodeProps r.nodeProps ns).2 with
        | none => .ok PUnit.unit
        | some e => .error e,
       { r with nodeProps := (readLoop r.store.nodeProps r.nodeProps ns).1 }) := by
  induction ns with
  | nil => intro r; rfl
  | cons n t ih =>
    intro r
    rw [List.forIn_cons, hstep, rdm_bind]
    simp only [readStep, rdm_bind, getSelf, liftRes, readProp, readLoop]
    cases hl : lookup n r.store.nodeProps with
    | none => rfl
    | some zp =>
      simp only [setNodeProps, pure]
      rw [ih]
      rfl

theorem readLoopE_spec (body : String → PUnit → RdM (ForInStep PUnit))
    (hstep : ∀ n u, body n u = readStep .edge n) (ns : List String) :
    ∀ r : Reader, forIn ns PUnit.unit body r =
      (match (readLoop r.store.edgeProps r.edgeProps ns).2 with
        | none => .ok PUnit.unit
        | some e => .error e,
       { r with edgeProps := (readLoop r.store.edgeProps r.edgeProps ns).1 }) := by
  induction ns with
  | nil => intro r; rfl
  | cons n t ih =>
    intro r
    rw [List.forIn_cons, hstep, rdm_bind]
    simp only [readStep, rdm_bind, getSelf, liftRes, readProp, readLoop]
    cases hl : lookup n r.store.edgeProps with
    | none => rfl
    | some zp =>
      simp only [setEdgeProps, pure]
      rw [ih]
      rfl

theorem readNodeProps_eq (names : Option (List String)) (r : Reader) :
    Gen.BaseRead.readNodeProps names r = packRead (Geff.PRead.readNodeProps r names) := by
  unfold Gen.BaseRead.readNodeProps
  rw [rdm_bind]
  simp only [getSelf, rdm_bind]
  rw [readLoopN_spec _ ?h]
  case h => intro _ _; rfl
  simp only [Geff.PRead.readNodeProps, packRead, selfNodePropNames]
  cases (readLoop r.store.nodeProps r.nodeProps (names.getD (keys r.store.nodeProps))).2 <;> rfl

theorem readEdgeProps_eq (names : Option (List String)) (r : Reader) :
    Gen.BaseRead.readEdgeProps names r = packRead (Geff.PRead.readEdgeProps r names) := by
  unfold Gen.BaseRead.readEdgeProps
  rw [rdm_bind]
  simp only [getSelf, rdm_bind]
  rw [readLoopE_spec _ ?h]
  case h => intro _ _; rfl
  simp only [Geff.PRead.readEdgeProps, packRead, selfEdgePropNames]
  cases (readLoop r.store.edgeProps r.edgeProps (names.getD (keys r.store.edgeProps))).2 <;> rfl
/-! ## call sequences through the generated methods; invariants of the reader they produce -/

/-- a sequence of `read_*_props` calls run through the GENERATED methods; a raising call is caught by
the caller and the sequence goes on with the reader as the call left it -/
def genRunCalls (r : Reader) : List Call → Reader
  | [] => r
  | .nodes ns :: t => genRunCalls (Gen.BaseRead.readNodeProps ns r).2 t
  | .edges ns :: t => genRunCalls (Gen.BaseRead.readEdgeProps ns r).2 t

theorem packRead_snd (x : Reader × Option Err) : (packRead x).2 = x.1 := by
  obtain ⟨r, e⟩ := x
  cases e <;> rfl

theorem genRunCalls_eq (r : Reader) (calls : List Call) : genRunCalls r calls = runCalls r calls := by
  induction calls generalizing r with
  | nil => rfl
  | cons c t ih =>
    cases c with
    | nodes ns => simp only [genRunCalls, runCalls, readNodeProps_eq, packRead_snd, ih]
    | edges ns => simp only [genRunCalls, runCalls, readEdgeProps_eq, packRead_snd, ih]

theorem insert_keys_nodup {β} (d : List (String × β)) (k : String) (v : β) (h : (keys d).Nodup) :
    (keys (Geff.PRead.insert d k v)).Nodup := by
  unfold Geff.PRead.insert
  by_cases hk : hasKey k d = true
  · simp only [hk, if_true]
    have : keys (d.map (fun p => if p.1 = k then (k, v) else p)) = keys d := by
      simp only [keys, List.map_map]
      apply List.map_congr_left
      intro p _
      by_cases hp : p.1 = k <;> simp [hp]
    rw [this]; exact h
  · have hk' : hasKey k d = false := by simpa using hk
    simp only [hk', Bool.false_eq_true, if_false]
    have hn : k ∉ keys d := fun hm => hk ((hasKey_iff k d).2 hm)
    rw [show keys (d ++ [(k, v)]) = keys d ++ [k] by simp [keys]]
    rw [List.nodup_append]
    refine ⟨h, by simp, ?_⟩
    intro a ha b hb
    rw [List.mem_singleton] at hb
    subst hb
    rintro rfl; exact hn ha

theorem readLoop_nodup (avail cur : List (String × ZarrProp)) (names : List String) (h : (keys cur).Nodup) :
    (keys (readLoop avail cur names).1).Nodup := by
  induction names generalizing cur with
  | nil => exact h
  | cons n ns ih =>
    simp only [readLoop]
    cases lookup n avail with
    | none => exact h
    | some zp => exact ih _ (insert_keys_nodup cur n zp h)

def Reader.KeysNodup (r : Reader) : Prop := (keys r.nodeProps).Nodup ∧ (keys r.edgeProps).Nodup

theorem runCalls_nodup (r : Reader) (calls : List Call) (h : Reader.KeysNodup r) : Reader.KeysNodup (runCalls r calls) := by
  induction calls generalizing r with
  | nil => exact h
  | cons c t ih =>
    cases c with
    | nodes ns => exact ih _ ⟨readLoop_nodup _ _ _ h.1, h.2⟩
    | edges ns => exact ih _ ⟨h.1, readLoop_nodup _ _ _ h.2⟩

theorem init_nodup (s : Store) : Reader.KeysNodup (Reader.init s) := ⟨List.nodup_nil, List.nodup_nil⟩

theorem tablesOk_sub (cast : Dtype → Val → Val) (md : List (String × PropMeta)) (all sel : List (String × ZarrProp))
    (hall : TablesOk cast md all) (hsel : ∀ q ∈ sel, lookup q.1 all = some q.2) : TablesOk cast md sel := by
  intro q hq pm hl hv
  exact hall (q.1, q.2) (lookup_mem (hsel q hq)) pm hl hv

theorem toGen_injective : Function.Injective toGen := by
  intro a b h
  obtain ⟨a1, a2, a3, a4, a5, a6, a7⟩ := a
  obtain ⟨b1, b2, b3, b4, b5, b6, b7⟩ := b
  simp only [toGen, GInMem.mk.injEq, GMeta.mk.injEq, NArr.mk.injEq, true_and] at h
  obtain ⟨⟨h5, h6, h7⟩, h1, h3, h2, h4⟩ := h
  have inj : ∀ (x y : List (String × MemProp)), toGenProps x = toGenProps y → x = y := by
    intro x y hxy
    refine (List.map_inj_right ?_).1 hxy
    rintro ⟨k1, ⟨v1, m1⟩⟩ ⟨k2, ⟨v2, m2⟩⟩ hq
    simp only [toGenProp, Prod.mk.injEq, GMemProp.mk.injEq] at hq
    obtain ⟨rfl, hv, rfl⟩ := hq
    have : v1 = v2 := by
      cases v1 <;> cases v2 <;> simp_all [toGenValues]
      exact (List.map_inj_right (fun _ _ h => Option.some.inj h)).1 hv
    subst this; rfl
  subst h1 h2 h5 h6 h7
  rw [inj _ _ h3, inj _ _ h4]

end GeffProofs.BaseReadGen
