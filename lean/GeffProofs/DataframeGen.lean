import Gen.Dataframe
import GeffProofs.Dataframe
/-! Helper lemmas: the source-translated table export `Gen.Dataframe.*` (translator T18) equals the
hand-written model `Geff.Dataframe.*`.

Each generated `for` loop is characterised by a hand-written one-step specification and an induction
over the list (`cols_loop`: the `for i in range(values.shape[1])` loop of the 2-D branch =
`addCols2`; `props_loop`: the `for name, prop in props.items()` loop = `addProps`); the proofs of the
steps consume the generated loop bodies by unification (`rw [props_loop]` leaves the step as a side
goal about the generated lambda), so no statement repeats generated text. -/
namespace GeffProofs.DataframeGen
open Geff.Dataframe Geff.PyDoDf
variable {α : Type}

/-! ## small facts about the primitives -/

@[simp] theorem bind_ok {β γ : Type} (v : β) (f : β → Res γ) : (Res.ok v >>= f) = f v := rfl
@[simp] theorem bind_valueError {β γ : Type} (f : β → Res γ) : (Res.valueError >>= f) = Res.valueError := rfl
@[simp] theorem bind_indexError {β γ : Type} (f : β → Res γ) : (Res.indexError >>= f) = Res.indexError := rfl
@[simp] theorem bind_typeError {β γ : Type} (f : β → Res γ) : (Res.typeError >>= f) = Res.typeError := rfl
@[simp] theorem bind_fileExists {β γ : Type} (f : β → Res γ) : (Res.fileExists >>= f) = Res.fileExists := rfl
@[simp] theorem bind_unmodelled {β γ : Type} (w : String) (f : β → Res γ) :
    (Res.unmodelled w >>= f) = Res.unmodelled w := rfl
@[simp] theorem pure_eq {β : Type} (v : β) : (pure v : Res β) = Res.ok v := rfl

theorem maskSeries_map_val (col : List α) (m : List Bool) :
    maskSeries (col.map Cell.val) m = maskCells col m := by
  induction col generalizing m with
  | nil => cases m <;> simp [maskSeries, maskCells]
  | cons a as ih => cases m <;> simp [maskSeries, maskCells, ih]

theorem filter_ne_one (l : List Nat) : l.filter (fun dim => dim != 1) = squeezeTrail l := by
  unfold squeezeTrail
  congr 1
  funext d
  by_cases h : d = 1 <;> simp [h]

/-- the reshape of the source keeps the leading axis and drops the other singleton axes; it never
raises (the number of elements is unchanged) -/
theorem reshape_squeeze (p : PropArr α) :
    reshape (propValues p) ((propValues p).shape.take 1 ++ ((propValues p).shape.drop 1).filter (fun dim => dim != 1))
      = .ok ⟨p.rows.length :: squeezeTrail p.trail, p.rows⟩ := by
  have h : prodNat (p.rows.length :: squeezeTrail p.trail) = prodNat (p.rows.length :: p.trail) := by
    simp [prodNat, prodNat_squeeze]
  simp [reshape, propValues, filter_ne_one, h]

/-- one outcome of the hand-written model as an outcome of the generated code -/
def lift {β : Type} : Outcome β → Res β
  | .ok v => .ok v
  | .valueError => .valueError
  | .indexError => .indexError

/-! ## the loop over the components of an `(N, k)` property -/

/-- one iteration of `for i in range(values.shape[1])`, written by hand from the model -/
def colStep (p : PropArr α) (i : Nat) (d : Dict α) : Res (ForInStep (Dict α)) :=
  match colAt i p.rows with
  | none => .indexError
  | some col =>
    match mkSeries col p.missing with
    | .ok s => .ok (.yield (dictSet d (subName p.name i) s))
    | .valueError => .valueError
    | .indexError => .indexError

theorem cols_loop (p : PropArr α) (body : Nat → Dict α → Res (ForInStep (Dict α)))
    (hstep : ∀ i d, body i d = colStep p i d) :
    ∀ (cnt s : Nat) (d : Dict α), forIn (List.range' s cnt) d body = lift (addCols2 p s cnt d) := by
  intro cnt
  induction cnt with
  | zero => intro s d; simp [addCols2, lift]
  | succ k ih =>
    intro s d
    rw [List.range'_succ, List.forIn_cons, hstep]
    unfold colStep addCols2
    cases colAt s p.rows with
    | none => simp [lift]
    | some col =>
      simp only []
      cases h : mkSeries col p.missing <;> simp [ih, lift]

/-! ## the loop over the properties -/

/-- the text of a warning -/
def renderWarn (dataType : String) (w : Warning) : String :=
  dataType ++ " " ++ w.1 ++ " (" ++ toString w.2 ++ "D) will not be exported to csv with more than 2 dimensions"

theorem addProp_acc (d : Dict α) (w : List Warning) (p : PropArr α) :
    addProp (d, w) p = match addProp (d, []) p with
      | .ok (d', w') => .ok (d', w ++ w')
      | .valueError => .valueError
      | .indexError => .indexError := by
  unfold addProp
  split
  · next k hk => cases h : addCols2 p 0 k d <;> simp
  · cases h1 : colAt 0 p.rows with
    | none => rfl
    | some col => simp only []; cases h2 : mkSeries col p.missing <;> simp
  · simp

theorem addProps_acc (ps : List (PropArr α)) : ∀ (d : Dict α) (w : List Warning),
    addProps (d, w) ps = match addProps (d, []) ps with
      | .ok (d', w') => .ok (d', w ++ w')
      | .valueError => .valueError
      | .indexError => .indexError := by
  induction ps with
  | nil => intro d w; simp [addProps]
  | cons p ps ih =>
    intro d w
    simp only [addProps]
    rw [addProp_acc d w p]
    cases h : addProp (d, []) p with
    | ok r =>
      obtain ⟨d', w'⟩ := r
      simp only
      rw [ih d' (w ++ w'), ih d' w']
      cases addProps (d', []) ps with
      | ok r2 => simp [List.append_assoc]
      | valueError => rfl
      | indexError => rfl
    | valueError => rfl
    | indexError => rfl

/-- the loop state of the generated code: `(warnings_, df_dict)` -/
abbrev St (α : Type) := List String × Dict α

/-- one iteration of `for name, prop in props.items()`, written by hand from the model -/
def stepSpec (dataType : String) (p : PropArr α) (ws : List String) (d : Dict α) : Res (ForInStep (St α)) :=
  match addProp (d, []) p with
  | .ok (d', w') => .ok (.yield (ws ++ w'.map (renderWarn dataType), d'))
  | .valueError => .valueError
  | .indexError => .indexError

def loopSpec (dataType : String) (ps : List (PropArr α)) (ws : List String) (d : Dict α) : Res (St α) :=
  match addProps (d, []) ps with
  | .ok (d', w') => .ok (ws ++ w'.map (renderWarn dataType), d')
  | .valueError => .valueError
  | .indexError => .indexError

theorem props_loop (dataType : String) (body : String × PropArr α → St α → Res (ForInStep (St α)))
    (hstep : ∀ p ws d, body (p.name, p) (ws, d) = stepSpec dataType p ws d) (ps : List (PropArr α)) :
    ∀ (ws : List String) (d : Dict α), forIn (propsItems ps) (ws, d) body = loopSpec dataType ps ws d := by
  induction ps with
  | nil => intro ws d; simp [propsItems, loopSpec, addProps]
  | cons p ps ih =>
    intro ws d
    simp only [propsItems, List.map_cons, List.forIn_cons] at ih ⊢
    rw [hstep]
    unfold stepSpec loopSpec
    simp only [addProps]
    cases h : addProp (d, []) p with
    | ok r =>
      obtain ⟨d', w'⟩ := r
      simp only [bind_ok]
      rw [ih, addProps_acc ps d' w']
      unfold loopSpec
      cases addProps (d', []) ps with
      | ok r2 => simp [List.append_assoc]
      | valueError => rfl
      | indexError => rfl
    | valueError => rfl
    | indexError => rfl

/-! ## `geff_to_dataframes` as written = the model -/

/-- discharges the step hypothesis of `props_loop` for the generated loop body: the reshape of the
source is `reshape_squeeze`; then by the rank after squeezing: 1-D (`pd.Series(values)` + mask =
`mkSeries`), 2-D (the inner generated loop = `addCols2` by `cols_loop`, whose own step is
`values[:, i]` + mask = `colStep`), higher rank (the warning) -/
local macro "step_tac" : tactic => `(tactic| (
  intro p ws d
  simp only [reshape_squeeze, bind_ok]
  unfold stepSpec addProp
  obtain ⟨name, trail, rows, missing⟩ := p
  simp only [propMissing]
  rcases hsq : squeezeTrail trail with _ | ⟨k, _ | ⟨k2, rest⟩⟩
  · simp only [pdSeries]
    cases hc : colAt 0 rows with
    | none => simp
    | some col =>
      cases missing with
      | none => simp [mkSeries]
      | some m =>
        by_cases hany : m.any id = true <;> by_cases hlen : m.length = col.length <;>
          simp [mkSeries, anyOpt, seriesMask, maskSeries_map_val, hany, hlen]
  · simp only [shapeAt, List.range_eq_range']
    simp
    rw [cols_loop ⟨name, trail, rows, missing⟩]
    · cases addCols2 ⟨name, trail, rows, missing⟩ 0 k d <;> simp [lift]
    · intro i d
      unfold colStep
      simp only [sliceCol, pdSeries1]
      cases hc : colAt i rows with
      | none => simp
      | some col =>
        cases missing with
        | none => simp [mkSeries, subName]
        | some m =>
          by_cases hany : m.any id = true <;> by_cases hlen : m.length = col.length <;>
            simp [mkSeries, anyOpt, seriesMask, maskSeries_map_val, hany, hlen, subName]
  · simp [renderWarn]))

/-- what the generated function returns for the tables of the model: the two frames as a tuple and
the warnings of both tables as texts, in emission order -/
def framesOf (t : Tables α) : List (Dict α) × List String :=
  ([t.nodes, t.edges], t.nodeWarnings.map (renderWarn "node") ++ t.edgeWarnings.map (renderWarn "edge"))

/-- (instance search gives up on this nesting depth: default `synthInstance.maxSize`) -/
instance instDecEqFrames [DecidableEq α] : DecidableEq (List (Dict α) × List String) :=
  @instDecidableEqProd _ _ (inferInstanceAs (DecidableEq (List (Dict α)))) inferInstance

theorem nodeIdCols_eq (g : InMemGeff α) : dictSet [] "id" (arr1Column (nodeIds g)) = nodeIdCols g := by
  simp [dictSet, arr1Column, nodeIds, nodeIdCols]

theorem edgeIdCols_eq (g : InMemGeff α) :
    dictSet (dictSet [] "source" (arr1Column (List.map (fun x => x.fst) (edgeIds g)))) "target"
      (arr1Column (List.map (fun x => x.snd) (edgeIds g))) = edgeIdCols g := by
  simp [dictSet, arr1Column, edgeIds, edgeIdCols]

theorem dataframes_eq (g : InMemGeff α) :
    Gen.Dataframe.geffToDataframes g = ofOutcome framesOf (Geff.Dataframe.geffToDataframes g) := by
  unfold Gen.Dataframe.geffToDataframes
  simp only [readToMemory, bind_ok, List.forIn_cons, List.forIn_nil, pairCol]
  simp only [show ("node" == "node") = true from by decide, show ("edge" == "node") = false from by decide,
    if_true, ite_false, Bool.false_eq_true, bind_ok]
  rw [props_loop "node"]
  rotate_left
  · step_tac
  unfold loopSpec Geff.Dataframe.geffToDataframes
  rw [nodeIdCols_eq]
  cases h1 : addProps (nodeIdCols g, []) (nodeProps g) with
  | valueError => simp [nodeProps, h1, ofOutcome] at h1 ⊢
  | indexError => simp [nodeProps, h1, ofOutcome] at h1 ⊢
  | ok r1 =>
    obtain ⟨nd, nw⟩ := r1
    simp only [bind_ok, pure_eq, show (1 = 0) = False from by simp, if_false]
    rw [props_loop "edge"]
    rotate_left
    · step_tac
    unfold loopSpec
    rw [edgeIdCols_eq]
    simp only [nodeProps] at h1
    cases h2 : addProps (edgeIdCols g, []) (edgeProps g) with
    | valueError => simp [edgeProps, h1, h2, ofOutcome] at h2 ⊢
    | indexError => simp [edgeProps, h1, h2, ofOutcome] at h2 ⊢
    | ok r2 =>
      obtain ⟨ed, ew⟩ := r2
      simp only [edgeProps] at h2
      simp [h1, h2, ofOutcome, framesOf, tupleOf, pdDataFrame]

/-! ## `geff_to_csv` as written = the file-level model -/

theorem iom_bind {β γ : Type} (x : IOM β) (f : β → IOM γ) (w : World) :
    (x >>= f) w = match x w with
      | (.ok v, w') => f v w'
      | (.valueError, w') => (.valueError, w')
      | (.indexError, w') => (.indexError, w')
      | (.typeError, w') => (.typeError, w')
      | (.fileExists, w') => (.fileExists, w')
      | (.unmodelled s, w') => (.unmodelled s, w') := rfl

theorem iom_pure {β : Type} (v : β) (w : World) : (pure v : IOM β) w = (.ok v, w) := rfl

/-- `geff_to_csv` by hand, from the model of the export and the file-level model `geffToCsv`: the
output name is `str(Path(outpath).with_suffix(""))` (may raise `ValueError`, nothing touched); an
exception of the export leaves the world as it is; otherwise the warnings are emitted and the two
`to_csv` calls are `Geff.Dataframe.geffToCsv` on the texts of the two frames (index column
included, pandas' default), `FileExistsError` exactly when that model says "raised". -/
def csvSpec (env : CsvEnv α) (g : InMemGeff α) (outpath : String) (overwrite : Bool) (w : World) : Res Unit × World :=
  match env.withSuffix outpath "" with
  | none => (.valueError, w)
  | some base =>
    match Geff.Dataframe.geffToDataframes g with
    | .valueError => (.valueError, w)
    | .indexError => (.indexError, w)
    | .ok t =>
      let r := Geff.Dataframe.geffToCsv w.fs base (env.csvText true t.nodes) (env.csvText true t.edges) overwrite
      (if r.1 then .fileExists else .ok (), { fs := r.2, warnings := w.warnings ++ (framesOf t).2 })

theorem csv_eq (env : CsvEnv α) (g : InMemGeff α) (outpath : String) (overwrite : Bool) (w : World) :
    Gen.Dataframe.geffToCsv env g outpath overwrite w = csvSpec env g outpath overwrite w := by
  unfold Gen.Dataframe.geffToCsv csvSpec
  simp only [iom_bind, pathWithSuffix]
  cases hs : env.withSuffix outpath "" with
  | none => rfl
  | some base =>
    simp only [callDataframes, dataframes_eq]
    cases hd : Geff.Dataframe.geffToDataframes g with
    | valueError => rfl
    | indexError => rfl
    | ok t =>
      simp only [ofOutcome, framesOf, unpack2, iom_pure, dfToCsv, Geff.Dataframe.geffToCsv, toCsv]
      cases overwrite with
      | true => simp
      | false =>
        by_cases h1 : (fsGet w.fs (base ++ "-nodes.csv")).isSome = true
        · simp [h1]
        · by_cases h2 : (fsGet (fsSet w.fs (base ++ "-nodes.csv") (env.csvText true t.nodes)) (base ++ "-edges.csv")).isSome = true
          · simp [h1, h2]
          · simp [h1, h2]

end GeffProofs.DataframeGen
