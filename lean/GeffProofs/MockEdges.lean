import GeffModel.MockEdges
import Gen.MockEdges
import Mathlib.Data.List.Nodup
import Mathlib.Data.List.Perm.Subperm
/-! # Helper lemmas for C20

1. the reference generator `Geff.MockEdges.gen` (enumeration by offset, first `min m max` pairs):
   `length_gen`, `gen_valid`, `gen_nodup` for every `(directed, n, m)` (promoted from the spike
   `spikes/lean/Sp/MockEdges.lean`);
2. `genCore_eq`: the function **generated from the source** by translator T9
   (`Gen.MockEdges.genCore`, two double `foldl`s over `Geff.Py.range`) equals the reference generator
   for every `(directed, n, m)`.  This proof is re-checked against the regenerated `Gen/MockEdges.lean`
   on every run of the check; if the source changes shape it fails and the check falls back to
   searching a failing input with the specification decider. -/
namespace Geff.MockEdges

theorem mem_fwd {n a b : Nat} : (a, b) ∈ fwd n ↔ a < b ∧ b < n := by
  unfold fwd
  simp only [List.mem_flatMap, List.mem_range, List.mem_map, Prod.mk.injEq]
  constructor
  · rintro ⟨d', hd', i, hi, rfl, rfl⟩
    omega
  · rintro ⟨hab, hbn⟩
    exact ⟨b - a - 1, by omega, a, by omega, rfl, by omega⟩

/-- Σ_{d' < k} (k - d') computed by peeling the first summand -/
def tri : Nat → Nat
  | 0 => 0
  | k + 1 => tri k + (k + 1)

theorem two_tri (k : Nat) : 2 * tri k = k * (k + 1) := by
  induction k with
  | zero => rfl
  | succ k ih =>
    simp only [tri]
    rw [Nat.mul_add, ih]
    simp only [Nat.mul_add, Nat.add_mul, Nat.mul_one, Nat.one_mul]
    omega

theorem sum_range_sub (k : Nat) :
    ((List.range k).map (fun d' => k - d')).sum = tri k := by
  induction k with
  | zero => rfl
  | succ k ih =>
    rw [List.range_succ_eq_map, List.map_cons, List.sum_cons, List.map_map]
    have : ((fun d' => k + 1 - d') ∘ Nat.succ) = (fun d' => k - d') := by
      funext d'; simp
    rw [this, ih]
    simp only [tri]; omega

theorem length_fwd (n : Nat) : (fwd n).length = tri (n - 1) := by
  unfold fwd
  rw [List.length_flatMap]
  have : (List.map (fun d' => (List.map (fun i => (i, i + (d' + 1))) (List.range (n - (d' + 1)))).length) (List.range (n - 1)))
        = (List.range (n - 1)).map (fun d' => (n - 1) - d') := by
    apply List.map_congr_left
    intro d' _
    simp only [List.length_map, List.length_range]
    omega
  rw [this, sum_range_sub]

theorem two_length_fwd (n : Nat) : 2 * (fwd n).length = n * (n - 1) := by
  rw [length_fwd, two_tri]
  cases n with
  | zero => rfl
  | succ k => simp [Nat.mul_comm]

theorem length_all (directed : Bool) (n : Nat) : (all directed n).length = maxPossible directed n := by
  unfold all maxPossible
  cases directed with
  | false =>
    simp only [Bool.false_eq_true, if_false]
    have := two_length_fwd n; omega
  | true =>
    simp only [if_true, List.length_append, List.length_map]
    have := two_length_fwd n; omega

/-- C20, count: exactly min(requested, possible) edges, for every parameter triple -/
theorem length_gen (directed : Bool) (n m : Nat) :
    (gen directed n m).length = min m (maxPossible directed n) := by
  unfold gen
  rw [List.length_take, length_all]
  omega

/-- C20, validity: endpoints exist and no self edge -/
theorem gen_valid (directed : Bool) (n m : Nat) :
    ∀ e ∈ gen directed n m, e.1 < n ∧ e.2 < n ∧ e.1 ≠ e.2 := by
  intro e he
  have he' : e ∈ all directed n := List.mem_of_mem_take he
  unfold all at he'
  obtain ⟨a, b⟩ := e
  cases directed with
  | false =>
    simp only [Bool.false_eq_true, if_false] at he'
    have := mem_fwd.1 he'; simp only; omega
  | true =>
    simp only [if_true, List.mem_append, List.mem_map] at he'
    rcases he' with h | ⟨⟨x, y⟩, h, hxy⟩
    · have := mem_fwd.1 h; simp only; omega
    · have := mem_fwd.1 h
      simp only [swap, Prod.mk.injEq] at hxy
      simp only; omega

theorem nodup_fwd (n : Nat) : (fwd n).Nodup := by
  unfold fwd
  rw [List.nodup_flatMap]
  constructor
  · intro d' _
    apply List.Nodup.map_on _ List.nodup_range
    intro a _ b _ h
    simpa using congrArg Prod.fst h
  · apply List.Pairwise.imp_of_mem _ List.nodup_range
    intro d1 d2 _ _ hne e h1 h2
    simp only [List.mem_map, List.mem_range] at h1 h2
    obtain ⟨i, _, rfl⟩ := h1
    obtain ⟨j, _, hj⟩ := h2
    simp only [Prod.mk.injEq] at hj
    omega

theorem nodup_all_keys (directed : Bool) (n : Nat) : ((all directed n).map (key directed)).Nodup := by
  unfold all
  cases directed with
  | false =>
    simp only [Bool.false_eq_true, if_false]
    apply List.Nodup.map_on _ (nodup_fwd n)
    rintro ⟨a, b⟩ ha ⟨c, d⟩ hc h
    have h1 := mem_fwd.1 ha; have h2 := mem_fwd.1 hc
    simp only [key, Bool.false_eq_true, if_false, Prod.mk.injEq] at h
    simp only [Prod.mk.injEq]; omega
  | true =>
    have hk : (fun e : Nat × Nat => key true e) = id := by funext e; simp [key]
    simp only [if_true]
    rw [show List.map (key true) (fwd n ++ List.map swap (fwd n)) = fwd n ++ List.map swap (fwd n) from by
      rw [show key true = id from hk]; simp]
    rw [List.nodup_append]
    refine ⟨nodup_fwd n, ?_, ?_⟩
    · apply List.Nodup.map_on _ (nodup_fwd n)
      rintro ⟨a, b⟩ _ ⟨c, d⟩ _ h
      simp only [swap, Prod.mk.injEq] at h ⊢; omega
    · rintro ⟨a, b⟩ ha ⟨c, d⟩ hc
      simp only [List.mem_map] at hc
      obtain ⟨⟨x, y⟩, hxy, h⟩ := hc
      have h1 := mem_fwd.1 ha; have h2 := mem_fwd.1 hxy
      simp only [swap, Prod.mk.injEq] at h
      intro heq; simp only [Prod.mk.injEq] at heq; omega

/-- C20, no repeated edge (as unordered pairs when undirected), for every parameter triple -/
theorem gen_nodup (directed : Bool) (n m : Nat) : ((gen directed n m).map (key directed)).Nodup := by
  unfold gen
  rw [List.map_take]
  exact (nodup_all_keys directed n).sublist (List.take_sublist _ _)



def cast (e : Nat × Nat) : Int × Int := ((e.1 : Int), (e.2 : Int))

/-- inner loop: appending `f i` for every `i` of a list -/
theorem foldl_append_singleton {α β : Type} (f : β → α) (l : List β) (es : List α) :
    l.foldl (fun es i => es ++ [f i]) es = es ++ l.map f := by
  induction l generalizing es with
  | nil => simp
  | cons x t ih => simp [ih]

/-- outer loop: every row contributes at most what is still missing -/
theorem foldl_rows {α : Type} (A : Nat) (rows : List (List α)) (es : List α) :
    rows.foldl (fun es r => es ++ r.take (A - es.length)) es
      = es ++ rows.flatten.take (A - es.length) := by
  induction rows generalizing es with
  | nil => simp
  | cons r t ih =>
    simp only [List.foldl_cons, List.flatten_cons]
    rw [ih, List.take_append, List.append_assoc]
    congr 2
    simp only [List.length_append, List.length_take]
    congr 1
    omega

theorem range_zero (k : Int) : Geff.Py.range 0 k = (List.range k.toNat).map (fun (i : Nat) => (i : Int)) := by
  simp [Geff.Py.range]

theorem range_one (n : Nat) : Geff.Py.range 1 (n : Int) = (List.range (n - 1)).map (fun (d' : Nat) => ((d' : Int) + 1)) := by
  simp only [Geff.Py.range]
  have : ((n : Int) - 1).toNat = n - 1 := by omega
  rw [this]
  apply List.map_congr_left
  intro a _; omega


theorem foldl_congr' {α β : Type} (f g : α → β → α) (l : List β) (a : α)
    (h : ∀ a b, b ∈ l → f a b = g a b) : l.foldl f a = l.foldl g a := by
  induction l generalizing a with
  | nil => rfl
  | cons x t ih =>
    simp only [List.foldl_cons]
    rw [h a x (List.mem_cons_self), ih]
    intro a b hb; exact h a b (List.mem_cons_of_mem _ hb)

/-- one pass of the generated double loop = append what is still missing of the row-wise
enumeration -/
theorem phase (n A : Nat) (mk : Int → Int → Int × Int) (mkN : Nat → Nat → Nat × Nat)
    (hmk : ∀ i d : Nat, mk i d = cast (mkN i d)) (es : List (Int × Int)) :
    (Geff.Py.range 1 (n : Int)).foldl (fun es offset =>
        (Geff.Py.range 0 (min ((n : Int) - offset) ((A : Int) - ((es.length : Nat) : Int)))).foldl
          (fun es i => es ++ [mk i offset]) es) es
    = es ++ (((List.range (n - 1)).flatMap (fun d' =>
        (List.range (n - (d' + 1))).map (fun i => mkN i (d' + 1)))).map cast).take (A - es.length) := by
  rw [range_one, List.foldl_map]
  rw [foldl_congr' _ (fun es d' => es ++ (((List.range (n - (d' + 1))).map (fun i => mkN i (d' + 1))).map cast).take (A - es.length))]
  · rw [List.flatMap_def, List.map_flatten, List.map_map, ← foldl_rows, List.foldl_map]
    rfl
  · intro es d' _
    rw [foldl_append_singleton, range_zero]
    congr 1
    have : (min ((n : Int) - ((d' : Int) + 1)) ((A : Int) - ((es.length : Nat) : Int))).toNat
        = min (A - es.length) (n - (d' + 1)) := by omega
    rw [this, ← List.take_range, List.map_take, List.map_take, List.map_map, List.map_map]
    congr 1
    apply List.map_congr_left
    intro i _
    simp only [Function.comp]
    have := hmk i (d' + 1)
    push_cast at this
    exact this


theorem maxPossible_cast (d : Bool) (n : Nat) :
    (if (!d) = true then ((n : Int) * ((n : Int) - 1)) / 2 else (n : Int) * ((n : Int) - 1))
      = ((maxPossible d n : Nat) : Int) := by
  cases n with
  | zero => cases d <;> simp [maxPossible]
  | succ k =>
    have h : ((k + 1 : Nat) : Int) - 1 = ((k + 1 - 1 : Nat) : Int) := by omega
    cases d
    · simp only [maxPossible, Bool.not_false, if_true, Bool.false_eq_true, if_false]
      rw [h]; norm_cast
    · simp only [maxPossible, Bool.not_true, Bool.false_eq_true, if_false, if_true]
      rw [h]; norm_cast

theorem fwd_eq (n : Nat) : fwd n = (List.range (n - 1)).flatMap (fun d' =>
    (List.range (n - (d' + 1))).map (fun i => (i, i + (d' + 1)))) := rfl

theorem genCore_eq (d : Bool) (n m : Nat) :
    Gen.MockEdges.genCore d n m = (gen d n m).map cast := by
  unfold Gen.MockEdges.genCore gen
  simp only [maxPossible_cast]
  have hA : min (m : Int) ((maxPossible d n : Nat) : Int) = ((min m (maxPossible d n) : Nat) : Int) := by
    omega
  rw [hA]
  generalize min m (maxPossible d n) = A
  rw [phase n A (fun i o => (i, i + o)) (fun i o => (i, i + o)) (by intro i d; simp [cast])]
  simp only [List.nil_append, List.length_nil, Nat.sub_zero, ← fwd_eq]
  cases d
  · simp [all, List.map_take]
  · simp only [if_true]
    rw [phase n A (fun i o => (i + o, i)) (fun i o => (i + o, i)) (by intro i d; simp [cast])]
    simp only [all, if_true, List.map_take, List.map_append, List.length_take, List.length_map]
    rw [List.take_append]
    congr 2
    · simp only [List.length_map]; omega
    · rw [fwd_eq]
      simp [swap, Function.comp_def, List.map_flatMap]

/-- a duplicate-free list inside another list is not longer -/
theorem length_le_of_nodup_subset {α : Type} [DecidableEq α] {l₁ l₂ : List α} (hn : l₁.Nodup) (hs : l₁ ⊆ l₂) :
    l₁.length ≤ l₂.length :=
  (List.subperm_of_subset hn hs).length_le

end Geff.MockEdges
