import GeffProofs.CtcLists
/-! The frame loop of `fromCtc`: loop invariant and closed form of the final state. -/
namespace Geff.Ctc

/-- the regions in loop order, each tagged with its frame index -/
def objs : Nat → List (List Region) → List (Nat × Region)
  | _, [] => []
  | t, fr :: frs => fr.map (fun r => (t, r)) ++ objs (t + 1) frs

/-- component `k` of a centroid counted from the end (`obj.centroid[::-1][k]`) -/
def comp (k : Nat) (o : Nat × Region) : Option String := o.2.centroid.reverse[k]?

/-- abstract input as the libraries deliver it: frames are 2-D or 3-D and every centroid has one
coordinate per frame axis -/
structure Dataset.WF (ds : Dataset) : Prop where
  ndim : ds.ndim = 2 ∨ ds.ndim = 3
  cen : ∀ fr ∈ ds.frames, ∀ r ∈ fr, r.centroid.length = ds.ndim

/-! ### the `tracks` dict -/

structure TracksInv (labels : List Int) (tracks : List (Int × List Nat)) : Prop where
  nodup : (tracks.map (·.1)).Nodup
  vals : ∀ e ∈ tracks, e.2 = idxs e.1 0 labels
  keys : ∀ l, l ∈ tracks.map (·.1) ↔ l ∈ labels

theorem TracksInv.nil : TracksInv [] [] := ⟨by simp, by simp, by simp⟩

theorem TracksInv.push {labels : List Int} {tracks : List (Int × List Nat)} (h : TracksInv labels tracks)
    (l : Int) : TracksInv (labels ++ [l]) (dictPush tracks l labels.length) := by
  unfold dictPush
  by_cases hk : hasKey tracks l = true
  · simp only [hk, if_true]
    have hkeys : (dictAppendAt tracks l labels.length).map (·.1) = tracks.map (·.1) := by
      unfold dictAppendAt
      rw [List.map_map]
      apply List.map_congr_left
      intro e _; simp only [Function.comp]; split <;> rfl
    refine ⟨by rw [hkeys]; exact h.nodup, ?_, ?_⟩
    · intro e' he'
      unfold dictAppendAt at he'
      obtain ⟨e, he, rfl⟩ := List.mem_map.1 he'
      by_cases hel : e.1 = l
      · simp only [hel, if_true]
        rw [idxs_append, if_pos rfl, ← hel, ← h.vals e he]; simp
      · simp only [hel, if_false]
        rw [idxs_append, if_neg (fun h' => hel h'.symm), ← h.vals e he]; simp
    · intro l'
      rw [hkeys, List.mem_append, h.keys]
      constructor
      · exact Or.inl
      · rintro (h' | h')
        · exact h'
        · simp only [List.mem_singleton] at h'; subst h'
          exact (h.keys _).1 ((hasKey_iff tracks _).1 hk)
  · have hk' : hasKey tracks l = false := by simpa using hk
    have hnot : l ∉ tracks.map (·.1) := fun hm => hk ((hasKey_iff tracks l).2 hm)
    have hnl : l ∉ labels := fun hm => hnot ((h.keys l).2 hm)
    simp only [hk', Bool.false_eq_true, if_false]
    refine ⟨?_, ?_, ?_⟩
    · rw [List.map_append, List.nodup_append]
      refine ⟨h.nodup, by simp, ?_⟩
      intro a ha b hb
      simp only [List.map_cons, List.map_nil, List.mem_singleton] at hb
      subst hb; rintro rfl; exact hnot ha
    · intro e he
      rcases List.mem_append.1 he with he1 | he2
      · have hne : l ≠ e.1 := by
          rintro rfl; exact hnot (List.mem_map.2 ⟨e, he1, rfl⟩)
        rw [idxs_append, if_neg hne, ← h.vals e he1]; simp
      · simp only [List.mem_singleton] at he2; subst he2
        simp [idxs_append, idxs_eq_nil l labels 0 hnl]
    · intro l'
      simp only [List.map_append, List.mem_append, List.map_cons, List.map_nil, List.mem_singleton, h.keys]

theorem TracksInv.get {labels : List Int} {tracks : List (Int × List Nat)} (h : TracksInv labels tracks)
    (l : Int) : dictGet? tracks l = if l ∈ labels then some (idxs l 0 labels) else none := by
  by_cases hl : l ∈ labels
  · simp only [hl, if_true]
    obtain ⟨e, he, rfl⟩ := List.mem_map.1 ((h.keys l).2 hl)
    have := h.vals e he
    exact dictGet?_of_mem tracks e.1 _ h.nodup (by rw [← this]; exact he)
  · simp only [hl, if_false]
    exact dictGet?_eq_none tracks l (fun hm => hl ((h.keys l).1 hm))

/-! ### the coordinate lists -/

inductive CoordsOk (ndim : Nat) (pre : List (Nat × Region)) : List (String × List String) → Prop
  | two (xs ys : List String) : ndim ≠ 3 →
      xs.map some = pre.map (comp 0) → ys.map some = pre.map (comp 1) →
      CoordsOk ndim pre [("x", xs), ("y", ys)]
  | three (xs ys zs : List String) : ndim = 3 →
      xs.map some = pre.map (comp 0) → ys.map some = pre.map (comp 1) → zs.map some = pre.map (comp 2) →
      CoordsOk ndim pre [("x", xs), ("y", ys), ("z", zs)]

/-- before the `z` list has been created (only possible while no object has been seen) -/
def CoordsPre (ndim : Nat) (pre : List (Nat × Region)) (coords : List (String × List String)) : Prop :=
  CoordsOk ndim pre coords ∨ (ndim = 3 ∧ pre = [] ∧ coords = [("x", []), ("y", [])])

theorem list_len2 {β : Type} (c : List β) (h : c.length = 2) : ∃ a b, c = [a, b] := by
  match c, h with
  | [a, b], _ => exact ⟨a, b, rfl⟩

theorem list_len3 {β : Type} (c : List β) (h : c.length = 3) : ∃ a b d, c = [a, b, d] := by
  match c, h with
  | [a, b, d], _ => exact ⟨a, b, d, rfl⟩

theorem appendCoords_ok (ndim : Nat) (hnd : ndim = 2 ∨ ndim = 3) (pre : List (Nat × Region))
    (coords : List (String × List String)) (h : CoordsOk ndim pre coords) (t : Nat) (o : Region)
    (hc : o.centroid.length = ndim) :
    ∃ coords', appendCoords coords ["x", "y", "z"] o.centroid.reverse = .ok coords' ∧
      CoordsOk ndim (pre ++ [(t, o)]) coords' := by
  cases h with
  | two xs ys h3 hx hy =>
    have h2 : ndim = 2 := by omega
    obtain ⟨a, b, hab⟩ := list_len2 o.centroid.reverse (by simp [hc, h2])
    refine ⟨[("x", xs ++ [a]), ("y", ys ++ [b])], ?_, ?_⟩
    · rw [hab]; simp [appendCoords, hasKey, dictAppendAt]
    · refine CoordsOk.two _ _ h3 ?_ ?_ <;> simp [comp, hab, hx, hy]
  | three xs ys zs h3 hx hy hz =>
    obtain ⟨a, b, d, hab⟩ := list_len3 o.centroid.reverse (by simp [hc, h3])
    refine ⟨[("x", xs ++ [a]), ("y", ys ++ [b]), ("z", zs ++ [d])], ?_, ?_⟩
    · rw [hab]; simp [appendCoords, hasKey, dictAppendAt]
    · refine CoordsOk.three _ _ _ h3 ?_ ?_ ?_ <;> simp [comp, hab, hx, hy, hz]

/-! ### the loop invariant -/

structure Inv (ndim : Nat) (pre : List (Nat × Region)) (st : St) : Prop where
  nodeId : st.nodeId = pre.length
  ids : st.ids = List.range pre.length
  tracklet : st.tracklet = pre.map (·.2.label)
  ts : st.ts = pre.map (·.1)
  tracks : TracksInv (pre.map (·.2.label)) st.tracks

theorem addObj_inv (ndim : Nat) (hnd : ndim = 2 ∨ ndim = 3) (pre : List (Nat × Region)) (st : St)
    (hi : Inv ndim pre st) (hco : CoordsOk ndim pre st.coords) (t : Nat) (o : Region)
    (hc : o.centroid.length = ndim) :
    ∃ st', addObj t st o = .ok st' ∧ Inv ndim (pre ++ [(t, o)]) st' ∧
      CoordsOk ndim (pre ++ [(t, o)]) st'.coords := by
  obtain ⟨coords', h1, h2⟩ := appendCoords_ok ndim hnd pre st.coords hco t o hc
  refine ⟨{ nodeId := st.nodeId + 1, ids := st.ids ++ [st.nodeId], tracklet := st.tracklet ++ [o.label],
            ts := st.ts ++ [t], coords := coords', tracks := dictPush st.tracks o.label st.nodeId },
    by simp only [addObj, h1], ?_, h2⟩
  refine ⟨by simp [hi.nodeId], by simp [hi.ids, hi.nodeId, List.range_succ], by simp [hi.tracklet],
    by simp [hi.ts], ?_⟩
  have := hi.tracks.push o.label
  simpa [hi.nodeId] using this

theorem addObjs_inv (ndim : Nat) (hnd : ndim = 2 ∨ ndim = 3) (t : Nat) :
    ∀ (fr : List Region) (pre : List (Nat × Region)) (st : St),
      Inv ndim pre st → CoordsOk ndim pre st.coords → (∀ r ∈ fr, r.centroid.length = ndim) →
      ∃ st', addObjs t st fr = .ok st' ∧ Inv ndim (pre ++ fr.map (fun r => (t, r))) st' ∧
        CoordsOk ndim (pre ++ fr.map (fun r => (t, r))) st'.coords := by
  intro fr
  induction fr with
  | nil => intro pre st hi hco _; exact ⟨st, rfl, by simpa using hi, by simpa using hco⟩
  | cons o os ih =>
    intro pre st hi hco hc
    obtain ⟨st1, h1, hi1, hco1⟩ := addObj_inv ndim hnd pre st hi hco t o (hc o (List.mem_cons_self ..))
    obtain ⟨st2, h2, hi2, hco2⟩ := ih _ st1 hi1 hco1 (fun r hr => hc r (List.mem_cons_of_mem _ hr))
    refine ⟨st2, by simp only [addObjs, h1, h2], ?_, ?_⟩
    · simpa [List.append_assoc] using hi2
    · simpa [List.append_assoc] using hco2

theorem ensureZ_ok (ndim : Nat) (pre : List (Nat × Region)) (st : St) (h : CoordsPre ndim pre st.coords) :
    CoordsOk ndim pre (ensureZ ndim st).coords ∧
      (ensureZ ndim st).nodeId = st.nodeId ∧ (ensureZ ndim st).ids = st.ids ∧
      (ensureZ ndim st).tracklet = st.tracklet ∧ (ensureZ ndim st).ts = st.ts ∧
      (ensureZ ndim st).tracks = st.tracks := by
  obtain ⟨nid, ids, trk, ts, coords, tracks⟩ := st
  simp only at h
  refine ⟨?_, ?_⟩
  · rcases h with h | ⟨h3, hpre, hc⟩
    · cases h with
      | two xs ys hn3 hx hy =>
        have : ensureZ ndim ⟨nid, ids, trk, ts, [("x", xs), ("y", ys)], tracks⟩ =
            ⟨nid, ids, trk, ts, [("x", xs), ("y", ys)], tracks⟩ := by simp [ensureZ, hn3]
        rw [this]; exact CoordsOk.two xs ys hn3 hx hy
      | three xs ys zs h3 hx hy hz =>
        have : ensureZ ndim ⟨nid, ids, trk, ts, [("x", xs), ("y", ys), ("z", zs)], tracks⟩ =
            ⟨nid, ids, trk, ts, [("x", xs), ("y", ys), ("z", zs)], tracks⟩ := by simp [ensureZ, hasKey]
        rw [this]; exact CoordsOk.three xs ys zs h3 hx hy hz
    · subst hpre; subst hc
      have : (ensureZ ndim ⟨nid, ids, trk, ts, [("x", []), ("y", [])], tracks⟩).coords =
          [("x", []), ("y", []), ("z", [])] := by simp [ensureZ, h3, hasKey]
      rw [this]; exact CoordsOk.three [] [] [] h3 rfl rfl rfl
  · unfold ensureZ; split <;> simp

theorem addFrames_inv (ndim : Nat) (hnd : ndim = 2 ∨ ndim = 3) :
    ∀ (frames : List (List Region)) (t0 : Nat) (pre : List (Nat × Region)) (st : St),
      Inv ndim pre st → CoordsPre ndim pre st.coords →
      (∀ fr ∈ frames, ∀ r ∈ fr, r.centroid.length = ndim) →
      ∃ st', addFrames ndim t0 st frames = .ok st' ∧ Inv ndim (pre ++ objs t0 frames) st' ∧
        CoordsPre ndim (pre ++ objs t0 frames) st'.coords := by
  intro frames
  induction frames with
  | nil => intro t0 pre st hi hco _; exact ⟨st, rfl, by simpa [objs] using hi, by simpa [objs] using hco⟩
  | cons fr frs ih =>
    intro t0 pre st hi hco hc
    obtain ⟨hz, e1, e2, e3, e4, e5⟩ := ensureZ_ok ndim pre st hco
    have hi' : Inv ndim pre (ensureZ ndim st) :=
      ⟨by rw [e1]; exact hi.nodeId, by rw [e2]; exact hi.ids, by rw [e3]; exact hi.tracklet,
       by rw [e4]; exact hi.ts, by rw [e5]; exact hi.tracks⟩
    obtain ⟨st1, h1, hi1, hco1⟩ := addObjs_inv ndim hnd t0 fr pre _ hi' hz (hc fr (List.mem_cons_self ..))
    obtain ⟨st2, h2, hi2, hco2⟩ := ih (t0 + 1) _ st1 hi1 (Or.inl hco1)
      (fun f hf => hc f (List.mem_cons_of_mem _ hf))
    refine ⟨st2, by simp only [addFrames, h1, h2], ?_, ?_⟩
    · simpa [objs, List.append_assoc] using hi2
    · simpa [objs, List.append_assoc] using hco2

theorem Inv.init (ndim : Nat) : Inv ndim [] St.init :=
  ⟨rfl, rfl, rfl, rfl, TracksInv.nil⟩

theorem CoordsPre.init (ndim : Nat) (_hnd : ndim = 2 ∨ ndim = 3) : CoordsPre ndim [] St.init.coords := by
  by_cases h3 : ndim = 3
  · exact Or.inr ⟨h3, rfl, rfl⟩
  · exact Or.inl (CoordsOk.two [] [] h3 rfl rfl)

/-! ### the table loop -/

/-- the edge a row with a parent produces (defaults are never used when both labels occur) -/
def pedge (labels : List Int) (r : Row) : Nat × Nat :=
  ((idxs r.P 0 labels).getLast?.getD 0, (idxs r.L 0 labels).head?.getD 0)

theorem parentEdge_ok {labels : List Int} {tracks : List (Int × List Nat)} (h : TracksInv labels tracks)
    (r : Row) (hL : r.L ∈ labels) (hP : r.P ∈ labels) :
    parentEdge tracks r = .ok (pedge labels r) ∧
      (idxs r.P 0 labels).getLast? = some (pedge labels r).1 ∧
      (idxs r.L 0 labels).head? = some (pedge labels r).2 := by
  have h1 := h.get r.L
  have h2 := h.get r.P
  simp only [hL, hP, if_true] at h1 h2
  obtain ⟨c, cs, hc⟩ := List.exists_cons_of_ne_nil (idxs_ne_nil r.L labels 0 hL)
  have hne := idxs_ne_nil r.P labels 0 hP
  obtain ⟨p, hp⟩ : ∃ p, (idxs r.P 0 labels).getLast? = some p := by
    cases hh : (idxs r.P 0 labels).getLast? with
    | none => exact absurd (List.getLast?_eq_none_iff.1 hh) hne
    | some p => exact ⟨p, rfl⟩
  refine ⟨?_, ?_, ?_⟩
  · simp [parentEdge, h1, h2, pedge, hc, hp]
  · simp [pedge, hp]
  · simp [pedge, hc]

theorem parentEdge_keyError {labels : List Int} {tracks : List (Int × List Nat)} (h : TracksInv labels tracks)
    (r : Row) (hbad : ¬ (r.L ∈ labels ∧ r.P ∈ labels)) : parentEdge tracks r = .keyError := by
  have h1 := h.get r.L
  have h2 := h.get r.P
  by_cases hL : r.L ∈ labels
  · have hP : r.P ∉ labels := fun hP => hbad ⟨hL, hP⟩
    simp only [hL, hP, if_true, if_false] at h1 h2
    obtain ⟨c, cs, hc⟩ := List.exists_cons_of_ne_nil (idxs_ne_nil r.L labels 0 hL)
    simp [parentEdge, h1, h2, hc]
  · simp only [hL, if_false] at h1
    simp [parentEdge, h1]

theorem parentEdges_ok {labels : List Int} {tracks : List (Int × List Nat)} (h : TracksInv labels tracks) :
    ∀ rows : List Row, (∀ r ∈ rows, r.L ∈ labels ∧ r.P ∈ labels) →
      parentEdges tracks rows = .ok (rows.map (pedge labels)) := by
  intro rows
  induction rows with
  | nil => intro _; rfl
  | cons r rs ih =>
    intro hall
    have hr := hall r (List.mem_cons_self ..)
    simp only [parentEdges, (parentEdge_ok h r hr.1 hr.2).1,
      ih (fun q hq => hall q (List.mem_cons_of_mem _ hq)), List.map_cons]

theorem parentEdges_keyError {labels : List Int} {tracks : List (Int × List Nat)} (h : TracksInv labels tracks) :
    ∀ rows : List Row, (∃ r ∈ rows, ¬ (r.L ∈ labels ∧ r.P ∈ labels)) →
      parentEdges tracks rows = .keyError := by
  intro rows
  induction rows with
  | nil => rintro ⟨r, hr, _⟩; cases hr
  | cons r rs ih =>
    rintro ⟨q, hq, hbad⟩
    by_cases hr : r.L ∈ labels ∧ r.P ∈ labels
    · have hq' : q ∈ rs := by
        rcases List.mem_cons.1 hq with rfl | hq'
        · exact absurd hr hbad
        · exact hq'
      simp only [parentEdges, (parentEdge_ok h r hr.1 hr.2).1, ih ⟨q, hq', hbad⟩]
    · simp only [parentEdges, parentEdge_keyError h r hr]

/-! ### closed form of `fromCtc` -/

theorem CoordsOk.lengths {ndim : Nat} {pre : List (Nat × Region)} {coords : List (String × List String)}
    (h : CoordsOk ndim pre coords) : ∀ c ∈ coords, c.2.length = pre.length := by
  have hl : ∀ (xs : List String) (f : Nat × Region → Option String), xs.map some = pre.map f →
      xs.length = pre.length := by
    intro xs f hx
    have := congrArg List.length hx
    simpa using this
  cases h with
  | two xs ys _ hx hy =>
    intro c hc
    simp only [List.mem_cons, List.not_mem_nil, or_false] at hc
    rcases hc with rfl | rfl
    · exact hl _ _ hx
    · exact hl _ _ hy
  | three xs ys zs _ hx hy hz =>
    intro c hc
    simp only [List.mem_cons, List.not_mem_nil, or_false] at hc
    rcases hc with rfl | rfl | rfl
    · exact hl _ _ hx
    · exact hl _ _ hy
    · exact hl _ _ hz

/-- rows that carry a parent -/
def prows (ds : Dataset) : List Row := ds.table.filter (fun r => decide (r.P > 0))

/-- labels of the nodes, in node-id order -/
def labelsOf (ds : Dataset) : List Int := (objs 0 ds.frames).map (·.2.label)

theorem fromCtc_spec (ds : Dataset) (hwf : ds.WF) :
    (objs 0 ds.frames = [] → fromCtc ds = .valueError) ∧
    (objs 0 ds.frames ≠ [] → (∃ r ∈ prows ds, ¬ (r.L ∈ labelsOf ds ∧ r.P ∈ labelsOf ds)) →
      fromCtc ds = .keyError) ∧
    (objs 0 ds.frames ≠ [] → (∀ r ∈ prows ds, r.L ∈ labelsOf ds ∧ r.P ∈ labelsOf ds) →
      ∃ tracks coords, TracksInv (labelsOf ds) tracks ∧ CoordsOk ds.ndim (objs 0 ds.frames) coords ∧
        fromCtc ds = .ok
          { nodeIds := List.range (objs 0 ds.frames).length
            tracklet := labelsOf ds
            ts := (objs 0 ds.frames).map (·.1)
            coords := coords
            edges := trackEdges tracks ++ (prows ds).map (pedge (labelsOf ds))
            axes := axesOf coords }) := by
  obtain ⟨st, hst, hi, hco⟩ := addFrames_inv ds.ndim hwf.ndim ds.frames 0 [] St.init (Inv.init _)
    (CoordsPre.init _ hwf.ndim) hwf.cen
  simp only [List.nil_append] at hi hco
  refine ⟨?_, ?_, ?_⟩
  · intro hnil
    simp only [fromCtc, hst, hi.ids, hnil]
    simp
  · intro hne hbad
    have hemp : st.ids.isEmpty = false := by
      rw [hi.ids]; cases h : objs 0 ds.frames with
      | nil => exact absurd h hne
      | cons a b => simp [List.range_succ]
    have := parentEdges_keyError hi.tracks (prows ds) hbad
    simp only [prows] at this
    simp only [fromCtc, hst, hemp, this]
    simp
  · intro hne hall
    have hemp : st.ids.isEmpty = false := by
      rw [hi.ids]; cases h : objs 0 ds.frames with
      | nil => exact absurd h hne
      | cons a b => simp [List.range_succ]
    have hcok : CoordsOk ds.ndim (objs 0 ds.frames) st.coords := by
      rcases hco with h | ⟨_, h, _⟩
      · exact h
      · exact absurd h hne
    have hpe := parentEdges_ok hi.tracks (prows ds) hall
    simp only [prows] at hpe
    have hlen : st.coords.all (fun c => decide (c.2.length = st.ids.length)) = true := by
      simp only [List.all_eq_true, decide_eq_true_eq]
      intro c hc
      rw [hcok.lengths c hc, hi.ids]; simp
    refine ⟨st.tracks, st.coords, hi.tracks, hcok, ?_⟩
    simp only [fromCtc, hst, hemp, hpe, hlen]
    simp [hi.ids, hi.tracklet, hi.ts, labelsOf, prows]

end Geff.Ctc
