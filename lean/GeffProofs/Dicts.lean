import GeffModel.Backends
/-! Lemmas about the dict → array layer (`GeffModel/Dicts.lean`) used by the C03 theorems. -/
namespace Geff.Dicts
open Geff.Np

/-! ### mapE -/
theorem mapE_ok_map {α β : Type} (f : α → Except Err β) (g : α → β) (l : List α)
    (h : ∀ a ∈ l, f a = .ok (g a)) : mapE f l = .ok (l.map g) := by
  induction l with
  | nil => rfl
  | cons a t ih =>
    have h1 := h a (by simp)
    have h2 := ih (fun b hb => h b (by simp [hb]))
    simp [mapE, h1, h2]

theorem mapE_ok_id {α : Type} (f : α → Except Err α) (l : List α)
    (h : ∀ a ∈ l, f a = .ok a) : mapE f l = .ok l := by
  have := mapE_ok_map f id l (by simpa using h)
  simpa using this

/-! ### Attrs -/

theorem lookup_cons_ite {β : Type} (k' k : String) (v : β) (t : List (String × β)) :
    List.lookup k' ((k, v) :: t) = if k' = k then some v else List.lookup k' t := by
  rw [List.lookup_cons]
  by_cases h : k' = k
  · subst h; simp
  · have hb : (k' == k) = false := by simpa using h
    simp [hb, h]

theorem lookup_set (a : Attrs) (k k' : String) (v : PyVal) :
    (a.set k v).lookup k' = if k' = k then some v else a.lookup k' := by
  induction a with
  | nil => simp [Attrs.set, lookup_cons_ite]
  | cons p t ih =>
    obtain ⟨k0, v0⟩ := p
    simp only [Attrs.set]
    by_cases h0 : k0 = k
    · subst h0
      simp only [if_true, lookup_cons_ite]
      by_cases h : k' = k0 <;> simp [h]
    · simp only [h0, if_false, lookup_cons_ite, ih]
      by_cases h : k' = k
      · subst h
        have : ¬ k' = k0 := fun h' => h0 h'.symm
        simp [this]
      · simp [h]


/-! ### dtype inference on leaves of one class -/

/-- the classes of leaves a property may consist of (the documented domain: one kind per
property; integers must fit one 64-bit type together) -/
inductive LeafClass where
  | bool | int64 | uint64 | float | str
deriving DecidableEq, Repr

def LeafClass.holds : LeafClass → Val → Bool
  | .bool, .b _ => true
  | .int64, .i v => decide (-two63 ≤ v ∧ v < two63)
  | .uint64, .i v => decide (0 ≤ v ∧ v < two64)
  | .float, .f _ => true
  | .str, .s _ => true
  | _, _ => false

theorem promote_self (d : Dtype) : promote d d = d := by simp [promote]

theorem foldl_promote_const (d : Dtype) (l : List Dtype) (h : ∀ x ∈ l, x = d) : l.foldl promote d = d := by
  induction l with
  | nil => rfl
  | cons a t ih =>
    have ha : a = d := h a (by simp)
    subst ha
    simp only [List.foldl_cons, promote_self]
    exact ih (fun x hx => h x (by simp [hx]))

theorem joinAll_const (d : Dtype) (l : List Dtype) (hne : l ≠ []) (h : ∀ x ∈ l, x = d) : joinAll l = d := by
  cases l with
  | nil => exact absurd rfl hne
  | cons a t =>
    have ha : a = d := h a (by simp)
    subst ha
    exact foldl_promote_const a t (fun x hx => h x (by simp [hx]))

theorem foldl_promote_int (a : Dtype) (l : List Dtype) (ha : a = .i64 ∨ a = .u64 ∨ a = .f64)
    (h : ∀ x ∈ l, x = .i64 ∨ x = .u64) :
    l.foldl promote a = .i64 ∨ l.foldl promote a = .u64 ∨ l.foldl promote a = .f64 := by
  induction l generalizing a with
  | nil => simpa using ha
  | cons x t ih =>
    simp only [List.foldl_cons]
    apply ih
    · have hx := h x (by simp)
      rcases ha with rfl | rfl | rfl <;> rcases hx with rfl | rfl <;> decide
    · intro y hy; exact h y (by simp [hy])

theorem joinAll_int (l : List Dtype) (h : ∀ x ∈ l, x = .i64 ∨ x = .u64) :
    joinAll l = .i64 ∨ joinAll l = .u64 ∨ joinAll l = .f64 := by
  cases l with
  | nil => right; right; rfl
  | cons a t =>
    apply foldl_promote_int
    · rcases h a (by simp) with h | h <;> simp [h]
    · intro y hy; exact h y (by simp [hy])

theorem exactIntDtype_nil (d : Dtype) : exactIntDtype [] d = .ok d := by
  simp [exactIntDtype]

/-- numpy's inference (+ the exact-integer repair) on leaves of one class: a dtype is found and
every leaf is stored unchanged -/
theorem infer_uniform (K : LeafClass) (leaves : List Val) (h : ∀ v ∈ leaves, K.holds v = true) :
    ∃ d, exactIntDtype leaves (joinAll (leaves.map discover)) = .ok d ∧ ∀ v ∈ leaves, castTo d v = .ok v := by
  by_cases hne : leaves = []
  · subst hne; exact ⟨_, exactIntDtype_nil _, by simp⟩
  have hne' : leaves.map discover ≠ [] := by simpa using hne
  cases K with
  | bool =>
    have hd : ∀ x ∈ leaves.map discover, x = Dtype.bool := by
      intro x hx
      obtain ⟨v, hv, rfl⟩ := List.mem_map.1 hx
      have := h v hv
      cases v <;> simp_all [LeafClass.holds, discover]
    refine ⟨.bool, ?_, ?_⟩
    · rw [joinAll_const _ _ hne' hd]; simp [exactIntDtype]
    · intro v hv; have := h v hv; cases v <;> simp_all [LeafClass.holds, castTo]
  | str =>
    have hd : ∀ x ∈ leaves.map discover, x = Dtype.str := by
      intro x hx
      obtain ⟨v, hv, rfl⟩ := List.mem_map.1 hx
      have := h v hv
      cases v <;> simp_all [LeafClass.holds, discover]
    refine ⟨.str, ?_, ?_⟩
    · rw [joinAll_const _ _ hne' hd]; simp [exactIntDtype]
    · intro v hv; have := h v hv; cases v <;> simp_all [LeafClass.holds, castTo]
  | float =>
    have hd : ∀ x ∈ leaves.map discover, x = Dtype.f64 := by
      intro x hx
      obtain ⟨v, hv, rfl⟩ := List.mem_map.1 hx
      have := h v hv
      cases v <;> simp_all [LeafClass.holds, discover]
    refine ⟨.f64, ?_, ?_⟩
    · rw [joinAll_const _ _ hne' hd]
      have : leaves.all isInt = false := by
        cases leaves with
        | nil => exact absurd rfl hne
        | cons v t =>
          have := h v (by simp)
          cases v <;> simp_all [LeafClass.holds, isInt]
      simp [exactIntDtype, this]
    · intro v hv; have := h v hv; cases v <;> simp_all [LeafClass.holds, castTo]
  | int64 =>
    have hd : ∀ x ∈ leaves.map discover, x = Dtype.i64 := by
      intro x hx
      obtain ⟨v, hv, rfl⟩ := List.mem_map.1 hx
      have := h v hv
      cases v <;> simp_all [LeafClass.holds, discover]
    refine ⟨.i64, ?_, ?_⟩
    · rw [joinAll_const _ _ hne' hd]; simp [exactIntDtype]
    · intro v hv; have := h v hv; cases v <;> simp_all [LeafClass.holds, castTo]
  | uint64 =>
    have hint : ∀ v ∈ leaves, ∃ x, v = Val.i x ∧ 0 ≤ x ∧ x < two64 := by
      intro v hv; have := h v hv
      cases v <;> simp_all [LeafClass.holds]
    have hd : ∀ x ∈ leaves.map discover, x = Dtype.i64 ∨ x = Dtype.u64 := by
      intro x hx
      obtain ⟨v, hv, rfl⟩ := List.mem_map.1 hx
      obtain ⟨y, rfl, h0, h1⟩ := hint v hv
      simp only [discover]
      by_cases hy : -two63 ≤ y ∧ y < two63
      · simp [hy]
      · have : two63 ≤ y := by
          simp only [two63] at hy ⊢
          omega
        simp [hy, this, h1]
    have hcast : ∀ d, (d = Dtype.i64 ∨ d = Dtype.u64) → ∀ v ∈ leaves, castTo d v = .ok v := by
      intro d hd' v hv
      obtain ⟨y, rfl, _, _⟩ := hint v hv
      rcases hd' with rfl | rfl <;> simp [castTo]
    have hallint : leaves.all isInt = true := by
      simp only [List.all_eq_true]
      intro v hv; obtain ⟨y, rfl, _, _⟩ := hint v hv; rfl
    have hallu : leaves.all inU64 = true := by
      simp only [List.all_eq_true]
      intro v hv; obtain ⟨y, rfl, h0, h1⟩ := hint v hv; simp [inU64, h0, h1]
    rcases joinAll_int _ hd with hj | hj | hj
    · exact ⟨.i64, by rw [hj]; simp [exactIntDtype], hcast _ (Or.inl rfl)⟩
    · exact ⟨.u64, by rw [hj]; simp [exactIntDtype, hne, hallint, hallu], hcast _ (Or.inr rfl)⟩
    · exact ⟨.u64, by rw [hj]; simp [exactIntDtype, hne, hallint, hallu], hcast _ (Or.inr rfl)⟩



/-! ### one regular array per property -/

/-- the values of one property all have shape tag `sh` (`none` = scalar) and leaves of class `K`;
`some []` (a 0-d array) is not a list -/
def RegularVals (K : LeafClass) (sh : Option (List Nat)) (vals : List PyVal) : Prop :=
  sh ≠ some [] ∧ ∀ x ∈ vals, pyShape x = sh ∧ ∀ v ∈ pyLeaves x, K.holds v = true

theorem rowToPy_pyRow (x : PyVal) (h : pyShape x ≠ some []) : rowToPy false (pyRow x) = x := by
  cases x with
  | sc v => rfl
  | arr sh fl =>
    cases sh with
    | nil => exact absurd rfl h
    | cons a s => rfl
  | none => exact absurd rfl h

/-- a row that reads back as its value is not `None` -/
theorem not_none_of_back (vl : Bool) (x : PyVal) (h : rowToPy vl (pyRow x) = x) : x.isNone = false := by
  cases x with
  | sc v => rfl
  | arr sh fl => rfl
  | none => simp [pyRow, rowToPy] at h

theorem rowToPy_true (sh : List Nat) (fl : List Val) : rowToPy true (sh, fl) = .arr sh fl := by
  unfold rowToPy
  split
  · rename_i heq; cases heq; rfl
  · rename_i heq; cases heq; rfl

theorem castRow_id (d : Dtype) (r : Row) (h : ∀ v ∈ r.2, castTo d v = .ok v) : castRow d r = .ok r := by
  obtain ⟨sh, fl⟩ := r
  simp only [castRow, mapE_ok_id (castTo d) fl h]

theorem regularArr_uniform (K : LeafClass) (vals : List PyVal)
    (h : ∀ x ∈ vals, ∀ v ∈ pyLeaves x, K.holds v = true) :
    ∃ d, regularArr vals = .ok (d, false, vals.map pyRow) := by
  have hleaves : ∀ v ∈ vals.flatMap pyLeaves, K.holds v = true := by
    intro v hv'
    obtain ⟨y, hy, hvy⟩ := List.mem_flatMap.1 hv'
    exact h y hy v hvy
  obtain ⟨d, hd, hc⟩ := infer_uniform K _ hleaves
  refine ⟨d, ?_⟩
  have hrows : mapE (fun y => castRow d (pyRow y)) vals = .ok (vals.map pyRow) := by
    apply mapE_ok_map
    intro y hy
    apply castRow_id
    intro v hv'
    apply hc
    apply List.mem_flatMap.2
    refine ⟨y, hy, ?_⟩
    cases y <;> simpa [pyRow, pyLeaves] using hv'
  unfold regularArr
  rw [hd]
  simp only [hrows]

theorem valuesToArr_regular (K : LeafClass) (sh : Option (List Nat)) (vals : List PyVal)
    (h : RegularVals K sh vals) : ∃ d, valuesToArr vals = .ok (d, false, vals.map pyRow) := by
  cases hv : vals with
  | nil => exact ⟨.f64, rfl⟩
  | cons x t =>
    rw [← hv]
    have hall : vals.all (fun y => pyShape y = pyShape x) = true := by
      simp only [List.all_eq_true, decide_eq_true_eq]
      intro y hy
      rw [(h.2 y hy).1, (h.2 x (by simp [hv])).1]
    obtain ⟨d, hd⟩ := regularArr_uniform K vals (fun y hy => (h.2 y hy).2)
    refine ⟨d, ?_⟩
    rw [← hd]
    conv => lhs; unfold valuesToArr
    rw [hv] at hall ⊢
    simp only [hall, if_true]


/-! ### `dict_props_to_arr`, regular case -/

/-- the values of property `name` that are present, in element order -/
def present {ι : Type} (data : List (ι × Attrs)) (name : String) : List PyVal :=
  data.filterMap (fun d => d.2.lookup name)

theorem mem_present {ι : Type} (data : List (ι × Attrs)) (name : String) (d : ι × Attrs) (v : PyVal)
    (hd : d ∈ data) (hv : d.2.lookup name = some v) : v ∈ present data name :=
  List.mem_filterMap.2 ⟨d, hd, hv⟩

theorem defaultFor_regular (K : LeafClass) (v0 : PyVal) (h0 : ∀ v ∈ pyLeaves v0, K.holds v = true) :
    pyShape (defaultFor v0) = pyShape v0 ∧ ∀ v ∈ pyLeaves (defaultFor v0), K.holds v = true := by
  cases v0 with
  | arr sh fl => exact ⟨rfl, h0⟩
  | none => exact ⟨rfl, h0⟩
  | sc x =>
    have hx := h0 x (by simp [pyLeaves])
    cases x <;> cases K <;> simp_all [LeafClass.holds, defaultFor, pyShape, pyLeaves, two63, two64]

theorem filledValues_regular {ι : Type} (K : LeafClass) (sh : Option (List Nat)) (data : List (ι × Attrs))
    (name : String) (h : RegularVals K sh (present data name)) :
    ∃ K' sh', RegularVals K' sh' (filledValues data name) := by
  cases hf : data.findSome? (fun d => d.2.lookup name) with
  | none =>
    refine ⟨.int64, none, by simp, ?_⟩
    intro x hx
    obtain ⟨d, hd, rfl⟩ := List.mem_map.1 hx
    have hnone : d.2.lookup name = none := by
      have := List.findSome?_eq_none_iff.1 hf d hd
      simpa using this
    simp [hnone, determineDefaultValue, hf, pyShape, pyLeaves, LeafClass.holds, two63]
  | some v0 =>
    obtain ⟨d0, hd0, hv0⟩ := List.exists_of_findSome?_eq_some hf
    have hp0 := h.2 v0 (mem_present data name d0 v0 hd0 hv0)
    have hdef := defaultFor_regular K v0 hp0.2
    refine ⟨K, sh, h.1, ?_⟩
    intro x hx
    obtain ⟨d, hd, rfl⟩ := List.mem_map.1 hx
    cases hl : d.2.lookup name with
    | some v => simpa using h.2 v (mem_present data name d v hd hl)
    | none =>
      simp only [Option.getD_none, determineDefaultValue, hf]
      exact ⟨hdef.1.trans hp0.1, hdef.2⟩

/-- from "the array holds the filled values row by row and every row reads back as its value" to
the statement about elements: marked missing iff absent, present entries read back exactly -/
theorem dictPropToArr_of_rows {ι : Type} (data : List (ι × Attrs)) (name : String) (dt : Dtype) (vl : Bool)
    (hdt : valuesToArr (filledValues data name) = .ok (dt, vl, (filledValues data name).map pyRow))
    (hback : ∀ x ∈ filledValues data name, rowToPy vl (pyRow x) = x) :
    ∃ c, dictPropToArr data name = .ok c ∧ c.WF data.length ∧
      ∀ i (hi : i < data.length), c.entry i = (data[i]).2.lookup name := by
  have hnone : (filledValues data name).any PyVal.isNone = false := by
    rw [List.any_eq_false]
    intro x hx
    simp [not_none_of_back vl x (hback x hx)]
  refine ⟨{ dtype := dt, varlen := vl, rows := (filledValues data name).map pyRow,
            missing := if (missingMask data name).any id then some (missingMask data name) else none },
          by simp only [dictPropToArr, hnone, Bool.false_eq_true, if_false, hdt], ?_, ?_⟩
  · constructor
    · simp [filledValues]
    · intro ms hms
      by_cases hany : (missingMask data name).any id = true
      · simp only [hany, if_true, Option.some.injEq] at hms
        subst hms; simp [missingMask]
      · simp [hany] at hms
  · intro i hi
    have hrow : ((filledValues data name).map pyRow)[i]? = some (pyRow ((data[i].2.lookup name).getD (determineDefaultValue data name))) := by
      simp [filledValues, hi]
    have hx : (data[i].2.lookup name).getD (determineDefaultValue data name) ∈ filledValues data name :=
      List.mem_map.2 ⟨data[i], List.getElem_mem hi, rfl⟩
    simp only [Col.entry, hrow]
    by_cases hany : (missingMask data name).any id = true
    · simp only [hany, if_true]
      have hm : (missingMask data name)[i]? = some (data[i].2.lookup name).isNone := by
        simp [missingMask, hi]
      rw [hm]
      cases hl : data[i].2.lookup name with
      | none => simp
      | some v =>
        simp only [Option.isNone_some, if_true, Option.getD_some]
        have := hback _ hx
        simp only [hl, Option.getD_some] at this
        rw [this]
    · simp only [hany]
      have hsome : (data[i].2.lookup name).isNone = false := by
        have h1 : ¬ ∃ b ∈ missingMask data name, b = true := by simpa [List.any_eq_true] using hany
        cases hb : (data[i].2.lookup name).isNone with
        | false => rfl
        | true =>
          exact absurd ⟨true, List.mem_map.2 ⟨data[i], List.getElem_mem hi, hb⟩, rfl⟩ h1
      cases hl : data[i].2.lookup name with
      | none => simp [hl] at hsome
      | some v =>
        simp only [Option.getD_some]
        have := hback _ hx
        simp only [hl, Option.getD_some] at this
        rw [this]
        simp

/-- **dict layer, regular case**: one array is built, element `i` is marked missing iff it lacks the
property, and a present entry denotes exactly the given value (same kind) -/
theorem dictPropToArr_regular {ι : Type} (K : LeafClass) (sh : Option (List Nat)) (data : List (ι × Attrs))
    (name : String) (h : RegularVals K sh (present data name)) :
    ∃ c, dictPropToArr data name = .ok c ∧ c.WF data.length ∧
      ∀ i (hi : i < data.length), c.entry i = (data[i]).2.lookup name := by
  obtain ⟨K', sh', hreg⟩ := filledValues_regular K sh data name h
  obtain ⟨dt, hdt⟩ := valuesToArr_regular K' sh' _ hreg
  apply dictPropToArr_of_rows data name dt false hdt
  intro x hx
  apply rowToPy_pyRow
  rw [(hreg.2 x hx).1]; exact hreg.1

/-! ### ragged (variable-length) list properties -/

/-- numpy dtype of a (non-empty) list of leaves of one class -/
def LeafClass.dtype : LeafClass → Dtype
  | .bool => .bool | .int64 => .i64 | .uint64 => .u64 | .float => .f64 | .str => .str

/-- the values of a ragged (variable-length) list property: lists of one rank `r ≥ 1` with leaves
of one class `K` (not uint64: known finding `C03:ragged-int-values-ge-2^63`), each list having the
class's numpy dtype on its own — i.e. non-empty, except that an empty list is a float64 array —
and, for strings, the same maximal string length `w` (otherwise the pinned `_get_common_type_dims`
depends on the order of the elements: defect D8 of property C11) -/
def RaggedVals (K : LeafClass) (r w : Nat) (vals : List PyVal) : Prop :=
  K ≠ .uint64 ∧ 1 ≤ r ∧ ∀ x ∈ vals, ∃ sh fl, x = .arr sh fl ∧ sh.length = r ∧
    (∀ v ∈ fl, K.holds v = true) ∧ (fl ≠ [] ∨ K = .float) ∧ strWidth x = w

theorem elemDtype_of_class (K : LeafClass) (hK : K ≠ .uint64) (sh : List Nat) (fl : List Val)
    (h : ∀ v ∈ fl, K.holds v = true) (hne : fl ≠ [] ∨ K = .float) :
    elemDtype (.arr sh fl) = K.dtype := by
  unfold elemDtype
  simp only [pyLeaves]
  by_cases hfl : fl = []
  · subst hfl
    rcases hne with h | h
    · exact absurd rfl h
    · subst h; rfl
  · apply joinAll_const _ _ (by simpa using hfl)
    intro x hx
    obtain ⟨v, hv, rfl⟩ := List.mem_map.1 hx
    have := h v hv
    cases K <;> cases v <;> simp_all [LeafClass.holds, discover, LeafClass.dtype]

theorem castTo_of_class (K : LeafClass) (v : Val) (h : K.holds v = true) : castTo K.dtype v = .ok v := by
  cases K <;> cases v <;> simp_all [LeafClass.holds, castTo, LeafClass.dtype]

theorem canCast_self (d : Dtype) : canCast d d = true := by simp [canCast]

theorem commonTypeDims_uniform (d : Dtype) (w r : Nat) (x : PyVal) (xs : List PyVal)
    (h : ∀ y ∈ x :: xs, elemDtype y = d ∧ strWidth y = w ∧ (pyRow y).1.length = r) :
    commonTypeDims (x :: xs) = .ok (d, w, r) := by
  have hx := h x (by simp)
  simp only [commonTypeDims, hx.1, hx.2.1, hx.2.2]
  have hxs : ∀ y ∈ xs, elemDtype y = d ∧ strWidth y = w ∧ (pyRow y).1.length = r :=
    fun y hy => h y (by simp [hy])
  clear h hx
  induction xs with
  | nil => rfl
  | cons y t ih =>
    have hy := hxs y (by simp)
    simp only [List.foldlM_cons, hy.1, hy.2.1, hy.2.2, canCast_self, promote_self, Nat.max_self, Nat.le_refl,
      implies_true, and_self, if_true, bind, Except.bind]
    exact ih (fun z hz => hxs z (by simp [hz]))

theorem constructVarLenProps_ragged (K : LeafClass) (r w : Nat) (vals : List PyVal) (hne : vals ≠ [])
    (h : RaggedVals K r w vals) :
    constructVarLenProps vals = .ok (K.dtype, vals.map pyRow) := by
  obtain ⟨hK, hr, hall⟩ := h
  cases hv : vals with
  | nil => exact absurd hv hne
  | cons x xs =>
    have hfacts : ∀ y ∈ x :: xs, elemDtype y = K.dtype ∧ strWidth y = w ∧ (pyRow y).1.length = r := by
      intro y hy
      obtain ⟨sh, fl, rfl, hlen, hleaves, hne', hw⟩ := hall y (by rw [hv]; exact hy)
      exact ⟨elemDtype_of_class K hK sh fl hleaves hne', hw, by simpa [pyRow] using hlen⟩
    have hctd := commonTypeDims_uniform K.dtype w r x xs hfacts
    have hd : K.dtype ≠ .u64 := by cases K <;> simp_all [LeafClass.dtype]
    have hrows : mapE (varLenRow K.dtype r) (x :: xs) = .ok ((x :: xs).map pyRow) := by
      apply mapE_ok_map
      intro y hy
      obtain ⟨sh, fl, rfl, hlen, hleaves, _, _⟩ := hall y (by rw [hv]; exact hy)
      have hc : castRow K.dtype (sh, fl) = .ok (sh, fl) :=
        castRow_id _ _ (fun v hv' => castTo_of_class K v (hleaves v hv'))
      simp only [varLenRow, pyRow, hc, hlen, Nat.sub_self, List.replicate_zero, List.nil_append]
    simp only [constructVarLenProps, hctd, hd, if_false, hrows]



theorem dictPropToArr_ragged {ι : Type} (K : LeafClass) (r w : Nat) (data : List (ι × Attrs))
    (name : String) (h : RaggedVals K r w (present data name)) :
    ∃ c, dictPropToArr data name = .ok c ∧ c.WF data.length ∧
      ∀ i (hi : i < data.length), c.entry i = (data[i]).2.lookup name := by
  obtain ⟨hK, hr, hall⟩ := h
  cases hf : data.findSome? (fun d => d.2.lookup name) with
  | none =>
    -- nobody has the property: the regular case with no present value
    have hp : present data name = [] := by
      unfold present
      rw [List.filterMap_eq_nil_iff]
      intro d hd
      simpa using List.findSome?_eq_none_iff.1 hf d hd
    exact dictPropToArr_regular .int64 none data name (by rw [hp]; exact ⟨by simp, by simp⟩)
  | some v0 =>
    obtain ⟨d0, hd0, hv0⟩ := List.exists_of_findSome?_eq_some hf
    have hv0p : v0 ∈ present data name := mem_present data name d0 v0 hd0 hv0
    -- the filled values are the present ones and copies of the first present one
    have hfilled : ∀ x ∈ filledValues data name, x ∈ present data name := by
      intro x hx
      obtain ⟨d, hd, rfl⟩ := List.mem_map.1 hx
      cases hl : d.2.lookup name with
      | some v => simpa using mem_present data name d v hd hl
      | none =>
        obtain ⟨sh, fl, rfl, _⟩ := hall v0 hv0p
        simpa [determineDefaultValue, hf, defaultFor] using hv0p
    have hne : filledValues data name ≠ [] := by
      intro he
      have : d0 ∈ data := hd0
      have hlen : (filledValues data name).length = data.length := by simp [filledValues]
      rw [he] at hlen
      have : data = [] := List.eq_nil_of_length_eq_zero hlen.symm
      rw [this] at hd0; simp at hd0
    cases hvals : filledValues data name with
    | nil => exact absurd hvals hne
    | cons x xs =>
      by_cases hsame : (filledValues data name).all (fun y => pyShape y = pyShape x) = true
      · -- all lists happen to have one shape: the regular case
        obtain ⟨sh0, fl0, hx0, hlen0, _⟩ := hall x (hfilled x (by rw [hvals]; simp))
        have hreg : RegularVals K (some sh0) (present data name) := by
          refine ⟨?_, ?_⟩
          · intro he
            have : sh0 = [] := by simpa using he
            rw [this] at hlen0; simp at hlen0; omega
          · intro y hy
            obtain ⟨sh, fl, rfl, _, hleaves, _, _⟩ := hall y hy
            -- y occurs among the filled values
            have hyf : PyVal.arr sh fl ∈ filledValues data name := by
              obtain ⟨d, hd, hl⟩ := List.mem_filterMap.1 hy
              exact List.mem_map.2 ⟨d, hd, by simp [hl]⟩
            have := (List.all_eq_true.1 hsame) _ hyf
            simp only [decide_eq_true_eq] at this
            rw [this, hx0]
            exact ⟨rfl, by simpa [pyLeaves] using hleaves⟩
        exact dictPropToArr_regular K (some sh0) data name hreg
      · -- genuinely ragged: one variable-length property
        have hrag : RaggedVals K r w (filledValues data name) :=
          ⟨hK, hr, fun y hy => hall y (hfilled y hy)⟩
        have hcv := constructVarLenProps_ragged K r w _ hne hrag
        have hdt : valuesToArr (filledValues data name) = .ok (K.dtype, true, (filledValues data name).map pyRow) := by
          conv => lhs; unfold valuesToArr
          rw [hvals] at hsame hcv ⊢
          simp only [hsame, Bool.false_eq_true, if_false, hcv]
        apply dictPropToArr_of_rows data name K.dtype true hdt
        intro y hy
        obtain ⟨sh, fl, rfl, _⟩ := hall y (hfilled y hy)
        simp [pyRow, rowToPy_true]


/-- **the documented domain of one property**: its present values are *regular* (all scalars, or
all lists of one shape, leaves of one class) or *ragged* (lists of one rank and one class) -/
def PropDomain (vals : List PyVal) : Prop :=
  (∃ K sh, RegularVals K sh vals) ∨ (∃ K r w, RaggedVals K r w vals)

theorem dictPropToArr_domain {ι : Type} (data : List (ι × Attrs)) (name : String)
    (h : PropDomain (present data name)) :
    ∃ c, dictPropToArr data name = .ok c ∧ c.WF data.length ∧
      ∀ i (hi : i < data.length), c.entry i = (data[i]).2.lookup name := by
  rcases h with ⟨K, sh, h⟩ | ⟨K, r, w, h⟩
  · exact dictPropToArr_regular K sh data name h
  · exact dictPropToArr_ragged K r w data name h

/-! ### `None` entries next to lists (repair C03-06) -/

theorem length_orMasks (a b : List Bool) (h : a.length = b.length) : (orMasks a b).length = a.length := by
  induction a generalizing b with
  | nil => cases b <;> rfl
  | cons x t ih =>
    cases b with
    | nil => simp at h
    | cons y s => simp [orMasks, ih s (by simpa using h)]

theorem getElem?_orMasks (a b : List Bool) (i : Nat) (x y : Bool) (ha : a[i]? = some x) (hb : b[i]? = some y) :
    (orMasks a b)[i]? = some (x || y) := by
  induction a generalizing b i with
  | nil => simp at ha
  | cons p t ih =>
    cases b with
    | nil => simp at hb
    | cons q s =>
      cases i with
      | zero => simp at ha hb; subst ha; subst hb; simp [orMasks]
      | succ j => simp at ha hb; simpa [orMasks] using ih s j ha hb

/-- what an element shows for a written attribute value: `None` (admitted next to lists) is a
missing value, everything else the value itself -/
def shown : Option PyVal → Option PyVal
  | some .none => Option.none
  | o => o

/-- **dict layer with `None` entries (repair C03-06)**: a property whose non-`None` present values
are ragged-domain lists (`RaggedVals`, at least one of them) and whose other elements lack the
attribute or hold `None` — in any combination — becomes one variable-length column in which an
element is flagged missing iff it lacks the attribute **or** holds `None`, and every list reads
back exactly. -/
theorem dictPropToArr_none {ι : Type} (K : LeafClass) (r w : Nat) (data : List (ι × Attrs)) (name : String)
    (h : RaggedVals K r w ((present data name).filter (fun x => !x.isNone)))
    (harr : ∃ x ∈ present data name, x.isArr = true)
    (hnone : ∃ x ∈ filledValues data name, x.isNone = true) :
    ∃ c, dictPropToArr data name = .ok c ∧ c.WF data.length ∧
      ∀ i (hi : i < data.length), c.entry i = shown ((data[i]).2.lookup name) := by
  obtain ⟨hK, hr, hall⟩ := h
  obtain ⟨xa, hxa, hxarr⟩ := harr
  -- every filled value is a present value or `None`
  have hfilled : ∀ x ∈ filledValues data name, x ∈ present data name ∨ x = .none := by
    intro x hx
    obtain ⟨d, hd, rfl⟩ := List.mem_map.1 hx
    cases hl : d.2.lookup name with
    | some v => exact Or.inl (by simpa using mem_present data name d v hd hl)
    | none =>
      simp only [Option.getD_none, determineDefaultValue]
      cases hf : data.findSome? (fun d => d.2.lookup name) with
      | none =>
        exfalso
        obtain ⟨d', hd', hl'⟩ := List.mem_filterMap.1 hxa
        have := List.findSome?_eq_none_iff.1 hf d' hd'
        simp [hl'] at this
      | some v0 =>
        obtain ⟨d0, hd0, hv0⟩ := List.exists_of_findSome?_eq_some hf
        have hv0p : v0 ∈ present data name := mem_present data name d0 v0 hd0 hv0
        cases v0 with
        | none => exact Or.inr rfl
        | arr sh fl => exact Or.inl hv0p
        | sc v =>
          exfalso
          obtain ⟨sh, fl, he, _⟩ := hall (.sc v) (List.mem_filter.2 ⟨hv0p, rfl⟩)
          cases he
  have hxaf : xa ∈ filledValues data name := by
    obtain ⟨d, hd, hl⟩ := List.mem_filterMap.1 hxa
    exact List.mem_map.2 ⟨d, hd, by simp [hl]⟩
  have hanyN : (filledValues data name).any PyVal.isNone = true := by
    obtain ⟨x, hx, hn⟩ := hnone
    exact List.any_eq_true.2 ⟨x, hx, hn⟩
  have hanyA : (filledValues data name).any PyVal.isArr = true := List.any_eq_true.2 ⟨xa, hxaf, hxarr⟩
  -- the non-None filled values are ragged-domain lists
  have hfacts : ∀ y ∈ (filledValues data name).filter (fun x => !x.isNone),
      ∃ sh fl, y = .arr sh fl ∧ sh.length = r ∧ (∀ v ∈ fl, K.holds v = true) ∧ (fl ≠ [] ∨ K = .float) ∧ strWidth y = w := by
    intro y hy
    obtain ⟨hy1, hy2⟩ := List.mem_filter.1 hy
    rcases hfilled y hy1 with hp | rfl
    · exact hall y (List.mem_filter.2 ⟨hp, hy2⟩)
    · simp [PyVal.isNone] at hy2
  have hctd : commonTypeDims ((filledValues data name).filter (fun x => !x.isNone)) = .ok (K.dtype, w, r) := by
    cases hflt : (filledValues data name).filter (fun x => !x.isNone) with
    | nil =>
      exfalso
      have : xa ∈ (filledValues data name).filter (fun x => !x.isNone) := by
        apply List.mem_filter.2
        refine ⟨hxaf, ?_⟩
        cases xa <;> simp_all [PyVal.isArr, PyVal.isNone]
      rw [hflt] at this; simp at this
    | cons x xs =>
      apply commonTypeDims_uniform
      intro y hy
      obtain ⟨sh, fl, rfl, hlen, hleaves, hne', hw⟩ := hfacts y (by rw [hflt]; exact hy)
      exact ⟨elemDtype_of_class K hK sh fl hleaves hne', hw, by simpa [pyRow] using hlen⟩
  have hd : K.dtype ≠ .u64 := by cases K <;> simp_all [LeafClass.dtype]
  have hrows : mapE (fun x => if x.isNone then .ok ((List.replicate r 0, []) : Row) else varLenRow K.dtype r x)
      (filledValues data name) =
      .ok ((filledValues data name).map (fun x => if x.isNone then ((List.replicate r 0, []) : Row) else pyRow x)) := by
    apply mapE_ok_map
    intro y hy
    cases hyn : y.isNone with
    | true => simp
    | false =>
      obtain ⟨sh, fl, rfl, hlen, hleaves, _, _⟩ := hfacts y (List.mem_filter.2 ⟨hy, by simp [hyn]⟩)
      have hc : castRow K.dtype (sh, fl) = .ok (sh, fl) :=
        castRow_id _ _ (fun v hv' => castTo_of_class K v (hleaves v hv'))
      simp only [Bool.false_eq_true, if_false, varLenRow, pyRow, hc, hlen, Nat.sub_self, List.replicate_zero,
        List.nil_append]
  refine ⟨{ dtype := K.dtype, varlen := true,
            rows := (filledValues data name).map (fun x => if x.isNone then ((List.replicate r 0, []) : Row) else pyRow x),
            missing := some (orMasks (missingMask data name) ((filledValues data name).map PyVal.isNone)) },
          by simp only [dictPropToArr, hanyN, hanyA, if_true, varLenWithNone, hctd, hd, if_false, hrows], ?_, ?_⟩
  · constructor
    · simp [filledValues]
    · intro ms hms
      simp only [Option.some.injEq] at hms
      subst hms
      rw [length_orMasks _ _ (by simp [missingMask, filledValues])]
      simp [missingMask]
  · intro i hi
    have hm1 : (missingMask data name)[i]? = some (data[i].2.lookup name).isNone := by simp [missingMask, hi]
    have hm2 : ((filledValues data name).map PyVal.isNone)[i]? =
        some ((data[i].2.lookup name).getD (determineDefaultValue data name)).isNone := by
      simp [filledValues, hi]
    have hrow : ((filledValues data name).map (fun x => if x.isNone then ((List.replicate r 0, []) : Row) else pyRow x))[i]? =
        some (if ((data[i].2.lookup name).getD (determineDefaultValue data name)).isNone then ((List.replicate r 0, []) : Row)
              else pyRow ((data[i].2.lookup name).getD (determineDefaultValue data name))) := by
      simp [filledValues, hi]
    simp only [Col.entry, hrow, getElem?_orMasks _ _ i _ _ hm1 hm2]
    cases hl : data[i].2.lookup name with
    | none => simp [shown]
    | some v =>
      cases v with
      | none => simp [shown, PyVal.isNone]
      | sc x =>
        exfalso
        obtain ⟨sh, fl, he, _⟩ := hall (.sc x) (List.mem_filter.2
          ⟨mem_present data name data[i] (.sc x) (List.getElem_mem hi) hl, rfl⟩)
        cases he
      | arr sh fl => simp [shown, PyVal.isNone, pyRow, rowToPy_true]


/-! ### all properties -/

theorem lookup_mem {β : Type} (l : List (String × β)) (k : String) (v : β) (h : l.lookup k = some v) : (k, v) ∈ l := by
  induction l with
  | nil => simp at h
  | cons p t ih =>
    obtain ⟨k', v'⟩ := p
    rw [lookup_cons_ite] at h
    by_cases hk : k = k'
    · subst hk; simp at h; subst h; simp
    · simp only [hk, if_false] at h
      exact List.mem_cons_of_mem _ (ih h)

theorem lookup_none_of_not_mem {β : Type} (l : List (String × β)) (k : String) (h : k ∉ l.map (·.1)) : l.lookup k = none := by
  induction l with
  | nil => rfl
  | cons p t ih =>
    obtain ⟨k', v'⟩ := p
    rw [lookup_cons_ite]
    have hk : k ≠ k' := fun e => h (by simp [e])
    simp only [hk, if_false]
    exact ih (fun hm => h (by simp only [List.map_cons, List.mem_cons]; exact Or.inr hm))

theorem lookup_some_of_mem {β : Type} (l : List (String × β)) (k : String) (h : k ∈ l.map (·.1)) : ∃ v, l.lookup k = some v := by
  cases hl : l.lookup k with
  | some v => exact ⟨v, rfl⟩
  | none =>
    exfalso
    rw [List.lookup_eq_none_iff] at hl
    obtain ⟨p, hp, rfl⟩ := List.mem_map.1 h
    have := hl p hp
    simp at this

/-- the property list `dict_props_to_arr` returns: one entry per name, each the result of `dictPropToArr` -/
theorem dictPropsToArr_ok {ι : Type} (data : List (ι × Attrs)) (names : List String)
    (h : ∀ n ∈ names, ∃ c, dictPropToArr data n = .ok c) :
    ∃ props, dictPropsToArr data names = .ok props ∧ props.map (·.1) = names ∧
      ∀ p ∈ props, dictPropToArr data p.1 = .ok p.2 := by
  unfold dictPropsToArr
  induction names with
  | nil => exact ⟨[], rfl, rfl, by simp⟩
  | cons n t ih =>
    obtain ⟨c, hc⟩ := h n (by simp)
    obtain ⟨ps, hps, hnames, hall⟩ := ih (fun x hx => h x (by simp [hx]))
    refine ⟨(n, c) :: ps, ?_, by simp [hnames], ?_⟩
    · simp only [mapE, namedCol, hc, hps]
    · intro p hp
      rcases List.mem_cons.1 hp with rfl | hp
      · exact hc
      · exact hall p hp

/-- **dict layer**: for property names that are in the domain on `data` and cover every key that occurs,
the property list denotes exactly the given dicts -/
theorem dictPropsToArr_spec {ι : Type} (data : List (ι × Attrs)) (names : List String)
    (hreg : ∀ n ∈ names, PropDomain (present data n))
    (hcover : ∀ d ∈ data, ∀ n v, d.2.lookup n = some v → n ∈ names) :
    ∃ props, dictPropsToArr data names = .ok props ∧ props.map (·.1) = names ∧
      (∀ p ∈ props, p.2.WF data.length) ∧
      ∀ k (hk : k < data.length) name, memAttr props k name = (data[k]).2.lookup name := by
  have hok : ∀ n ∈ names, ∃ c, dictPropToArr data n = .ok c := by
    intro n hn
    obtain ⟨c, hc, _⟩ := dictPropToArr_domain data n (hreg n hn)
    exact ⟨c, hc⟩
  obtain ⟨props, hprops, hnames, hall⟩ := dictPropsToArr_ok data names hok
  have hfacts : ∀ p ∈ props, p.2.WF data.length ∧ ∀ i (hi : i < data.length), p.2.entry i = (data[i]).2.lookup p.1 := by
    intro p hp
    have hn : p.1 ∈ names := by rw [← hnames]; exact List.mem_map.2 ⟨p, hp, rfl⟩
    obtain ⟨c, hc, hwf, hent⟩ := dictPropToArr_domain data p.1 (hreg p.1 hn)
    have : c = p.2 := by
      have h2 := hall p hp
      rw [hc] at h2
      exact Except.ok.inj h2
    subst this
    exact ⟨hwf, hent⟩
  refine ⟨props, hprops, hnames, fun p hp => (hfacts p hp).1, ?_⟩
  intro k hk name
  unfold memAttr
  by_cases hn : name ∈ names
  · obtain ⟨c, hc⟩ := lookup_some_of_mem props name (by rw [hnames]; exact hn)
    rw [hc]
    exact (hfacts (name, c) (lookup_mem props name c hc)).2 k hk
  · rw [lookup_none_of_not_mem props name (by rw [hnames]; exact hn)]
    cases hl : (data[k]).2.lookup name with
    | none => rfl
    | some v => exact absurd (hcover data[k] (List.getElem_mem hk) name v hl) hn


end Geff.Dicts
