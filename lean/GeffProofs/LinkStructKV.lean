import GeffModel.KV
import GeffProofs.StoreTree
/-! # Link C05 / C06 ← C04: the key-value view of a store seen as the tree `validate_structure` works on

C05/C06's model (`GeffModel/KV.lean`) sees a store as zarr's keys with opaque documents; its theorems speak
of `recognised f kv` — "necessary for `validate_structure` / `read_to_memory` to accept the store" — a
Bool written independently of C04.  Here the sentence in quotes becomes a theorem about C04's validator
model: `toTarget I f kv` is the tree of groups and arrays a zarr reader of format `f` finds in `kv`
(abstraction only as far as `recognised` needs: which node documents exist where; *what* an opaque document
says — group or array, dtype, shape, and what the `geff` attribute parses to — is supplied by an arbitrary
interpretation `I`), and `recognised_of_validate`:

    validateStructure (toTarget I f kv) = ok  →  recognised f kv = true      for every `I`.

No new model of the implementation: `toTarget` is a view from one existing model's state to the other's. -/
namespace Geff.LinkStruct
open Geff.KV
open Gen.Paths (NODES EDGES IDS)

/-- what a node metadata document (`zarr.json`, `.zarray`) says -/
inductive DocKind where
  | group
  | array (a : Geff.Structure.Arr)
  | junk

/-- an interpretation of the documents the key view keeps opaque -/
structure Interp where
  /-- what zarr makes of a node metadata document: a group, an array of some dtype and shape, or nothing
  it can open -/
  doc : Blob → DocKind
  /-- what `GeffMetadata.read` makes of the `geff` entry of the root attributes -/
  parseMeta : String → Geff.Structure.MetaRead

/-- the zarr node of format `f` at path `p`, without its members: `some none` a group, `some (some a)` an
array.  Format 3: the one `zarr.json` says which; format 2: `.zarray` (its document gives dtype and shape)
or else `.zgroup`.  (Which of the two format-2 documents wins when both exist does not matter for
`recognised_of_validate`: a group needs its `.zgroup`, an array its `.zarray`, either way.) -/
def nodeKind (I : Interp) (f : Fmt) (kv : KV) (p : List String) : Option (Option Geff.Structure.Arr) :=
  match f with
  | .v3 =>
    match get kv ⟨p, .json⟩ with
    | some b =>
      match I.doc b with
      | .group => some none
      | .array a => some (some a)
      | .junk => none
    | none => none
  | .v2 =>
    match get kv ⟨p, .zarray⟩ with
    | some b =>
      match I.doc b with
      | .array a => some (some a)
      | _ => none
    | none => if has kv ⟨p, .zgroup⟩ then some none else none

/-- names under which the store holds a document directly below `p` -/
def childNamesKV (kv : KV) (p : List String) : List String :=
  (kv.filterMap (fun e => Geff.Store.childKey p e.1.path)).eraseDups

/-- the tree below `p`, to depth `fuel` (as `Geff.Bridge.nodeAt` for the flat store) -/
def nodeAtKV (I : Interp) (f : Fmt) (kv : KV) : Nat → List String → Option Geff.Structure.Node
  | 0, _ => none
  | fuel + 1, p =>
    match nodeKind I f kv p with
    | none => none
    | some (some a) => some (.array a)
    | some none =>
      some (.group ((childNamesKV kv p).filterMap (fun k => (nodeAtKV I f kv fuel (p ++ [k])).map (fun n => (k, n)))))

/-- what `GeffMetadata.read` finds: no `geff` key, or whatever the document parses to -/
def metaReadKV (I : Interp) (f : Fmt) (kv : KV) : Geff.Structure.MetaRead :=
  match geffAttrIn f kv with
  | some g => I.parseMeta g
  | none => .noGeffKey

/-- **the abstraction**: the target of `validate_structure` a store object with contents `kv`, opened in
zarr format `f`, is -/
def toTargetKV (I : Interp) (f : Fmt) (kv : KV) : Geff.Structure.Target :=
  .store (nodeAtKV I f kv Geff.Bridge.depth []) (metaReadKV I f kv)

/-! ## lemmas -/

theorem nodeKind_group_has (I : Interp) (f : Fmt) (kv : KV) (p : List String) (h : nodeKind I f kv p = some none) :
    has kv (groupKey f p) = true := by
  unfold nodeKind at h
  cases f with
  | v3 =>
    simp only [groupKey]
    unfold has
    cases hg : get kv ⟨p, .json⟩ with
    | none => rw [hg] at h; cases h
    | some b => rfl
  | v2 =>
    simp only [groupKey]
    simp only at h
    cases hg : get kv ⟨p, .zarray⟩ with
    | none =>
      rw [hg] at h
      simp only at h
      split at h
      · assumption
      · cases h
    | some b =>
      rw [hg] at h
      simp only at h
      cases hd : I.doc b <;> rw [hd] at h <;> cases h

theorem nodeKind_array_has (I : Interp) (f : Fmt) (kv : KV) (p : List String) (a : Geff.Structure.Arr)
    (h : nodeKind I f kv p = some (some a)) : has kv (arrayKey f p) = true := by
  unfold nodeKind at h
  cases f with
  | v3 =>
    simp only [arrayKey]
    unfold has
    cases hg : get kv ⟨p, .json⟩ with
    | none => rw [hg] at h; cases h
    | some b => rfl
  | v2 =>
    simp only [arrayKey]
    unfold has
    simp only at h
    cases hg : get kv ⟨p, .zarray⟩ with
    | none =>
      rw [hg] at h
      simp only at h
      split at h <;> cases h
    | some b => rfl

theorem nodeAtKV_group_inv (I : Interp) (f : Fmt) (kv : KV) (fuel : Nat) (p : List String) (g : Geff.Structure.Grp)
    (h : nodeAtKV I f kv (fuel + 1) p = some (.group g)) :
    nodeKind I f kv p = some none ∧
    g = (childNamesKV kv p).filterMap (fun k => (nodeAtKV I f kv fuel (p ++ [k])).map (fun n => (k, n))) := by
  unfold nodeAtKV at h
  cases hk : nodeKind I f kv p with
  | none => rw [hk] at h; cases h
  | some o =>
    cases o with
    | some a => rw [hk] at h; cases h
    | none =>
      rw [hk] at h
      simp only [Option.some.injEq, Geff.Structure.Node.group.injEq] at h
      exact ⟨rfl, h.symm⟩

theorem nodeAtKV_array_inv (I : Interp) (f : Fmt) (kv : KV) (fuel : Nat) (p : List String) (a : Geff.Structure.Arr)
    (h : nodeAtKV I f kv (fuel + 1) p = some (.array a)) : nodeKind I f kv p = some (some a) := by
  unfold nodeAtKV at h
  cases hk : nodeKind I f kv p with
  | none => rw [hk] at h; cases h
  | some o =>
    cases o with
    | some a' =>
      rw [hk] at h
      simp only [Option.some.injEq, Geff.Structure.Node.array.injEq] at h
      rw [h]
    | none => rw [hk] at h; cases h

/-- a member found in the tree is the node at the longer path -/
theorem get_childrenKV (I : Interp) (f : Fmt) (kv : KV) (fuel : Nat) (p : List String) (k : String)
    (n : Geff.Structure.Node)
    (h : Geff.Structure.get ((childNamesKV kv p).filterMap
      (fun k => (nodeAtKV I f kv fuel (p ++ [k])).map (fun n => (k, n)))) k = some n) :
    nodeAtKV I f kv fuel (p ++ [k]) = some n := by
  unfold Geff.Structure.get at h
  rw [Geff.Bridge.lookup_children (childNamesKV kv p) (fun k => nodeAtKV I f kv fuel (p ++ [k])) k] at h
  split at h
  · exact h
  · cases h

theorem geffAttr_of_metaRead (I : Interp) (f : Fmt) (kv : KV) (m : Geff.Structure.Meta)
    (h : metaReadKV I f kv = .ok m) : (geffAttrIn f kv).isSome = true := by
  unfold metaReadKV at h
  cases hg : geffAttrIn f kv with
  | none => rw [hg] at h; cases h
  | some g => rfl

/-- **`recognised` is necessary for C04's validator to accept** — for every interpretation of the opaque
documents: if the validator model returns normally on the tree of `kv`, then `kv` has a root group
document, a `geff` attribute, `nodes` / `edges` group documents and the two ids array documents. -/
theorem recognised_of_validate (I : Interp) (f : Fmt) (kv : KV)
    (h : Geff.Structure.validateStructure (toTargetKV I f kv) = .ok ()) : recognised f kv = true := by
  have hc := (GeffProps.C04.C04_sound_complete _).1 h
  unfold toTargetKV at hc
  obtain ⟨graph, m, nodes, edges, nid, eid, N, E, hroot, hattrs, hn, he, hnid, _, _, heid, _⟩ := hc
  have hd : Geff.Bridge.depth = 7 + 1 := rfl
  rw [hd] at hroot
  obtain ⟨hk0, hgraph⟩ := nodeAtKV_group_inv I f kv 7 [] graph hroot
  subst hgraph
  have e1 : ([] : List String) ++ [NODES] = [NODES] := rfl
  have e2 : ([] : List String) ++ [EDGES] = [EDGES] := rfl
  have hn' := get_childrenKV I f kv 7 [] NODES _ hn
  have he' := get_childrenKV I f kv 7 [] EDGES _ he
  rw [e1] at hn'
  rw [e2] at he'
  obtain ⟨hkn, hnodes⟩ := nodeAtKV_group_inv I f kv 6 [NODES] nodes hn'
  obtain ⟨hke, hedges⟩ := nodeAtKV_group_inv I f kv 6 [EDGES] edges he'
  subst hnodes; subst hedges
  have hnid' := get_childrenKV I f kv 6 [NODES] IDS _ hnid
  have heid' := get_childrenKV I f kv 6 [EDGES] IDS _ heid
  have hkni := nodeAtKV_array_inv I f kv 5 ([NODES] ++ [IDS]) nid hnid'
  have hkei := nodeAtKV_array_inv I f kv 5 ([EDGES] ++ [IDS]) eid heid'
  unfold recognised
  rw [geffAttr_of_metaRead I f kv m hattrs, nodeKind_group_has I f kv [] hk0, nodeKind_group_has I f kv [NODES] hkn,
    nodeKind_group_has I f kv [EDGES] hke]
  have a1 := nodeKind_array_has I f kv _ nid hkni
  have a2 := nodeKind_array_has I f kv _ eid hkei
  have e3 : [NODES] ++ [IDS] = [NODES, IDS] := rfl
  have e4 : [EDGES] ++ [IDS] = [EDGES, IDS] := rfl
  rw [e3] at a1
  rw [e4] at a2
  rw [a1, a2]
  rfl

/-- contrapositive, with the error class (`C04_error_class`): a store that is not `recognised` is
**rejected with `ValueError`** by C04's validator model, whatever its opaque documents say -/
theorem rejected_of_not_recognised (I : Interp) (f : Fmt) (kv : KV) (h : recognised f kv = false) :
    Geff.Structure.validateStructure (toTargetKV I f kv) = .error .valueError := by
  have hnc : ¬ GeffProps.C04.Conformant (toTargetKV I f kv) := by
    intro hc
    have := recognised_of_validate I f kv ((GeffProps.C04.C04_sound_complete _).2 hc)
    rw [h] at this; cases this
  obtain ⟨hcls, hfnf⟩ := GeffProps.C04.C04_error_class _ hnc
  rcases hcls with h1 | h1
  · exact h1
  · have := hfnf.1 h1
    unfold toTargetKV at this
    cases this

/-- an interpretation of the documents of the example stores of `GeffProps/C05.lean` / `C06.lean` (used by
the non-vacuity examples of `C05Links` / `C06Links`): array metadata documents are the ones `exG "A"` names
(`An`, `Ae`: the id arrays, int64 of shapes `[1]` and `[1, 2]`; `At`, `Am`: the property `t` and its mask)
and the foreign array `r`; everything else is a group document; the metadata parses to one node property `t` -/
def exInterp : Interp where
  doc := fun b => match b with
    | .raw "An" => .array ⟨.i64, [1]⟩ | .raw "Ae" => .array ⟨.i64, [1, 2]⟩
    | .raw "At" => .array ⟨.f64, [1]⟩ | .raw "Am" => .array ⟨.bool, [1]⟩
    | .raw "r" => .array ⟨.u8, [1]⟩
    | _ => .group
  parseMeta := fun _ => .ok ⟨[("t", ⟨.f64, false⟩)], [], none⟩

end Geff.LinkStruct
