import Mathlib.Logic.Relation
import GeffModel.Graph
/-! Soundness and completeness of the executable connectivity closure. -/
namespace Geff.Graph
variable {α : Type} [DecidableEq α]

def Adj (es : List (α × α)) (a b : α) : Prop := (a, b) ∈ es ∨ (b, a) ∈ es

abbrev Conn (es : List (α × α)) := Relation.ReflTransGen (Adj es)

theorem adjB_iff (es : List (α × α)) (a b : α) : adjB es a b = true ↔ Adj es a b := by
  unfold adjB Adj
  simp only [List.any_eq_true, decide_eq_true_eq]
  constructor
  · rintro ⟨⟨x, y⟩, hm, h⟩
    rcases h with ⟨rfl, rfl⟩ | ⟨rfl, rfl⟩
    · exact Or.inl hm
    · exact Or.inr hm
  · rintro (h | h)
    · exact ⟨(a, b), h, Or.inl ⟨rfl, rfl⟩⟩
    · exact ⟨(b, a), h, Or.inr ⟨rfl, rfl⟩⟩

theorem grow_sound (es : List (α × α)) (r : α) (n : Nat) (unseen seen : List α)
    (hs : ∀ s ∈ seen, Conn es r s) : ∀ x ∈ grow es n unseen seen, Conn es r x := by
  induction n generalizing unseen seen with
  | zero => exact hs
  | succ n ih =>
    unfold grow
    split
    · exact hs
    · rename_i u h
      apply ih
      intro s hsm
      rcases List.mem_cons.mp hsm with rfl | hsm
      · have hp := List.find?_some h
        simp only [List.any_eq_true] at hp
        obtain ⟨s', hs', hadj⟩ := hp
        exact (hs s' hs').tail ((adjB_iff es s' _).mp hadj)
      · exact hs s hsm

theorem grow_superset (es : List (α × α)) (n : Nat) (unseen seen : List α) :
    ∀ x ∈ seen, x ∈ grow es n unseen seen := by
  induction n generalizing unseen seen with
  | zero => exact fun x hx => hx
  | succ n ih =>
    unfold grow
    split
    · exact fun x hx => hx
    · exact fun x hx => ih _ _ x (List.mem_cons_of_mem _ hx)

/-- the result is closed under adjacency, provided every vertex is in `unseen ∪ seen` and the
fuel covers `unseen` -/
theorem grow_closed (es : List (α × α)) (n : Nat) (unseen seen : List α)
    (hn : unseen.length ≤ n)
    (hV : ∀ a b, Adj es a b → b ∈ unseen ∨ b ∈ seen) :
    ∀ a ∈ grow es n unseen seen, ∀ b, Adj es a b → b ∈ grow es n unseen seen := by
  induction n generalizing unseen seen with
  | zero =>
    have : unseen = [] := List.eq_nil_of_length_eq_zero (by omega)
    subst this
    intro a _ b hab
    rcases hV a b hab with hb | hb
    · simp at hb
    · exact hb
  | succ n ih =>
    unfold grow
    split
    · rename_i h
      intro a ha b hab
      rcases hV a b hab with hb | hb
      · have := List.find?_eq_none.mp h b hb
        simp only [List.any_eq_true, not_exists, not_and, Bool.not_eq_true] at this
        have h2 := this a ha
        have h3 := (adjB_iff es a b).mpr hab
        simp [h3] at h2
      · exact hb
    · rename_i u h
      have hm : u ∈ unseen := List.mem_of_find?_eq_some h
      apply ih
      · rw [List.length_erase_of_mem hm]; omega
      · intro a b hab
        rcases hV a b hab with hb | hb
        · by_cases hbu : b = u
          · right; simp [hbu]
          · left; exact (List.mem_erase_of_ne hbu).mpr hb
        · right; exact List.mem_cons_of_mem _ hb

theorem grow_complete (es : List (α × α)) (r : α) (n : Nat) (unseen seen : List α)
    (hn : unseen.length ≤ n)
    (hV : ∀ a b, Adj es a b → b ∈ unseen ∨ b ∈ seen) (hr : r ∈ seen) :
    ∀ x, Conn es r x → x ∈ grow es n unseen seen := by
  intro x hx
  induction hx with
  | refl => exact grow_superset es n unseen seen r hr
  | tail _ hbc ih => exact grow_closed es n unseen seen hn hV _ ih _ hbc

theorem mem_component_iff (es : List (α × α)) (V : List α) (r : α)
    (hV : ∀ e ∈ es, e.1 ∈ V ∧ e.2 ∈ V) (x : α) :
    x ∈ component es V r ↔ Conn es r x := by
  constructor
  · intro hx
    exact grow_sound es r _ _ _
      (by intro s hs; simp at hs; subst hs; exact Relation.ReflTransGen.refl) x hx
  · intro hx
    apply grow_complete es r _ _ _ (Nat.le_refl _) _ (by simp) x hx
    intro a b hab
    have hb : b ∈ V := by
      rcases hab with h | h
      · exact (hV _ h).2
      · exact (hV _ h).1
    by_cases hbr : b = r
    · right; simp [hbr]
    · left; exact (List.mem_erase_of_ne hbr).mpr hb

theorem adj_symm (es : List (α × α)) {a b : α} (h : Adj es a b) : Adj es b a := h.symm

theorem conn_symm (es : List (α × α)) {a b : α} (h : Conn es a b) : Conn es b a := by
  induction h with
  | refl => exact Relation.ReflTransGen.refl
  | tail _ hbc ih => exact Relation.ReflTransGen.head (adj_symm es hbc) ih

theorem sameSet_iff (a b : List α) : sameSet a b = true ↔ ∀ x, x ∈ a ↔ x ∈ b := by
  unfold sameSet
  simp only [Bool.and_eq_true, List.all_eq_true, decide_eq_true_eq]
  constructor
  · rintro ⟨h1, h2⟩ x; exact ⟨h1 x, h2 x⟩
  · intro h; exact ⟨fun x hx => (h x).1 hx, fun x hx => (h x).2 hx⟩

theorem mem_dedup (l : List α) (x : α) : x ∈ dedup l ↔ x ∈ l := by
  induction l with
  | nil => simp [dedup]
  | cons a t ih =>
    simp only [dedup, List.mem_cons, List.mem_filter, ih, ne_eq, decide_not, Bool.not_eq_eq_eq_not,
      Bool.not_true, decide_eq_false_iff_not]
    constructor
    · rintro (h | ⟨h, _⟩)
      · exact Or.inl h
      · exact Or.inr h
    · rintro (h | h)
      · exact Or.inl h
      · by_cases hx : x = a
        · exact Or.inl hx
        · exact Or.inr ⟨h, hx⟩

end Geff.Graph
