import GeffProofs.Ctc
/-! Specification vocabulary for C15 and the position-level facts behind the property theorems.

Node ids are positions in the loop order `objs 0 ds.frames` (frame by frame, ascending label inside
a frame), so everything about the output graph is a statement about that list. -/
namespace Geff.Ctc

/-! ## Specification vocabulary (used by `GeffProps/C15.lean`)

All notions are relative to a predicate `N a t l` = "node `a` has time `t` and tracklet id `l`". -/
section Vocabulary
variable (N : Nat → Nat → Int → Prop)

/-- `a`, `b` are consecutive appearances of one label: same label, `a` earlier, and the label does
not appear at any time strictly in between -/
def Consec (a b : Nat) : Prop :=
  ∃ ta tb l, N a ta l ∧ N b tb l ∧ ta < tb ∧ ∀ c tc, N c tc l → ¬ (ta < tc ∧ tc < tb)

/-- `a` is the first (earliest) node of label `l` -/
def IsFirst (l : Int) (a : Nat) : Prop := ∃ t, N a t l ∧ ∀ c tc, N c tc l → t ≤ tc

/-- `a` is the last (latest) node of label `l` -/
def IsLast (l : Int) (a : Nat) : Prop := ∃ t, N a t l ∧ ∀ c tc, N c tc l → tc ≤ t
end Vocabulary

/-- node `a` has time `t` and tracklet id `l` in the arrays the converter writes -/
def NodeAt (o : Out) (a t : Nat) (l : Int) : Prop :=
  ∃ i : Nat, o.nodeIds[i]? = some a ∧ o.ts[i]? = some t ∧ o.tracklet[i]? = some l

/-- label `l` occurs in frame `t` of the dataset -/
def Occurs (ds : Dataset) (l : Int) (t : Nat) : Prop :=
  ∃ fr r, ds.frames[t]? = some fr ∧ r ∈ fr ∧ r.label = l

/-- `regionprops` yields the regions of a frame in strictly ascending label order -/
def Dataset.Sorted (ds : Dataset) : Prop := ∀ fr ∈ ds.frames, (fr.map (·.label)).Pairwise (· < ·)

/-- a *consistent* CTC result: every row with a parent names labels that occur in the frames, every
appearance of the parent precedes every appearance of the child, and no label has two parent rows
(in particular no row is repeated) -/
structure Consistent (ds : Dataset) : Prop where
  occur : ∀ r ∈ prows ds, (∃ t, Occurs ds r.L t) ∧ (∃ t, Occurs ds r.P t)
  order : ∀ r ∈ prows ds, ∀ tp tc, Occurs ds r.P tp → Occurs ds r.L tc → tp < tc
  oneParent : ((prows ds).map (·.L)).Nodup

section Tracklet
variable {α L : Type}
/-- tracklet edge: the only edge leaving its source and the only edge entering its target -/
def TE (es : List (α × α)) (a b : α) : Prop :=
  (a, b) ∈ es ∧ (∀ w, (a, w) ∈ es → w = b) ∧ (∀ w, (w, b) ∈ es → w = a)

/-- the tracklet definition of docs/tracking.md for a labelling `lab` of the node set `V`
(copied from the C13 spike `spikes/lean/Sp/Tracklet.lean`): two adjacent nodes share an id exactly
when their edge is a tracklet edge (maximal unbranched paths), and nodes sharing an id are
connected through tracklet edges -/
structure TrackletValid (es : List (α × α)) (V : α → Prop) (lab : α → L) : Prop where
  edge_iff : ∀ u v, V u → V v → (u, v) ∈ es → (lab u = lab v ↔ TE es u v)
  connected : ∀ a b, V a → V b → lab a = lab b →
    Relation.ReflTransGen (fun x y => TE es x y ∨ TE es y x) a b
end Tracklet

/-! ## The loop order -/

def LexLt (p q : Nat × Region) : Prop := p.1 < q.1 ∨ (p.1 = q.1 ∧ p.2.label < q.2.label)

theorem objs_time_ge : ∀ (frames : List (List Region)) (t0 : Nat) (q : Nat × Region),
    q ∈ objs t0 frames → t0 ≤ q.1 := by
  intro frames
  induction frames with
  | nil => intro t0 q h; simp [objs] at h
  | cons fr frs ih =>
    intro t0 q h
    simp only [objs, List.mem_append, List.mem_map] at h
    rcases h with ⟨r, _, rfl⟩ | h
    · exact Nat.le_refl _
    · have := ih (t0 + 1) q h; omega

theorem objs_pairwise : ∀ (frames : List (List Region)) (t0 : Nat),
    (∀ fr ∈ frames, (fr.map (·.label)).Pairwise (· < ·)) → (objs t0 frames).Pairwise LexLt := by
  intro frames
  induction frames with
  | nil => intro t0 _; simp [objs]
  | cons fr frs ih =>
    intro t0 hs
    simp only [objs]
    rw [List.pairwise_append]
    refine ⟨?_, ih (t0 + 1) (fun f hf => hs f (List.mem_cons_of_mem _ hf)), ?_⟩
    · rw [List.pairwise_map]
      have := hs fr (List.mem_cons_self ..)
      rw [List.pairwise_map] at this
      exact this.imp (fun h => Or.inr ⟨rfl, h⟩)
    · intro p hp q hq
      obtain ⟨r, _, rfl⟩ := List.mem_map.1 hp
      have := objs_time_ge frs (t0 + 1) q hq
      exact Or.inl (by simp only; omega)

theorem mem_objs : ∀ (frames : List (List Region)) (t0 t : Nat) (r : Region),
    (t, r) ∈ objs t0 frames ↔ t0 ≤ t ∧ ∃ fr, frames[t - t0]? = some fr ∧ r ∈ fr := by
  intro frames
  induction frames with
  | nil => intro t0 t r; simp [objs]
  | cons fr frs ih =>
    intro t0 t r
    simp only [objs, List.mem_append, List.mem_map, Prod.mk.injEq, ih]
    constructor
    · rintro (⟨r', hr', rfl, rfl⟩ | ⟨h1, f, hf, hr⟩)
      · exact ⟨Nat.le_refl _, fr, by simp, hr'⟩
      · refine ⟨by omega, f, ?_, hr⟩
        have : t - t0 = (t - (t0 + 1)) + 1 := by omega
        rw [this]; simpa using hf
    · rintro ⟨h1, f, hf, hr⟩
      by_cases ht : t = t0
      · subst ht
        simp at hf; subst hf
        exact Or.inl ⟨r, hr, rfl, rfl⟩
      · right
        refine ⟨by omega, f, ?_, hr⟩
        have : t - t0 = (t - (t0 + 1)) + 1 := by omega
        rw [this] at hf; simpa using hf

/-! ## Position-level node predicate -/

/-- node (= position) `a` of the loop order `O` has time `t` and label `l` -/
def At (O : List (Nat × Region)) (a t : Nat) (l : Int) : Prop := ∃ r, O[a]? = some (t, r) ∧ r.label = l

theorem At.lt {O : List (Nat × Region)} {a t : Nat} {l : Int} (h : At O a t l) : a < O.length := by
  obtain ⟨r, hr, _⟩ := h
  rcases Nat.lt_or_ge a O.length with h | h
  · exact h
  · rw [List.getElem?_eq_none h] at hr; cases hr

theorem At.unique {O : List (Nat × Region)} {a t t' : Nat} {l l' : Int} (h : At O a t l) (h' : At O a t' l') :
    t = t' ∧ l = l' := by
  obtain ⟨r, hr, rfl⟩ := h
  obtain ⟨r', hr', rfl⟩ := h'
  rw [hr] at hr'
  have := Option.some.inj hr'
  simp only [Prod.mk.injEq] at this
  exact ⟨this.1, by rw [this.2]⟩

theorem At.label {O : List (Nat × Region)} {a t : Nat} {l : Int} (h : At O a t l) :
    (O.map (·.2.label))[a]? = some l := by
  obtain ⟨r, hr, rfl⟩ := h
  simp [hr]

theorem at_of_label {O : List (Nat × Region)} {a : Nat} {l : Int} (h : (O.map (·.2.label))[a]? = some l) :
    ∃ t, At O a t l := by
  simp only [List.getElem?_map, Option.map_eq_some_iff] at h
  obtain ⟨⟨t, r⟩, hr, rfl⟩ := h
  exact ⟨t, r, hr, rfl⟩

theorem mem_idxs_at (O : List (Nat × Region)) (l : Int) (c : Nat) :
    c ∈ idxs l 0 (O.map (·.2.label)) ↔ ∃ t, At O c t l := by
  rw [mem_idxs]
  simp only [Nat.zero_le, Nat.sub_zero, true_and]
  exact ⟨at_of_label, fun ⟨t, h⟩ => h.label⟩

theorem lex_of_lt {O : List (Nat × Region)} (hO : O.Pairwise LexLt) {i j : Nat} {p q : Nat × Region}
    (hij : i < j) (hi : O[i]? = some p) (hj : O[j]? = some q) : LexLt p q := by
  have hjl : j < O.length := by
    rcases Nat.lt_or_ge j O.length with h | h
    · exact h
    · rw [List.getElem?_eq_none h] at hj; cases hj
  have hil : i < O.length := by omega
  have := (List.pairwise_iff_getElem.1 hO) i j hil hjl hij
  rw [List.getElem?_eq_getElem hil] at hi
  rw [List.getElem?_eq_getElem hjl] at hj
  rw [← Option.some.inj hi, ← Option.some.inj hj]; exact this

/-- weak monotonicity of time along node ids -/
theorem time_le_of_lt {O : List (Nat × Region)} (hO : O.Pairwise LexLt) {a b ta tb : Nat} {la lb : Int}
    (ha : At O a ta la) (hb : At O b tb lb) (hab : a < b) : ta ≤ tb := by
  obtain ⟨ra, hra, _⟩ := ha
  obtain ⟨rb, hrb, _⟩ := hb
  rcases lex_of_lt hO hab hra hrb with h | ⟨h, _⟩
  · exact Nat.le_of_lt h
  · exact Nat.le_of_eq h

/-- for two nodes of one label, id order and time order coincide -/
theorem time_lt_iff {O : List (Nat × Region)} (hO : O.Pairwise LexLt) {a b ta tb : Nat} {l : Int}
    (ha : At O a ta l) (hb : At O b tb l) : a < b ↔ ta < tb := by
  have key : ∀ {a b ta tb : Nat}, At O a ta l → At O b tb l → a < b → ta < tb := by
    intro a b ta tb ha hb hab
    obtain ⟨ra, hra, hla⟩ := ha
    obtain ⟨rb, hrb, hlb⟩ := hb
    rcases lex_of_lt hO hab hra hrb with h | ⟨_, h⟩
    · exact h
    · simp only [hla, hlb] at h; omega
  constructor
  · exact key ha hb
  · intro hlt
    rcases Nat.lt_trichotomy a b with h | h | h
    · exact h
    · subst h; have := (ha.unique hb).1; omega
    · have := key hb ha h; omega

/-! ## Consecutive appearances, first and last node of a label -/

theorem consec_iff_Consec {O : List (Nat × Region)} (hO : O.Pairwise LexLt) (l : Int) (a b : Nat) :
    (a, b) ∈ consec (idxs l 0 (O.map (·.2.label))) ↔
      ∃ ta tb, At O a ta l ∧ At O b tb l ∧ ta < tb ∧ ∀ c tc, At O c tc l → ¬ (ta < tc ∧ tc < tb) := by
  rw [consec_mem_iff _ (idxs_pairwise l _ 0)]
  simp only [mem_idxs_at]
  constructor
  · rintro ⟨⟨ta, ha⟩, ⟨tb, hb⟩, hab, hno⟩
    refine ⟨ta, tb, ha, hb, (time_lt_iff hO ha hb).1 hab, ?_⟩
    intro c tc hc ⟨h1, h2⟩
    exact hno c ⟨tc, hc⟩ ⟨(time_lt_iff hO ha hc).2 h1, (time_lt_iff hO hc hb).2 h2⟩
  · rintro ⟨ta, tb, ha, hb, hlt, hno⟩
    refine ⟨⟨ta, ha⟩, ⟨tb, hb⟩, (time_lt_iff hO ha hb).2 hlt, ?_⟩
    rintro c ⟨tc, hc⟩ ⟨h1, h2⟩
    exact hno c tc hc ⟨(time_lt_iff hO ha hc).1 h1, (time_lt_iff hO hc hb).1 h2⟩

theorem head_isFirst {O : List (Nat × Region)} (hO : O.Pairwise LexLt) (l : Int) (a : Nat)
    (h : (idxs l 0 (O.map (·.2.label))).head? = some a) : IsFirst (At O) l a := by
  have hp := idxs_pairwise l (O.map (·.2.label)) 0
  obtain ⟨rest, hrest⟩ : ∃ rest, idxs l 0 (O.map (·.2.label)) = a :: rest := by
    cases hh : idxs l 0 (O.map (·.2.label)) with
    | nil => rw [hh] at h; cases h
    | cons x r => rw [hh] at h; simp at h; subst h; exact ⟨r, rfl⟩
  have hmem : a ∈ idxs l 0 (O.map (·.2.label)) := by rw [hrest]; exact List.mem_cons_self ..
  obtain ⟨t, ha⟩ := (mem_idxs_at O l a).1 hmem
  refine ⟨t, ha, ?_⟩
  intro c tc hc
  have hcm : c ∈ idxs l 0 (O.map (·.2.label)) := (mem_idxs_at O l c).2 ⟨tc, hc⟩
  rw [hrest] at hcm hp
  rcases List.mem_cons.1 hcm with rfl | hcr
  · exact Nat.le_of_eq (ha.unique hc).1
  · exact time_le_of_lt hO ha hc ((List.pairwise_cons.1 hp).1 c hcr)

theorem last_isLast {O : List (Nat × Region)} (hO : O.Pairwise LexLt) (l : Int) (a : Nat)
    (h : (idxs l 0 (O.map (·.2.label))).getLast? = some a) : IsLast (At O) l a := by
  have hp := idxs_pairwise l (O.map (·.2.label)) 0
  obtain ⟨ys, hys⟩ := List.getLast?_eq_some_iff.1 h
  have hmem : a ∈ idxs l 0 (O.map (·.2.label)) := by rw [hys]; simp
  obtain ⟨t, ha⟩ := (mem_idxs_at O l a).1 hmem
  refine ⟨t, ha, ?_⟩
  intro c tc hc
  have hcm : c ∈ idxs l 0 (O.map (·.2.label)) := (mem_idxs_at O l c).2 ⟨tc, hc⟩
  rw [hys] at hcm hp
  rcases List.mem_append.1 hcm with hcy | hca
  · exact time_le_of_lt hO hc ha ((List.pairwise_append.1 hp).2.2 c hcy a (by simp))
  · simp only [List.mem_singleton] at hca; subst hca
    exact Nat.le_of_eq (hc.unique ha).1

/-! ## The consecutive-occurrence edges -/

theorem mem_trackEdges {labels : List Int} {tracks : List (Int × List Nat)} (h : TracksInv labels tracks)
    (a b : Nat) : (a, b) ∈ trackEdges tracks ↔ ∃ l ∈ labels, (a, b) ∈ consec (idxs l 0 labels) := by
  unfold trackEdges
  rw [List.mem_flatMap]
  constructor
  · rintro ⟨e, he, hab⟩
    refine ⟨e.1, (h.keys _).1 (List.mem_map.2 ⟨e, he, rfl⟩), ?_⟩
    rw [← h.vals e he]; exact hab
  · rintro ⟨l, hl, hab⟩
    obtain ⟨e, he, rfl⟩ := List.mem_map.1 ((h.keys l).2 hl)
    exact ⟨e, he, by rw [h.vals e he]; exact hab⟩

theorem trackEdges_nodup {labels : List Int} {tracks : List (Int × List Nat)} (h : TracksInv labels tracks) :
    (trackEdges tracks).Nodup := by
  unfold trackEdges
  rw [List.nodup_flatMap]
  refine ⟨fun e he => by rw [h.vals e he]; exact consec_nodup _ (idxs_pairwise _ _ _), ?_⟩
  have hk := h.nodup
  rw [List.Nodup, List.pairwise_map] at hk
  refine hk.imp_of_mem ?_
  intro e1 e2 h1 h2 hne
  simp only [Function.onFun]
  rw [h.vals e1 h1, h.vals e2 h2]
  intro x hx1 hx2
  obtain ⟨a, b⟩ := x
  have ha1 := ((mem_idxs e1.1 labels 0 a).1 (consec_mem_both hx1).1).2
  have ha2 := ((mem_idxs e2.1 labels 0 a).1 (consec_mem_both hx2).1).2
  rw [ha1] at ha2
  exact hne (Option.some.inj ha2)

end Geff.Ctc
