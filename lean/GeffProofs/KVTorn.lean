import GeffModel.KVTorn
import GeffProofs.KVCleanup
/-! # Writes that start on a torn store (C05, history dimension)

* `writeArraysT_eq`: the corrected model (`GeffModel/KVTorn.lean`: the verdict of the final validation is
  taken on the committed store) performs, on every store, exactly the mutations of the original model run
  with that verdict as its input — so every theorem about `writeArrays` (all graphs, **all verdicts**)
  is a theorem about `writeArraysT`;
* `writeBody_torn`: the invariant of torn stores (`Torn`: no geff attribute, no root document of the other
  format) holds at every crash point of the body of a write started on a torn store, up to the commit —
  torn stores are closed under interrupted writes;
* `writeArraysT_torn_crash`: every crash point of a write started on a torn store that the guard does not
  take for a geff. -/
namespace Geff.KV
open Gen.Paths Prog

theorem Res.ext' {α} (a b : Res α) (h1 : a.ops = b.ops) (h2 : a.val = b.val) : a = b := by
  cases a; cases b; simp_all

/-! ### the verdict is the only thing the corrected model changes -/

@[simp] theorem writeBody_withValid (d : Docs) (kind : Kind) (f : Fmt) (g : G) (v : Bool) :
    writeBody d kind f (withValid g v) = writeBody d kind f g := rfl

@[simp] theorem writeCommitted_withValid (d : Docs) (kind : Kind) (f : Fmt) (g : G) (v ow : Bool) :
    writeCommitted d kind f (withValid g v) ow = writeCommitted d kind f g ow := rfl

@[simp] theorem apiCommitted_withValid (d : Docs) (kind : Kind) (f : Fmt) (g : G) (v ow : Bool) :
    apiCommitted d kind f (withValid g v) ow = apiCommitted d kind f g ow := rfl

@[simp] theorem withValid_valid (g : G) (v : Bool) : (withValid g v).valid = v := rfl

theorem committedStore_eq (d : Docs) (kind : Kind) (f : Fmt) (g : G) (ow : Bool) (kv₀ : KV)
    (h : (guard d kind f ow kv₀).val = .ok ()) :
    committedStore d kind f g ow kv₀ = run kv₀ (writeCommitted d kind f g ow kv₀).ops := by
  unfold committedStore writeCommitted
  simp only [bind_def]
  rw [ops_bind_ok h, run_append]

/-- **the corrected model is the original one run with the verdict taken on the committed store** -/
theorem writeArraysT_eq (d : Docs) (kind : Kind) (f : Fmt) (g : G) (ow va : Bool) (kv₀ : KV) :
    writeArraysT d kind f g ow va kv₀ =
      writeArrays d kind f (withValid g (verdict f g (committedStore d kind f g ow kv₀))) ow va kv₀ := by
  unfold writeArraysT writeArrays
  simp only [bind_def]
  cases hg : (guard d kind f ow kv₀).val with
  | error e =>
    apply Res.ext'
    · rw [ops_bind_err hg, ops_bind_err hg]
    · rw [val_bind_err hg, val_bind_err hg]
  | ok u =>
    cases hb : (writeBody d kind f g (run kv₀ (guard d kind f ow kv₀).ops)).val with
    | error e =>
      apply Res.ext'
      · rw [ops_bind_ok hg, ops_bind_ok hg, ops_bind_err hb, writeBody_withValid, ops_bind_err hb]
      · rw [val_bind_ok hg, val_bind_ok hg, val_bind_err hb, writeBody_withValid, val_bind_err hb]
    | ok u' =>
      have hc : committedStore d kind f g ow kv₀ =
          run (run kv₀ (guard d kind f ow kv₀).ops) (writeBody d kind f g (run kv₀ (guard d kind f ow kv₀).ops)).ops := rfl
      apply Res.ext'
      · rw [ops_bind_ok hg, ops_bind_ok hg, ops_bind_ok hb, writeBody_withValid, ops_bind_ok hb, hc]; rfl
      · rw [val_bind_ok hg, val_bind_ok hg, val_bind_ok hb, writeBody_withValid, val_bind_ok hb, hc]; rfl

theorem apiWriteT_eq (d : Docs) (kind : Kind) (f : Fmt) (g : G) (ow va : Bool) (kv₀ : KV) :
    apiWriteT d kind f g ow va kv₀ =
      apiWrite d kind f (withValid g (verdict f g (apiCommittedStore d kind f g ow kv₀))) ow va kv₀ := by
  unfold apiWriteT apiWrite apiCommittedStore
  simp only [bind_def]
  cases hg : (guard d kind f ow kv₀).val with
  | error e =>
    apply Res.ext'
    · rw [ops_bind_err hg, ops_bind_err hg]
    · rw [val_bind_err hg, val_bind_err hg]
  | ok u =>
    apply Res.ext'
    · rw [ops_bind_ok hg, ops_bind_ok hg, writeArraysT_eq]
    · rw [val_bind_ok hg, val_bind_ok hg, writeArraysT_eq]

/-- every crash point of the corrected `write_arrays` on an admissible (`PreOK`) store -/
theorem writeArraysT_crash (d : Docs) (kind : Kind) (f : Fmt) (g : G) (ow va : Bool) (kv₀ : KV)
    (hpre : PreOK kind f ow kv₀) :
    Crash kv₀ (writeArraysT d kind f g ow va kv₀).ops
      (CrashSafe f kv₀ (run kv₀ (writeCommitted d kind f g ow kv₀).ops)
        ((writeCommitted d kind f g ow kv₀).val = .ok ())) := by
  rw [writeArraysT_eq]
  exact writeArrays_crash d kind f (withValid g _) ow va kv₀ hpre

theorem apiWriteT_crash (d : Docs) (kind : Kind) (f : Fmt) (g : G) (ow va : Bool) (kv₀ : KV)
    (hpre : PreOK kind f ow kv₀) :
    Crash kv₀ (apiWriteT d kind f g ow va kv₀).ops
      (CrashSafe f kv₀ (run kv₀ (apiCommitted d kind f g ow kv₀).ops)
        ((apiCommitted d kind f g ow kv₀).val = .ok ())) := by
  rw [apiWriteT_eq]
  exact apiWrite_crash d kind f (withValid g _) ow va kv₀ hpre

/-! ### torn stores -/

/-- a store an interrupted write can leave behind and that a store object's guard does not take for a
geff: no geff attribute in the format being written, no root document of the other format -/
def Torn (f : Fmt) (s : KV) : Prop := geffAttrIn f s = none ∧ FmtClean f s

theorem tornOkB_iff (f : Fmt) (s : KV) : tornOkB f s = true ↔ Torn f s := by
  unfold tornOkB Torn FmtClean
  cases f <;> simp [Option.isNone_iff_eq_none]

theorem torn_nil (f : Fmt) : Torn f [] := ⟨rfl, fun _ => rfl⟩

theorem torn_step {f : Fmt} {s : KV} {op : Op} (h : Torn f s) (h1 : noGeffOp op = true)
    (h2 : fmtOK f op = true) : Torn f (step s op) :=
  ⟨geffAttrIn_step_none f s op h.1 h1, fmtClean_step h.2 h2⟩

theorem crash_torn (f : Fmt) (ops : List Op) (s : KV) (h : Torn f s)
    (hall : ∀ op ∈ ops, noGeffOp op = true ∧ fmtOK f op = true) : Crash s ops (Torn f) :=
  Crash.of_inv (I := Torn f) (A := fun op => noGeffOp op && fmtOK f op)
    (fun t op ht ho => by
      simp only [Bool.and_eq_true] at ho
      exact torn_step ht ho.1 ho.2) ops s h
    (fun op hop => by simp [(hall op hop).1, (hall op hop).2])

/-- **torn stores are closed under interrupted writes**: started on a torn store, every crash point of
the body of `write_arrays` is a torn store again, except after its very last mutation (the commit) -/
theorem writeBody_torn (d : Docs) (kind : Kind) (f : Fmt) (g : G) (s : KV) (h : Torn f s) :
    Crash s (writeBody d kind f g s).ops
      (fun t => Torn f t ∨
        ((writeBody d kind f g s).val = .ok () ∧ t = run s (writeBody d kind f g s).ops)) := by
  have hW : ∀ op ∈ (writeData d kind f g s).ops, noGeffOp op = true ∧ fmtOK f op = true := fun op hop =>
    have := All.writeData_dataOp d kind f g s op hop
    ⟨dataOp_noGeff f none op this, dataOp_fmtOK f none op this⟩
  have c1 := crash_torn f _ s h hW
  unfold writeBody
  simp only [bind_def, ops_bind, val_bind]
  cases hv : (writeData d kind f g s).val with
  | error e =>
    simp only [List.append_nil]
    exact c1.mono (fun t ht => Or.inl ht)
  | ok u =>
    simp only
    have hroot := writeData_root d kind f g s u hv
    have hfmt := rootGroupFmt_of f _ hroot c1.final.2
    have hm : (metadataWrite d g.geff (run s (writeData d kind f g s).ops)).ops =
        rootMetaOps d f (.root (some g.geff) (otherAttrsIn d f (run s (writeData d kind f g s).ops))) := by
      unfold metadataWrite; rw [look_bind]; simp only [hfmt]; rfl
    obtain ⟨_, _, _, _, hmv⟩ := metadataWrite_shape d g.geff (run s (writeData d kind f g s).ops)
    rw [hm, hmv]
    apply Crash.append (c1.mono (fun t ht => Or.inl ht))
    have hT := c1.final
    cases f with
    | v2 =>
      refine Crash.cons (Or.inl hT) (Crash.cons (Or.inl (torn_step hT rfl (by simp [fmtOK]))) (Crash.nil (Or.inr ⟨rfl, ?_⟩)))
      simp [rootMetaOps, run_append, run_cons, run_nil]
    | v3 =>
      refine Crash.cons (Or.inl hT) (Crash.nil (Or.inr ⟨rfl, ?_⟩))
      simp [rootMetaOps, run_append, run_cons, run_nil]

theorem not_recognised_of_torn {f : Fmt} {s : KV} (h : Torn f s) : recognised f s = false :=
  not_recognised_of_noGeff h.1

/-- body, validation (any verdict `v`) and clean-up, started on a torn store: every crash point is a torn
store (hence not recognised), or the committed store, or — during the clean-up, provided the committed
store is `DeleteSafe` on MemoryStore-like kinds — a store whose `nodes` group is unreadable -/
theorem bodyCleanup_torn (d : Docs) (kind : Kind) (f : Fmt) (g : G) (v va : Bool) (s : KV) (h : Torn f s)
    (hsafe : (writeBody d kind f g s).val = .ok () → kind = .mem →
      DeleteSafe f (run s (writeBody d kind f g s).ops)) :
    Crash s ((writeBody d kind f g >>= fun _ => validateAndCleanup d kind f (withValid g v) va) s).ops
      (fun t => Torn f t ∨ nodesBroken f t ∨
        ((writeBody d kind f g s).val = .ok () ∧ t = run s (writeBody d kind f g s).ops)) := by
  simp only [bind_def, ops_bind]
  have hB := writeBody_torn d kind f g s h
  refine Crash.append (hB.mono ?_) ?_
  · intro t ht
    rcases ht with ht | ht
    · exact Or.inl ht
    · exact Or.inr (Or.inr ht)
  · cases hv : (writeBody d kind f g s).val with
    | error e =>
      exact Crash.nil (hB.final.elim (fun h => Or.inl h) (fun h => by rw [hv] at h; simp at h))
    | ok u =>
      simp only
      rw [validateAndCleanup_ops]
      split
      · have hroot := writeBody_root d kind f g s u hv
        refine (deleteGeff_crash d kind f _ hroot (hsafe hv)).mono ?_
        intro t ht
        rcases ht with ht | ht
        · exact Or.inr (Or.inr ⟨trivial, ht⟩)
        · exact Or.inr (Or.inl ht)
      · exact Crash.nil (Or.inr (Or.inr ⟨trivial, rfl⟩))

/-- **every crash point of `write_arrays` started on a torn store that the guard does not take for a
geff** (store objects: whatever `overwrite` says, nothing is deleted and the write goes on top) -/
theorem writeArraysT_torn_crash (d : Docs) (kind : Kind) (f : Fmt) (g : G) (ow va : Bool) (kv₀ : KV)
    (hc : checkForGeff kind kv₀ = false) (h : Torn f kv₀)
    (hsafe : (writeBody d kind f g kv₀).val = .ok () → kind = .mem →
      DeleteSafe f (run kv₀ (writeBody d kind f g kv₀).ops)) :
    Crash kv₀ (writeArraysT d kind f g ow va kv₀).ops
      (fun t => Torn f t ∨ nodesBroken f t ∨
        ((writeBody d kind f g kv₀).val = .ok () ∧ t = run kv₀ (writeBody d kind f g kv₀).ops)) := by
  rw [writeArraysT_eq]
  have hg := guard_eq d kind f ow kv₀
  simp only [hc, Bool.false_eq_true, if_false] at hg
  have hv : (guard d kind f ow kv₀).val = .ok () := by rw [hg]
  have ho : (guard d kind f ow kv₀).ops = [] := by rw [hg]
  unfold writeArrays
  simp only [bind_def]
  rw [ops_bind_ok hv, ho]
  simp only [List.nil_append, run_nil]
  exact bodyCleanup_torn d kind f g _ va kv₀ h hsafe

theorem guard_of_unseen (d : Docs) (kind : Kind) (f : Fmt) (ow : Bool) (kv₀ : KV)
    (hc : checkForGeff kind kv₀ = false) :
    (guard d kind f ow kv₀).val = .ok () ∧ (guard d kind f ow kv₀).ops = [] := by
  have hg := guard_eq d kind f ow kv₀
  simp only [hc, Bool.false_eq_true, if_false] at hg
  rw [hg]; exact ⟨rfl, rfl⟩

theorem committedStore_of_unseen (d : Docs) (kind : Kind) (f : Fmt) (g : G) (ow : Bool) (kv₀ : KV)
    (hc : checkForGeff kind kv₀ = false) :
    committedStore d kind f g ow kv₀ = run kv₀ (writeBody d kind f g kv₀).ops := by
  unfold committedStore
  simp only [(guard_of_unseen d kind f ow kv₀ hc).2, run_nil]

/-- **a write on top of a torn store that validation rejects** (left-over property members, or an invalid
graph): the call ends with `ValueError`, and the clean-up removes every geff-controlled key — the
left-overs of the earlier interrupted write included — and the geff attribute, and keeps every foreign
member byte for byte: afterwards the target is not recognised -/
theorem writeArraysT_torn_rejected (d : Docs) (kind : Kind) (f : Fmt) (g : G) (ow : Bool) (kv₀ : KV)
    (hc : checkForGeff kind kv₀ = false) (h : Torn f kv₀)
    (hvis : kind = .path → ForeignVisible f kv₀)
    (hbv : (writeBody d kind f g kv₀).val = .ok ())
    (hrej : verdict f g (run kv₀ (writeBody d kind f g kv₀).ops) = false) :
    (writeArraysT d kind f g ow true kv₀).val = .error .valueError ∧
    ownedPart (run kv₀ (writeArraysT d kind f g ow true kv₀).ops) = [] ∧
    geffAttrIn f (run kv₀ (writeArraysT d kind f g ow true kv₀).ops) = none ∧
    foreignPart (run kv₀ (writeArraysT d kind f g ow true kv₀).ops) = foreignPart kv₀ := by
  obtain ⟨hgv, hgo⟩ := guard_of_unseen d kind f ow kv₀ hc
  obtain ⟨hh2, _⟩ := holds_after_body d kind f g kv₀ h.2 hbv
  have hf2 := foreignPart_run (writeBody d kind f g kv₀).ops kv₀ (writeBody_classified d kind f g kv₀)
  have hvis2 : kind = .path → ForeignVisible f (run kv₀ (writeBody d kind f g kv₀).ops) :=
    fun hk => writeBody_visible d kind f g kv₀ (hvis hk)
  obtain ⟨hdv, hdo, hda, hdf, _, _⟩ := deleteGeff_spec d kind f _ hh2 hvis2
  rw [writeArraysT_eq, committedStore_of_unseen d kind f g ow kv₀ hc, hrej]
  have hX : ∀ t, (validateAndCleanup d kind f (withValid g false) true t).ops = (deleteGeff d kind f t).ops := by
    intro t; rw [validateAndCleanup_ops]; simp
  have hXv : ∀ t, (validateAndCleanup d kind f (withValid g false) true t).val = .error .valueError := by
    intro t; unfold validateAndCleanup; simp [bind_def, val_bind]
  have hops : (writeArrays d kind f (withValid g false) ow true kv₀).ops =
      (writeBody d kind f g kv₀).ops ++ (deleteGeff d kind f (run kv₀ (writeBody d kind f g kv₀).ops)).ops := by
    unfold writeArrays; simp only [bind_def]
    rw [ops_bind_ok hgv, hgo]
    simp only [List.nil_append, run_nil, writeBody_withValid]
    rw [ops_bind_ok hbv, hX]
  have hval : (writeArrays d kind f (withValid g false) ow true kv₀).val = .error .valueError := by
    unfold writeArrays; simp only [bind_def]
    rw [val_bind_ok hgv, hgo]
    simp only [run_nil, writeBody_withValid]
    rw [val_bind_ok hbv, hXv]
  refine ⟨hval, ?_, ?_, ?_⟩
  · rw [hops, run_append]; exact hdo
  · rw [hops, run_append]; exact hda
  · rw [hops, run_append, hdf, hf2]

/-! ### on a store without geff-owned keys the verdict is the input verdict -/

/-- a path at which a node document is never a stale member of `grp/props` w.r.t. `names` -/
def okPath (grp : String) (names : List String) : List String → Bool
  | [a, b, n] => !(a == grp && b == PROPS) || names.contains n
  | _ => true

theorem staleKey_false_of_okPath {f : Fmt} {grp : String} {names : List String} {k : Key}
    (h : okPath grp names k.path = true) : staleKey f grp names k = false := by
  obtain ⟨p, l⟩ := k
  unfold staleKey
  match p, h with
  | [], _ => rfl
  | [_], _ => rfl
  | [_, _], _ => rfl
  | [a, b, n], h =>
    simp only [okPath, Bool.or_eq_true, Bool.not_eq_true', Bool.and_eq_false_iff] at h
    rcases h with (h | h) | h
    · simp [h]
    · simp [h]
    · have : n ∈ names := by simpa using h
      simp [this]
  | _ :: _ :: _ :: _ :: _, _ => rfl

def freshOp (f : Fmt) (grp : String) (names : List String) : Op → Bool
  | .set k _ => !staleKey f grp names k
  | .setnx k _ => !staleKey f grp names k
  | _ => true

theorem mem_put {s : KV} {k : Key} {b : Blob} {e : Key × Blob} (h : e ∈ put s k b) : e = (k, b) ∨ e ∈ s := by
  induction s with
  | nil => simp [put] at h; exact Or.inl h
  | cons x xs ih =>
    obtain ⟨k', b'⟩ := x
    unfold put at h
    split at h
    · simp at h; rcases h with h | h
      · exact Or.inl h
      · exact Or.inr (by simp [h])
    · simp at h; rcases h with h | h
      · exact Or.inr (by simp [h])
      · rcases ih h with h | h
        · exact Or.inl h
        · exact Or.inr (by simp [h])

theorem staleIn_false_iff {f : Fmt} {grp : String} {names : List String} {s : KV} :
    staleIn f grp names s = false ↔ ∀ e ∈ s, staleKey f grp names e.1 = false := by
  unfold staleIn; simp [List.any_eq_false]

theorem staleIn_step {f : Fmt} {grp : String} {names : List String} {s : KV} {op : Op}
    (h : staleIn f grp names s = false) (ho : freshOp f grp names op = true) :
    staleIn f grp names (step s op) = false := by
  rw [staleIn_false_iff] at h ⊢
  intro e he
  cases op with
  | set k b =>
    rcases mem_put he with rfl | he
    · simpa [freshOp] using ho
    · exact h e he
  | setnx k b =>
    simp only [step] at he
    split at he
    · exact h e he
    · rcases mem_put he with rfl | he
      · simpa [freshOp] using ho
      · exact h e he
  | del k => exact h e (List.mem_filter.1 he).1
  | delPrefix p => exact h e (List.mem_filter.1 he).1
  | clear => simp [step] at he

/-- every prefix of `p` (and `p` itself) is a harmless path -/
def PathsOk (grp : String) (names : List String) (p : List String) : Prop :=
  ∀ i, okPath grp names (p.take i) = true

theorem PathsOk.self {grp : String} {names p : List String} (h : PathsOk grp names p) : okPath grp names p = true := by
  have := h p.length; simpa using this

theorem fresh_of_okPath {f : Fmt} {grp : String} {names : List String} {k : Key} (b : Blob)
    (h : okPath grp names k.path = true) :
    freshOp f grp names (.set k b) = true ∧ freshOp f grp names (.setnx k b) = true := by
  simp [freshOp, staleKey_false_of_okPath h]

theorem groupDocs_path (d : Docs) (f : Fmt) (q : List String) : ∀ e ∈ groupDocs d f q, e.1.path = q := by
  intro e he
  rcases groupDocs_spec d f q e he with ⟨h1, h2, _, _⟩ | ⟨_, h2, _⟩
  · rw [h2, h1]
  · exact h2

theorem ancestorsNx_fresh (d : Docs) (f : Fmt) {grp : String} {names p : List String} (hp : PathsOk grp names p) :
    ∀ op ∈ ancestorsNx d f p, freshOp f grp names op = true := by
  intro op hop
  simp only [ancestorsNx, List.mem_flatMap, List.mem_map] at hop
  obtain ⟨q, hq, e, he, rfl⟩ := hop
  have hq' : ∃ i, q = p.take i := by
    cases p with
    | nil => simp [ancestors] at hq
    | cons x xs =>
      simp only [ancestors, List.mem_map, List.mem_range] at hq
      obtain ⟨i, _, rfl⟩ := hq
      exact ⟨i, rfl⟩
  obtain ⟨i, rfl⟩ := hq'
  have := groupDocs_path d f _ e he
  exact (fresh_of_okPath e.2 (by rw [this]; exact hp i)).2

theorem All.deleteDir_fresh (f : Fmt) (kind : Kind) (grp : String) (names p : List String) :
    All (freshOp f grp names) (deleteDir kind p) := by
  unfold deleteDir
  apply All.bind All.look
  intro kv
  cases kind with
  | mem =>
    apply All.emit
    intro op hop
    simp only [List.mem_map] at hop
    obtain ⟨e, _, rfl⟩ := hop
    rfl
  | loc =>
    simp only
    split
    · apply All.emit; intro op hop; simp at hop; subst hop; rfl
    · exact All.pure ()
  | path =>
    simp only
    split
    · apply All.emit; intro op hop; simp at hop; subst hop; rfl
    · exact All.pure ()

theorem All.setup_fresh (d : Docs) (f : Fmt) (grp : String) (names : List String) :
    All (freshOp f grp names) (setupZarrGroup d f) := by
  unfold setupZarrGroup
  apply All.bind All.look
  intro kv
  split
  · exact All.pure ()
  · apply All.emit
    intro op hop
    simp only [List.mem_map] at hop
    obtain ⟨e, he, rfl⟩ := hop
    have := groupDocs_path d f [] e he
    exact (fresh_of_okPath e.2 (by rw [this]; rfl)).1

theorem All.createArray_fresh (d : Docs) (kind : Kind) (f : Fmt) {grp : String} {names p : List String}
    (hp : PathsOk grp names p) (a : Arr) : All (freshOp f grp names) (createArray d kind f p a) := by
  unfold createArray
  split
  · exact All.raise _
  · apply All.bind (All.deleteDir_fresh f kind grp names p); intro _
    apply All.bind
    · apply All.emit
      intro op hop
      cases f <;> simp [arrayMetaOps] at hop
      · rcases hop with rfl | rfl <;> exact (fresh_of_okPath _ hp.self).1
      · subst hop; exact (fresh_of_okPath _ hp.self).1
    intro _
    apply All.bind (All.emit (ancestorsNx_fresh d f hp)); intro _
    apply All.emit
    intro op hop
    simp only [chunkOps, List.mem_map] at hop
    obtain ⟨c, _, rfl⟩ := hop
    cases c.2 with
    | some b => exact (fresh_of_okPath _ hp.self).1
    | none => rfl

theorem All.createGroup_fresh (d : Docs) (f : Fmt) {grp : String} {names p : List String}
    (hp : PathsOk grp names p) (ex : Bool) : All (freshOp f grp names) (createGroup d f p ex) := by
  unfold createGroup
  apply All.bind All.look; intro kv
  split
  · split
    · exact All.raise _
    · exact All.pure ()
  · apply All.bind
    · apply All.emit
      intro op hop
      simp only [List.mem_map] at hop
      obtain ⟨e, he, rfl⟩ := hop
      have := groupDocs_path d f p e he
      exact (fresh_of_okPath e.2 (by rw [this]; exact hp.self)).1
    intro _
    exact All.emit (ancestorsNx_fresh d f hp)

theorem All.createOptArray_fresh (d : Docs) (kind : Kind) (f : Fmt) {grp : String} {names p : List String}
    (hp : PathsOk grp names p) (a : Option Arr) : All (freshOp f grp names) (createOptArray d kind f p a) := by
  cases a with
  | none => exact All.pure ()
  | some a => exact All.createArray_fresh d kind f hp a

theorem pathsOk_short (grp : String) (names : List String) (p : List String) (h : p.length ≤ 2) :
    PathsOk grp names p := by
  intro i
  have : (p.take i).length ≤ 2 := by simp; omega
  match hq : p.take i, this with
  | [], _ => rfl
  | [_], _ => rfl
  | [_, _], _ => rfl
  | _ :: _ :: _ :: _, h => simp at h

theorem pathsOk_prop (grp g' : String) (names : List String) (n : String) (rest : List String)
    (hr : rest.length ≤ 1) (hn : g' = grp → names.contains n = true) :
    PathsOk grp names ([g', PROPS, n] ++ rest) := by
  intro i
  match i with
  | 0 => rfl
  | 1 => rfl
  | 2 => rfl
  | 3 =>
    simp only [List.cons_append, List.take_succ_cons, List.take_zero, okPath]
    by_cases hg : g' = grp
    · have : n ∈ names := by simpa using hn hg
      simp [this]
    · simp [hg]
  | i + 4 =>
    match rest, hr with
    | [], _ =>
      simp only [List.append_nil, List.take_succ_cons, List.take_nil, okPath]
      by_cases hg : g' = grp
      · have : n ∈ names := by simpa using hn hg
        simp [this]
      · simp [hg]
    | [x], _ => simp [okPath]

theorem All.writeProp_fresh (d : Docs) (kind : Kind) (f : Fmt) (grp g' : String) (names : List String)
    (p : PropA) (hn : g' = grp → names.contains p.name = true) :
    All (freshOp f grp names) (writeProp d kind f g' p) := by
  unfold writeProp
  split
  · exact All.raise _
  · apply All.bind (All.createGroup_fresh d f (pathsOk_prop grp g' names p.name [] (by simp) hn) true); intro _
    apply All.bind (All.createArray_fresh d kind f (pathsOk_prop grp g' names p.name [VALUES] (by simp) hn) _); intro _
    apply All.bind (All.createOptArray_fresh d kind f (pathsOk_prop grp g' names p.name [MISSING] (by simp) hn) _); intro _
    exact All.createOptArray_fresh d kind f (pathsOk_prop grp g' names p.name [DATA] (by simp) hn) _

theorem All.forEach_mem {A : Op → Bool} {α} {f : α → Prog Unit} (l : List α) (h : ∀ x ∈ l, All A (f x)) :
    All A (Prog.forEach f l) := by
  induction l with
  | nil => exact All.pure ()
  | cons x xs ih =>
    exact All.bind (h x (by simp)) (fun _ => ih (fun y hy => h y (by simp [hy])))

theorem All.writeOptProps_fresh (d : Docs) (kind : Kind) (f : Fmt) (grp g' : String) (names : List String)
    (ps : Option (List PropA)) (hn : g' = grp → names = propNames ps) :
    All (freshOp f grp names) (writeOptProps d kind f g' ps) := by
  cases ps with
  | none => exact All.pure ()
  | some ps =>
    show All _ (writePropsArrays d kind f g' ps)
    unfold writePropsArrays
    apply All.bind (All.setup_fresh d f grp names); intro _
    apply All.bind (All.createGroup_fresh d f (pathsOk_short grp names [g', PROPS] (by simp)) false); intro _
    apply All.forEach_mem
    intro p hp
    apply All.writeProp_fresh
    intro hg
    rw [hn hg]
    simp only [propNames, List.contains_eq_mem, List.mem_map, decide_eq_true_eq]
    exact ⟨p, hp, rfl⟩

theorem All.writeData_fresh (d : Docs) (kind : Kind) (f : Fmt) (g : G) (grp : String) (names : List String)
    (h1 : NODES = grp → names = propNames g.nodeProps) (h2 : EDGES = grp → names = propNames g.edgeProps) :
    All (freshOp f grp names) (writeData d kind f g) := by
  unfold writeData
  apply All.bind
  · unfold writeIdArrays
    split
    · exact All.raise _
    · apply All.bind (All.setup_fresh d f grp names); intro _
      apply All.bind (All.createArray_fresh d kind f (pathsOk_short grp names [NODES, IDS] (by simp)) _); intro _
      exact All.createArray_fresh d kind f (pathsOk_short grp names [EDGES, IDS] (by simp)) _
  intro _
  apply All.bind (All.writeOptProps_fresh d kind f grp NODES names _ h1); intro _
  exact All.writeOptProps_fresh d kind f grp EDGES names _ h2

theorem All.metadataWrite_fresh (d : Docs) (geff : String) (f : Fmt) (grp : String) (names : List String) :
    All (freshOp f grp names) (metadataWrite d geff) := by
  unfold metadataWrite
  apply All.bind All.look; intro kv
  cases rootGroupFmt kv with
  | none =>
    apply All.emit; intro op hop
    simp [rootMetaOps] at hop
    subst hop; exact (fresh_of_okPath _ rfl).1
  | some f' =>
    apply All.emit; intro op hop
    cases f' <;> simp [rootMetaOps] at hop
    · rcases hop with rfl | rfl <;> exact (fresh_of_okPath _ rfl).1
    · subst hop; exact (fresh_of_okPath _ rfl).1

theorem All.writeBody_fresh (d : Docs) (kind : Kind) (f : Fmt) (g : G) (grp : String) (names : List String)
    (h1 : NODES = grp → names = propNames g.nodeProps) (h2 : EDGES = grp → names = propNames g.edgeProps) :
    All (freshOp f grp names) (writeBody d kind f g) := by
  unfold writeBody
  exact All.bind (All.writeData_fresh d kind f g grp names h1 h2) (fun _ => All.metadataWrite_fresh d g.geff f grp names)

theorem staleIn_of_ownedPart_nil {f : Fmt} {grp : String} {names : List String} {s : KV}
    (hg : grp = NODES ∨ grp = EDGES) (h : ownedPart s = []) : staleIn f grp names s = false := by
  rw [staleIn_false_iff]
  intro e he
  have ho : owned e.1 = false := by
    have : e ∉ ownedPart s := by rw [h]; simp
    unfold ownedPart at this
    simpa [List.mem_filter, he] using this
  apply staleKey_false_of_okPath
  obtain ⟨⟨p, l⟩, b⟩ := e
  match p, ho with
  | [], _ => rfl
  | [_], _ => rfl
  | [_, _], _ => rfl
  | [a, b', n], ho =>
    have ho' : ¬a = NODES ∧ ¬a = EDGES := by simpa [owned] using ho
    have : (a == grp) = false := by
      rcases hg with rfl | rfl
      · simpa using ho'.1
      · simpa using ho'.2
    simp [okPath, this]
  | _ :: _ :: _ :: _ :: _, _ => rfl

/-- **on a store without geff-owned keys the verdict is the input verdict**: the body of a write leaves
no member in `nodes/props` / `edges/props` but the properties it writes -/
theorem verdict_of_clean (d : Docs) (kind : Kind) (f : Fmt) (g : G) (s : KV) (h : ownedPart s = []) :
    verdict f g (run s (writeBody d kind f g s).ops) = g.valid := by
  have key : ∀ grp names, (grp = NODES ∨ grp = EDGES) → (NODES = grp → names = propNames g.nodeProps) →
      (EDGES = grp → names = propNames g.edgeProps) →
      staleIn f grp names (run s (writeBody d kind f g s).ops) = false := by
    intro grp names hg h1 h2
    exact (Crash.of_inv (I := fun t => staleIn f grp names t = false) (A := freshOp f grp names)
      (fun t op ht ho => staleIn_step ht ho) _ s (staleIn_of_ownedPart_nil hg h)
      (All.writeBody_fresh d kind f g grp names h1 h2 s)).final
  have hN := key NODES (propNames g.nodeProps) (Or.inl rfl) (fun _ => rfl) (fun h => absurd h.symm nodes_ne_edges)
  have hE := key EDGES (propNames g.edgeProps) (Or.inr rfl) (fun h => absurd h nodes_ne_edges) (fun _ => rfl)
  simp [verdict, noStale, hN, hE]

theorem withValid_self (g : G) : withValid g g.valid = g := by cases g; rfl

/-- **on every store the cleanup theorem speaks about (no geff, or a geff that is overwritten) the corrected
model is the original one** -/
theorem writeArraysT_eq_of_clean (d : Docs) (kind : Kind) (f : Fmt) (g : G) (ow va : Bool) (kv₀ : KV)
    (hstart : CleanS f kv₀ ∨ (ow = true ∧ HoldsGeff f kv₀))
    (hvis : kind = .path → ForeignVisible f kv₀) :
    writeArraysT d kind f g ow va kv₀ = writeArrays d kind f g ow va kv₀ := by
  rw [writeArraysT_eq]
  have hown : ownedPart (run kv₀ (guard d kind f ow kv₀).ops) = [] := by
    have hg := guard_eq d kind f ow kv₀
    rcases hstart with hc | ⟨how, hh⟩
    · have hchk := check_of_clean kind f kv₀ hc.owned hc.attr hc.fmt hc.root
      simp only [hchk, Bool.false_eq_true, if_false] at hg
      rw [hg]; exact hc.owned
    · subst how
      simp only [check_of_holds kind f kv₀ hh, if_true] at hg
      rw [hg]
      exact (deleteGeff_spec d kind f kv₀ hh hvis).2.1
  have : verdict f g (committedStore d kind f g ow kv₀) = g.valid := verdict_of_clean d kind f g _ hown
  rw [this, withValid_self]
end Geff.KV
