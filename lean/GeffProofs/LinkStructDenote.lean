import GeffProofs.StoreTree
import GeffProofs.SpecDecode
/-! # Link C02 ← C04: a store the specification assigns a graph to is accepted by the structural validator

`Geff.Spec.denote` (C02's specification-only decoder, `GeffModel/SpecDecode.lean`) and
`GeffProps.C04.Conformant` (C04's specification of `validate_structure`, on the tree view
`Geff.Bridge.toTarget` of the flat store) were written independently.  `denote` is the more tolerant
one; the three decidable side conditions below are exactly what it does not demand and the validator
does.  `conformant_of_denote` is the inclusion; `validate_of_denote` its consequence through
`C04_sound_complete`; `validate_iff_conditions` shows the conditions are exactly the gap (converse
`conditions_of_conformant`, for metadata dicts with one entry per key).  No new model: every definition here is a predicate on the flat store `St`. -/
namespace Geff.LinkStruct
open Geff.Np Geff.Store Geff.Spec Geff.Bridge
open Gen.Paths (NODES EDGES IDS PROPS VALUES MISSING DATA)

/-! ## the side conditions (each a Bool on the store) -/

/-- the offset table of the var-length property described by the metadata entry `kv` is `uint64`
(vacuous for a fixed-shape property, or when there is no `values` array) -/
def tableU64 (s : St) (pre : Path) (kv : String × PropMeta) : Bool :=
  !(kv.2.varlength.getD false) ||
    match arrayAt s (pre ++ [kv.1, "values"]) with
    | some v => v.dtype == .u64
    | none => true

/-- **side condition 1**: every var-length property the metadata lists has a `uint64` offset table
(what geff writes and its validator demands; docs/specification.md's example shows `int64`) -/
def OffsetTablesU64 (s : St) : Bool :=
  match geffMeta s with
  | some m => m.nodeProps.all (tableU64 s ["nodes", "props"]) && m.edgeProps.all (tableU64 s ["edges", "props"])
  | none => true

/-- the members of the `props` group `pre` (none when it is not there) -/
def propGroupNames (s : St) (pre : Path) : List String := if groupAt s pre then childNames s pre else []

/-- one side: the metadata is a dict (one entry per key) and every key names a member of `props` -/
def metaKeysAreGroups (s : St) (pre : Path) (mds : List (String × PropMeta)) : Bool :=
  decide (mds.map (·.1)).Nodup && mds.all (fun kv => (propGroupNames s pre).contains kv.1)

/-- **side condition 2**: the keys of `node_props_metadata` / `edge_props_metadata` are property groups
(the converse — every property group has an entry — is part of `denote`); as keys of a JSON object
they are pairwise different -/
def MetaKeysArePropGroups (s : St) : Bool :=
  match geffMeta s with
  | some m => metaKeysAreGroups s ["nodes", "props"] m.nodeProps && metaKeysAreGroups s ["edges", "props"] m.edgeProps
  | none => true

/-- an axis names a node property listed in the metadata with 1-D `values` and no `missing` member -/
def axisOK (s : St) (m : GeffAttr) (ax : String) : Bool :=
  (m.nodeProps.map (·.1)).contains ax &&
  (match arrayAt s ["nodes", "props", ax, "values"] with
    | some v => v.shape.length == 1
    | none => false) &&
  (get s ["nodes", "props", ax, "missing"]).isNone

/-- **side condition 3** (not named in `GeffProps/C02.lean`; `denote` does not look at `axes`): every
axis of the metadata names a node property with 1-D values and no missing mask -/
def AxesAreNodeProps (s : St) : Bool :=
  match geffMeta s with
  | some m => (m.axes.getD []).all (axisOK s m)
  | none => true

/-! ## inversion of the decoder -/

theorem optionalArray_none (s : St) (p : Path) (h : optionalArray s p = some none) : get s p = none := by
  unfold optionalArray at h
  cases hg : get s p with
  | none => rfl
  | some e => cases e with
    | group _ => rw [hg] at h; cases h
    | array b => rw [hg] at h; cases h

theorem optionalArray_some (s : St) (p : Path) (a : NdArr) (h : optionalArray s p = some (some a)) :
    get s p = some (.array a) := by
  unfold optionalArray at h
  cases hg : get s p with
  | none => rw [hg] at h; cases h
  | some e => cases e with
    | group _ => rw [hg] at h; cases h
    | array b => rw [hg] at h; simp only [Option.some.injEq] at h; rw [h]

theorem maskBits_inv (m : NdArr) (n : Nat) (bits : List Bool) (h : maskBits (some m) n = some bits) :
    m.dtype = .bool ∧ m.shape = [n] := by
  unfold maskBits at h
  simp only [] at h
  split at h
  · rename_i hc; exact ⟨hc.1, hc.2.1⟩
  · cases h

theorem denseCells_inv (values : NdArr) (n : Nat) (dt : Dtype) (cells : List NdArr)
    (h : denseCells values n dt = some cells) : values.shape.head? = some n ∧ values.dtype = dt := by
  unfold denseCells at h
  split at h
  · rename_i n' tail hs
    split at h
    · rename_i hc
      rw [hs]; exact ⟨by rw [hc.1]; rfl, hc.2.2⟩
    · cases h
  · cases h

theorem vlenCells_inv (values d : NdArr) (n : Nat) (dt : Dtype) (cells : List NdArr)
    (h : vlenCells values d n dt = some cells) :
    values.shape.head? = some n ∧ values.shape.length = 2 ∧ values.dtype.isInteger = true ∧
    d.dtype = dt ∧ d.shape.length = 1 := by
  unfold vlenCells at h
  split at h
  · rename_i n' w x hs hd
    split at h
    · rename_i hc
      rw [hs, hd]
      exact ⟨by rw [hc.1]; rfl, rfl, hc.2.2.1, hc.2.2.2.2.2, rfl⟩
    · cases h
  · cases h

/-- what `denoteProp` being defined says about the entries of the store -/
theorem denoteProp_inv (s : St) (q : Path) (n : Nat) (md : PropMeta) (P : PropD)
    (h : denoteProp s q n md = some P) :
    ∃ a values dt, get s q = some (.group a) ∧ get s (q ++ ["values"]) = some (.array values) ∧
      Dtype.ofName? md.dtype = some dt ∧ values.shape.head? = some n ∧
      (get s (q ++ ["missing"]) = none ∨
        ∃ m, get s (q ++ ["missing"]) = some (.array m) ∧ m.dtype = .bool ∧ m.shape = [n]) ∧
      (if md.varlength.getD false = true then
         values.dtype.isInteger = true ∧ values.shape.length = 2 ∧
         ∃ d, get s (q ++ ["data"]) = some (.array d) ∧ d.dtype = dt ∧ d.shape.length = 1
       else values.dtype = dt ∧ get s (q ++ ["data"]) = none) := by
  unfold denoteProp at h
  split at h
  · cases h
  · rename_i hg
    have hg' : groupAt s q = true := by
      cases hgv : groupAt s q with
      | true => rfl
      | false => exact absurd hgv hg
    obtain ⟨a, ha⟩ := groupAt_true s _ hg'
    split at h
    · rename_i values missing data dt hV hM hD hdt
      have hv := arrayAt_some s _ values hV
      split at h
      · cases h
      · rename_i bits hb
        have hmiss : get s (q ++ ["missing"]) = none ∨
            ∃ m, get s (q ++ ["missing"]) = some (.array m) ∧ m.dtype = .bool ∧ m.shape = [n] := by
          cases missing with
          | none => exact Or.inl (optionalArray_none s _ hM)
          | some m =>
            obtain ⟨h1, h2⟩ := maskBits_inv m n bits hb
            exact Or.inr ⟨m, optionalArray_some s _ m hM, h1, h2⟩
        split at h
        · rename_i hvl
          cases data with
          | none => cases h
          | some d =>
            simp only [Option.map_eq_some_iff] at h
            obtain ⟨cells, hc, _⟩ := h
            obtain ⟨c1, c2, c3, c4, c5⟩ := vlenCells_inv values d n dt cells hc
            refine ⟨a, values, dt, ha, hv, hdt, c1, hmiss, ?_⟩
            rw [if_pos hvl]
            exact ⟨c3, c2, d, optionalArray_some s _ d hD, c4, c5⟩
        · rename_i hvl
          cases data with
          | some _ => cases h
          | none =>
            simp only [Option.map_eq_some_iff] at h
            obtain ⟨cells, hc, _⟩ := h
            obtain ⟨c1, c2⟩ := denseCells_inv values n dt cells hc
            refine ⟨a, values, dt, ha, hv, hdt, c1, hmiss, ?_⟩
            rw [if_neg hvl]
            exact ⟨c2, optionalArray_none s _ hD⟩
    · cases h

/-! ## one property group -/

/-- a property group the decoder accepts, with a `uint64` table if it is var-length, is a conformant
property group for the validator -/
theorem conformantProp_of_denoteProp (fuel : Nat) (s : St) (q : Path) (n : Nat) (md : PropMeta) (P : PropD)
    (dt : Dtype) (h : denoteProp s q n md = some P) (hdt : Dtype.ofName? md.dtype = some dt)
    (hu : md.varlength.getD false = true → ∀ v, arrayAt s (q ++ ["values"]) = some v → v.dtype = .u64) :
    GeffProps.C04.ConformantProp n ⟨dt, md.varlength.getD false⟩ (.group (members (fuel + 1) s q)) := by
  obtain ⟨a, values, dt', hg, hv, hdt', hhead, hmiss, hcase⟩ := denoteProp_inv s q n md P h
  rw [hdt] at hdt'
  simp only [Option.some.injEq] at hdt'
  subst hdt'
  have eV : q ++ [VALUES] = q ++ ["values"] := rfl
  have eM : q ++ [MISSING] = q ++ ["missing"] := rfl
  have eD : q ++ [DATA] = q ++ ["data"] := rfl
  refine ⟨_, arrOf values, rfl, ?_, hhead, ?_, ?_⟩
  · rw [get_members, eV, nodeAt_array _ _ _ values hv]
  · by_cases hvl : md.varlength.getD false = true
    · rw [if_pos hvl] at hcase
      obtain ⟨_, h2, d, hd, h3, h4⟩ := hcase
      simp only [hvl, if_true]
      have hu64 : values.dtype = .u64 := hu hvl values (by unfold arrayAt; rw [hv])
      refine ⟨hu64, h2, arrOf d, ?_, h3, h4⟩
      rw [get_members, eD, nodeAt_array _ _ _ d hd]
    · rw [if_neg hvl] at hcase
      simp only [hvl]
      refine ⟨hcase.1, ?_⟩
      rw [get_members, eD]
      exact nodeAt_none _ _ _ hcase.2
  · rw [get_members, eM]
    rcases hmiss with hm | ⟨m, hm, h1, h2⟩
    · left; exact nodeAt_none _ _ _ hm
    · right
      rw [nodeAt_array _ _ _ m hm]
      unfold arrOf; rw [h1, h2]

/-! ## the metadata as the validator parses it -/

theorem find_of_mem_nodup {β} : ∀ (A : List (String × β)) (k : String) (v : β), (A.map (·.1)).Nodup → (k, v) ∈ A →
    find k A = some v := by
  intro A
  induction A with
  | nil => intro k v _ h; cases h
  | cons a t ih =>
    intro k v hnd hm
    obtain ⟨k', v'⟩ := a
    simp only [List.map_cons, List.nodup_cons] at hnd
    unfold find
    rcases List.mem_cons.1 hm with heq | hm'
    · simp only [Prod.mk.injEq] at heq
      rw [heq.1, heq.2]; simp
    · have hne : k' ≠ k := by
        intro hk
        apply hnd.1
        rw [hk]
        exact List.mem_map.2 ⟨(k, v), hm', rfl⟩
      simp only [hne, if_false]
      exact ih k v hnd.2 hm'

theorem find_mem {β} : ∀ (A : List (String × β)) (k : String) (v : β), find k A = some v → (k, v) ∈ A := by
  intro A
  induction A with
  | nil => intro k v h; cases h
  | cons a t ih =>
    intro k v h
    obtain ⟨k', v'⟩ := a
    unfold find at h
    by_cases hk : k' = k
    · simp only [hk, if_true, Option.some.injEq] at h
      rw [hk, h]; exact List.mem_cons_self ..
    · simp only [hk, if_false] at h
      exact List.mem_cons_of_mem _ (ih k v h)

/-- the parsed metadata list: same keys, every entry parsed -/
theorem metasOf_spec : ∀ (A : List (String × PropMeta)) (L : List (String × Geff.Structure.PropMeta)),
    metasOf A = some L →
    Geff.Structure.keys L = A.map (·.1) ∧
    ∀ k, Geff.Structure.lookup L k = (find k A).bind propMetaOf := by
  intro A
  induction A with
  | nil =>
    intro L h
    simp only [metasOf, Option.some.injEq] at h
    subst h
    exact ⟨rfl, fun _ => rfl⟩
  | cons a t ih =>
    intro L h
    obtain ⟨k', pm⟩ := a
    unfold metasOf at h
    cases hp : propMetaOf pm with
    | none => rw [hp] at h; cases h
    | some m =>
      cases ht : metasOf t with
      | none => rw [hp, ht] at h; cases h
      | some r =>
        rw [hp, ht] at h
        simp only [Option.some.injEq] at h
        subst h
        obtain ⟨i1, i2⟩ := ih r ht
        refine ⟨by simp only [Geff.Structure.keys, List.map_cons] at i1 ⊢; rw [i1], ?_⟩
        intro k
        unfold Geff.Structure.lookup find
        by_cases hk : k' = k
        · simp only [hk, if_true, Option.bind_some, hp]
        · simp only [hk, if_false]; exact i2 k

theorem metasOf_isSome : ∀ (A : List (String × PropMeta)), (∀ kv ∈ A, (propMetaOf kv.2).isSome = true) →
    ∃ L, metasOf A = some L := by
  intro A
  induction A with
  | nil => intro _; exact ⟨[], rfl⟩
  | cons a t ih =>
    intro h
    obtain ⟨k, pm⟩ := a
    obtain ⟨r, hr⟩ := ih (fun kv hkv => h kv (List.mem_cons_of_mem _ hkv))
    have := h (k, pm) (List.mem_cons_self ..)
    cases hp : propMetaOf pm with
    | none => rw [hp] at this; cases this
    | some m => exact ⟨(k, m) :: r, by simp only [metasOf, hp, hr]⟩

theorem propMetaOf_eq (pm : PropMeta) (dt : Dtype) (h : Dtype.ofName? pm.dtype = some dt) :
    propMetaOf pm = some ⟨dt, pm.varlength.getD false⟩ := by
  unfold propMetaOf; rw [h]; rfl

/-! ## one `props` group -/

/-- every member of a `props` group the decoder accepts has a metadata entry and decodes -/
theorem denoteProps_members (s : St) (pre : Path) (n : Nat) (mds : List (String × PropMeta))
    (nps : List (String × PropD)) (a : Attrs) (hg : get s pre = some (.group a))
    (h : denoteProps s pre n mds = some nps) :
    ∀ k ∈ childNames s pre, ∃ md P, find k mds = some md ∧ denoteProp s (pre ++ [k]) n md = some P := by
  unfold denoteProps at h
  rw [hg] at h
  simp only [] at h
  intro k hk
  obtain ⟨y, hy⟩ := mapM_some_forall _ _ _ h k hk
  unfold denotePropNamed at hy
  cases hf : find k mds with
  | none => rw [hf] at hy; cases hy
  | some md =>
    rw [hf] at hy
    simp only [Option.map_eq_some_iff] at hy
    obtain ⟨P, hP', _⟩ := hy
    exact ⟨md, P, rfl, hP'⟩

theorem metaKeys_spec (s : St) (pre : Path) (mds : List (String × PropMeta))
    (hk : metaKeysAreGroups s pre mds = true) :
    (mds.map (·.1)).Nodup ∧ ∀ kv ∈ mds, kv.1 ∈ propGroupNames s pre := by
  unfold metaKeysAreGroups at hk
  simp only [Bool.and_eq_true, decide_eq_true_eq, List.all_eq_true, List.contains_iff_mem] at hk
  exact hk

/-- the metadata of one side parses, when its keys are property groups of a `props` group the decoder accepts -/
theorem metasOf_of_denoteProps (s : St) (pre : Path) (n : Nat) (mds : List (String × PropMeta))
    (nps : List (String × PropD)) (h : denoteProps s pre n mds = some nps)
    (hk : metaKeysAreGroups s pre mds = true) : ∃ L, metasOf mds = some L := by
  obtain ⟨hnd, hin⟩ := metaKeys_spec s pre mds hk
  apply metasOf_isSome
  intro kv hkv
  have hmem := hin kv hkv
  unfold propGroupNames at hmem
  split at hmem
  · rename_i hga
    obtain ⟨a, ha⟩ := groupAt_true s pre hga
    obtain ⟨md, P, hf, hd⟩ := denoteProps_members s pre n mds nps a ha h kv.1 hmem
    have : find kv.1 mds = some kv.2 := find_of_mem_nodup mds kv.1 kv.2 hnd hkv
    rw [this] at hf
    simp only [Option.some.injEq] at hf
    subst hf
    obtain ⟨_, _, dt, _, _, hdt, _⟩ := denoteProp_inv s _ n kv.2 P hd
    rw [propMetaOf_eq kv.2 dt hdt]; rfl
  · cases hmem

/-- the `props` group of one side (`grp` = `nodes` / `edges`) is conformant against the parsed metadata -/
theorem conformantProps_of_denoteProps (fuel : Nat) (s : St) (grp : String) (n : Nat)
    (mds : List (String × PropMeta)) (L : List (String × Geff.Structure.PropMeta)) (nps : List (String × PropD))
    (h : denoteProps s [grp, "props"] n mds = some nps)
    (hk : metaKeysAreGroups s [grp, "props"] mds = true)
    (hu : mds.all (tableU64 s [grp, "props"]) = true)
    (hL : metasOf mds = some L) :
    GeffProps.C04.ConformantProps n L (Geff.Structure.get (members (fuel + 3) s [grp]) PROPS) := by
  obtain ⟨hnd, hin⟩ := metaKeys_spec s _ mds hk
  obtain ⟨hkeysL, hlookL⟩ := metasOf_spec mds L hL
  have e0 : [grp] ++ [PROPS] = [grp, "props"] := rfl
  rw [get_members, e0]
  cases hg : get s [grp, "props"] with
  | none =>
    rw [nodeAt_none _ _ _ hg]
    show L = []
    have hmds : mds = [] := by
      cases mds with
      | nil => rfl
      | cons kv t =>
        have := hin kv (List.mem_cons_self ..)
        unfold propGroupNames groupAt at this
        rw [hg] at this
        cases this
    subst hmds
    simp only [metasOf, Option.some.injEq] at hL
    exact hL.symm
  | some e =>
    cases e with
    | array a =>
      unfold denoteProps at h; rw [hg] at h; cases h
    | group a =>
      have hmem := denoteProps_members s _ n mds nps a hg h
      have hga : groupAt s [grp, "props"] = true := by unfold groupAt; rw [hg]
      rw [nodeAt_group (fuel + 2) _ _ a hg]
      show (∀ name, name ∈ Geff.Structure.keys L ↔ name ∈ Geff.Structure.keys (members (fuel + 1 + 1) s [grp, "props"])) ∧ _
      refine ⟨?_, ?_⟩
      · intro name
        rw [hkeysL, mem_keys_members, ← mem_childNames]
        constructor
        · intro hm
          obtain ⟨kv, hkv, rfl⟩ := List.mem_map.1 hm
          have := hin kv hkv
          unfold propGroupNames at this
          rw [if_pos hga] at this
          exact this
        · intro hm
          obtain ⟨md, _, hf, _⟩ := hmem name hm
          exact List.mem_map.2 ⟨(name, md), find_mem mds name md hf, rfl⟩
      · intro name pm propNode hl hget
        rw [hlookL name] at hl
        cases hf : find name mds with
        | none => rw [hf] at hl; cases hl
        | some md =>
          rw [hf] at hl
          simp only [Option.bind_some] at hl
          -- the member exists, so it is listed and decodes
          have hq : [grp, "props"] ++ [name] = [grp, "props", name] := rfl
          rw [get_members] at hget
          have hsome : (get s ([grp, "props"] ++ [name])).isSome = true := by
            cases hgn : get s ([grp, "props"] ++ [name]) with
            | none => rw [nodeAt_none _ _ _ hgn] at hget; cases hget
            | some _ => rfl
          have hchild : name ∈ childNames s [grp, "props"] := (mem_childNames s _ name).2 hsome
          obtain ⟨md', P, hf', hd⟩ := hmem name hchild
          rw [hf] at hf'
          simp only [Option.some.injEq] at hf'
          subst hf'
          obtain ⟨a', _, dt, hgrp', _, hdt, _⟩ := denoteProp_inv s _ n md P hd
          rw [propMetaOf_eq md dt hdt] at hl
          simp only [Option.some.injEq] at hl
          rw [nodeAt_group _ _ _ a' hgrp'] at hget
          simp only [Option.some.injEq] at hget
          rw [← hget, ← hl]
          apply conformantProp_of_denoteProp fuel s _ n md P dt hd hdt
          intro hvl v hv
          have hmd : (name, md) ∈ mds := find_mem mds name md hf
          have := List.all_eq_true.1 hu (name, md) hmd
          unfold tableU64 at this
          simp only [hvl, Bool.not_true, Bool.false_or] at this
          have e1 : [grp, "props"] ++ [name, "values"] = [grp, "props"] ++ [name] ++ ["values"] := rfl
          rw [e1, hv] at this
          simpa using this

/-! ## the whole store -/

theorem geffMeta_inv (s : St) (m : GeffAttr) (h : geffMeta s = some m) :
    ∃ attrs, get s [] = some (.group attrs) ∧ Geff.WR.lookupKey "geff" attrs = some (.geff m) := by
  unfold geffMeta at h
  cases hg : get s [] with
  | none => rw [hg] at h; cases h
  | some e => cases e with
    | array _ => rw [hg] at h; cases h
    | group attrs =>
      rw [hg] at h
      simp only [] at h
      refine ⟨attrs, rfl, ?_⟩
      rw [← find_eq_lookupKey]
      cases hf : find "geff" attrs with
      | none => rw [hf] at h; cases h
      | some v => cases v with
        | other => rw [hf] at h; cases h
        | geff m' => rw [hf] at h; simp only [Option.some.injEq] at h; rw [h]

/-- what `denote` being defined says about the store -/
theorem denote_inv (s : St) (G : Graph) (h : denote s = some G) :
    ∃ m nid eid n e np ep, geffMeta s = some m ∧ groupAt s ["nodes"] = true ∧ groupAt s ["edges"] = true ∧
      get s ["nodes", "ids"] = some (.array nid) ∧ get s ["edges", "ids"] = some (.array eid) ∧
      nid.shape = [n] ∧ eid.shape = [e, 2] ∧ nid.dtype.isInteger = true ∧ eid.dtype = nid.dtype ∧
      denoteProps s ["nodes", "props"] n m.nodeProps = some np ∧
      denoteProps s ["edges", "props"] e m.edgeProps = some ep := by
  unfold denote at h
  split at h
  · rename_i m nid eid hm hgn hge hnid heid
    simp only [] at h
    split at h
    · rename_i hids
      split at h
      · rename_i np ep hnp hep
        unfold idsOK at hids
        simp only [Bool.and_eq_true, beq_iff_eq] at hids
        obtain ⟨⟨⟨⟨⟨h1, h2⟩, h3⟩, h4⟩, _⟩, _⟩ := hids
        exact ⟨m, nid, eid, _, _, np, ep, hm, hgn, hge, arrayAt_some s _ nid hnid, arrayAt_some s _ eid heid,
          h1, h2, h3, h4, hnp, hep⟩
      · cases h
    · cases h
  · cases h

/-- **the inclusion** `GeffProps/C02.lean` names as missing (completed by the axes condition): a store
that is laid out as docs/specification.md says (`denote` is defined), whose var-length offset tables are
`uint64`, whose metadata keys are property groups and whose axes name 1-D unmasked node properties is
`Conformant` in the sense of C04 (on the tree view of the store). -/
theorem conformant_of_denote (s : St) (G : Graph) (h : denote s = some G)
    (hu : OffsetTablesU64 s = true) (hk : MetaKeysArePropGroups s = true) (ha : AxesAreNodeProps s = true) :
    GeffProps.C04.Conformant (toTarget s) := by
  obtain ⟨m, nid, eid, n, e, np, ep, hm, hgn, hge, hnid, heid, hns, hes, hint, hsame, hnp, hep⟩ := denote_inv s G h
  obtain ⟨attrs, hroot, hgeff⟩ := geffMeta_inv s m hm
  obtain ⟨an, hgn'⟩ := groupAt_true s _ hgn
  obtain ⟨ae, hge'⟩ := groupAt_true s _ hge
  unfold OffsetTablesU64 at hu
  unfold MetaKeysArePropGroups at hk
  unfold AxesAreNodeProps at ha
  rw [hm] at hu hk ha
  simp only [Bool.and_eq_true] at hu hk
  obtain ⟨Ln, hLn⟩ := metasOf_of_denoteProps s _ n m.nodeProps np hnp hk.1
  obtain ⟨Le, hLe⟩ := metasOf_of_denoteProps s _ e m.edgeProps ep hep hk.2
  have hmeta : metaReadOf s = .ok ⟨Ln, Le, m.axes⟩ := metaReadOf_written s attrs m Ln Le hroot hgeff hLn hLe
  have hrootT : nodeAt depth s [] = some (.group (members 7 s [])) := nodeAt_group 7 s [] attrs hroot
  unfold toTarget
  rw [hrootT, hmeta]
  have eN : ([] : Path) ++ [NODES] = ["nodes"] := rfl
  have eE : ([] : Path) ++ [EDGES] = ["edges"] := rfl
  have eNI : ["nodes"] ++ [IDS] = ["nodes", "ids"] := rfl
  have eEI : ["edges"] ++ [IDS] = ["edges", "ids"] := rfl
  refine ⟨members 7 s [], ⟨Ln, Le, m.axes⟩, members 6 s ["nodes"], members 6 s ["edges"], arrOf nid, arrOf eid, n, e,
    rfl, rfl, ?_, ?_, ?_, hint, hns, ?_, hes, hsame, ?_, ?_, ?_⟩
  · rw [get_members, eN, nodeAt_group 6 _ _ an hgn']
  · rw [get_members, eE, nodeAt_group 6 _ _ ae hge']
  · rw [get_members, eNI, nodeAt_array 5 _ _ nid hnid]
  · rw [get_members, eEI, nodeAt_array 5 _ _ eid heid]
  · exact conformantProps_of_denoteProps 3 s "nodes" n m.nodeProps Ln np hnp hk.1 hu.1 hLn
  · exact conformantProps_of_denoteProps 3 s "edges" e m.edgeProps Le ep hep hk.2 hu.2 hLe
  · intro axes hax ax hmem
    simp only at hax ha
    rw [hax] at ha
    simp only [Option.getD_some] at ha
    have hok := List.all_eq_true.1 ha ax hmem
    unfold axisOK at hok
    simp only [Bool.and_eq_true, List.contains_iff_mem, Option.isNone_iff_eq_none] at hok
    obtain ⟨⟨hkey, hval⟩, hmiss⟩ := hok
    -- the axis is a key of the metadata, hence a member of `nodes/props` that decodes
    obtain ⟨_, hin⟩ := metaKeys_spec s _ m.nodeProps hk.1
    obtain ⟨kv, hkv, hkax⟩ := List.mem_map.1 hkey
    have hpg := hin kv hkv
    rw [hkax] at hpg
    unfold propGroupNames at hpg
    split at hpg
    · rename_i hgp
      obtain ⟨ap, hgp'⟩ := groupAt_true s _ hgp
      obtain ⟨md, P, _, hd⟩ := denoteProps_members s _ n m.nodeProps np ap hgp' hnp ax hpg
      obtain ⟨aa, _, _, hga, _⟩ := denoteProp_inv s _ n md P hd
      cases hv : arrayAt s ["nodes", "props", ax, "values"] with
      | none => rw [hv] at hval; cases hval
      | some v =>
        rw [hv] at hval
        simp only [beq_iff_eq] at hval
        have hv' := arrayAt_some s _ v hv
        have ePr : ["nodes"] ++ [PROPS] = ["nodes", "props"] := rfl
        have eAx : ["nodes", "props"] ++ [ax] = ["nodes", "props", ax] := rfl
        have eV : ["nodes", "props", ax] ++ [VALUES] = ["nodes", "props", ax, "values"] := rfl
        have eM : ["nodes", "props", ax] ++ [MISSING] = ["nodes", "props", ax, "missing"] := rfl
        refine ⟨?_, members 5 s ["nodes", "props"], members 4 s ["nodes", "props", ax], arrOf v, ?_, ?_, ?_, hval, ?_⟩
        · show ax ∈ Geff.Structure.keys Ln
          rw [(metasOf_spec m.nodeProps Ln hLn).1]; exact hkey
        · rw [get_members, ePr, nodeAt_group 5 _ _ ap hgp']
        · rw [get_members, eAx]; exact nodeAt_group 4 _ _ aa hga
        · rw [get_members, eV, nodeAt_array 3 _ _ v hv']
        · rw [get_members, eM]
          exact nodeAt_none _ _ _ hmiss
    · cases hpg

/-- … hence C04's model of `validate_structure` accepts it (`C04_sound_complete`) -/
theorem validate_of_denote (s : St) (G : Graph) (h : denote s = some G)
    (hu : OffsetTablesU64 s = true) (hk : MetaKeysArePropGroups s = true) (ha : AxesAreNodeProps s = true) :
    validate s = .ok () := by
  have := (GeffProps.C04.C04_sound_complete (toTarget s)).2 (conformant_of_denote s G h hu hk ha)
  unfold validate
  rw [this]; rfl

/-! ## the converse: on a store the specification assigns a graph to, the side conditions are exactly what
the validator adds -/

/-- the metadata of both sides is a dict: one entry per key (true of every JSON object; the flat-store
model keeps the dict as a list) -/
def MetaKeysUnique (s : St) : Bool :=
  match geffMeta s with
  | some m => decide (m.nodeProps.map (·.1)).Nodup && decide (m.edgeProps.map (·.1)).Nodup
  | none => true

theorem nodeAt_group_inv (fuel : Nat) (s : St) (p : Path) (g : Geff.Structure.Grp)
    (h : nodeAt (fuel + 1) s p = some (.group g)) : ∃ a, get s p = some (.group a) ∧ g = members fuel s p := by
  cases hg : get s p with
  | none => rw [nodeAt_none _ _ _ hg] at h; cases h
  | some e =>
    cases e with
    | array a => rw [nodeAt_array _ _ _ a hg] at h; cases h
    | group a =>
      rw [nodeAt_group _ _ _ a hg] at h
      simp only [Option.some.injEq, Geff.Structure.Node.group.injEq] at h
      exact ⟨a, rfl, h.symm⟩

theorem nodeAt_array_inv (fuel : Nat) (s : St) (p : Path) (v : Geff.Structure.Arr)
    (h : nodeAt (fuel + 1) s p = some (.array v)) : ∃ a, get s p = some (.array a) ∧ v = arrOf a := by
  cases hg : get s p with
  | none => rw [nodeAt_none _ _ _ hg] at h; cases h
  | some e =>
    cases e with
    | group a => rw [nodeAt_group _ _ _ a hg] at h; cases h
    | array a =>
      rw [nodeAt_array _ _ _ a hg] at h
      simp only [Option.some.injEq, Geff.Structure.Node.array.injEq] at h
      exact ⟨a, rfl, h.symm⟩

theorem nodeAt_none_inv (fuel : Nat) (s : St) (p : Path) (h : nodeAt (fuel + 1) s p = none) : get s p = none := by
  cases hg : get s p with
  | none => rfl
  | some e =>
    cases e with
    | group a => rw [nodeAt_group _ _ _ a hg] at h; cases h
    | array a => rw [nodeAt_array _ _ _ a hg] at h; cases h

/-- one side: a conformant `props` group (C04) has a member for every metadata key, and `uint64` tables -/
theorem side_of_conformantProps (fuel : Nat) (s : St) (grp : String) (n : Nat)
    (mds : List (String × PropMeta)) (L : List (String × Geff.Structure.PropMeta))
    (hnd : (mds.map (·.1)).Nodup) (hL : metasOf mds = some L)
    (hc : GeffProps.C04.ConformantProps n L (Geff.Structure.get (members (fuel + 3) s [grp]) PROPS)) :
    metaKeysAreGroups s [grp, "props"] mds = true ∧ mds.all (tableU64 s [grp, "props"]) = true := by
  obtain ⟨hkeysL, hlookL⟩ := metasOf_spec mds L hL
  have e0 : [grp] ++ [PROPS] = [grp, "props"] := rfl
  rw [get_members, e0] at hc
  cases hn : nodeAt (fuel + 3) s [grp, "props"] with
  | none =>
    rw [hn] at hc
    have hLnil : L = [] := hc
    have hmds : mds = [] := by
      rw [hLnil] at hkeysL
      cases mds with
      | nil => rfl
      | cons a t => simp [Geff.Structure.keys] at hkeysL
    subst hmds
    exact ⟨by simp [metaKeysAreGroups], rfl⟩
  | some nd =>
    rw [hn] at hc
    cases nd with
    | array a => exact absurd hc id
    | group props =>
      obtain ⟨ap, hgp, hprops⟩ := nodeAt_group_inv (fuel + 2) s _ props hn
      subst hprops
      obtain ⟨hck, hcall⟩ := hc
      have hga : groupAt s [grp, "props"] = true := by unfold groupAt; rw [hgp]
      have hmemb : ∀ kv ∈ mds, (get s ([grp, "props"] ++ [kv.1])).isSome = true := by
        intro kv hkv
        have : kv.1 ∈ Geff.Structure.keys L := by rw [hkeysL]; exact List.mem_map.2 ⟨kv, hkv, rfl⟩
        exact (mem_keys_members (fuel + 1) s _ kv.1).1 ((hck kv.1).1 this)
      refine ⟨?_, ?_⟩
      · unfold metaKeysAreGroups
        simp only [Bool.and_eq_true, decide_eq_true_eq, List.all_eq_true, List.contains_iff_mem]
        refine ⟨hnd, fun kv hkv => ?_⟩
        unfold propGroupNames
        rw [if_pos hga]
        exact (mem_childNames s _ kv.1).2 (hmemb kv hkv)
      · rw [List.all_eq_true]
        intro kv hkv
        unfold tableU64
        cases hvl : kv.2.varlength.getD false with
        | false => rfl
        | true =>
          simp only [Bool.not_true, Bool.false_or]
          cases hv : arrayAt s ([grp, "props"] ++ [kv.1, "values"]) with
          | none => rfl
          | some a =>
            simp only [beq_iff_eq]
            have ha := arrayAt_some s _ a hv
            -- the parsed entry of `kv.1` is var-length
            have hfind : find kv.1 mds = some kv.2 := find_of_mem_nodup mds kv.1 kv.2 hnd hkv
            have hkL : kv.1 ∈ Geff.Structure.keys L := by rw [hkeysL]; exact List.mem_map.2 ⟨kv, hkv, rfl⟩
            obtain ⟨pm, hpm⟩ : ∃ pm, Geff.Structure.lookup L kv.1 = some pm := by
              have := (Geff.Structure.lookup_isSome_iff L kv.1).2 hkL
              cases hl : Geff.Structure.lookup L kv.1 with
              | none => rw [hl] at this; cases this
              | some pm => exact ⟨pm, rfl⟩
            have hpm' := hpm
            rw [hlookL, hfind] at hpm'
            simp only [Option.bind_some] at hpm'
            have hpmvl : pm.varlength = true := by
              unfold propMetaOf at hpm'
              cases hd : Dtype.ofName? kv.2.dtype with
              | none => rw [hd] at hpm'; cases hpm'
              | some dt =>
                rw [hd] at hpm'
                simp only [Option.map_some, Option.some.injEq] at hpm'
                rw [← hpm']; exact hvl
            -- its property group in the tree
            have hsome := hmemb kv hkv
            cases hge : get s ([grp, "props"] ++ [kv.1]) with
            | none => rw [hge] at hsome; cases hsome
            | some e =>
              have hget : Geff.Structure.get (members (fuel + 2) s [grp, "props"]) kv.1 =
                  nodeAt (fuel + 2) s ([grp, "props"] ++ [kv.1]) := get_members _ _ _ _
              cases hnk : nodeAt (fuel + 2) s ([grp, "props"] ++ [kv.1]) with
              | none => rw [nodeAt_none_inv _ _ _ hnk] at hge; cases hge
              | some pn =>
                rw [hnk] at hget
                obtain ⟨pg, v, hpg, hvv, _, hcase, _⟩ := hcall kv.1 pm pn hpm hget
                subst hpg
                obtain ⟨ak, _, hpgm⟩ := nodeAt_group_inv (fuel + 1) s _ pg hnk
                subst hpgm
                rw [if_pos hpmvl] at hcase
                rw [get_members] at hvv
                have eV : [grp, "props"] ++ [kv.1] ++ [VALUES] = [grp, "props"] ++ [kv.1, "values"] := rfl
                rw [eV] at hvv
                obtain ⟨a', ha', hva⟩ := nodeAt_array_inv fuel s _ v hvv
                rw [ha] at ha'
                simp only [Option.some.injEq, Entry.array.injEq] at ha'
                subst ha'
                have := hcase.1
                rw [hva] at this
                exact this

theorem metaReadOf_ok_inv (s : St) (attrs : Attrs) (m : GeffAttr) (mT : Geff.Structure.Meta)
    (hroot : get s [] = some (.group attrs)) (hgeff : Geff.WR.lookupKey "geff" attrs = some (.geff m))
    (h : metaReadOf s = .ok mT) :
    ∃ Ln Le, metasOf m.nodeProps = some Ln ∧ metasOf m.edgeProps = some Le ∧ mT = ⟨Ln, Le, m.axes⟩ := by
  unfold metaReadOf at h
  rw [hroot] at h
  have hf : (attrs.find? (fun kv => kv.1 = "geff")).map (·.2) = some (.geff m) := hgeff
  simp only [hf] at h
  cases hn : metasOf m.nodeProps with
  | none => rw [hn] at h; cases h
  | some Ln =>
    cases he : metasOf m.edgeProps with
    | none => rw [hn, he] at h; cases h
    | some Le =>
      rw [hn, he] at h
      simp only [Geff.Structure.MetaRead.ok.injEq] at h
      exact ⟨Ln, Le, rfl, rfl, h.symm⟩

/-- **the converse inclusion**: on a store the specification assigns a graph to and whose metadata dicts
have one entry per key, C04's `Conformant` (on the tree view) implies the three side conditions -/
theorem conditions_of_conformant (s : St) (G : Graph) (h : denote s = some G) (hq : MetaKeysUnique s = true)
    (hc : GeffProps.C04.Conformant (toTarget s)) :
    OffsetTablesU64 s = true ∧ MetaKeysArePropGroups s = true ∧ AxesAreNodeProps s = true := by
  obtain ⟨m, _, _, _, _, _, _, hm, _, _, _, _, _, _, _, _, _, _⟩ := denote_inv s G h
  obtain ⟨attrs, hroot, hgeff⟩ := geffMeta_inv s m hm
  unfold MetaKeysUnique at hq
  rw [hm] at hq
  simp only [Bool.and_eq_true, decide_eq_true_eq] at hq
  unfold toTarget at hc
  obtain ⟨graph, mT, nodes, edges, nid, eid, N, E, hrootT, hattrs, hn, he, _, _, _, _, _, _, hnp, hep, hax⟩ := hc
  obtain ⟨Ln, Le, hLn, hLe, hmT⟩ := metaReadOf_ok_inv s attrs m mT hroot hgeff hattrs
  subst hmT
  have hd : depth = 7 + 1 := rfl
  rw [hd] at hrootT
  obtain ⟨_, _, hgraph⟩ := nodeAt_group_inv 7 s [] graph hrootT
  subst hgraph
  have eN : ([] : Path) ++ [NODES] = ["nodes"] := rfl
  have eE : ([] : Path) ++ [EDGES] = ["edges"] := rfl
  rw [get_members, eN] at hn
  rw [get_members, eE] at he
  obtain ⟨_, _, hnodes⟩ := nodeAt_group_inv 6 s _ nodes hn
  obtain ⟨_, _, hedges⟩ := nodeAt_group_inv 6 s _ edges he
  subst hnodes; subst hedges
  obtain ⟨kn, un⟩ := side_of_conformantProps 3 s "nodes" N m.nodeProps Ln hq.1 hLn hnp
  obtain ⟨ke, ue⟩ := side_of_conformantProps 3 s "edges" E m.edgeProps Le hq.2 hLe hep
  refine ⟨?_, ?_, ?_⟩
  · unfold OffsetTablesU64; rw [hm]; simp only [un, ue, Bool.and_self]
  · unfold MetaKeysArePropGroups; rw [hm]; simp only [kn, ke, Bool.and_self]
  · unfold AxesAreNodeProps
    rw [hm]
    simp only []
    cases hma : m.axes with
    | none => rfl
    | some axes =>
      simp only [Option.getD_some, List.all_eq_true]
      intro ax hmem
      obtain ⟨hkey, props, pg, v, hp, hpg, hv, hlen, hmiss⟩ := hax axes hma ax hmem
      have ePr : ["nodes"] ++ [PROPS] = ["nodes", "props"] := rfl
      have eAx : ["nodes", "props"] ++ [ax] = ["nodes", "props", ax] := rfl
      have eV : ["nodes", "props", ax] ++ [VALUES] = ["nodes", "props", ax, "values"] := rfl
      have eM : ["nodes", "props", ax] ++ [MISSING] = ["nodes", "props", ax, "missing"] := rfl
      rw [get_members, ePr] at hp
      obtain ⟨_, _, hprops⟩ := nodeAt_group_inv 5 s _ props hp
      subst hprops
      rw [get_members, eAx] at hpg
      obtain ⟨_, _, hpgm⟩ := nodeAt_group_inv 4 s _ pg hpg
      subst hpgm
      rw [get_members, eV] at hv
      obtain ⟨a, ha, hva⟩ := nodeAt_array_inv 3 s _ v hv
      rw [get_members, eM] at hmiss
      have hmg := nodeAt_none_inv 3 s _ hmiss
      unfold axisOK
      have hkey' : ax ∈ m.nodeProps.map (·.1) := by
        rw [← (metasOf_spec m.nodeProps Ln hLn).1]; exact hkey
      have harr : arrayAt s ["nodes", "props", ax, "values"] = some a := by unfold arrayAt; rw [ha]
      rw [harr, hmg]
      simp only [Bool.and_eq_true, List.contains_iff_mem, beq_iff_eq, Option.isNone_none, and_true]
      refine ⟨hkey', ?_⟩
      rw [hva] at hlen
      exact hlen

/-- **the side conditions are exactly what the validator adds to the specification's layout**: on every
store `docs/specification.md` assigns a graph to (metadata dicts with one entry per key), C04's model of
`validate_structure` returns normally iff the offset tables are `uint64`, the metadata keys are property
groups and the axes name 1-D unmasked node properties -/
theorem validate_iff_conditions (s : St) (G : Graph) (h : denote s = some G) (hq : MetaKeysUnique s = true) :
    validate s = .ok () ↔
      (OffsetTablesU64 s = true ∧ MetaKeysArePropGroups s = true ∧ AxesAreNodeProps s = true) := by
  constructor
  · intro hv
    apply conditions_of_conformant s G h hq
    apply (GeffProps.C04.C04_sound_complete (toTarget s)).1
    unfold validate at hv
    cases hvs : Geff.Structure.validateStructure (toTarget s) with
    | ok u => rfl
    | error e =>
      rw [hvs] at hv
      cases e <;> cases hv
  · rintro ⟨h1, h2, h3⟩
    exact validate_of_denote s G h h1 h2 h3

end Geff.LinkStruct
