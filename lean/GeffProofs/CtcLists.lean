import Mathlib.Data.List.Nodup
import Mathlib.Logic.Relation
import GeffModel.Ctc
/-! List-level facts used by the CTC proofs: positions of a label (`idxs`), consecutive pairs
(`consec`) of a strictly increasing list, the insertion-ordered dict operations. -/
namespace Geff.Ctc

/-- positions (offset `k`) at which `l` occurs -/
def idxs (l : Int) : Nat → List Int → List Nat
  | _, [] => []
  | k, x :: xs => if x = l then k :: idxs l (k + 1) xs else idxs l (k + 1) xs

theorem mem_idxs (l : Int) : ∀ (xs : List Int) (k c : Nat),
    c ∈ idxs l k xs ↔ k ≤ c ∧ xs[c - k]? = some l := by
  intro xs
  induction xs with
  | nil => intro k c; simp [idxs]
  | cons x xs ih =>
    intro k c
    unfold idxs
    by_cases hx : x = l
    · simp only [hx, if_true, List.mem_cons, ih]
      constructor
      · rintro (rfl | ⟨h1, h2⟩)
        · simp
        · refine ⟨by omega, ?_⟩
          have : c - k = (c - (k + 1)) + 1 := by omega
          rw [this]; simpa using h2
      · rintro ⟨h1, h2⟩
        by_cases hc : c = k
        · exact Or.inl hc
        · right
          refine ⟨by omega, ?_⟩
          have : c - k = (c - (k + 1)) + 1 := by omega
          rw [this] at h2; simpa using h2
    · simp only [hx, if_false, ih]
      constructor
      · rintro ⟨h1, h2⟩
        refine ⟨by omega, ?_⟩
        have : c - k = (c - (k + 1)) + 1 := by omega
        rw [this]; simpa using h2
      · rintro ⟨h1, h2⟩
        have hck : c ≠ k := by
          rintro rfl
          simp at h2; exact hx h2
        refine ⟨by omega, ?_⟩
        have : c - k = (c - (k + 1)) + 1 := by omega
        rw [this] at h2; simpa using h2

theorem idxs_pairwise (l : Int) : ∀ (xs : List Int) (k : Nat), (idxs l k xs).Pairwise (· < ·) := by
  intro xs
  induction xs with
  | nil => intro k; simp [idxs]
  | cons x xs ih =>
    intro k
    unfold idxs
    split
    · refine List.pairwise_cons.2 ⟨?_, ih (k + 1)⟩
      intro c hc
      have := ((mem_idxs l xs (k + 1) c).1 hc).1
      omega
    · exact ih (k + 1)

theorem idxs_append (l : Int) : ∀ (xs : List Int) (k : Nat) (x : Int),
    idxs l k (xs ++ [x]) = idxs l k xs ++ (if x = l then [k + xs.length] else []) := by
  intro xs
  induction xs with
  | nil => intro k x; simp [idxs]
  | cons y ys ih =>
    intro k x
    simp only [List.cons_append, idxs, ih, List.length_cons]
    have : k + 1 + ys.length = k + (ys.length + 1) := by omega
    split <;> simp [this]

theorem idxs_eq_nil (l : Int) (xs : List Int) (k : Nat) (h : l ∉ xs) : idxs l k xs = [] := by
  induction xs generalizing k with
  | nil => rfl
  | cons x xs ih =>
    simp only [List.mem_cons, not_or] at h
    simp [idxs, Ne.symm h.1, ih _ h.2]

theorem idxs_ne_nil (l : Int) (xs : List Int) (k : Nat) (h : l ∈ xs) : idxs l k xs ≠ [] := by
  obtain ⟨i, hi, rfl⟩ := List.getElem_of_mem h
  intro hnil
  have : k + i ∈ idxs xs[i] k xs := (mem_idxs _ xs k (k + i)).2 ⟨by omega, by simp [hi]⟩
  rw [hnil] at this; cases this

/-! ### consecutive pairs -/

theorem consec_mem_both {xs : List Nat} {a b : Nat} (h : (a, b) ∈ consec xs) : a ∈ xs ∧ b ∈ xs := by
  induction xs with
  | nil => simp [consec] at h
  | cons x r ih =>
    cases r with
    | nil => simp [consec] at h
    | cons y r =>
      simp only [consec, List.mem_cons, Prod.mk.injEq] at h
      rcases h with ⟨rfl, rfl⟩ | h
      · simp
      · have := ih h
        exact ⟨List.mem_cons_of_mem _ this.1, List.mem_cons_of_mem _ this.2⟩

theorem consec_mem_iff : ∀ (xs : List Nat), xs.Pairwise (· < ·) → ∀ a b,
    ((a, b) ∈ consec xs ↔ a ∈ xs ∧ b ∈ xs ∧ a < b ∧ ∀ c ∈ xs, ¬ (a < c ∧ c < b)) := by
  intro xs
  induction xs with
  | nil => intro _ a b; simp [consec]
  | cons x r ih =>
    intro hp a b
    cases r with
    | nil =>
      simp only [consec, List.not_mem_nil, List.mem_singleton, false_iff, not_and]
      rintro rfl rfl h; omega
    | cons y r =>
      have hp' := (List.pairwise_cons.1 hp).2
      have hx : ∀ c ∈ y :: r, x < c := (List.pairwise_cons.1 hp).1
      have hy : ∀ c ∈ r, y < c := (List.pairwise_cons.1 hp').1
      simp only [consec, List.mem_cons, Prod.mk.injEq]
      constructor
      · rintro (⟨rfl, rfl⟩ | h)
        · refine ⟨Or.inl rfl, Or.inr (Or.inl rfl), hx _ (List.mem_cons_self ..), ?_⟩
          intro c hc
          rcases hc with rfl | rfl | hc
          · omega
          · omega
          · have := hy c hc; omega
        · obtain ⟨h1, h2, h3, h4⟩ := (ih hp' a b).1 h
          refine ⟨Or.inr (List.mem_cons.1 h1), Or.inr (List.mem_cons.1 h2), h3, ?_⟩
          intro c hc
          rcases hc with rfl | hc
          · have := hx a h1; omega
          · exact h4 c (List.mem_cons.2 hc)
      · rintro ⟨h1, h2, h3, h4⟩
        rcases h1 with rfl | h1
        · -- a = x
          rcases h2 with rfl | rfl | h2
          · omega
          · exact Or.inl ⟨rfl, rfl⟩
          · exfalso
            exact h4 y (Or.inr (Or.inl rfl)) ⟨hx y (List.mem_cons_self ..), hy b h2⟩
        · have h1' : a ∈ y :: r := List.mem_cons.2 h1
          have hb : b ∈ y :: r := by
            rcases h2 with rfl | h2
            · have := hx a h1'; omega
            · exact List.mem_cons.2 h2
          right
          exact (ih hp' a b).2 ⟨h1', hb, h3, fun c hc => h4 c (Or.inr (List.mem_cons.1 hc))⟩

theorem consec_nodup : ∀ (xs : List Nat), xs.Pairwise (· < ·) → (consec xs).Nodup := by
  intro xs
  induction xs with
  | nil => intro _; simp [consec]
  | cons x r ih =>
    intro hp
    cases r with
    | nil => simp [consec]
    | cons y r =>
      have hp' := (List.pairwise_cons.1 hp).2
      simp only [consec, List.nodup_cons]
      refine ⟨?_, ih hp'⟩
      intro hmem
      have := (consec_mem_both hmem).1
      have := (List.pairwise_cons.1 hp).1 x this
      omega

/-- all members of a list are chained by its consecutive pairs -/
theorem consec_chain {R : Nat → Nat → Prop} : ∀ (xs : List Nat),
    (∀ a b, (a, b) ∈ consec xs → R a b) →
    ∀ a ∈ xs, ∀ b ∈ xs, Relation.ReflTransGen (fun u v => R u v ∨ R v u) a b := by
  intro xs
  induction xs with
  | nil => intro _ a ha; cases ha
  | cons x r ih =>
    intro hR
    cases r with
    | nil =>
      intro a ha b hb
      simp only [List.mem_singleton] at ha hb
      subst ha; subst hb; exact Relation.ReflTransGen.refl
    | cons y r =>
      have hxy : R x y := hR x y (by simp [consec])
      have ih' := ih (fun a b h => hR a b (by simp [consec, h]))
      have hx_to : ∀ b ∈ y :: r, Relation.ReflTransGen (fun u v => R u v ∨ R v u) x b := by
        intro b hb
        exact Relation.ReflTransGen.head (Or.inl hxy) (ih' y (List.mem_cons_self ..) b hb)
      have hto_x : ∀ b ∈ y :: r, Relation.ReflTransGen (fun u v => R u v ∨ R v u) b x := by
        intro b hb
        exact Relation.ReflTransGen.tail (ih' b hb y (List.mem_cons_self ..)) (Or.inr hxy)
      intro a ha b hb
      rcases List.mem_cons.1 ha with ha' | ha' <;> rcases List.mem_cons.1 hb with hb' | hb'
      · subst ha'; subst hb'; exact Relation.ReflTransGen.refl
      · subst ha'; exact hx_to b hb'
      · subst hb'; exact hto_x a ha'
      · exact ih' a ha' b hb'

/-! ### the insertion-ordered dict -/

theorem hasKey_iff {ν : Type} (d : List (Int × ν)) (k : Int) : hasKey d k = true ↔ k ∈ d.map (·.1) := by
  unfold hasKey
  simp only [List.any_eq_true, decide_eq_true_eq, List.mem_map]

theorem dictGet?_of_mem {ν : Type} : ∀ (d : List (Int × ν)) (k : Int) (v : ν),
    (d.map (·.1)).Nodup → (k, v) ∈ d → dictGet? d k = some v := by
  intro d
  induction d with
  | nil => intro k v _ h; cases h
  | cons e d ih =>
    intro k v hnd hmem
    simp only [List.map_cons, List.nodup_cons] at hnd
    rcases List.mem_cons.1 hmem with rfl | hmem
    · simp [dictGet?]
    · have hne : e.1 ≠ k := by
        rintro rfl
        exact hnd.1 (List.mem_map.2 ⟨(e.1, v), hmem, rfl⟩)
      simp [dictGet?, hne, ih k v hnd.2 hmem]

theorem dictGet?_eq_none {ν : Type} (d : List (Int × ν)) (k : Int) (h : k ∉ d.map (·.1)) :
    dictGet? d k = none := by
  induction d with
  | nil => rfl
  | cons e d ih =>
    simp only [List.map_cons, List.mem_cons, not_or] at h
    simp [dictGet?, Ne.symm h.1, ih h.2]

end Geff.Ctc
