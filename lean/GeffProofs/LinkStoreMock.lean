import GeffProofs.LinkStoreArr
import GeffProofs.LinkGraph
import GeffProps.C20
import GeffProps.C01
import GeffProps.C04
/-! Integration layer, link C20 ← C01 / C04 / C12: the abstract in-memory geff of C20's model of
`create_mock_geff` (`Geff.MockData.Geff`: dtype names, symbolic values) related to C01's array-level
`InMem` (`Realises`), and the proof that every realisation of a generated geff meets the hypotheses of
C01's validated round trip (`mock_meets_C01`) and of C12's graph validity (`mock_graph_valid`).
Imports the models; defines only the relation between them. -/
namespace Geff.Link
open Geff.Np Geff.MockData
open Geff.WR (PropArr PVals Props InMem ReadResult CallerMeta Writable RowsOK WFGeff lookupKey)

/-! ### a numpy realisation of the abstract mock geff

C20's model of `create_dummy_in_mem_geff` keeps dtype *names* and symbolic `Values` (floats are not
computed there).  C01's model wants arrays.  `Realises` relates the two: what the abstract geff fixes
(names, order, lengths, masks, var-length flags, dtype names, 1-D-ness of generated values) is fixed;
what it leaves open (the numbers; the shape of a caller-supplied array beyond its length; that a
caller-supplied dtype name is one geff supports and a caller-supplied key a valid zarr node name —
`Writable`) is a condition on the realisation. -/

/-- one property -/
structure RealProp (kv : String × PropOut) (kp : String × PropArr) : Prop where
  name : kp.1 = kv.1
  writable : Writable kp.1 kp.2
  mask : kp.2.missing = kv.2.missing.map maskArr
  varlen : Geff.WR.isVarlen kp.2 = kv.2.varlength
  len : Geff.WR.pvLen kp.2.values = some kv.2.len
  dense : ∀ a, kp.2.values = .dense a → a.WF ∧ a.dtype.name = kv.2.dtype ∧
    ((∀ tag, kv.2.values ≠ .given tag) → a.shape = [kv.2.len])

/-- the arguments of `write_arrays(store, **memory_geff)` for an abstract mock geff -/
structure Realises (g : Geff) (im : InMem) (md : CallerMeta) : Prop where
  ids : ∃ d : Dtype, d.isInteger = true ∧ d.name = g.idDtype ∧
    im.nodeIds = idArr d ((List.range g.numNodes).map Int.ofNat) ∧ im.edgeIds = edgeArr d g.edges
  nodes : ∃ nps, im.nodeProps = some nps ∧ List.Forall₂ RealProp g.nodeProps nps
  edges : ∃ eps, im.edgeProps = some eps ∧ List.Forall₂ RealProp g.edgeProps eps
  directed : md.directed = g.directed
  axes : md.axes = some (g.axes.map (·.name)) ∨ (g.axes = [] ∧ md.axes = none)
  nodeMeta : md.nodeProps.map (·.1) = dictKeys g.nodeMeta
  edgeMeta : md.edgeProps.map (·.1) = dictKeys g.edgeMeta

/-! ### facts about the mock geff the store needs -/

/-- every missing mask has one entry per element -/
theorem mock_mask_len (ok : Bool) (p : Params) (g : Geff) (h : createDummyInMemGeff ok p = .ok g) :
    (∀ kv ∈ g.nodeProps, ∀ ms, kv.2.missing = some ms → ms.length = kv.2.len) ∧
    (∀ kv ∈ g.edgeProps, ∀ ms, kv.2.missing = some ms → ms.length = kv.2.len) := by
  obtain ⟨es, xn, xe, _, _, _, hxn, hxe, _, rfl⟩ := createDummy_ok h
  constructor
  · intro kv hkv ms hms
    rcases origin_node (extraTriples_ok hxn) hkv with h | ⟨_, rfl⟩ | ⟨_, rfl⟩
    · rw [h.2.2] at hms; cases hms
    · simp only [varLengthProp, Option.some.injEq] at hms; subst hms; simp [varLengthProp, firstOnly]
    · simp only [sparseProp, Option.some.injEq] at hms; subst hms; simp [sparseProp, everyOther]
  · intro kv hkv ms hms
    rcases origin_edge (extraTriples_ok hxe) hkv with h | ⟨_, rfl⟩
    · rw [h.2.2] at hms; cases hms
    · simp only [sparseProp, Option.some.injEq] at hms; subst hms; simp [sparseProp, everyOther]

theorem mem_axisTriples' {p : Params} {t : Triple} (h : t ∈ axisTriples p) :
    ∃ name unit dtype values, t = axisTriple p.numNodes name unit dtype values ∧
      (dtype = p.timeDtype ∨ dtype = p.posDtype) ∧ ∀ tag, values ≠ .given tag := by
  simp only [axisTriples, List.mem_append] at h
  rcases h with ((h | h) | h) | h <;> split at h <;> simp only [List.mem_singleton, List.not_mem_nil] at h
  · exact ⟨_, _, _, _, h, Or.inl rfl, fun _ hh => by cases hh⟩
  · exact ⟨_, _, _, _, h, Or.inr rfl, fun _ hh => by cases hh⟩
  · exact ⟨_, _, _, _, h, Or.inr rfl, fun _ hh => by cases hh⟩
  · exact ⟨_, _, _, _, h, Or.inr rfl, fun _ hh => by cases hh⟩

/-- with pairwise distinct requested names: the axes name generated (not caller-supplied), dense, unmasked
node properties of the time / position dtype, one value per node -/
theorem mock_axes (ok : Bool) (p : Params) (g : Geff) (h : createDummyInMemGeff ok p = .ok g)
    (hn : (GeffProps.C20.nodeNames p).Nodup) :
    ∀ ax ∈ g.axes.map (·.name), ∃ po : PropOut, (ax, po) ∈ g.nodeProps ∧ po.len = g.numNodes ∧ po.varlength = false ∧
      po.missing = none ∧ (po.dtype = npName p.timeDtype ∨ po.dtype = npName p.posDtype) ∧
      (∀ tag, po.values ≠ .given tag) ∧ ax ∈ ["t", "z", "y", "x"] := by
  obtain ⟨es, xn, xe, hgen, _, _, hxn, hxe, _, rfl⟩ := createDummy_ok h
  have hxn' := extraTriples_ok hxn
  have hnames_n : (axisTriples p ++ xn ++ vlTriples p ++ msTriples p.ms p.numNodes).map (·.1) = GeffProps.C20.nodeNames p := by
    simp only [List.map_append, GeffProps.C20.axisTriples_names, forall₂_names hxn', GeffProps.C20.nodeNames, vlTriples, msTriples]
    cases p.vl <;> cases p.ms <;> rfl
  have hpn := pushAll_props_of_nodup {} (axisTriples p ++ xn ++ vlTriples p ++ msTriples p.ms p.numNodes)
    (by rw [hnames_n]; simpa [dictKeys] using hn)
  intro ax hax
  have hax' : ax ∈ GeffProps.C20.axisNames p := by
    have : (axisOuts p).map (·.name) = GeffProps.C20.axisNames p := by
      unfold axisOuts GeffProps.C20.axisNames
      cases p.t <;> cases p.z <;> cases p.y <;> cases p.x <;> rfl
    rw [← this]; exact hax
  have hin : ax ∈ ["t", "z", "y", "x"] := by
    unfold GeffProps.C20.axisNames at hax'
    simp only [List.mem_append] at hax'
    rcases hax' with ((h | h) | h) | h <;> split at h <;> simp only [List.mem_singleton, List.not_mem_nil] at h <;>
      subst h <;> simp
  rw [← GeffProps.C20.axisTriples_names] at hax'
  obtain ⟨t, ht, rfl⟩ := List.mem_map.1 hax'
  obtain ⟨name, unit, dtype, values, rfl, hdt, hval⟩ := mem_axisTriples' ht
  refine ⟨(axisTriple p.numNodes name unit dtype values).2.1, ?_, rfl, rfl, rfl, ?_, hval, hin⟩
  · show _ ∈ (pushAll {} _).props
    rw [hpn]
    simp only [List.nil_append, List.map_append, List.mem_append, List.mem_map]
    exact Or.inl (Or.inl (Or.inl ⟨_, ht, rfl⟩))
  · rcases hdt with rfl | rfl
    · exact Or.inl rfl
    · exact Or.inr rfl

/-! ### from a realisation to C01's hypotheses -/

theorem forall₂_real_keys {ps : Dict PropOut} {nps : Props} (h : List.Forall₂ RealProp ps nps) :
    nps.map (·.1) = dictKeys ps := by
  induction h with
  | nil => rfl
  | cons hr _ ih => simp only [List.map_cons, dictKeys] at ih ⊢; rw [hr.name, ih]

theorem forall₂_real_mem {ps : Dict PropOut} {nps : Props} (h : List.Forall₂ RealProp ps nps) :
    (∀ kp ∈ nps, ∃ kv ∈ ps, RealProp kv kp) ∧ (∀ kv ∈ ps, ∃ kp ∈ nps, RealProp kv kp) := by
  induction h with
  | nil => exact ⟨(fun _ h => by cases h), (fun _ h => by cases h)⟩
  | cons hr _ ih =>
    constructor
    · intro kp hkp
      rcases List.mem_cons.1 hkp with rfl | hkp
      · exact ⟨_, List.mem_cons_self .., hr⟩
      · obtain ⟨kv, hkv, h⟩ := ih.1 kp hkp
        exact ⟨kv, List.mem_cons_of_mem _ hkv, h⟩
    · intro kv hkv
      rcases List.mem_cons.1 hkv with rfl | hkv
      · exact ⟨_, List.mem_cons_self .., hr⟩
      · obtain ⟨kp, hkp, h⟩ := ih.2 kv hkv
        exact ⟨kp, List.mem_cons_of_mem _ hkp, h⟩

theorem real_rowsOK (n : Nat) (kv : String × PropOut) (kp : String × PropArr) (hr : RealProp kv kp)
    (hlen : kv.2.len = n) (hmask : ∀ ms, kv.2.missing = some ms → ms.length = kv.2.len) : RowsOK n kp.2 := by
  constructor
  · intro m hm
    rw [hr.mask] at hm
    simp only [Option.map_eq_some_iff] at hm
    obtain ⟨ms, hms, rfl⟩ := hm
    refine ⟨by simp [maskArr, hmask ms hms, hlen], by simp [maskArr, NdArr.WF, prod], ?_⟩
    intro v hv
    obtain ⟨x, _, rfl⟩ := List.mem_map.1 hv
    exact ⟨x, rfl⟩
  · have hl := hr.len
    cases hv : kp.2.values with
    | dense a =>
      simp only []
      rw [hv] at hl
      simp only [Geff.WR.pvLen, NdArr.len?] at hl
      exact ⟨by rw [hl, hlen], (hr.dense a hv).1⟩
    | obj es =>
      simp only []
      rw [hv] at hl
      simp only [Geff.WR.pvLen, Option.some.injEq] at hl
      rw [hl, hlen]

theorem addEmptyAxes_present (names : List String) (ps : Props) (h : ∀ ax ∈ names, ax ∈ ps.map (·.1)) :
    Geff.WR.addEmptyAxes (some names) ps = ps := by
  rw [Geff.WR.addEmptyAxes_some]
  induction names with
  | nil => rfl
  | cons a t ih =>
    simp only [List.foldl_cons]
    have : Geff.WR.axStep ps a = ps := by
      unfold Geff.WR.axStep
      rw [if_pos ((Geff.WR.any_name_iff ps a).2 (h a (List.mem_cons_self ..)))]
    rw [this]
    exact ih (fun ax hax => h ax (List.mem_cons_of_mem _ hax))

theorem forall₂_describes_keys {md : Dict MetaOut} {ps : Dict PropOut} (h : List.Forall₂ DescribesOne md ps) :
    dictKeys md = dictKeys ps := by
  induction h with
  | nil => rfl
  | cons hd _ ih => simp only [dictKeys, List.map_cons] at ih ⊢; rw [hd.1, ih]

theorem name_ne_str (d : Dtype) (h : d.name ≠ "str") : d ≠ .str := by
  intro e; subst e; exact h rfl

/-- **what `create_mock_geff` hands to `write_arrays` meets every hypothesis of C01's validated round trip**
(for pairwise distinct requested names and non-string axis dtypes) -/
theorem mock_meets_C01 (ok : Bool) (p : Params) (g : Geff) (h : createDummyInMemGeff ok p = .ok g)
    (hn : (GeffProps.C20.nodeNames p).Nodup) (he : (GeffProps.C20.edgeNames p).Nodup)
    (hdt : npName p.timeDtype ≠ "str" ∧ npName p.posDtype ≠ "str")
    (hpre : GeffProps.C20.WritePre p.directed g)
    (im : InMem) (md : CallerMeta) (hr : Realises g im md) :
    ∃ nps eps, im.nodeProps = some nps ∧ im.edgeProps = some eps ∧
      WFGeff im g.numNodes g.edges.length nps eps ∧ Geff.Bridge.AxesStrict md g.numNodes nps ∧
      Geff.WR.expectedNodeProps md g.numNodes nps = nps ∧
      (∀ kv ∈ md.nodeProps, kv.1 ∈ nps.map (·.1)) ∧ (∀ kv ∈ md.edgeProps, kv.1 ∈ eps.map (·.1)) := by
  obtain ⟨d, hd, _, hnid, heid⟩ := hr.ids
  obtain ⟨nps, hnps, hfn⟩ := hr.nodes
  obtain ⟨eps, heps, hfe⟩ := hr.edges
  obtain ⟨hl1, hl2, hk1, hk2, _⟩ := hpre
  obtain ⟨hm1, hm2⟩ := mock_mask_len ok p g h
  obtain ⟨_, _, _, _, _, _, _, hdn, hde⟩ := GeffProps.C20.C20_params ok p g h hn he
  have hkn := forall₂_real_keys hfn
  have hke := forall₂_real_keys hfe
  have hwf : WFGeff im g.numNodes g.edges.length nps eps :=
    { nodeShape := by rw [hnid]; simp [idArr]
      edgeShape := by rw [heid]; rfl
      idInt := by rw [hnid]; exact hd
      idSame := by rw [hnid, heid]; rfl
      nodeIdsWF := by rw [hnid]; simp [idArr, NdArr.WF, prod]
      edgeIdsWF := by
        rw [heid]
        show (g.edges.flatMap fun e => [Val.i e.1, Val.i e.2]).length = prod [g.edges.length, 2]
        rw [length_edgeFlat]; simp [prod]
      nodeProps := hnps
      edgeProps := heps
      nodeNames := by rw [hkn]; exact hk1
      edgeNames := by rw [hke]; exact hk2
      nodeOK := by
        intro kp hkp
        obtain ⟨kv, hkv, hrp⟩ := (forall₂_real_mem hfn).1 kp hkp
        exact ⟨hrp.writable, real_rowsOK _ kv kp hrp (hl1 kv hkv) (hm1 kv hkv)⟩
      edgeOK := by
        intro kp hkp
        obtain ⟨kv, hkv, hrp⟩ := (forall₂_real_mem hfe).1 kp hkp
        exact ⟨hrp.writable, real_rowsOK _ kv kp hrp (hl2 kv hkv) (hm2 kv hkv)⟩ }
  -- the axes
  have haxfacts : ∀ ax ∈ g.axes.map (·.name), Geff.WR.validName ax = true ∧
      ∃ a, lookupKey ax nps = some ⟨.dense a, none⟩ ∧ a.shape = [g.numNodes] ∧ a.WF ∧ a.dtype ≠ .str := by
    intro ax hax
    obtain ⟨po, hmem, hlen, hvl, hmiss, hdty, hgiven, hin⟩ := mock_axes ok p g h hn ax hax
    obtain ⟨kp, hkp, hrp⟩ := (forall₂_real_mem hfn).2 (ax, po) hmem
    have hname : kp.1 = ax := hrp.name
    have hval : Geff.WR.validName ax = true := by
      simp only [List.mem_cons, List.not_mem_nil, or_false] at hin
      rcases hin with rfl | rfl | rfl | rfl <;> decide
    refine ⟨hval, ?_⟩
    have hlk : lookupKey ax nps = some kp.2 :=
      Geff.WR.lookupKey_some_of_mem_nodup nps ax kp.2 (by rw [← hname]; exact hkp) hwf.nodeNames
    have hvar := hrp.varlen
    have hmask := hrp.mask
    simp only [hvl, hmiss, Option.map_none] at hvar hmask
    cases hv : kp.2.values with
    | obj es => simp [Geff.WR.isVarlen, hv] at hvar
    | dense a =>
      obtain ⟨hawf, hadt, hash⟩ := hrp.dense a hv
      refine ⟨a, ?_, by rw [hash hgiven, hlen], hawf, ?_⟩
      · rw [hlk]
        congr 1
        cases hkp2 : kp.2 with
        | mk v m =>
          rw [hkp2] at hv hmask
          simp only at hv hmask
          rw [hv, hmask]
      · apply name_ne_str
        rw [hadt]
        rcases hdty with e | e <;> rw [e]
        · exact hdt.1
        · exact hdt.2
  have hax : Geff.Bridge.AxesStrict md g.numNodes nps := by
    intro axes haxes ax hmem
    rcases hr.axes with h1 | ⟨_, h2⟩
    · rw [h1] at haxes
      cases haxes
      obtain ⟨hv, hex⟩ := haxfacts ax hmem
      exact ⟨hv, Or.inr hex⟩
    · rw [h2] at haxes; cases haxes
  have hexp : Geff.WR.expectedNodeProps md g.numNodes nps = nps := by
    unfold Geff.WR.expectedNodeProps
    split
    · rcases hr.axes with h1 | ⟨_, h2⟩
      · rw [h1]
        apply addEmptyAxes_present
        intro ax hax
        obtain ⟨_, a, hl, _⟩ := haxfacts ax hax
        exact (Geff.WR.lookupKey_isSome_iff ax nps).1 (by rw [hl]; rfl)
      · rw [h2]; rfl
    · rfl
  refine ⟨nps, eps, hnps, heps, hwf, hax, hexp, ?_, ?_⟩
  · intro kv hkv
    have : kv.1 ∈ md.nodeProps.map (·.1) := List.mem_map.2 ⟨kv, hkv, rfl⟩
    rw [hr.nodeMeta, forall₂_describes_keys hdn, ← hkn] at this
    exact this
  · intro kv hkv
    have : kv.1 ∈ md.edgeProps.map (·.1) := List.mem_map.2 ⟨kv, hkv, rfl⟩
    rw [hr.edgeMeta, forall₂_describes_keys hde, ← hke] at this
    exact this

/-- the validator in the loop accepted what `write_arrays` returned -/
theorem validate_of_writeArrays (c : Geff.WR.VlenCodec) (validate : Geff.Store.St → Geff.Store.Outcome Unit)
    (s0 s' : Geff.Store.St) (g : InMem) (md : CallerMeta) (h : Geff.WR.writeArrays c validate s0 g md = .ok s') :
    validate s' = .ok () := by
  unfold Geff.WR.writeArrays at h
  obtain ⟨s, _, h⟩ := Geff.WR.bind_ok _ _ _ h
  obtain ⟨u, hv, h⟩ := Geff.WR.bind_ok _ _ _ h
  cases h
  exact hv

/-- `Geff.Bridge.validate` accepting is C04's validator model accepting the tree the flat store denotes,
i.e. (C04_sound_complete) that tree being conformant -/
theorem conformant_of_validate (s : Geff.Store.St) (h : Geff.Bridge.validate s = .ok ()) :
    GeffProps.C04.Conformant (Geff.Bridge.toTarget s) := by
  apply (GeffProps.C04.C04_sound_complete _).1
  unfold Geff.Bridge.validate at h
  split at h
  · assumption
  · cases h
  · cases h
  · cases h

/-! ### the graph side (C12) -/

theorem mock_graph_valid (directed : Bool) (n : Nat) (es : List (Nat × Nat))
    (hv : ∀ e ∈ es, e.1 < n ∧ e.2 < n ∧ e.1 ≠ e.2) (hnd : (es.map (Geff.MockEdges.key directed)).Nodup) :
    GeffProps.C12.GraphValid directed (intIds (List.range n)) (intEdges es) := by
  rw [graphValid_cast]
  refine ⟨List.nodup_range, ?_, fun e he => (hv e he).2.2, ?_⟩
  · intro e he
    exact ⟨List.mem_range.2 (hv e he).1, List.mem_range.2 (hv e he).2.1⟩
  · rw [List.nodup_iff_pairwise_ne, List.pairwise_map] at hnd
    apply hnd.imp
    intro e f hne hor
    apply hne
    rcases hor with rfl | ⟨hd, rfl⟩
    · rfl
    · subst hd
      simp only [Geff.MockEdges.key, Bool.false_eq_true, if_false, Prod.fst_swap, Prod.snd_swap, Prod.mk.injEq]
      exact ⟨Nat.min_comm _ _, Nat.max_comm _ _⟩

end Geff.Link
