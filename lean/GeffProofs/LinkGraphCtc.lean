import GeffProofs.CtcGraph
import GeffProofs.CtcBridge
import GeffProofs.Tracklet
/-! Acyclicity of the graph specified by `Geff.Ctc.EdgeSpec` (C15): time strictly increases along
every edge — along a consecutive-appearance edge by definition of `Consec`, along a parent → child
edge by the order clause of `Consistent`.  Used by `GeffProps/C15Links.lean` to discharge the
hypothesis `Ranked` of `C13_iff`. -/
namespace Geff.Ctc

section Generic
variable {N : Nat → Nat → Int → Prop} {rows : List Row} {es : List (Nat × Nat)}

/-- every edge of the specified edge set joins a node to a node of strictly later time -/
theorem edgeSpec_time_increasing
    (hord : ∀ r ∈ rows, ∀ a b tp tc, N a tp r.P → N b tc r.L → tp < tc)
    (hspec : EdgeSpec N rows es) (a b : Nat) (hab : (a, b) ∈ es) :
    ∃ ta tb la lb, N a ta la ∧ N b tb lb ∧ ta < tb := by
  obtain ⟨ce, f, rfl, _, hce, hf⟩ := hspec
  rcases List.mem_append.1 hab with h | h
  · obtain ⟨ta, tb, l, ha, hb, hlt, _⟩ := (hce a b).1 h
    exact ⟨ta, tb, l, l, ha, hb, hlt⟩
  · obtain ⟨r, hr, hfr⟩ := List.mem_map.1 h
    obtain ⟨⟨tp, hp, _⟩, ⟨tc, hc, _⟩⟩ := hf r hr
    rw [hfr] at hp hc
    exact ⟨tp, tc, _, _, hp, hc, hord r hr a b tp tc hp hc⟩

/-- hence the edge set is acyclic in the sense of C13 (`Geff.Tracklet.Ranked`), the rank being any
function that returns the time of a node -/
theorem edgeSpec_ranked
    (hord : ∀ r ∈ rows, ∀ a b tp tc, N a tp r.P → N b tc r.L → tp < tc)
    (hspec : EdgeSpec N rows es) (rk : Nat → Nat) (hrk : ∀ a t l, N a t l → rk a = t) :
    ∀ e ∈ es, rk e.1 < rk e.2 := by
  rintro ⟨a, b⟩ he
  obtain ⟨ta, tb, la, lb, ha, hb, hlt⟩ := edgeSpec_time_increasing hord hspec a b he
  simp only [hrk a ta la ha, hrk b tb lb hb]
  exact hlt
end Generic

/-- the time of node (= position) `a` of the loop order; 0 outside the node set (only used as a rank) -/
def timeOf (O : List (Nat × Region)) (a : Nat) : Nat := (O[a]?.map (·.1)).getD 0

theorem timeOf_at {O : List (Nat × Region)} {a t : Nat} {l : Int} (h : At O a t l) : timeOf O a = t := by
  obtain ⟨r, hr, _⟩ := h
  simp [timeOf, hr]

end Geff.Ctc
