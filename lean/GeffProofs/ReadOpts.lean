import GeffModel.ReadOpts
/-! Helper lemmas for `GeffProps/C01ReadOpts.lean`: the read-side configurations of the round trip
(`GeffModel/ReadOpts.lean`).  Pointwise characterisation of the two `mapM`s of the reader
(`readProps`, `loadProps`), the selection as a restriction of the full read, the decision table of
`read_to_memory`'s keyword arguments. -/
namespace GeffProofs.ReadOpts
open Geff.Np Geff.Store Geff.WR
open Gen.Paths (NODES EDGES IDS PROPS)

/-! ## `mapM` in the outcome monad, pointwise -/

theorem mapM_ok_of_pointwise {α β} (f : α → Outcome β) (g : α → β) :
    ∀ l : List α, (∀ x ∈ l, f x = .ok (g x)) → l.mapM f = .ok (l.map g)
  | [], _ => rfl
  | x :: xs, h => by
    rw [List.mapM_cons, h x (List.mem_cons_self ..),
      mapM_ok_of_pointwise f g xs (fun y hy => h y (List.mem_cons_of_mem _ hy))]
    rfl

theorem pointwise_of_mapM_ok {α β} (f : α → Outcome β) :
    ∀ (l : List α) (ys : List β), l.mapM f = .ok ys →
      ys.length = l.length ∧ ∀ i (hi : i < l.length) (hj : i < ys.length), f l[i] = .ok ys[i]
  | [], ys, h => by
    have : ys = [] := by simpa [List.mapM_nil, pure, Except.pure] using h.symm
    subst this; exact ⟨rfl, fun i hi => absurd hi (Nat.not_lt_zero _)⟩
  | x :: xs, ys, h => by
    rw [List.mapM_cons] at h
    cases hx : f x with
    | error e => rw [hx] at h; cases h
    | ok y =>
      rw [hx] at h
      cases hxs : xs.mapM f with
      | error e => rw [hxs] at h; cases h
      | ok zs =>
        rw [hxs] at h
        have : ys = y :: zs := by
          have h' : (Except.ok (y :: zs) : Outcome (List β)) = .ok ys := h
          exact (Except.ok.inj h').symm
        subst this
        obtain ⟨hl, hp⟩ := pointwise_of_mapM_ok f xs zs hxs
        refine ⟨by simp [hl], fun i hi hj => ?_⟩
        cases i with
        | zero => simpa using hx
        | succ j => simpa using hp j (by simpa using hi) (by simpa using hj)

/-- every element of a successful `mapM` succeeded on its own -/
theorem mem_ok_of_mapM_ok {α β} (f : α → Outcome β) (l : List α) (ys : List β) (h : l.mapM f = .ok ys) :
    ∀ x ∈ l, ∃ y, f x = .ok y := by
  intro x hx
  obtain ⟨i, hi, rfl⟩ := List.getElem_of_mem hx
  obtain ⟨hl, hp⟩ := pointwise_of_mapM_ok f l ys h
  exact ⟨_, hp i hi (hl ▸ hi)⟩

/-- the value of a successful outcome (used only where success is known) -/
def okVal {β} [Inhabited β] : Outcome β → β
  | .ok y => y
  | .error _ => default

theorem okVal_ok {β} [Inhabited β] (o : Outcome β) (y : β) (h : o = .ok y) : okVal o = y := by
  rw [h]; rfl

/-- a successful `mapM` is the map of the element-wise values -/
theorem mapM_ok_eq_map {α β} [Inhabited β] (f : α → Outcome β) (l : List α) (ys : List β)
    (h : l.mapM f = .ok ys) : ys = l.map (fun x => okVal (f x)) := by
  have hp : ∀ x ∈ l, f x = .ok (okVal (f x)) := by
    intro x hx
    obtain ⟨y, hy⟩ := mem_ok_of_mapM_ok f l ys h x hx
    rw [okVal_ok _ y hy, hy]
  have := mapM_ok_of_pointwise f (fun x => okVal (f x)) l hp
  rw [h] at this
  exact Except.ok.inj this

/-! ## one property, read and loaded -/

/-- `_read_prop` followed by `_load_prop_to_memory` for one name -/
def loadOne (c : VlenCodec) (s : St) (pre : Path) (mds : List (String × PropMeta)) (k : String) :
    Outcome PropArr := do
  let z ← readProp s pre k
  let pm ← match lookupKey k mds with
    | some pm => pure pm
    | none => throw .keyError
  loadPropToMemory c z pm

/-- `readProps` then `loadProps` succeed exactly when every name reads and loads, and then return the
names in the order given, each with its own property -/
theorem read_load_ok (c : VlenCodec) (s : St) (pre : Path) (mds : List (String × PropMeta)) (names : List String)
    (h : ∀ k ∈ names, ∃ p, loadOne c s pre mds k = .ok p) :
    ∃ zs, readProps s pre names = .ok zs ∧
      loadProps c mds zs = .ok (names.map (fun k => (k, okVal (loadOne c s pre mds k)))) := by
  have hz : ∀ k ∈ names, (do pure (k, ← readProp s pre k) : Outcome (String × ZarrProp))
      = .ok (k, okVal (readProp s pre k)) := by
    intro k hk
    obtain ⟨p, hp⟩ := h k hk
    unfold loadOne at hp
    cases hr : readProp s pre k with
    | error e => rw [hr] at hp; cases hp
    | ok z => rfl
  refine ⟨names.map (fun k => (k, okVal (readProp s pre k))), mapM_ok_of_pointwise _ _ names hz, ?_⟩
  unfold loadProps
  rw [List.mapM_map]
  refine mapM_ok_of_pointwise _ _ names ?_
  intro k hk
  obtain ⟨p, hp⟩ := h k hk
  have hp' := hp
  unfold loadOne at hp
  cases hr : readProp s pre k with
  | error e => rw [hr] at hp; cases hp
  | ok z =>
    rw [hr] at hp
    simp only [Function.comp]
    rw [okVal_ok _ z hr, okVal_ok _ p hp']
    cases hl : lookupKey k mds with
    | none => rw [hl] at hp; cases hp
    | some pm =>
      rw [hl] at hp
      simp only [bind, Except.bind, pure, Except.pure] at hp ⊢
      rw [hp]

/-- conversely: when `readProps` and `loadProps` succeed, every name read and loaded on its own -/
theorem loadOne_ok_of_read_load (c : VlenCodec) (s : St) (pre : Path) (mds : List (String × PropMeta))
    (names : List String) (zs : List (String × ZarrProp)) (ps : Props)
    (hr : readProps s pre names = .ok zs) (hl : loadProps c mds zs = .ok ps) :
    ∀ k ∈ names, ∃ p, loadOne c s pre mds k = .ok p := by
  intro k hk
  have hzs := mapM_ok_eq_map _ names zs hr
  obtain ⟨y, hy⟩ := mem_ok_of_mapM_ok _ names zs hr k hk
  cases hrk : readProp s pre k with
  | error e => rw [hrk] at hy; cases hy
  | ok z =>
    have hmem : (k, z) ∈ zs := by
      rw [hzs]
      refine List.mem_map.mpr ⟨k, hk, ?_⟩
      rw [hrk]; rfl
    obtain ⟨q, hq⟩ := mem_ok_of_mapM_ok _ zs ps hl (k, z) hmem
    unfold loadOne
    rw [hrk]
    cases hlk : lookupKey k mds with
    | none => simp only [hlk] at hq; cases hq
    | some pm =>
      simp only [hlk, bind, Except.bind, pure, Except.pure] at hq ⊢
      cases hload : loadPropToMemory c z pm with
      | error e => rw [hload] at hq; cases hq
      | ok p => exact ⟨p, rfl⟩

/-! ## lookups in the dict a read returns -/

theorem lookupKey_map_self {β} (h : String → β) (k : String) :
    ∀ l : List String, lookupKey k (l.map (fun x => (x, h x))) = if k ∈ l then some (h k) else none
  | [] => rfl
  | x :: xs => by
    unfold lookupKey
    by_cases hx : x = k
    · subst hx; simp
    · have ih := lookupKey_map_self h k xs
      unfold lookupKey at ih
      have hk : ¬ k = x := fun e => hx e.symm
      rw [List.map_cons, List.find?_cons_of_neg (by simpa using hx), ih]
      simp [hk]

theorem keys_map_self {β} (h : String → β) (l : List String) :
    (l.map (fun x => (x, h x))).map (·.1) = l := by
  induction l with
  | nil => rfl
  | cons x xs ih => simp [ih]

/-! ## what every read does first, and the read as a function of the selection -/

/-- `GeffReader.__init__` without validation: metadata, id arrays, the property names found -/
def openStore (s : St) : Outcome (GeffAttr × NdArr × NdArr × List String × List String) := do
  expectGroup s []
  let md ← readMeta s
  let nodes ← expectArray s [NODES, IDS]
  let edges ← expectArray s [EDGES, IDS]
  let nfound ← propNames s NODES
  let efound ← propNames s EDGES
  pure (md, nodes, edges, nfound, efound)

/-- the properties a read returns for a list of names -/
def loaded (c : VlenCodec) (s : St) (pre : Path) (mds : List (String × PropMeta)) (names : List String) : Props :=
  names.map (fun k => (k, okVal (loadOne c s pre mds k)))

theorem readSel_of_open (c : VlenCodec) (s : St) (nsel esel : Option (List String))
    (md : GeffAttr) (nodes edges : NdArr) (nf ef : List String)
    (ho : openStore s = .ok (md, nodes, edges, nf, ef)) :
    readSel c s nsel esel = (do
      let nz ← readProps s [NODES, PROPS] (selected nsel nf)
      let ez ← readProps s [EDGES, PROPS] (selected esel ef)
      let np ← loadProps c md.nodeProps nz
      let ep ← loadProps c md.edgeProps ez
      pure ⟨nodes, edges, np, ep, restrictMeta md (selected nsel nf) (selected esel ef)⟩) := by
  unfold openStore at ho
  unfold readSel
  cases h0 : expectGroup s [] with
  | error e => rw [h0] at ho; cases ho
  | ok u0 =>
  rw [h0] at ho
  cases h1 : readMeta s with
  | error e => simp only [h1, bind, Except.bind] at ho; cases ho
  | ok md' =>
  cases h2 : expectArray s [NODES, IDS] with
  | error e => simp only [h1, h2, bind, Except.bind] at ho; cases ho
  | ok n' =>
  cases h3 : expectArray s [EDGES, IDS] with
  | error e => simp only [h1, h2, h3, bind, Except.bind] at ho; cases ho
  | ok e' =>
  cases h4 : propNames s NODES with
  | error e => simp only [h1, h2, h3, h4, bind, Except.bind] at ho; cases ho
  | ok nf' =>
  cases h5 : propNames s EDGES with
  | error e => simp only [h1, h2, h3, h4, h5, bind, Except.bind] at ho; cases ho
  | ok ef' =>
  simp only [h1, h2, h3, h4, h5, bind, Except.bind, pure, Except.pure] at ho
  have ho' := Except.ok.inj ho
  simp only [Prod.mk.injEq] at ho'
  obtain ⟨rfl, rfl, rfl, rfl, rfl⟩ := ho'
  simp only [bind, Except.bind]

/-- a read that succeeds opened the store -/
theorem open_of_readSel (c : VlenCodec) (s : St) (nsel esel : Option (List String)) (r : ReadResult)
    (h : readSel c s nsel esel = .ok r) : ∃ md nf ef, openStore s = .ok (md, r.nodeIds, r.edgeIds, nf, ef) := by
  unfold readSel at h
  unfold openStore
  cases h0 : expectGroup s [] with
  | error e => rw [h0] at h; cases h
  | ok u0 =>
  rw [h0] at h
  cases h1 : readMeta s with
  | error e => simp only [h1, bind, Except.bind] at h; cases h
  | ok md' =>
  cases h2 : expectArray s [NODES, IDS] with
  | error e => simp only [h1, h2, bind, Except.bind] at h; cases h
  | ok n' =>
  cases h3 : expectArray s [EDGES, IDS] with
  | error e => simp only [h1, h2, h3, bind, Except.bind] at h; cases h
  | ok e' =>
  cases h4 : propNames s NODES with
  | error e => simp only [h1, h2, h3, h4, bind, Except.bind] at h; cases h
  | ok nf' =>
  cases h5 : propNames s EDGES with
  | error e => simp only [h1, h2, h3, h4, h5, bind, Except.bind] at h; cases h
  | ok ef' =>
  simp only [h1, h2, h3, h4, h5, bind, Except.bind] at h
  cases h6 : readProps s [NODES, PROPS] (selected nsel nf') with
  | error e => simp only [h6] at h; cases h
  | ok nz =>
  cases h7 : readProps s [EDGES, PROPS] (selected esel ef') with
  | error e => simp only [h6, h7] at h; cases h
  | ok ez =>
  cases h8 : loadProps c md'.nodeProps nz with
  | error e => simp only [h6, h7, h8] at h; cases h
  | ok np =>
  cases h9 : loadProps c md'.edgeProps ez with
  | error e => simp only [h6, h7, h8, h9] at h; cases h
  | ok ep =>
  simp only [h6, h7, h8, h9, pure, Except.pure] at h
  have := Except.ok.inj h
  subst this
  exact ⟨md', nf', ef', rfl⟩

/-- **the read as a function of the selection**: once the store opens, a read of the selections
`nsel`, `esel` succeeds exactly when every selected name reads and loads on its own, and then returns
the ids as stored, the selected names in the order given, each with its own property — independent of
what else is selected — and the metadata restricted to the selected names -/
theorem readSel_ok_iff (c : VlenCodec) (s : St) (nsel esel : Option (List String))
    (md : GeffAttr) (nodes edges : NdArr) (nf ef : List String)
    (ho : openStore s = .ok (md, nodes, edges, nf, ef)) :
    ((∀ k ∈ selected nsel nf, ∃ p, loadOne c s [NODES, PROPS] md.nodeProps k = .ok p) ∧
     (∀ k ∈ selected esel ef, ∃ p, loadOne c s [EDGES, PROPS] md.edgeProps k = .ok p)) ↔
    readSel c s nsel esel = .ok ⟨nodes, edges,
      loaded c s [NODES, PROPS] md.nodeProps (selected nsel nf),
      loaded c s [EDGES, PROPS] md.edgeProps (selected esel ef),
      restrictMeta md (selected nsel nf) (selected esel ef)⟩ := by
  rw [readSel_of_open c s nsel esel md nodes edges nf ef ho]
  constructor
  · rintro ⟨hn, he⟩
    obtain ⟨nz, hnz, hnl⟩ := read_load_ok c s [NODES, PROPS] md.nodeProps _ hn
    obtain ⟨ez, hez, hel⟩ := read_load_ok c s [EDGES, PROPS] md.edgeProps _ he
    simp only [hnz, hez, hnl, hel, bind, Except.bind, pure, Except.pure, loaded]
  · intro h
    cases h6 : readProps s [NODES, PROPS] (selected nsel nf) with
    | error e => simp only [h6, bind, Except.bind] at h; cases h
    | ok nz =>
    cases h7 : readProps s [EDGES, PROPS] (selected esel ef) with
    | error e => simp only [h6, h7, bind, Except.bind] at h; cases h
    | ok ez =>
    cases h8 : loadProps c md.nodeProps nz with
    | error e => simp only [h6, h7, h8, bind, Except.bind] at h; cases h
    | ok np =>
    cases h9 : loadProps c md.edgeProps ez with
    | error e => simp only [h6, h7, h8, h9, bind, Except.bind] at h; cases h
    | ok ep =>
    exact ⟨loadOne_ok_of_read_load c s _ _ _ nz np h6 h8, loadOne_ok_of_read_load c s _ _ _ ez ep h7 h9⟩

/-- a read that succeeds returns exactly the `loaded` properties of its selection -/
theorem readSel_ok_form (c : VlenCodec) (s : St) (nsel esel : Option (List String)) (r : ReadResult)
    (h : readSel c s nsel esel = .ok r) :
    ∃ md nf ef, openStore s = .ok (md, r.nodeIds, r.edgeIds, nf, ef) ∧
      (∀ k ∈ selected nsel nf, ∃ p, loadOne c s [NODES, PROPS] md.nodeProps k = .ok p) ∧
      (∀ k ∈ selected esel ef, ∃ p, loadOne c s [EDGES, PROPS] md.edgeProps k = .ok p) ∧
      r = ⟨r.nodeIds, r.edgeIds, loaded c s [NODES, PROPS] md.nodeProps (selected nsel nf),
        loaded c s [EDGES, PROPS] md.edgeProps (selected esel ef),
        restrictMeta md (selected nsel nf) (selected esel ef)⟩ := by
  obtain ⟨md, nf, ef, ho⟩ := open_of_readSel c s nsel esel r h
  have hh := h
  rw [readSel_of_open c s nsel esel md _ _ nf ef ho] at hh
  cases h6 : readProps s [NODES, PROPS] (selected nsel nf) with
  | error e => simp only [h6, bind, Except.bind] at hh; cases hh
  | ok nz =>
  cases h7 : readProps s [EDGES, PROPS] (selected esel ef) with
  | error e => simp only [h6, h7, bind, Except.bind] at hh; cases hh
  | ok ez =>
  cases h8 : loadProps c md.nodeProps nz with
  | error e => simp only [h6, h7, h8, bind, Except.bind] at hh; cases hh
  | ok np =>
  cases h9 : loadProps c md.edgeProps ez with
  | error e => simp only [h6, h7, h8, h9, bind, Except.bind] at hh; cases hh
  | ok ep =>
  have hn := loadOne_ok_of_read_load c s _ _ _ nz np h6 h8
  have he := loadOne_ok_of_read_load c s _ _ _ ez ep h7 h9
  have := (readSel_ok_iff c s nsel esel md _ _ nf ef ho).mp ⟨hn, he⟩
  rw [h] at this
  exact ⟨md, nf, ef, ho, hn, he, Except.ok.inj this⟩

/-! ## selection lists -/

theorem mem_dedup (l : List String) (x : String) : x ∈ Geff.Graph.dedup l ↔ x ∈ l := by
  induction l with
  | nil => simp [Geff.Graph.dedup]
  | cons a t ih =>
    simp only [Geff.Graph.dedup, List.mem_cons, List.mem_filter, ih, ne_eq, decide_not, Bool.not_eq_eq_eq_not,
      Bool.not_true, decide_eq_false_iff_not]
    constructor
    · rintro (h | ⟨h, _⟩)
      · exact Or.inl h
      · exact Or.inr h
    · rintro (h | h)
      · exact Or.inl h
      · by_cases hx : x = a
        · exact Or.inl hx
        · exact Or.inr ⟨h, hx⟩

theorem mem_selected (sel : Option (List String)) (found : List String) (x : String) :
    x ∈ selected sel found ↔ match sel with | none => x ∈ found | some names => x ∈ names := by
  cases sel with
  | none => rfl
  | some names => exact mem_dedup names x

/-- the keys of what `readProps` / `loadProps` return are the names asked for, in order -/
theorem loaded_keys (c : VlenCodec) (s : St) (pre : Path) (mds : List (String × PropMeta)) (names : List String) :
    (loaded c s pre mds names).map (·.1) = names := keys_map_self _ names

theorem lookup_loaded (c : VlenCodec) (s : St) (pre : Path) (mds : List (String × PropMeta)) (names : List String)
    (k : String) : lookupKey k (loaded c s pre mds names) =
      if k ∈ names then some (okVal (loadOne c s pre mds k)) else none :=
  lookupKey_map_self _ k names

/-- `build()` restricts the metadata to the loaded names; restricting twice is restricting to the smaller set -/
theorem restrictMeta_restrictMeta (md : GeffAttr) (nf ef nn en : List String)
    (hn : ∀ k ∈ nn, k ∈ nf) (he : ∀ k ∈ en, k ∈ ef) :
    restrictMeta (restrictMeta md nf ef) nn en = restrictMeta md nn en := by
  unfold restrictMeta
  simp only [List.filter_filter]
  congr 1
  · apply List.filter_congr
    intro kv _
    by_cases h : kv.1 ∈ nn
    · simp [h, hn _ h]
    · simp [h]
  · apply List.filter_congr
    intro kv _
    by_cases h : kv.1 ∈ en
    · simp [h, he _ h]
    · simp [h]

/-! ## the plain read of `GeffModel/WriteRead.lean` is the read with nothing selected away -/

theorem readProps_keys (s : St) (pre : Path) (names : List String) (zs : List (String × ZarrProp))
    (h : readProps s pre names = .ok zs) : zs.map (·.1) = names := by
  have hz := mapM_ok_eq_map _ names zs h
  have hp := mem_ok_of_mapM_ok _ names zs h
  rw [hz, List.map_map]
  have : ∀ k ∈ names, ((fun x : String × ZarrProp => x.1) ∘ fun k =>
      okVal (do pure (k, ← readProp s pre k) : Outcome (String × ZarrProp))) k = k := by
    intro k hk
    obtain ⟨y, hy⟩ := hp k hk
    simp only [Function.comp]
    cases hr : readProp s pre k with
    | error e => rw [hr] at hy; cases hy
    | ok z => rfl
  rw [List.map_congr_left this, List.map_id']

theorem loadProps_keys (c : VlenCodec) (mds : List (String × PropMeta)) (zs : List (String × ZarrProp)) (ps : Props)
    (h : loadProps c mds zs = .ok ps) : ps.map (·.1) = zs.map (·.1) := by
  unfold loadProps at h
  have hz := mapM_ok_eq_map _ zs ps h
  have hp := mem_ok_of_mapM_ok _ zs ps h
  rw [hz, List.map_map]
  apply List.map_congr_left
  intro kz hk
  obtain ⟨y, hy⟩ := hp kz hk
  simp only [Function.comp]
  cases hl : lookupKey kz.1 mds with
  | none => simp only [hl] at hy; cases hy
  | some pm =>
    simp only [hl, bind, Except.bind, pure, Except.pure] at hy ⊢
    cases hload : loadPropToMemory c kz.2 pm with
    | error e => rw [hload] at hy; cases hy
    | ok p => rfl

/-- `read_to_memory` with every keyword at its "off" value returns what `readCore` returns, the
metadata restricted to the property names found (`build()` always restricts) -/
theorem readSel_none_eq_readCore (c : VlenCodec) (s : St) :
    readSel c s none none = (readCore c s).map (fun r =>
      { r with md := restrictMeta r.md (r.nodeProps.map (·.1)) (r.edgeProps.map (·.1)) }) := by
  unfold readSel readCore
  cases h0 : expectGroup s [] with
  | error e => rfl
  | ok u0 =>
  cases h1 : readMeta s with
  | error e => rfl
  | ok md =>
  cases h2 : expectArray s [NODES, IDS] with
  | error e => simp only [bind, Except.bind, Except.map]
  | ok n =>
  cases h3 : expectArray s [EDGES, IDS] with
  | error e => simp only [bind, Except.bind, Except.map]
  | ok e =>
  cases h4 : propNames s NODES with
  | error e => simp only [bind, Except.bind, Except.map]
  | ok nf =>
  cases h5 : propNames s EDGES with
  | error e => simp only [bind, Except.bind, Except.map]
  | ok ef =>
  simp only [selected]
  cases h6 : readProps s [NODES, PROPS] nf with
  | error e => simp only [h6, bind, Except.bind, Except.map]
  | ok nz =>
  cases h7 : readProps s [EDGES, PROPS] ef with
  | error e => simp only [h6, h7, bind, Except.bind, Except.map]
  | ok ez =>
  cases h8 : loadProps c md.nodeProps nz with
  | error e => simp only [h6, h7, h8, bind, Except.bind, Except.map]
  | ok np =>
  cases h9 : loadProps c md.edgeProps ez with
  | error e => simp only [h6, h7, h8, h9, bind, Except.bind, Except.map]
  | ok ep =>
  simp only [h6, h7, h8, h9, bind, Except.bind, Except.map, pure, Except.pure]
  rw [loadProps_keys c _ nz np h8, readProps_keys s _ nf nz h6,
    loadProps_keys c _ ez ep h9, readProps_keys s _ ef ez h7]

end GeffProofs.ReadOpts
