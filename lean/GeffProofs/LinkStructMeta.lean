import GeffProps.C04
import GeffProofs.MetaWrite
/-! # Link C10 ← C04: what C10 calls `accepted` is what C04's `Conformant` guarantees

C10's model of `write_arrays` (`GeffModel/MetaWrite.lean`) returns a *description* of the written store:
the metadata `w.md` and, per side, `none` (no `props` group) or one `Stored` record per property group
(`name`, `len` = `shape[0]` of `values`, `ndim` = rank of `values`, `hasData`, `hasMissing`, …).  With
structure validation on, C10 lets the write succeed iff the Bool `accepted n e w` holds — documented as
"what an accepting `validate_structure` guarantees", but written independently of C04.

`Describes n e w t` says that the C04 tree `t` is a store `w` is a description of, field by field as the
doc-comments of `Stored`/`Written` define the fields (only the fields `accepted` reads are constrained:
neither dtypes nor contents).  `accepted_of_conformant`: for such a tree, C04's `Conformant` implies
C10's `accepted`.  No new model of the implementation: `Describes` relates the two existing ones. -/
namespace Geff.LinkStruct
open Gen.Paths (NODES EDGES IDS PROPS VALUES MISSING DATA)
open Geff.Structure (Node Grp Target)

variable {κ : Type}

/-- the record `st` describes the property group `pn`: a group with a `values` array of `st.ndim`
dimensions the first of which is `st.len`, with a `data` / `missing` member iff `st.hasData` /
`st.hasMissing` -/
def DescribesProp (pn : Node) (st : Geff.MetaW.Stored κ) : Prop :=
  ∃ pg v, pn = .group pg ∧ Geff.Structure.get pg VALUES = some (.array v) ∧
    v.shape.head? = some st.len ∧ v.shape.length = st.ndim ∧
    (Geff.Structure.get pg DATA).isSome = st.hasData ∧ (Geff.Structure.get pg MISSING).isSome = st.hasMissing

/-- one side: `none` = the group `parent` (`nodes` / `edges`) has no `props` member; `some sts` = it has a
`props` group whose members are exactly the names of `sts`, each described by its record -/
def DescribesGroup (parent : Grp) (g : Option (List (Geff.MetaW.Stored κ))) : Prop :=
  match g with
  | none => Geff.Structure.get parent PROPS = none
  | some sts => ∃ props, Geff.Structure.get parent PROPS = some (.group props) ∧
      (∀ k, k ∈ Geff.Structure.keys props ↔ k ∈ sts.map (·.name)) ∧
      ∀ st ∈ sts, ∀ pn, Geff.Structure.get props st.name = some pn → DescribesProp pn st

/-- the parsed metadata the validator works on is C10's metadata: same property keys per side, same axis
names in the same order -/
def DescribesMeta (m : Geff.Structure.Meta) (md : Geff.MetaW.Meta κ) : Prop :=
  (∀ k, k ∈ Geff.Structure.keys m.nodeProps ↔ k ∈ Geff.MetaW.keys md.nodeProps) ∧
  (∀ k, k ∈ Geff.Structure.keys m.edgeProps ↔ k ∈ Geff.MetaW.keys md.edgeProps) ∧
  m.axes = md.axes.map (·.map (·.name))

/-- **the view**: the target `t` of `validate_structure` is a store that `w` (the result of C10's
`writeArrays md n …` with `e` edges) describes.  Everything is conditional on the tree having the member in
question — nothing of conformance is presupposed. -/
def Describes (n e : Nat) (w : Geff.MetaW.Written κ) : Target → Prop
  | .missingPath => False
  | .store root attrs =>
    (∀ m, attrs = .ok m → DescribesMeta m w.md) ∧
    ∀ graph, root = some (.group graph) →
      (∀ nodes, Geff.Structure.get graph NODES = some (.group nodes) →
        DescribesGroup nodes w.nodes ∧
        ∀ ids, Geff.Structure.get nodes IDS = some (.array ids) → ids.shape.head? = some n) ∧
      (∀ edges, Geff.Structure.get graph EDGES = some (.group edges) →
        DescribesGroup edges w.edges ∧
        ∀ ids, Geff.Structure.get edges IDS = some (.array ids) → ids.shape.head? = some e)

theorem mem_keys_of_get {β : Type} (d : List (String × β)) (k : String) (v : β)
    (h : Geff.Structure.lookup d k = some v) : k ∈ Geff.Structure.keys d :=
  (Geff.Structure.lookup_isSome_iff d k).1 (by rw [h]; rfl)

theorem get_of_mem_keys {β : Type} (d : List (String × β)) (k : String) (h : k ∈ Geff.Structure.keys d) :
    ∃ v, Geff.Structure.lookup d k = some v := by
  have := (Geff.Structure.lookup_isSome_iff d k).2 h
  cases hl : Geff.Structure.lookup d k with
  | none => rw [hl] at this; cases this
  | some v => exact ⟨v, rfl⟩

/-- one side: a conformant `props` group (C04) makes C10's `groupAccepted` true on its description -/
theorem groupAccepted_of_conformant (n : Nat) (parent : Grp) (mdT : List (String × Geff.Structure.PropMeta))
    (mdW : List (String × Geff.MetaW.PropMeta)) (g : Option (List (Geff.MetaW.Stored κ)))
    (hkeys : ∀ k, k ∈ Geff.Structure.keys mdT ↔ k ∈ Geff.MetaW.keys mdW)
    (hd : DescribesGroup parent g)
    (hc : GeffProps.C04.ConformantProps n mdT (Geff.Structure.get parent PROPS)) :
    Geff.MetaW.groupAccepted n mdW g = true := by
  cases g with
  | none =>
    simp only [DescribesGroup] at hd
    rw [hd] at hc
    simp only [GeffProps.C04.ConformantProps] at hc
    subst hc
    simp only [Geff.MetaW.groupAccepted, List.isEmpty_iff]
    cases mdW with
    | nil => rfl
    | cons a t =>
      have := (hkeys a.1).2 (by simp [Geff.MetaW.keys])
      simp [Geff.Structure.keys] at this
  | some sts =>
    obtain ⟨props, hp, hnames, hdesc⟩ := hd
    rw [hp] at hc
    obtain ⟨hck, hcall⟩ := hc
    simp only [Geff.MetaW.groupAccepted, Bool.and_eq_true, List.all_eq_true, List.contains_iff_mem,
      decide_eq_true_eq, Bool.or_eq_true, Bool.not_eq_true', Geff.MetaW.hasKey]
    refine ⟨?_, ?_⟩
    · intro k hk
      exact (hnames k).1 ((hck k).1 ((hkeys k).2 hk))
    · intro st hst
      have hkp : st.name ∈ Geff.Structure.keys props := (hnames st.name).2 (List.mem_map.2 ⟨st, hst, rfl⟩)
      have hkm : st.name ∈ Geff.Structure.keys mdT := (hck st.name).2 hkp
      obtain ⟨pn, hpn⟩ := get_of_mem_keys props st.name hkp
      obtain ⟨pm, hpm⟩ := get_of_mem_keys mdT st.name hkm
      obtain ⟨pg, v, rfl, hv, hlen, hnd, hdata, _⟩ := hdesc st hst pn hpn
      obtain ⟨pg', v', hpg', hv', hhead, hcase, _⟩ := hcall st.name pm _ hpm hpn
      simp only [Node.group.injEq] at hpg'
      subst hpg'
      rw [hv] at hv'
      simp only [Option.some.injEq, Node.array.injEq] at hv'
      subst hv'
      refine ⟨⟨(hkeys st.name).1 hkm, ?_⟩, ?_⟩
      · rw [hlen] at hhead
        simpa using hhead
      · cases hhd : st.hasData with
        | false => left; rfl
        | true =>
          right
          rw [hhd] at hdata
          by_cases hvl : pm.varlength = true
          · rw [if_pos hvl] at hcase
            rw [← hnd]; exact hcase.2.1
          · rw [if_neg hvl] at hcase
            rw [hcase.2] at hdata
            cases hdata

/-- the axes: conformant axes (C04) make C10's `axesAccepted` true on the description -/
theorem axesAccepted_of_conformant (nodes : Grp) (m : Geff.Structure.Meta) (w : Geff.MetaW.Written κ)
    (hm : m.axes = w.md.axes.map (·.map (·.name))) (hd : DescribesGroup nodes w.nodes)
    (hax : ∀ axes, m.axes = some axes → ∀ ax ∈ axes, GeffProps.C04.ConformantAxis nodes m ax) :
    Geff.MetaW.axesAccepted w.md w.nodes = true := by
  unfold Geff.MetaW.axesAccepted
  cases hwa : w.md.axes with
  | none => rfl
  | some axes =>
    rw [hwa] at hm
    simp only [Option.map_some] at hm
    simp only [List.all_eq_true]
    intro a ha
    obtain ⟨_, props, pg, v, hp, hpg, hv, hnd1, hmiss⟩ := hax _ hm a.name (List.mem_map.2 ⟨a, ha, rfl⟩)
    cases hn : w.nodes with
    | none =>
      rw [hn] at hd
      simp only [DescribesGroup] at hd
      rw [hd] at hp; cases hp
    | some sts =>
      rw [hn] at hd
      obtain ⟨props', hp', hnames, hdesc⟩ := hd
      rw [hp] at hp'
      simp only [Option.some.injEq, Node.group.injEq] at hp'
      subst hp'
      simp only []
      have hin : a.name ∈ sts.map (·.name) := (hnames a.name).1 (mem_keys_of_get props a.name _ hpg)
      cases hf : sts.find? (fun st => decide (st.name = a.name)) with
      | none =>
        obtain ⟨st, hst, hname⟩ := List.mem_map.1 hin
        have := List.find?_eq_none.1 hf st hst
        simp only [decide_eq_true_eq] at this
        exact absurd hname this
      | some st =>
        have hname : st.name = a.name := by simpa using List.find?_some hf
        have hst : st ∈ sts := List.mem_of_find?_eq_some hf
        obtain ⟨pg', v', hpgeq, hv', _, hnd, _, hmi⟩ := hdesc st hst (.group pg) (by rw [hname]; exact hpg)
        simp only [Node.group.injEq] at hpgeq
        subst hpgeq
        rw [hv] at hv'
        simp only [Option.some.injEq, Node.array.injEq] at hv'
        subst hv'
        rw [hmiss] at hmi
        simp only [Bool.and_eq_true, decide_eq_true_eq, Bool.not_eq_true']
        exact ⟨by rw [← hnd]; exact hnd1, hmi.symm⟩

/-- **C04's `Conformant` guarantees C10's `accepted`**, on every tree the written-store description `w`
describes -/
theorem accepted_of_conformant (n e : Nat) (w : Geff.MetaW.Written κ) (t : Target)
    (hd : Describes n e w t) (hc : GeffProps.C04.Conformant t) : Geff.MetaW.accepted n e w = true := by
  cases t with
  | missingPath => exact absurd hc id
  | store root attrs =>
    obtain ⟨graph, m, nodes, edges, nid, eid, N, E, hroot, hattrs, hn, he, hnid, _, hns, heid, hes, _, hnp, hep, hax⟩ := hc
    obtain ⟨hmeta, hgraph⟩ := hd
    obtain ⟨hmn, hme, hma⟩ := hmeta m hattrs
    obtain ⟨hN, hE⟩ := hgraph graph hroot
    obtain ⟨hdn, hidn⟩ := hN nodes hn
    obtain ⟨hde, hide⟩ := hE edges he
    have hNn : N = n := by
      have := hidn nid hnid
      rw [hns] at this
      simpa using this
    have hEe : E = e := by
      have := hide eid heid
      rw [hes] at this
      simpa using this
    subst hNn; subst hEe
    unfold Geff.MetaW.accepted
    rw [groupAccepted_of_conformant N nodes m.nodeProps w.md.nodeProps w.nodes hmn hdn hnp,
      groupAccepted_of_conformant E edges m.edgeProps w.md.edgeProps w.edges hme hde hep,
      axesAccepted_of_conformant nodes m w hma hdn hax]
    rfl

end Geff.LinkStruct
