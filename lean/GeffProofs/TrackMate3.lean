import GeffProofs.TrackMate2
/-! # Helper lemmas for C16 (3): the two removal blocks of `_build_data` as a restriction of the graph to
the nodes that pass a filter (`discard_closed`). -/

namespace Geff.TrackMate

theorem removeNodes_filter (g : Graph) (P : Nat × Attrs → Bool) (hn : (keys g).Nodup) (hc : Closed g) :
    g.removeNodes ((g.nodes.filter P).map (·.1)) =
      { nodes := g.nodes.filter (fun p => !P p),
        edges := g.edges.filter (fun e => decide (e.1.1 ∈ (g.nodes.filter (fun p => !P p)).map (·.1)) &&
                                         decide (e.1.2 ∈ (g.nodes.filter (fun p => !P p)).map (·.1))) } := by
  have hcontains : ∀ p ∈ g.nodes, ((g.nodes.filter P).map (·.1)).contains p.1 = P p := by
    intro p hp
    cases hP : P p
    · cases hh : ((g.nodes.filter P).map (·.1)).contains p.1
      · rfl
      · simp only [List.contains_iff_mem, List.mem_map, List.mem_filter] at hh
        obtain ⟨q, ⟨hq, hPq⟩, hqp⟩ := hh
        have : q = p := List.inj_on_of_nodup_map hn hq hp hqp
        rw [this, hP] at hPq; cases hPq
    · simp only [List.contains_iff_mem, List.mem_map, List.mem_filter]
      exact ⟨p, ⟨hp, hP⟩, rfl⟩
  have hmemkey : ∀ n, n ∈ keys g →
      (decide (n ∈ (g.nodes.filter (fun p => !P p)).map (·.1)) = !((g.nodes.filter P).map (·.1)).contains n) := by
    intro n hnk
    obtain ⟨p, hp, rfl⟩ := List.mem_map.1 hnk
    rw [hcontains p hp]
    cases hP : P p
    · simp only [Bool.not_false, decide_eq_true_eq, List.mem_map, List.mem_filter]
      exact ⟨p, ⟨hp, by simp [hP]⟩, rfl⟩
    · simp only [Bool.not_true, decide_eq_false_iff_not, List.mem_map, List.mem_filter, not_exists, not_and]
      intro q ⟨hq, hPq⟩ hqp
      have : q = p := List.inj_on_of_nodup_map hn hq hp hqp
      rw [this, hP] at hPq; cases hPq
  unfold Graph.removeNodes
  congr 1
  · apply List.filter_congr
    intro p hp
    rw [hcontains p hp]
  · apply List.filter_congr
    intro e he
    obtain ⟨h1, h2⟩ := hc e he
    rw [hmemkey _ h1, hmemkey _ h2]

theorem removeNodes_filter_closed (g : Graph) (P : Nat × Attrs → Bool) (hn : (keys g).Nodup) (hc : Closed g) :
    (keys (g.removeNodes ((g.nodes.filter P).map (·.1)))).Nodup ∧ Closed (g.removeNodes ((g.nodes.filter P).map (·.1))) := by
  rw [removeNodes_filter g P hn hc]
  constructor
  · exact (hn.sublist (List.Sublist.map _ List.filter_sublist))
  · intro e he
    simp only [List.mem_filter, Bool.and_eq_true, decide_eq_true_eq] at he
    exact he.2

theorem stage_eq (g : Graph) (b : Bool) (P : Nat × Attrs → Bool) (hn : (keys g).Nodup) (hc : Closed g) :
    stage g b P = restrictTo g (g.nodes.filter (fun p => !(b && P p))) := by
  unfold stage restrictTo
  cases b
  · simp only [Bool.false_eq_true, if_false, Bool.false_and, Bool.not_false, List.filter_true]
    have : g.edges.filter (fun e => decide (e.1.1 ∈ g.nodes.map (·.1)) && decide (e.1.2 ∈ g.nodes.map (·.1))) = g.edges := by
      apply List.filter_eq_self.2
      intro e he
      obtain ⟨h1, h2⟩ := hc e he
      simp only [keys] at h1 h2
      simp [h1, h2]
    rw [this]
  · simp only [if_true, Bool.true_and]
    exact removeNodes_filter g P hn hc

theorem restrictTo_props (g : Graph) (nodes : List (Nat × Attrs)) (hs : nodes.Sublist g.nodes) (hn : (keys g).Nodup) :
    (keys (restrictTo g nodes)).Nodup ∧ Closed (restrictTo g nodes) := by
  constructor
  · exact hn.sublist (List.Sublist.map _ hs)
  · intro e he
    simp only [restrictTo, List.mem_filter, Bool.and_eq_true, decide_eq_true_eq] at he
    exact he.2

theorem restrictTo_restrictTo (g : Graph) (n₁ n₂ : List (Nat × Attrs)) (hs : n₂.Sublist n₁) :
    restrictTo (restrictTo g n₁) n₂ = restrictTo g n₂ := by
  unfold restrictTo
  simp only [List.filter_filter]
  congr 1
  apply List.filter_congr
  intro e _
  have hsub : ∀ n, n ∈ n₂.map (·.1) → n ∈ n₁.map (·.1) := fun n hn => (List.Sublist.map _ hs).subset hn
  by_cases h1 : e.1.1 ∈ n₂.map (·.1) <;> by_cases h2 : e.1.2 ∈ n₂.map (·.1) <;> simp [h1, h2, hsub]

theorem discard_eq_stages (filtered : Option (List Int)) (ds dt : Bool) (g : Graph) :
    discard filtered ds dt g =
      stage (stage g ds (fun p => g.degree p.1 == 0)) (dt && filtered.isSome)
        (fun p => match filtered with
          | some keep => notKept keep p.2
          | none => false) := by
  unfold discard stage
  cases filtered <;> cases dt <;> simp

/-- closed form of the two removal blocks on a closed graph with distinct node ids -/
theorem discard_closed (filtered : Option (List Int)) (ds dt : Bool) (g : Graph) (hn : (keys g).Nodup) (hc : Closed g) :
    discard filtered ds dt g =
      restrictTo g (g.nodes.filter (fun p =>
        !(ds && g.degree p.1 == 0) &&
        !((dt && filtered.isSome) && (match filtered with
          | some keep => notKept keep p.2
          | none => false)))) := by
  rw [discard_eq_stages, stage_eq g ds _ hn hc]
  obtain ⟨hn1, hc1⟩ := restrictTo_props g (g.nodes.filter (fun p => !(ds && g.degree p.1 == 0))) List.filter_sublist hn
  rw [stage_eq _ _ _ hn1 hc1]
  have : (restrictTo g (g.nodes.filter (fun p => !(ds && g.degree p.1 == 0)))).nodes =
      g.nodes.filter (fun p => !(ds && g.degree p.1 == 0)) := rfl
  rw [this, restrictTo_restrictTo _ _ _ List.filter_sublist, List.filter_filter]
  congr 1
  apply List.filter_congr
  intro p _
  rw [Bool.and_comm]

end Geff.TrackMate
