import GeffProofs.Vlen
import GeffProofs.NpCast
/-! Lemmas about the normalisation model (`getCommonTypeDims`, `normAll`, `constructVarLenProps`):
invariance under permutation, element-wise characterisation, rank/dtype bounds, shape arithmetic. -/
namespace Geff.Vlen
open Geff.Np


theorem mem_dtypes {a : NdArr} {xs : List Item} (h : Item.arr a ∈ xs) : a.dtype ∈ Item.dtypes xs := by
  induction xs with
  | nil => simp at h
  | cons x t ih =>
    rcases List.mem_cons.1 h with rfl | h'
    · simp [Item.dtypes]
    · cases x <;> simp [Item.dtypes, ih h']

theorem mem_ranks {a : NdArr} {xs : List Item} (h : Item.arr a ∈ xs) : a.ndim ∈ Item.ranks xs := by
  induction xs with
  | nil => simp at h
  | cons x t ih =>
    rcases List.mem_cons.1 h with rfl | h'
    · simp [Item.ranks]
    · cases x <;> simp [Item.ranks, ih h']

theorem foldl_max_ge (rs : List Nat) (b : Nat) : b ≤ rs.foldl max b ∧ ∀ r ∈ rs, r ≤ rs.foldl max b := by
  induction rs generalizing b with
  | nil => simp
  | cons a t ih =>
    simp only [List.foldl_cons, List.mem_cons, forall_eq_or_imp]
    have := ih (max b a)
    refine ⟨by omega, by omega, this.2⟩

theorem le_maxRank {rs : List Nat} {r : Nat} (h : r ∈ rs) : r ≤ maxRank rs := (foldl_max_ge rs 0).2 r h

theorem foldl_max_mem (rs : List Nat) (b : Nat) : rs.foldl max b = b ∨ rs.foldl max b ∈ rs := by
  induction rs generalizing b with
  | nil => simp
  | cons a t ih =>
    simp only [List.foldl_cons, List.mem_cons]
    rcases ih (max b a) with h | h
    · rw [h]; rcases Nat.le_total b a with h' | h'
      · rw [Nat.max_eq_right h']; simp
      · rw [Nat.max_eq_left h']; simp
    · exact .inr (.inr h)

/-- the maximum is attained -/
theorem maxRank_mem {rs : List Nat} (h : rs ≠ []) : maxRank rs ∈ rs := by
  rcases foldl_max_mem rs 0 with h0 | h0
  · cases rs with
    | nil => exact absurd rfl h
    | cons a t =>
      have := (foldl_max_ge (a :: t) 0).2 a (by simp)
      unfold maxRank
      rw [h0] at this ⊢
      have : a = 0 := by omega
      simp [this]
  · exact h0

theorem normAll_length {dt nd} : ∀ {xs l}, normAll dt nd xs = some l → l.length = xs.length := by
  intro xs
  induction xs with
  | nil => intro l h; simp [normAll] at h; simp [← h]
  | cons x t ih =>
    intro l h
    simp only [normAll] at h
    cases hx : normItem dt nd x <;> cases ht : normAll dt nd t <;> simp [hx, ht] at h
    subst h; simp [ih ht]

theorem normAll_get {dt nd} : ∀ {xs l}, normAll dt nd xs = some l → ∀ i (h1 : i < xs.length) (h2 : i < l.length),
    normItem dt nd xs[i] = some l[i] := by
  intro xs
  induction xs with
  | nil => intro l _ i h1; simp at h1
  | cons x t ih =>
    intro l h i h1 h2
    simp only [normAll] at h
    cases hx : normItem dt nd x <;> cases ht : normAll dt nd t <;> simp [hx, ht] at h
    subst h
    cases i with
    | zero => simpa using hx
    | succ i => simpa using ih ht i (by simpa using h1) (by simpa using h2)

theorem prod_foldl (sh : List Nat) (b : Nat) : sh.foldl (· * ·) b = b * prod sh := by
  induction sh generalizing b with
  | nil => simp [prod]
  | cons a t ih => simp only [prod, List.foldl_cons]; rw [ih, ih (1 * a)]; simp [prod, Nat.mul_assoc]

theorem prod_cons (a : Nat) (sh : List Nat) : prod (a :: sh) = a * prod sh := by
  simp only [prod, List.foldl_cons]; rw [prod_foldl]; simp [prod]

theorem prod_ones_append (k : Nat) (sh : List Nat) : prod (List.replicate k 1 ++ sh) = prod sh := by
  induction k with
  | zero => simp
  | succ k ih => simp [List.replicate_succ, prod_cons, ih]

theorem mapM_length {α β : Type} (f : α → Option β) : ∀ {l : List α} {l' : List β}, l.mapM f = some l' → l'.length = l.length := by
  intro l
  induction l with
  | nil => intro l' h; simp at h; simp [← h]
  | cons a t ih =>
    intro l' h
    simp only [List.mapM_cons] at h
    cases ha : f a <;> simp [ha] at h
    cases ht : t.mapM f <;> simp [ht] at h
    subst h; simp [ih ht]



theorem dtypes_perm {xs ys : List Item} (p : xs.Perm ys) : (Item.dtypes xs).Perm (Item.dtypes ys) := by
  induction p with
  | nil => exact .nil
  | cons x _ ih => cases x <;> simp [Item.dtypes, ih]
  | swap x y l => cases x <;> cases y <;> simp [Item.dtypes, List.Perm.swap]
  | trans _ _ ih1 ih2 => exact ih1.trans ih2

theorem ranks_perm {xs ys : List Item} (p : xs.Perm ys) : (Item.ranks xs).Perm (Item.ranks ys) := by
  induction p with
  | nil => exact .nil
  | cons x _ ih => cases x <;> simp [Item.ranks, ih]
  | swap x y l => cases x <;> cases y <;> simp [Item.ranks, List.Perm.swap]
  | trans _ _ ih1 ih2 => exact ih1.trans ih2

theorem maxRank_perm {rs rs' : List Nat} (p : rs.Perm rs') : maxRank rs = maxRank rs' :=
  Dtype.foldl_perm _ (fun b x y => by omega) p _

theorem getCommonTypeDims_perm {xs ys : List Item} (p : xs.Perm ys) :
    getCommonTypeDims xs = getCommonTypeDims ys := by
  unfold getCommonTypeDims
  have h1 : xs.contains .inhomogeneous = ys.contains .inhomogeneous := by
    rw [Bool.eq_iff_iff]; simp [p.mem_iff]
  have h2 := dtypes_perm p
  have h3 : (Item.dtypes xs).isEmpty = (Item.dtypes ys).isEmpty := by
    have hl := h2.length_eq
    cases hx : Item.dtypes xs <;> cases hy : Item.dtypes ys <;> simp_all
  have h4 : (Item.dtypes xs).contains .obj = (Item.dtypes ys).contains .obj := by
    rw [Bool.eq_iff_iff]; simp [h2.mem_iff]
  rw [h1, h3, h4, Dtype.resultType_perm h2, maxRank_perm (ranks_perm p)]

theorem normAll_perm (dt : Dtype) (nd : Nat) {xs ys : List Item} (p : xs.Perm ys) :
    ∀ l, normAll dt nd xs = some l → ∃ l', normAll dt nd ys = some l' ∧ (xs.zip l).Perm (ys.zip l') := by
  induction p with
  | nil => intro l h; exact ⟨[], by simp [normAll], by simp⟩
  | @cons x t t' _ ih =>
    intro l h
    simp only [normAll] at h
    cases hx : normItem dt nd x with
    | none => simp [hx] at h
    | some y =>
      cases ht : normAll dt nd t with
      | none => simp [hx, ht] at h
      | some l0 =>
        simp [hx, ht] at h
        subst h
        obtain ⟨l0', h1, h2⟩ := ih l0 ht
        exact ⟨y :: l0', by simp [normAll, hx, h1], by simpa using h2⟩
  | swap x y t =>
    intro l h
    simp only [normAll] at h
    cases hx : normItem dt nd x <;> cases hy : normItem dt nd y <;> cases ht : normAll dt nd t <;>
      simp [hx, hy, ht] at h
    subst h
    rename_i a b l0
    exact ⟨a :: b :: l0, by simp [normAll, hx, hy, ht], by simpa using List.Perm.swap _ _ _⟩
  | trans _ _ ih1 ih2 =>
    intro l h
    obtain ⟨l1, h1, p1⟩ := ih1 l h
    obtain ⟨l2, h2, p2⟩ := ih2 l1 h1
    exact ⟨l2, h2, p1.trans p2⟩

theorem normAll_none_perm (dt : Dtype) (nd : Nat) {xs ys : List Item} (p : xs.Perm ys)
    (h : normAll dt nd xs = none) : normAll dt nd ys = none := by
  cases hy : normAll dt nd ys with
  | none => rfl
  | some l =>
    obtain ⟨l', h', _⟩ := normAll_perm dt nd p.symm l hy
    rw [h] at h'; cases h'

theorem zip_map_fst_snd {α β : Type} (l : List (α × β)) : (l.map (·.1)).zip (l.map (·.2)) = l := by
  induction l with
  | nil => rfl
  | cons a l ih => simp [ih]



theorem ranks_length (xs : List Item) : (Item.ranks xs).length = (Item.dtypes xs).length := by
  induction xs with
  | nil => rfl
  | cons x t ih => cases x <;> simp [Item.ranks, Item.dtypes, ih]

theorem getCommonTypeDims_ok {xs : List Item} {dt : Dtype} {nd : Nat}
    (h : getCommonTypeDims xs = .ok (dt, nd)) :
    Item.inhomogeneous ∉ xs ∧
    ((Item.dtypes xs = [] ∧ dt = .i64 ∧ nd = 1) ∨
     (Item.dtypes xs ≠ [] ∧ Dtype.resultType (Item.dtypes xs) = some dt ∧
       nd = maxRank (Item.ranks xs) ∧ nd ∈ Item.ranks xs)) := by
  unfold getCommonTypeDims at h
  by_cases hi : xs.contains .inhomogeneous = true
  · rw [if_pos hi] at h; cases h
  · rw [if_neg hi] at h
    have hni : Item.inhomogeneous ∉ xs := by simpa using hi
    refine ⟨hni, ?_⟩
    by_cases he : (Item.dtypes xs).isEmpty = true
    · rw [if_pos he] at h
      simp only [Outcome.ok.injEq, Prod.mk.injEq] at h
      exact .inl ⟨List.isEmpty_iff.1 he, h.1.symm, h.2.symm⟩
    · rw [if_neg he] at h
      have hne : Item.dtypes xs ≠ [] := fun hn => he (List.isEmpty_iff.2 hn)
      by_cases ho : (Item.dtypes xs).contains .obj = true
      · rw [if_pos ho] at h; cases h
      rw [if_neg ho] at h
      cases hr : Dtype.resultType (Item.dtypes xs) with
      | none => rw [hr] at h; cases h
      | some r =>
        rw [hr] at h
        simp only [Outcome.ok.injEq, Prod.mk.injEq] at h
        obtain ⟨rfl, rfl⟩ := h
        refine .inr ⟨hne, rfl, rfl, maxRank_mem ?_⟩
        intro hnil
        have := ranks_length xs
        rw [hnil] at this
        exact hne (List.length_eq_zero_iff.1 this.symm)

theorem construct_ok_inv {xs : List Item} {vals : List NdArr} {miss : List Bool}
    (h : constructVarLenProps xs = .ok (vals, miss)) :
    ∃ dt nd l, getCommonTypeDims xs = .ok (dt, nd) ∧ normAll dt nd xs = some l ∧
      vals = l.map (·.1) ∧ miss = l.map (·.2) := by
  unfold constructVarLenProps at h
  cases hc : getCommonTypeDims xs with
  | ok p =>
    obtain ⟨dt, nd⟩ := p
    rw [hc] at h
    simp only at h
    cases hn : normAll dt nd xs with
    | none => rw [hn] at h; cases h
    | some l =>
      rw [hn] at h
      simp only [Outcome.ok.injEq, Prod.mk.injEq] at h
      exact ⟨dt, nd, l, rfl, hn, h.1.symm, h.2.symm⟩
  | valueError => rw [hc] at h; cases h
  | typeError => rw [hc] at h; cases h
  | other n => rw [hc] at h; cases h
  | unmodelled w => rw [hc] at h; cases h

theorem construct_of {xs : List Item} {dt nd l} (hc : getCommonTypeDims xs = .ok (dt, nd))
    (hn : normAll dt nd xs = some l) : constructVarLenProps xs = .ok (l.map (·.1), l.map (·.2)) := by
  unfold constructVarLenProps; rw [hc]; simp only [hn]

theorem sizes_take_succ (es : List NdArr) (i : Nat) (h : i < es.length) :
    (sizes (es.take (i + 1))).sum = (sizes (es.take i)).sum + prod es[i].shape := by
  induction es generalizing i with
  | nil => simp at h
  | cons e es ih =>
    cases i with
    | zero => simp [sizes]
    | succ i =>
      have := ih i (by simpa using h)
      simp only [sizes, List.take_succ_cons, List.map_cons, List.sum_cons, List.getElem_cons_succ] at this ⊢
      omega

theorem zip_map_snd_snd {α β γ : Type} (xs : List α) (l : List (β × γ)) (h : l.length = xs.length) :
    (xs.zip l).map (fun q => q.2.2) = l.map (·.2) := by
  induction xs generalizing l with
  | nil => cases l <;> simp at h ⊢
  | cons x t ih =>
    cases l with
    | nil => simp at h
    | cons y l => simp [ih l (by simpa using h)]

end Geff.Vlen
