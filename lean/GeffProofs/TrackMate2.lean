import GeffProofs.TrackMate
/-! # Helper lemmas for C16 (2): `_build_tracks` = sequential processing of the tagged edges; well-formed
documents; closed form of `_build_data`. -/

namespace Geff.TrackMate

theorem addEdges_eq (md : List Feat) (tid : Val) (edges : List Edge) (g : Graph) :
    addEdges md tid edges g = addTagged md (edges.map (fun e => (e, tid))) g := by
  induction edges generalizing g with
  | nil => rfl
  | cons e rest ih =>
    simp only [addEdges, List.map_cons, addTagged]
    cases addEdge md e g tid with
    | exc x => rfl
    | ok g' => exact ih g'

theorem addTagged_append (md : List Feat) (l₁ l₂ : List (Edge × Val)) (g : Graph) :
    addTagged md (l₁ ++ l₂) g = match addTagged md l₁ g with
      | .ok g' => addTagged md l₂ g'
      | .exc e => .exc e := by
  induction l₁ generalizing g with
  | nil => rfl
  | cons x rest ih =>
    simp only [List.cons_append, addTagged]
    cases addEdge md x.1 g x.2 with
    | exc e => rfl
    | ok g' => exact ih g'

theorem buildTracks_eq (md : List Feat) (tracks : List Track) (g : Graph)
    (h : ∀ t ∈ tracks, ∃ a tid, convertAttributes md (trackTexts t) = .ok a ∧ aget? a "TRACK_ID" = some tid) :
    buildTracks md tracks g = addTagged md (tagged md tracks) g := by
  induction tracks generalizing g with
  | nil => rfl
  | cons t rest ih =>
    obtain ⟨a, tid, ha, htid⟩ := h t (by simp)
    have htt : trackTid md t = tid := by simp [trackTid, ha, htid]
    simp only [buildTracks, ha, htid, tagged, List.flatMap_cons, addTagged_append, addEdges_eq, htt]
    cases addTagged md (t.edges.map (fun e => (e, tid))) g with
    | exc e => rfl
    | ok g' =>
      simp only
      exact ih g' (fun t' ht' => h t' (by simp [ht']))

theorem buildData_closed (d : Doc) (h : WF d) (ds dt : Bool) :
    buildData d ds dt = .ok (discard d.filtered ds dt (fullGraph d), d.spots.any (fun s => s.roi.isSome)) := by
  unfold buildData
  have hnodes := addAllNodes_closed (attrsMd d) d.spots {} false h.spotOk h.spotHasId
    (by simpa using h.idsNodup) h.roiUniform (by intro hh; cases hh)
  simp only [hnodes, Bool.false_or]
  rw [buildTracks_eq _ _ _ h.trackOk]
  have hbase : ({ nodes := ({} : Graph).nodes ++ d.spots.map (fun s => (spotId s, spotAttrs (attrsMd d) s)),
                  edges := ({} : Graph).edges } : Graph) = stamped (attrsMd d) (baseNodes d) [] := by
    simp [stamped, baseNodes, stampOf]
  have hbn : ((baseNodes d).map (·.1)).Nodup := by
    simpa [baseNodes, List.map_map, Function.comp_def] using h.idsNodup
  have hfree : ∀ p ∈ baseNodes d, "TRACK_ID" ∉ p.2.map (·.1) := by
    intro p hp
    obtain ⟨s, hs, rfl⟩ := List.mem_map.1 hp
    exact h.noTrackIdAttr s hs
  have := addTagged_closed (attrsMd d) (baseNodes d) hbn hfree (tagged (attrsMd d) d.tracks) [] (by simpa using h.edgesOk)
  rw [show ({ nodes := ({} : Graph).nodes ++ List.map (fun s => (spotId s, spotAttrs (attrsMd d) s)) d.spots } : Graph)
        = stamped (attrsMd d) (baseNodes d) [] from hbase]
  rw [this]
  simp [fullGraph]

end Geff.TrackMate
