import GeffProofs.TrackMate
/-! # Helper lemmas for C16 (2): `_build_tracks` = sequential processing of the tagged edges; well-formed
documents; closed form of `_build_data`. -/

namespace Geff.TrackMate

/-- the `TRACK_ID` value `_build_tracks` reads off a `Track` element -/
def trackTid (md : List Feat) (t : Track) : Val :=
  match convertAttributes md (trackTexts t) with
  | .ok a => (aget? a "TRACK_ID").getD .none
  | .exc _ => .none

/-- every edge of the document with the id of its track, in document order -/
def tagged (md : List Feat) (tracks : List Track) : List (Edge × Val) :=
  tracks.flatMap (fun t => t.edges.map (fun e => (e, trackTid md t)))

theorem addEdges_eq (md : List Feat) (tid : Val) (edges : List Edge) (g : Graph) :
    addEdges md tid edges g = addTagged md (edges.map (fun e => (e, tid))) g := by
  induction edges generalizing g with
  | nil => rfl
  | cons e rest ih =>
    simp only [addEdges, List.map_cons, addTagged]
    cases addEdge md e g tid with
    | exc x => rfl
    | ok g' => exact ih g'

theorem addTagged_append (md : List Feat) (l₁ l₂ : List (Edge × Val)) (g : Graph) :
    addTagged md (l₁ ++ l₂) g = match addTagged md l₁ g with
      | .ok g' => addTagged md l₂ g'
      | .exc e => .exc e := by
  induction l₁ generalizing g with
  | nil => rfl
  | cons x rest ih =>
    simp only [List.cons_append, addTagged]
    cases addEdge md x.1 g x.2 with
    | exc e => rfl
    | ok g' => exact ih g'

theorem buildTracks_eq (md : List Feat) (tracks : List Track) (g : Graph)
    (h : ∀ t ∈ tracks, ∃ a tid, convertAttributes md (trackTexts t) = .ok a ∧ aget? a "TRACK_ID" = some tid) :
    buildTracks md tracks g = addTagged md (tagged md tracks) g := by
  induction tracks generalizing g with
  | nil => rfl
  | cons t rest ih =>
    obtain ⟨a, tid, ha, htid⟩ := h t (by simp)
    have htt : trackTid md t = tid := by simp [trackTid, ha, htid]
    simp only [buildTracks, ha, htid, tagged, List.flatMap_cons, addTagged_append, addEdges_eq, htt]
    cases addTagged md (t.edges.map (fun e => (e, tid))) g with
    | exc e => rfl
    | ok g' =>
      simp only
      exact ih g' (fun t' ht' => h t' (by simp [ht']))

/-- the nodes after `_add_all_nodes` -/
def baseNodes (d : Doc) : List (Nat × Attrs) := d.spots.map (fun s => (spotId s, spotAttrs (attrsMd d) s))

/-- **Well-formed document** = TrackMate's own invariants, as far as the converter relies on them. -/
structure WF (d : Doc) : Prop where
  /-- every spot converts (declared int features carry integer texts, …; a ROI with text has points) -/
  spotOk : ∀ s ∈ d.spots, SpotOk (attrsMd d) s
  /-- every spot has an ID and the IDs are pairwise distinct -/
  spotHasId : ∀ s ∈ d.spots, s.id.isSome = true
  idsNodup : (d.spots.map spotId).Nodup
  /-- a ROI on every spot or on none -/
  roiUniform : (∀ s ∈ d.spots, s.roi = none) ∨ (∀ s ∈ d.spots, s.roi.isSome = true)
  /-- no spot attribute is called TRACK_ID -/
  noTrackIdAttr : ∀ s ∈ d.spots, "TRACK_ID" ∉ (spotAttrs (attrsMd d) s).map (·.1)
  /-- every track has a TRACK_ID and its attributes convert -/
  trackOk : ∀ t ∈ d.tracks, ∃ a tid, convertAttributes (attrsMd d) (trackTexts t) = .ok a ∧ aget? a "TRACK_ID" = some tid
  /-- edges convert, join existing spots, are pairwise distinct, and a spot is touched by edges of one
  track id only (tracks are vertex-disjoint) -/
  edgesOk : TaggedOk (attrsMd d) (baseNodes d) (tagged (attrsMd d) d.tracks)

/-- the graph `_build_data` holds before the discard blocks (closed form) -/
def fullGraph (d : Doc) : Graph := stamped (attrsMd d) (baseNodes d) (tagged (attrsMd d) d.tracks)

theorem buildData_closed (d : Doc) (h : WF d) (ds dt : Bool) :
    buildData d ds dt = .ok (discard d.filtered ds dt (fullGraph d), d.spots.any (fun s => s.roi.isSome)) := by
  unfold buildData
  have hnodes := addAllNodes_closed (attrsMd d) d.spots {} false h.spotOk h.spotHasId
    (by simpa using h.idsNodup) h.roiUniform (by intro hh; cases hh)
  simp only [hnodes, Bool.false_or]
  rw [buildTracks_eq _ _ _ h.trackOk]
  have hbase : ({ nodes := ({} : Graph).nodes ++ d.spots.map (fun s => (spotId s, spotAttrs (attrsMd d) s)),
                  edges := ({} : Graph).edges } : Graph) = stamped (attrsMd d) (baseNodes d) [] := by
    simp [stamped, baseNodes, stampOf]
  have hbn : ((baseNodes d).map (·.1)).Nodup := by
    simpa [baseNodes, List.map_map, Function.comp_def] using h.idsNodup
  have hfree : ∀ p ∈ baseNodes d, "TRACK_ID" ∉ p.2.map (·.1) := by
    intro p hp
    obtain ⟨s, hs, rfl⟩ := List.mem_map.1 hp
    exact h.noTrackIdAttr s hs
  have := addTagged_closed (attrsMd d) (baseNodes d) hbn hfree (tagged (attrsMd d) d.tracks) [] (by simpa using h.edgesOk)
  rw [show ({ nodes := ({} : Graph).nodes ++ List.map (fun s => (spotId s, spotAttrs (attrsMd d) s)) d.spots } : Graph)
        = stamped (attrsMd d) (baseNodes d) [] from hbase]
  rw [this]
  simp [fullGraph]

end Geff.TrackMate
