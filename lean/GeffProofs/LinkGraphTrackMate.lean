import GeffProps.C16
import GeffProofs.Tracklet
/-! Lemmas for `GeffProps/C16Links.lean` (C16 ← C12/C14, lineage part): the (node, TRACK_ID) pairs that
`validate_data(lineage=True)` selects from the arrays the TrackMate converter model writes
(`_nodes_with_id` = `Geff.Tracklet.nodesWithId`, with the `missing` mask of the stored column) are
exactly the list `GeffProps.C16.labelled` about which `C16_lineage_valid` / `C16_lineage_validates`
speak.  No model, no specification is introduced here. -/
namespace Geff.Link
open Geff.TrackMate Geff.Tracklet GeffProps.C16

/-- reading a column with a missing mask: if `cells = nodes.map g` (`none` = flagged missing), the
mask is `cells.map isNone` and `values` agrees with the present cells (whatever fill value sits at the
missing positions), then the unflagged (node, value) pairs are `nodes.filterMap (n ↦ g n with n)` -/
theorem selected_eq_filterMap {α V : Type} (g : α → Option V) :
    ∀ (nodes : List α) (values : List V), values.length = nodes.length →
      (∀ (i : Nat) (v : V), (nodes.map g)[i]? = some (some v) → values[i]? = some v) →
      ((nodes.zip values).zip ((nodes.map g).map Option.isNone)).filterMap
          (fun p => if p.2 then none else some p.1) =
        nodes.filterMap (fun n => (g n).map (fun v => (n, v))) := by
  intro nodes
  induction nodes with
  | nil => intro values _ _; simp
  | cons n ns ih =>
    intro values hlen hval
    cases values with
    | nil => simp at hlen
    | cons v vs =>
      have hlen' : vs.length = ns.length := by simpa using hlen
      have hval' : ∀ (i : Nat) (w : V), (ns.map g)[i]? = some (some w) → vs[i]? = some w := by
        intro i w hi
        have := hval (i + 1) w (by simpa using hi)
        simpa using this
      have ih' := ih vs hlen' hval'
      simp only [List.zip_cons_cons, List.map_cons, List.filterMap_cons]
      cases hg : g n with
      | none => simp only [Option.isNone_none, if_true, Option.map_none]; exact ih'
      | some w =>
        have h0 := hval 0 w (by simp [hg])
        simp only [List.getElem?_cons_zero, Option.some.injEq] at h0
        subst h0
        simp only [Option.isNone_some, Bool.false_eq_true, if_false, Option.map_some]
        rw [ih']

/-- the stored `TRACK_ID` column of the converter model's output: one cell per node, the id of the
node's track, flagged missing for the spots of no track -/
theorem track_id_cells (d : Doc) (h : WF d) (ds dt : Bool) (out : Out) (hc : convert d ds dt = .ok out)
    (p : PropOut) (hp : p ∈ out.nodeProps) (hname : p.name = "TRACK_ID") :
    p.col.cells = out.nodes.map (trackIdOf d) := by
  obtain ⟨hn, _, hcols, _⟩ := convert_out d h ds dt out hc
  have hmem : (p.name, p.col) ∈ columns ((finalGraph d ds dt).nodes.map (·.2)) := by
    rw [← hcols]; exact List.mem_map.2 ⟨p, hp, rfl⟩
  simp only [columns, List.mem_map, Prod.mk.injEq] at hmem
  obtain ⟨k, _, hkn, hcol⟩ := hmem
  rw [hname] at hkn
  subst hkn
  rw [← hcol, hn]
  simp only [List.map_map]
  apply List.map_congr_left
  intro q hq
  simp only [finalGraph, restrictTo, List.mem_filter, fullGraph, stamped, baseNodes, List.map_map, List.mem_map,
    Function.comp] at hq
  obtain ⟨⟨s, hs, rfl⟩, _⟩ := hq
  simp only [Function.comp]
  rw [aget_stamp _ _ _ (h.noTrackIdAttr s hs)]
  rfl

/-- `validate_data(lineage=True)` on the converter model's output selects exactly
`GeffProps.C16.labelled`: for the stored `TRACK_ID` column `p` (cells + missing flags) and any value
array that agrees with the present cells -/
theorem nodesWithId_track_id (d : Doc) (h : WF d) (ds dt : Bool) (out : Out) (hc : convert d ds dt = .ok out)
    (p : PropOut) (hp : p ∈ out.nodeProps) (hname : p.name = "TRACK_ID")
    (values : List Val) (hlen : values.length = p.col.cells.length)
    (hval : ∀ (i : Nat) (v : Val), p.col.cells[i]? = some (some v) → values[i]? = some v) :
    nodesWithId out.nodes values (some (p.col.cells.map Option.isNone)) = some (labelled d ds dt) := by
  have hcells := track_id_cells d h ds dt out hc p hp hname
  have hnodes := (C16_graph d h ds dt out hc).1
  rw [hcells] at hlen hval ⊢
  have hlen' : values.length = out.nodes.length := by simpa using hlen
  unfold nodesWithId
  simp only [List.length_map, hlen', and_self, or_true, if_true]
  rw [selected_eq_filterMap (trackIdOf d) out.nodes values hlen' hval, hnodes]
  rfl

/-- when the lineage declaration is written, the `TRACK_ID` column it names is among the node
properties of the output -/
theorem track_id_column_exists (d : Doc) (h : WF d) (ds dt : Bool) (out : Out) (hc : convert d ds dt = .ok out)
    (hdecl : out.lineageDeclared = true) : ∃ p ∈ out.nodeProps, p.name = "TRACK_ID" := by
  obtain ⟨_, _, hcols, _, _, _, hl⟩ := convert_out d h ds dt out hc
  rw [hl, List.any_eq_true] at hdecl
  obtain ⟨a, ha, hk⟩ := hdecl
  have hk' : "TRACK_ID" ∈ propNames ((finalGraph d ds dt).nodes.map (·.2)) :=
    (propNames_mem _ _).2 ⟨a, ha, (ahas_iff a "TRACK_ID").1 hk⟩
  have hmem : "TRACK_ID" ∈ (columns ((finalGraph d ds dt).nodes.map (·.2))).map (·.1) := by
    simp only [columns, List.map_map, Function.comp_def, List.map_id']
    exact hk'
  rw [← hcols, List.map_map] at hmem
  obtain ⟨p, hp, hn⟩ := List.mem_map.1 hmem
  exact ⟨p, hp, hn⟩

end Geff.Link
