import GeffModel.ArrHeap
/-! # Frame lemmas of the buffer heap (`GeffModel/ArrHeap.lean`), property C18 -/
namespace Geff.ArrHeap

/-- what existed at entry (`nb` buffers, `nc` cells) is kept from `h` to `h'` -/
structure Keeps (nb nc : Nat) (h h' : Heap) : Prop where
  bufs : ∀ b, b < nb → h'.bufs[b]? = h.bufs[b]?
  cells : ∀ c, c < nc → h'.cells[c]? = h.cells[c]?
  lenB : h.bufs.length ≤ h'.bufs.length
  lenC : h.cells.length ≤ h'.cells.length

theorem Keeps.refl (nb nc : Nat) (h : Heap) : Keeps nb nc h h :=
  ⟨fun _ _ => rfl, fun _ _ => rfl, Nat.le_refl _, Nat.le_refl _⟩

theorem Keeps.trans {nb nc : Nat} {h1 h2 h3 : Heap} (a : Keeps nb nc h1 h2) (b : Keeps nb nc h2 h3) :
    Keeps nb nc h1 h3 :=
  ⟨fun i hi => (b.bufs i hi).trans (a.bufs i hi), fun i hi => (b.cells i hi).trans (a.cells i hi),
   Nat.le_trans a.lenB b.lenB, Nat.le_trans a.lenC b.lenC⟩

theorem step_keeps (nb nc : Nat) (h : Heap) (op : Op) (hb : nb ≤ h.bufs.length)
    (hc : nc ≤ h.cells.length) (hs : op.safe nb nc h = true) : Keeps nb nc h (step h op) := by
  cases op with
  | alloc c hd =>
    refine ⟨fun b hlt => ?_, fun c hlt => ?_, by simp [step], by simp [step]⟩
    · simp only [step]; exact List.getElem?_append_left (by omega)
    · simp only [step]; exact List.getElem?_append_left (by omega)
  | view s hd =>
    simp only [step]
    split
    · refine ⟨fun _ _ => rfl, fun c hlt => ?_, Nat.le_refl _, by simp⟩
      exact List.getElem?_append_left (by omega)
    · exact Keeps.refl _ _ _
  | writeInto t new =>
    simp only [step]
    split
    · rename_i c hcell
      simp only [Op.safe, hcell, decide_eq_true_eq] at hs
      refine ⟨fun b hlt => ?_, fun _ _ => rfl, by simp, Nat.le_refl _⟩
      exact List.getElem?_set_ne (by omega)
    · exact Keeps.refl _ _ _
  | setHdr t hd =>
    simp only [step]
    split
    · simp only [Op.safe, decide_eq_true_eq] at hs
      refine ⟨fun _ _ => rfl, fun c hlt => ?_, Nat.le_refl _, by simp⟩
      exact List.getElem?_set_ne (by omega)
    · exact Keeps.refl _ _ _

theorem run_keeps (nb nc : Nat) (ops : List Op) : ∀ (h : Heap), nb ≤ h.bufs.length →
    nc ≤ h.cells.length → safeRun nb nc h ops = true → Keeps nb nc h (run h ops) := by
  induction ops with
  | nil => intro h _ _ _; exact Keeps.refl _ _ _
  | cons op t ih =>
    intro h hb hc hs
    simp only [safeRun, Bool.and_eq_true] at hs
    have k := step_keeps nb nc h op hb hc hs.1
    have := ih (step h op) (Nat.le_trans hb k.lenB) (Nat.le_trans hc k.lenC) hs.2
    simpa [run] using k.trans this

/-! ## "allocated by the program" = "not derived from an entry cell through views" -/

structure DInv (nb : Nat) (h : Heap) (d : List Bool) : Prop where
  len : d.length = h.cells.length
  nbLe : nb ≤ h.bufs.length
  wf : h.WF
  iff : ∀ (i : Nat) (c : Cell), h.cells[i]? = some c → (d[i]? = some true ↔ c.buf < nb)

theorem DInv.init (h : Heap) (wf : h.WF) :
    DInv h.bufs.length h (List.replicate h.cells.length true) := by
  refine ⟨by simp, Nat.le_refl _, wf, fun i c hc => ?_⟩
  have hi : i < h.cells.length := by
    rcases List.getElem?_eq_some_iff.1 hc with ⟨hi, _⟩; exact hi
  constructor
  · intro _; exact wf i c hc
  · intro _; simp [hi]

theorem getElem?_append_cases {α : Type} (l : List α) (a : α) (i : Nat) (c : α)
    (h : (l ++ [a])[i]? = some c) : l[i]? = some c ∨ (i = l.length ∧ c = a) := by
  by_cases hi : i < l.length
  · left; rwa [List.getElem?_append_left hi] at h
  · right
    have hi' : l.length ≤ i := Nat.le_of_not_lt hi
    rw [List.getElem?_append_right hi'] at h
    by_cases h0 : i - l.length = 0
    · rw [h0] at h
      simp only [List.getElem?_cons_zero, Option.some.injEq] at h
      exact ⟨by omega, h.symm⟩
    · obtain ⟨k, hk⟩ := Nat.exists_eq_succ_of_ne_zero h0
      rw [hk] at h
      simp at h

theorem stepD_inv {nb : Nat} {h : Heap} {d : List Bool} (inv : DInv nb h d) (op : Op) :
    DInv nb (step h op) (stepD h d op) := by
  cases op with
  | alloc c hd =>
    refine ⟨by simp [step, stepD, inv.len], by simp [step]; have := inv.nbLe; omega, ?_, ?_⟩
    · intro i c' hc'
      simp only [step] at hc' ⊢
      rcases getElem?_append_cases _ _ _ _ hc' with h1 | ⟨_, rfl⟩
      · have := inv.wf i c' h1; simp; omega
      · simp
    · intro i c' hc'
      simp only [step] at hc'
      simp only [stepD]
      rcases getElem?_append_cases _ _ _ _ hc' with h1 | ⟨rfl, rfl⟩
      · have hi : i < d.length := by
          rw [inv.len]; rcases List.getElem?_eq_some_iff.1 h1 with ⟨hi, _⟩; exact hi
        rw [List.getElem?_append_left hi]
        exact inv.iff i c' h1
      · rw [← inv.len, List.getElem?_append_right (Nat.le_refl _)]
        have := inv.nbLe
        simp; omega
  | view s hd =>
    simp only [step, stepD]
    split
    · rename_i c0 hc0
      refine ⟨by simp [inv.len], inv.nbLe, ?_, ?_⟩
      · intro i c' hc'
        rcases getElem?_append_cases _ _ _ _ hc' with h1 | ⟨_, rfl⟩
        · exact inv.wf i c' h1
        · exact inv.wf s c0 hc0
      · intro i c' hc'
        rcases getElem?_append_cases _ _ _ _ hc' with h1 | ⟨rfl, rfl⟩
        · have hi : i < d.length := by
            rw [inv.len]; rcases List.getElem?_eq_some_iff.1 h1 with ⟨hi, _⟩; exact hi
          rw [List.getElem?_append_left hi]
          exact inv.iff i c' h1
        · rw [← inv.len, List.getElem?_append_right (Nat.le_refl _)]
          have hs : s < d.length := by
            rw [inv.len]; rcases List.getElem?_eq_some_iff.1 hc0 with ⟨hi, _⟩; exact hi
          have key := inv.iff s c0 hc0
          cases hv : d[s]? with
          | none => simp at hv; omega
          | some v =>
            rw [hv] at key
            simp only [Nat.sub_self, List.getElem?_cons_zero, Option.getD_some, Option.some.injEq]
            simpa using key
    · exact inv
  | writeInto t new =>
    simp only [step, stepD]
    split
    · refine ⟨inv.len, by simp; exact inv.nbLe, ?_, inv.iff⟩
      intro i c' hc'
      have := inv.wf i c' hc'
      simpa using this
    · exact inv
  | setHdr t hd =>
    simp only [step, stepD]
    split
    · rename_i c0 hc0
      have key : ∀ (i : Nat) (c' : Cell), (h.cells.set t ⟨c0.buf, hd⟩)[i]? = some c' →
          ∃ c'' : Cell, h.cells[i]? = some c'' ∧ c''.buf = c'.buf := by
        intro i c' hc'
        by_cases hit : t = i
        · subst hit
          have ht : t < h.cells.length := by
            rcases List.getElem?_eq_some_iff.1 hc0 with ⟨hi, _⟩; exact hi
          rw [List.getElem?_set_self ht] at hc'
          simp only [Option.some.injEq] at hc'
          exact ⟨c0, hc0, by rw [← hc']⟩
        · rw [List.getElem?_set_ne hit] at hc'
          exact ⟨c', hc', rfl⟩
      refine ⟨by simp [inv.len], inv.nbLe, ?_, ?_⟩
      · intro i c' hc'
        obtain ⟨c'', h1, h2⟩ := key i c' hc'
        have := inv.wf i c'' h1
        simp only at this ⊢
        omega
      · intro i c' hc'
        obtain ⟨c'', h1, h2⟩ := key i c' hc'
        rw [← h2]
        exact inv.iff i c'' h1
    · exact inv

theorem runD_inv {nb : Nat} (ops : List Op) : ∀ {h : Heap} {d : List Bool}, DInv nb h d →
    DInv nb (runD h d ops).1 (runD h d ops).2 := by
  induction ops with
  | nil => intro h d inv; exact inv
  | cons op t ih => intro h d inv; exact ih (stepD_inv inv op)

theorem runD_fst (ops : List Op) : ∀ (h : Heap) (d : List Bool), (runD h d ops).1 = run h ops := by
  induction ops with
  | nil => intro h d; rfl
  | cons op t ih => intro h d; simp only [runD, run, List.foldl_cons]; exact ih _ _

/-! ## Layer B: executions of a program -/

theorem writes_own {p : Prog} (hp : p.safe = true) {x : Var} (hw : p.writes x = true) :
    p.own x = true := by
  simp only [Prog.writes, List.any_eq_true] at hw
  obtain ⟨op, hop, hx⟩ := hw
  simp only [Prog.safe, List.all_eq_true] at hp
  have := hp op hop
  cases op with
  | write xs =>
    simp only [List.all_eq_true] at this
    exact this x (by simpa using hx)
  | fresh _ => simp at hx
  | derive _ _ => simp at hx
  | setHdr _ => simp at hx

theorem setsHdr_own {p : Prog} (hp : p.safe = true) {x : Var} (hw : p.setsHdr x = true) :
    p.own x = true := by
  simp only [Prog.setsHdr, List.any_eq_true] at hw
  obtain ⟨op, hop, hx⟩ := hw
  simp only [Prog.safe, List.all_eq_true] at hp
  have := hp op hop
  cases op with
  | setHdr xs =>
    simp only [List.all_eq_true] at this
    exact this x (by simpa using hx)
  | fresh _ => simp at hx
  | derive _ _ => simp at hx
  | write _ => simp at hx

theorem derive_not_own {p : Prog} {x : Var} (hd : p.deriveDef x = true) : p.own x = false := by
  simp [Prog.own, hd]

/-- the invariant of an execution: a variable that can only hold an own allocation is bound to a
cell created after entry whose buffer was created after entry -/
structure BInv (p : Prog) (nb nc : Nat) (s : State) : Prop where
  nbLe : nb ≤ s.heap.bufs.length
  ncLe : nc ≤ s.heap.cells.length
  own : ∀ x c, p.own x = true → s.env x = some c →
    nc ≤ c ∧ ∃ cell, s.heap.cells[c]? = some cell ∧ nb ≤ cell.buf

theorem stepEv_inv {p : Prog} {nb nc : Nat} {s : State} (hp : p.safe = true)
    (inv : BInv p nb nc s) (e : Ev) (ha : e.allowed p = true) :
    BInv p nb nc (stepEv s e) ∧ Keeps nb nc s.heap (stepEv s e).heap := by
  cases e with
  | bindFresh x c hd =>
    have k := step_keeps nb nc s.heap (.alloc c hd) inv.nbLe inv.ncLe rfl
    refine ⟨⟨Nat.le_trans inv.nbLe k.lenB, Nat.le_trans inv.ncLe k.lenC, ?_⟩, k⟩
    intro y cy hy hey
    simp only [stepEv, upd] at hey
    simp only [stepEv, step]
    split at hey
    · simp only [Option.some.injEq] at hey
      subst hey
      refine ⟨inv.ncLe, ⟨s.heap.bufs.length, hd⟩, ?_, inv.nbLe⟩
      rw [List.getElem?_append_right (Nat.le_refl _)]; simp
    · obtain ⟨h1, cell, h2, h3⟩ := inv.own y cy hy hey
      refine ⟨h1, cell, ?_, h3⟩
      have : cy < s.heap.cells.length := by
        rcases List.getElem?_eq_some_iff.1 h2 with ⟨hi, _⟩; exact hi
      rw [List.getElem?_append_left this]; exact h2
  | bindView x src hd =>
    simp only [Ev.allowed] at ha
    have hx := derive_not_own ha
    simp only [stepEv]
    split
    · rename_i hsrc
      have k := step_keeps nb nc s.heap (.view src hd) inv.nbLe inv.ncLe rfl
      refine ⟨⟨Nat.le_trans inv.nbLe k.lenB, Nat.le_trans inv.ncLe k.lenC, ?_⟩, k⟩
      intro y cy hy hey
      simp only [upd] at hey
      split at hey
      · rename_i hyx; subst hyx; rw [hx] at hy; cases hy
      · obtain ⟨h1, cell, h2, h3⟩ := inv.own y cy hy hey
        refine ⟨h1, cell, ?_, h3⟩
        have hcy : cy < s.heap.cells.length := by
          rcases List.getElem?_eq_some_iff.1 h2 with ⟨hi, _⟩; exact hi
        simp only [step]
        split
        · rw [List.getElem?_append_left hcy]; exact h2
        · exact h2
    · exact ⟨inv, Keeps.refl _ _ _⟩
  | bindAlias x src =>
    simp only [Ev.allowed] at ha
    have hx := derive_not_own ha
    simp only [stepEv]
    split
    · refine ⟨⟨inv.nbLe, inv.ncLe, ?_⟩, Keeps.refl _ _ _⟩
      intro y cy hy hey
      simp only [upd] at hey
      split at hey
      · rename_i hyx; subst hyx; rw [hx] at hy; cases hy
      · exact inv.own y cy hy hey
    · exact ⟨inv, Keeps.refl _ _ _⟩
  | write x new =>
    simp only [Ev.allowed] at ha
    have hx := writes_own hp ha
    simp only [stepEv]
    split
    · rename_i c hc
      obtain ⟨h1, cell, h2, h3⟩ := inv.own x c hx hc
      have hs : (Op.writeInto c new).safe nb nc s.heap = true := by
        simp [Op.safe, h2, h3]
      have k := step_keeps nb nc s.heap (.writeInto c new) inv.nbLe inv.ncLe hs
      refine ⟨⟨Nat.le_trans inv.nbLe k.lenB, Nat.le_trans inv.ncLe k.lenC, ?_⟩, k⟩
      intro y cy hy hey
      obtain ⟨g1, cell', g2, g3⟩ := inv.own y cy hy hey
      refine ⟨g1, cell', ?_, g3⟩
      simp only [step, h2]; exact g2
    · exact ⟨inv, Keeps.refl _ _ _⟩
  | setHdr x hd =>
    simp only [Ev.allowed] at ha
    have hx := setsHdr_own hp ha
    simp only [stepEv]
    split
    · rename_i c hc
      obtain ⟨h1, cell, h2, h3⟩ := inv.own x c hx hc
      have hs : (Op.setHdr c hd).safe nb nc s.heap = true := by
        simp [Op.safe, h1]
      have k := step_keeps nb nc s.heap (.setHdr c hd) inv.nbLe inv.ncLe hs
      refine ⟨⟨Nat.le_trans inv.nbLe k.lenB, Nat.le_trans inv.ncLe k.lenC, ?_⟩, k⟩
      intro y cy hy hey
      obtain ⟨g1, cell', g2, g3⟩ := inv.own y cy hy hey
      simp only [step, h2]
      by_cases hcc : c = cy
      · subst hcc
        have hlt : c < s.heap.cells.length := by
          rcases List.getElem?_eq_some_iff.1 h2 with ⟨hi, _⟩; exact hi
        refine ⟨g1, ⟨cell.buf, hd⟩, ?_, h3⟩
        rw [List.getElem?_set_self hlt]
      · refine ⟨g1, cell', ?_, g3⟩
        rw [List.getElem?_set_ne hcc]; exact g2
    · exact ⟨inv, Keeps.refl _ _ _⟩

theorem runEv_keeps {p : Prog} {nb nc : Nat} (hp : p.safe = true) (evs : List Ev) :
    ∀ (s : State), BInv p nb nc s → (∀ e ∈ evs, e.allowed p = true) →
      Keeps nb nc s.heap (runEv s evs).heap := by
  induction evs with
  | nil => intro s _ _; exact Keeps.refl _ _ _
  | cons e t ih =>
    intro s inv ha
    obtain ⟨inv', k⟩ := stepEv_inv hp inv e (ha e (by simp))
    have := ih (stepEv s e) inv' (fun e' he' => ha e' (by simp [he']))
    simpa [runEv] using k.trans this

theorem BInv.init (p : Prog) (s : State) (henv : ∀ x, p.params.contains x = false → s.env x = none) :
    BInv p s.heap.bufs.length s.heap.cells.length s := by
  refine ⟨Nat.le_refl _, Nat.le_refl _, ?_⟩
  intro x c hx hc
  simp only [Prog.own, Bool.and_eq_true, Bool.not_eq_true'] at hx
  rw [henv x hx.1] at hc
  cases hc

end Geff.ArrHeap
