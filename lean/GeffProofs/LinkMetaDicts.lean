import GeffProofs.MetaWrite
import GeffProofs.Backends
/-! C10 ← C03: composition of C03's dict → array layer (`Geff.Dicts.writeDicts`, the networkx / rustworkx
`write` front ends of `Geff.Backends`) with C10's metadata model (`Geff.MetaW`): definitions and helper
lemmas for `GeffProps/C10C03Links.lean`. -/
namespace Geff.LinkMD
open Geff.Np

/-- C03's column seen by C10's metadata functions: dtype, per-element trailing shape and the leaves
embedded into the coordinate type (`emb`; C10 only orders them), or — variable length — the `(dtype, ndim)`
of every element; the missing mask as it is -/
def toPD {κ : Type} (emb : Val → κ) (c : Geff.Dicts.Col) : Geff.MetaW.PropData κ :=
  { values := if c.varlen then .object (c.rows.map fun r => (c.dtype, r.1.length))
              else .dense c.dtype ((c.rows.head?.map (·.1)).getD []) (c.rows.map fun r => r.2.map emb),
    missing := c.missing }

def toPDs {κ : Type} (emb : Val → κ) (l : List (String × Geff.Dicts.Col)) : List (String × Geff.MetaW.PropData κ) :=
  l.map fun p => (p.1, toPD emb p.2)

theorem keys_toPDs {κ : Type} (emb : Val → κ) (l : List (String × Geff.Dicts.Col)) :
    Geff.MetaW.keys (toPDs emb l) = l.map (·.1) := by
  simp [toPDs, Geff.MetaW.keys, List.map_map, Function.comp_def]

/-- the property list `dict_props_to_arr` returns has exactly the requested names, in order -/
theorem dictPropsToArr_keys {ι : Type} (data : List (ι × Geff.Dicts.Attrs)) (names : List String)
    (cols : List (String × Geff.Dicts.Col)) (h : Geff.Dicts.dictPropsToArr data names = .ok cols) :
    cols.map (·.1) = names := by
  unfold Geff.Dicts.dictPropsToArr at h
  induction names generalizing cols with
  | nil => simp only [Geff.Dicts.mapE, Except.ok.injEq] at h; subst h; rfl
  | cons n t ih =>
    simp only [Geff.Dicts.mapE] at h
    cases hn : Geff.Dicts.namedCol data n with
    | error e => simp [hn] at h
    | ok b =>
      simp only [hn] at h
      cases ht : Geff.Dicts.mapE (Geff.Dicts.namedCol data) t with
      | error e => simp [ht] at h
      | ok bs =>
        simp only [ht, Except.ok.injEq] at h
        subst h
        have hb : b.1 = n := by
          unfold Geff.Dicts.namedCol at hn
          cases hc : Geff.Dicts.dictPropToArr data n with
          | error e => simp [hc] at hn
          | ok c => simp only [hc, Except.ok.injEq] at hn; rw [← hn]
        simp [hb, ih bs ht]

/-- what C03's `write_dicts` hands on has the requested property names -/
theorem writeDicts_keys (directed : Bool) (nd : List (Int × Geff.Dicts.Attrs)) (ed : List ((Int × Int) × Geff.Dicts.Attrs))
    (nn en : List String) (m : Geff.Dicts.MemGeff) (h : Geff.Dicts.writeDicts directed nd ed nn en = .ok m) :
    m.nodeProps.map (·.1) = nn ∧ m.edgeProps.map (·.1) = en ∧ m.directed = directed ∧
    m.nodeIds.length = nd.length ∧ m.edgeIds.length = ed.length := by
  unfold Geff.Dicts.writeDicts at h
  simp only [bind, Except.bind, pure, Except.pure] at h
  cases h1 : Geff.Dicts.nodeIdArr (nd.map (·.1)) with
  | error e => simp [h1] at h
  | ok nodes =>
    cases h2 : Geff.Dicts.edgeIdArr (ed.map (·.1)) with
    | error e => simp [h1, h2] at h
    | ok edges =>
      cases h3 : Geff.Dicts.dictPropsToArr nd nn with
      | error e => simp [h1, h2, h3] at h
      | ok np =>
        cases h4 : Geff.Dicts.dictPropsToArr ed en with
        | error e => simp [h1, h2, h3, h4] at h
        | ok ep =>
          simp only [h1, h2, h3, h4, Except.ok.injEq] at h
          subst h
          have hn : nodes = nd.map (·.1) := by
            unfold Geff.Dicts.nodeIdArr at h1
            split at h1
            · cases h1
            · split at h1
              · exact (Except.ok.inj h1).symm
              · cases h1
          have he : edges = ed.map (·.1) := by
            unfold Geff.Dicts.edgeIdArr at h2
            split at h2
            · exact (Except.ok.inj h2).symm
            · cases h2
          exact ⟨dictPropsToArr_keys nd nn np h3, dictPropsToArr_keys ed en ep h4, rfl, by simp [hn], by simp [he]⟩

/-- **`geff.write` on a networkx graph, from the GRAPH**: C03's model of `NxBackend.write` builds the id and
property arrays out of the attribute dicts (`Geff.Backends.nxWrite`: `write_dicts` / `dict_props_to_arr`,
numpy's dtype inference), C10's model (`Geff.MetaW.nxWrite`) derives and stores the metadata for exactly
those arrays.  A failure of the dict layer is its own outcome. -/
def nxWriteGraph {κ : Type} [LT κ] [DecidableLT κ] [Min κ] [Max κ] (emb : Val → κ) (version : String)
    (md : Option (Geff.MetaW.Meta κ)) (ls : Geff.MetaW.AxisLists) (G : Geff.Backends.NxGraph) :
    Geff.MetaW.Res (Geff.MetaW.Written κ) :=
  match Geff.Backends.nxWrite G with
  | .error _ => .error (.other "write_dicts")
  | .ok m => Geff.MetaW.nxWrite version md G.directed ls m.nodeIds.length m.edgeIds.length
      (toPDs emb m.nodeProps) (toPDs emb m.edgeProps)

/-- the same for a rustworkx graph (index holes, `node_id_dict`) -/
def rxWriteGraph {κ : Type} [LT κ] [DecidableLT κ] [Min κ] [Max κ] (emb : Val → κ) (version : String)
    (md : Option (Geff.MetaW.Meta κ)) (ls : Geff.MetaW.AxisLists) (g : Geff.Backends.RxGraph)
    (nodeIdDict : Option (List (Nat × Int))) : Geff.MetaW.Res (Geff.MetaW.Written κ) :=
  match Geff.Backends.rxWrite g nodeIdDict with
  | .error _ => .error (.other "write_dicts")
  | .ok m => Geff.MetaW.nxWrite version md g.directed ls m.nodeIds.length m.edgeIds.length
      (toPDs emb m.nodeProps) (toPDs emb m.edgeProps)

end Geff.LinkMD
