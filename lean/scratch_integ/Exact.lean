import GeffProofs.LinkStoreUniq
import GeffProofs.StoreTree
namespace Geff.WR
open Geff.Np Geff.Store
open Gen.Paths (NODES EDGES IDS PROPS VALUES MISSING DATA)

theorem cnt_eq_zero_of_get_none (s : St) (q : Path) (h : get s q = none) : cnt s q = 0 := by
  unfold cnt
  apply List.count_eq_zero.2
  intro hm
  obtain ⟨kv, hkv, hq⟩ := List.mem_map.1 hm
  have : (get s q).isSome := (get_isSome_iff s q).2 ⟨kv.2, by rw [← hq]; exact hkv⟩
  rw [h] at this
  cases this

theorem count_childNames (s : St) (p : Path) (k : String) : (childNames s p).count k = cnt s (p ++ [k]) := by
  unfold childNames cnt
  induction s with
  | nil => rfl
  | cons kv t ih =>
    simp only [List.filterMap_cons, List.map_cons]
    cases hc : childKey p kv.1 with
    | none =>
      simp only []
      have : kv.1 ≠ p ++ [k] := by
        intro hh
        have := (childKey_eq_some p kv.1 k).2 hh
        rw [hc] at this; cases this
      rw [List.count_cons_of_ne this, ih]
    | some k' =>
      simp only []
      have hq := (childKey_eq_some p kv.1 k').1 hc
      by_cases hk : k' = k
      · subst hk
        rw [hq, List.count_cons_self, List.count_cons_self, ih]
      · have : kv.1 ≠ p ++ [k] := by
          rw [hq]; intro hh
          have := List.append_cancel_left hh
          simp at this; exact hk this
        rw [List.count_cons_of_ne hk, List.count_cons_of_ne this, ih]

/-- the property groups a reader lists under a path are pairwise distinct when no child path is listed twice -/
theorem groupKeys_nodup (s : St) (p : Path) (h : ∀ k, cnt s (p ++ [k]) ≤ 1) : (groupKeys s p).Nodup := by
  unfold groupKeys
  apply List.Pairwise.sublist List.filter_sublist
  show (childNames s p).Nodup
  rw [List.nodup_iff_count]
  intro k
  rw [count_childNames]
  exact h k

theorem mapM_fst {α β} (f : α → Outcome β) (ka : α → String) (kb : β → String)
    (hf : ∀ a b, f a = .ok b → kb b = ka a) :
    ∀ (l : List α) (l' : List β), l.mapM f = .ok l' → l'.map kb = l.map ka := by
  intro l
  induction l with
  | nil => intro l' h; simp [List.mapM_nil, pure, Except.pure] at h; subst h; rfl
  | cons a t ih =>
    intro l' h
    rw [List.mapM_cons] at h
    obtain ⟨b, hb, h⟩ := bind_ok _ _ _ h
    obtain ⟨bs, hbs, h⟩ := bind_ok _ _ _ h
    cases h
    simp only [List.map_cons, hf a b hb, ih bs hbs]

/-- the names of the properties `readCore` returns are the group keys under `<group>/props` -/
theorem readCore_names (c : VlenCodec) (s : St) (r : ReadResult) (h : readCore c s = .ok r)
    (hn : get s [NODES, PROPS] = some (.group [])) (he : get s [EDGES, PROPS] = some (.group [])) :
    r.nodeProps.map (·.1) = groupKeys s [NODES, PROPS] ∧ r.edgeProps.map (·.1) = groupKeys s [EDGES, PROPS] := by
  unfold readCore at h
  obtain ⟨_, _, h⟩ := bind_ok _ _ _ h
  obtain ⟨md, _, h⟩ := bind_ok _ _ _ h
  obtain ⟨nodes, _, h⟩ := bind_ok _ _ _ h
  obtain ⟨edges, _, h⟩ := bind_ok _ _ _ h
  obtain ⟨nnames, h1, h⟩ := bind_ok _ _ _ h
  obtain ⟨enames, h2, h⟩ := bind_ok _ _ _ h
  obtain ⟨nz, h3, h⟩ := bind_ok _ _ _ h
  obtain ⟨ez, h4, h⟩ := bind_ok _ _ _ h
  obtain ⟨np, h5, h⟩ := bind_ok _ _ _ h
  obtain ⟨ep, h6, h⟩ := bind_ok _ _ _ h
  cases h
  have names_of : ∀ grp names, get s [grp, PROPS] = some (.group []) → propNames s grp = .ok names →
      names = groupKeys s [grp, PROPS] := by
    intro grp names hg hp
    unfold propNames at hp
    obtain ⟨_, _, hp⟩ := bind_ok _ _ _ hp
    rw [hg] at hp
    cases hp; rfl
  have hzs : ∀ pre names zs, readProps s pre names = .ok zs → zs.map (·.1) = names := by
    intro pre names zs hz
    have := mapM_fst (fun k => do pure (k, ← readProp s pre k)) (fun k => k) (·.1)
      (by
        intro a b hab
        obtain ⟨z, _, hab⟩ := bind_ok _ _ _ hab
        cases hab; rfl) names zs hz
    simpa using this
  have hps : ∀ mds zs ps, loadProps c mds zs = .ok ps → ps.map (·.1) = zs.map (·.1) := by
    intro mds zs ps hp
    exact mapM_fst _ (·.1) (·.1)
      (by
        intro a b hab
        simp only [] at hab
        split at hab
        · obtain ⟨pm, _, hab⟩ := bind_ok _ _ _ hab
          obtain ⟨q, _, hab⟩ := bind_ok _ _ _ hab
          cases hab; rfl
        · cases hab) zs ps hp
  constructor
  · show np.map (·.1) = _
    rw [hps _ _ _ h5, hzs _ _ _ h3, names_of NODES nnames hn h1]
  · show ep.map (·.1) = _
    rw [hps _ _ _ h6, hzs _ _ _ h4, names_of EDGES enames he h2]

theorem lookupKey_some_of_mem_nodup {β} (l : List (String × β)) (k : String) (v : β)
    (hm : (k, v) ∈ l) (hnd : (l.map (·.1)).Nodup) : lookupKey k l = some v := by
  induction l with
  | nil => cases hm
  | cons p t ih =>
    have hnd' := List.nodup_cons.1 (by simpa only [List.map_cons] using hnd)
    unfold lookupKey
    rcases List.mem_cons.1 hm with heq | hm'
    · subst heq; simp
    · have hne : ¬ p.1 = k := by
        intro e; subst e
        exact hnd'.1 (List.mem_map.2 ⟨(p.1, v), hm', rfl⟩)
      rw [List.find?_cons_of_neg (by simpa using hne)]
      exact ih hm' hnd'.2

/-- two association lists with pairwise distinct keys and the same lookups list the same pairs -/
theorem perm_of_lookupKey {β} (l l' : List (String × β)) (hnd : (l.map (·.1)).Nodup) (hnd' : (l'.map (·.1)).Nodup)
    (h : ∀ k, lookupKey k l' = lookupKey k l) : l'.Perm l := by
  have n1 : l.Nodup := (List.pairwise_map.1 hnd).imp (fun h e => h (by rw [e]))
  have n2 : l'.Nodup := (List.pairwise_map.1 hnd').imp (fun h e => h (by rw [e]))
  apply (List.perm_ext_iff_of_nodup n2 n1).2
  intro kv
  obtain ⟨k, v⟩ := kv
  constructor
  · intro hm
    have := lookupKey_some_of_mem_nodup l' k v hm hnd'
    rw [h k] at this
    exact lookupKey_mem k l v this
  · intro hm
    have := lookupKey_some_of_mem_nodup l k v hm hnd
    rw [← h k] at this
    exact lookupKey_mem k l' v this

/-- **C01 round trip, exact form** (what the integration links use): under the hypotheses of
`GeffProps.C01.C01_roundtrip_validated`, `write_arrays` and `read_to_memory` (both with C04's validator
model in the loop) succeed and the result lists — in some order, without repetition — exactly the
written properties (float16 upcast), with *identical* arrays also at the positions marked missing,
the same id arrays and the caller's directedness. -/
theorem roundtrip_exact (s0 : St) (g : InMem) (md : CallerMeta) (n e : Nat) (nps eps : Props)
    (hfresh : Fresh s0) (hwf : WFGeff g n e nps eps) (hax : Geff.Bridge.AxesStrict md n nps)
    (hmdN : ∀ kv ∈ md.nodeProps, kv.1 ∈ (expectedNodeProps md n nps).map (·.1))
    (hmdE : ∀ kv ∈ md.edgeProps, kv.1 ∈ eps.map (·.1)) :
    ∃ s' r, writeArrays vlenCodec Geff.Bridge.validate s0 g md = .ok s' ∧
      readToMemory vlenCodec Geff.Bridge.validate s' = .ok r ∧
      readCore vlenCodec s' = .ok r ∧ Geff.Bridge.validate s' = .ok () ∧
      Written vlenCodec s0 s' g.nodeIds g.edgeIds (expectedNodeProps md n nps) eps
        (attrOf md (expectedNodeProps md n nps) eps) ∧
      r.nodeIds = g.nodeIds ∧ r.edgeIds = g.edgeIds ∧ r.md.directed = md.directed ∧ r.md.axes = md.axes ∧
      r.nodeProps.Perm ((expectedNodeProps md n nps).map (fun kp => (kp.1, upcast kp.2))) ∧
      r.edgeProps.Perm (eps.map (fun kp => (kp.1, upcast kp.2))) := by
  obtain ⟨hnd, hw, hchk⟩ := expected_spec md n nps hwf.nodeNames hwf.nodeOK hax.ok
  have hlen : g.nodeIds.len?.isSome = true := by unfold NdArr.len?; rw [hwf.nodeShape]; rfl
  obtain ⟨s', hwrite, hW⟩ := writeCore_spec vlenCodec vlenCodec_lawful s0 g md (expectedNodeProps md n nps) eps hfresh
    hwf.idSame.symm hwf.idInt hlen (nodePropsToWrite_eq g md n nps hwf.nodeShape hwf.nodeProps) hwf.edgeProps
    hnd hw hwf.edgeNames (fun kp hm => (hwf.edgeOK kp hm).1) hchk
  obtain ⟨r, hread, h1, h2, h3, h4, h5⟩ := readCore_written vlenCodec vlenCodec_lawful s0 s' g.nodeIds g.edgeIds
    (expectedNodeProps md n nps) eps md hW hnd hw hwf.edgeNames (fun kp hm => (hwf.edgeOK kp hm).1)
  have hval := Geff.Bridge.validate_written s0 s' g md n e nps eps hwf hax hmdN hmdE hW
  have hle := le1_writeCore vlenCodec s0 s' g md {} hwrite
  have hcntN : ∀ k, cnt s' ([NODES, PROPS] ++ [k]) ≤ 1 := by
    intro k
    have := hle ([NODES, PROPS] ++ [k])
    have h0 : cnt s0 ([NODES, PROPS] ++ [k]) = 0 := cnt_eq_zero_of_get_none s0 _ (hfresh.nodes [PROPS, k])
    omega
  have hcntE : ∀ k, cnt s' ([EDGES, PROPS] ++ [k]) ≤ 1 := by
    intro k
    have := hle ([EDGES, PROPS] ++ [k])
    have h0 : cnt s0 ([EDGES, PROPS] ++ [k]) = 0 := cnt_eq_zero_of_get_none s0 _ (hfresh.edges [PROPS, k])
    omega
  obtain ⟨hnN, hnE⟩ := readCore_names vlenCodec s' r hread hW.nodePropsGrp hW.edgePropsGrp
  have lk : ∀ (ps : Props) k, lookupKey k (ps.map (fun kp => (kp.1, upcast kp.2))) = (lookupKey k ps).map upcast := by
    intro ps k
    induction ps with
    | nil => rfl
    | cons kp t ih =>
      unfold lookupKey at ih ⊢
      by_cases hk : kp.1 = k
      · simp [hk]
      · simp only [List.map_cons]
        rw [List.find?_cons_of_neg (by simpa using hk), List.find?_cons_of_neg (by simpa using hk)]
        exact ih
  have mapfst : ∀ (ps : Props), (ps.map (fun kp => (kp.1, upcast kp.2))).map (·.1) = ps.map (·.1) := by
    intro ps; rw [List.map_map]; rfl
  refine ⟨s', r, ?_, ?_, hread, hval, hW, h1, h2, by rw [h3]; rfl, by rw [h3]; rfl, ?_, ?_⟩
  · unfold writeArrays
    simp only [hwrite, hval, bind, Except.bind, pure, Except.pure]
  · unfold readToMemory
    simp only [hval, hread, bind, Except.bind]
  · apply perm_of_lookupKey
    · rw [mapfst]; exact hnd
    · rw [hnN]; exact groupKeys_nodup s' _ hcntN
    · intro k; rw [h4 k, lk]
  · apply perm_of_lookupKey
    · rw [mapfst]; exact hwf.edgeNames
    · rw [hnE]; exact groupKeys_nodup s' _ hcntE
    · intro k; rw [h5 k, lk]

end Geff.WR
