import GeffProofs.LinkStoreDicts
namespace Geff.Link
open Geff.Np Geff.Dicts Geff.Backends
open GeffProps.C03 (SgDomain SgGraphDomain)

theorem lookupKey_eq_lookup {β : Type} (l : List (String × β)) (k : String) : Geff.WR.lookupKey k l = l.lookup k := by
  induction l with
  | nil => rfl
  | cons a t ih =>
    obtain ⟨k', v⟩ := a
    rw [lookup_cons_ite]
    unfold Geff.WR.lookupKey at ih ⊢
    by_cases h : k = k'
    · subst h; simp
    · have h' : ¬ k' = k := fun e => h e.symm
      simp only [h, if_false]
      rw [List.find?_cons_of_neg (by simpa using h')]
      exact ih

theorem lookup_propsOf (ps : List (String × Col)) (k : String) :
    (propsOf ps).lookup k = (ps.lookup k).map colToProp := by
  induction ps with
  | nil => rfl
  | cons a t ih =>
    obtain ⟨k', c⟩ := a
    simp only [propsOf, List.map_cons]
    rw [lookup_cons_ite, lookup_cons_ite]
    by_cases h : k = k'
    · simp [h]
    · simp only [h, if_false]; exact ih

theorem sgDtypeOk_dense (d : Dtype) (h : sgDtypeOk d = true) :
    d ∈ Geff.WR.denseDtypes ∧ d ≠ .f16 ∧ d ≠ .str := by
  cases d <;> first | (exact absurd h (by decide)) | exact ⟨by decide, by decide, by decide⟩

/-- an axis column (`SgDomain.axisCols`) is a column the store can hold, and its property dict is a 1-D
array without missing mask -/
theorem axisCol_ok (c : Col) (pd : Dtype) (n : Nat) (hpd : sgDtypeOk pd = true) (hd : c.dtype = pd) (hm : c.missing = none)
    (hv : c.varlen = false) (hr : ∀ r ∈ c.rows, ∃ v, r = (([], [v]) : Row)) (hwf : c.WF n) :
    ColOK c ∧ ∃ a, colToProp c = ⟨.dense a, none⟩ ∧ a.shape = [n] ∧ a.WF ∧ a.dtype ≠ .str := by
  have hrs : rowShape c.rows = [] := by
    cases hrows : c.rows with
    | nil => rfl
    | cons r t =>
      obtain ⟨v, rfl⟩ := hr r (by rw [hrows]; exact List.mem_cons_self ..)
      rfl
  obtain ⟨h1, h2, h3⟩ := sgDtypeOk_dense pd hpd
  have hlen : (c.rows.flatMap (·.2)).length = c.rows.length := by
    rw [flatMap_snd, length_flatMap_const 1]
    · simp
    · intro r hr'
      obtain ⟨x, hx, rfl⟩ := List.mem_map.1 hr'
      obtain ⟨v, rfl⟩ := hr x hx
      rfl
  constructor
  · refine ⟨fun _ => by rw [hd]; exact ⟨h1, h2⟩, (fun hv' => by rw [hv] at hv'; cases hv'), ?_, ?_,
      (fun hv' => by rw [hv] at hv'; cases hv')⟩
    · intro r hr'
      obtain ⟨v, rfl⟩ := hr r hr'
      rfl
    · intro _ r hr'
      obtain ⟨v, rfl⟩ := hr r hr'
      rw [hrs]
  · refine ⟨⟨c.dtype, c.rows.length :: rowShape c.rows, c.rows.flatMap (·.2)⟩, ?_, ?_, ?_, ?_⟩
    · simp [colToProp, hv, hm]
    · simp only [hrs, hwf.1]
    · show (c.rows.flatMap (·.2)).length = prod (c.rows.length :: rowShape c.rows)
      rw [hlen, hrs]; simp [prod]
    · show c.dtype ≠ .str
      rw [hd]; exact h3

/-- the node properties `SgBackend.write` hands over are attributes of the graph or carry an axis name -/
theorem sgWrite_props (g : SgGraph) (names : List String) (m : MemGeff) (h : sgWrite g names = .ok m) :
    m.edgeProps = g.edgeAttrs ∧ ∀ p ∈ m.nodeProps, p ∈ g.nodeAttrs ∨ p.1 ∈ names := by
  unfold sgWrite at h
  split at h
  · cases h
  cases hm : mapE (fun (p : String × Nat) => axisColumn g p.1 p.2) (enumNames names) with
  | error e => simp [hm] at h
  | ok axisCols =>
    simp only [hm, Except.ok.injEq] at h
    subst h
    refine ⟨rfl, ?_⟩
    intro p hp
    rcases List.mem_append.1 hp with hp | hp
    · exact Or.inl (List.mem_filter.1 hp).1
    · right
      obtain ⟨_, h2, _, _⟩ := mapE_spec _ _ _ hm
      obtain ⟨q, hq, hqc⟩ := h2 p hp
      unfold axisColumn at hqc
      cases hr : mapE (cellRow q.2) g.position with
      | error e => simp [hr] at hqc
      | ok rows =>
        simp only [hr, Except.ok.injEq] at hqc
        subst hqc
        exact (List.of_mem_zip hq).1

/-- **the in-memory geff `SgBackend.write` hands over is storable and its axes are as the specification
wants them**, for a spatial-graph graph in C03's domain whose axis / attribute names are valid zarr node
names and whose attribute columns are arrays of one shape (`ColOK`) -/
theorem sg_storable (g : SgGraph) (names : List String) (m : MemGeff) (hw : sgWrite g names = .ok m)
    (hdom : SgDomain m names) (hn : ∀ a ∈ names, Geff.WR.validName a = true)
    (hnode : ∀ p ∈ g.nodeAttrs, Geff.WR.validName p.1 = true ∧ ColOK p.2)
    (hedge : ∀ p ∈ g.edgeAttrs, Geff.WR.validName p.1 = true ∧ ColOK p.2) :
    Storable m ∧ Geff.Bridge.AxesStrict (callerMeta m (some names)) m.nodeIds.length (propsOf m.nodeProps) := by
  obtain ⟨he, hnp⟩ := sgWrite_props g names m hw
  obtain ⟨pd, hpd, hax⟩ := hdom.axisCols
  have haxis : ∀ a ∈ names, ∃ c, m.nodeProps.lookup a = some c ∧ ColOK c ∧
      ∃ arr, colToProp c = ⟨.dense arr, none⟩ ∧ arr.shape = [m.nodeIds.length] ∧ arr.WF ∧ arr.dtype ≠ .str := by
    intro a ha
    obtain ⟨c, hl, hd, hm, hv, hr⟩ := hax a ha
    have hwf := hdom.valid.nodeCols (a, c) (lookup_mem _ _ _ hl)
    obtain ⟨h1, h2⟩ := axisCol_ok c pd _ hpd hd hm hv hr hwf
    exact ⟨c, hl, h1, h2⟩
  constructor
  · constructor
    · intro p hp
      by_cases hin : p.1 ∈ names
      · obtain ⟨c, hl, hc, _⟩ := haxis p.1 hin
        have : m.nodeProps.lookup p.1 = some p.2 :=
          GeffProps.C03.lookup_of_mem_nodup m.nodeProps p.1 p.2 hp hdom.valid.nodeNames
        rw [this] at hl
        cases hl
        exact ⟨hn p.1 hin, hc⟩
      · rcases hnp p hp with h | h
        · exact hnode p h
        · exact absurd h hin
    · intro p hp
      rw [he] at hp
      exact hedge p hp
  · intro axes haxes ax hmem
    simp only [callerMeta, Option.some.injEq] at haxes
    subst haxes
    refine ⟨hn ax hmem, Or.inr ?_⟩
    obtain ⟨c, hl, _, arr, h1, h2, h3, h4⟩ := haxis ax hmem
    refine ⟨arr, ?_, h2, h3, h4⟩
    rw [lookupKey_eq_lookup, lookup_propsOf, hl]
    simp [h1]

end Geff.Link
