import GeffProofs.LinkStoreMock
open Geff.MockData
def p0 : Params :=
  { idDtype := "uint8", timeDtype := "float64", posDtype := "float64", directed := false, numNodes := 2,
    numEdges := 1, z := false, y := false, x := false, ms := true }
#eval createDummyInMemGeff false p0
