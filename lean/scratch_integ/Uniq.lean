import GeffProofs.WriteRead
namespace Geff.WR
open Geff.Np Geff.Store
open Gen.Paths (NODES EDGES IDS PROPS VALUES MISSING DATA)

/-- how many entries the flat store lists under path `q` -/
def cnt (s : St) (q : Path) : Nat := (s.map (·.1)).count q

/-- no path gains a second entry -/
def LE1 (s s' : St) : Prop := ∀ q, cnt s' q ≤ max (cnt s q) 1

theorem LE1.refl (s : St) : LE1 s s := fun q => Nat.le_max_left _ _

theorem LE1.trans {a b c : St} (h1 : LE1 a b) (h2 : LE1 b c) : LE1 a c := by
  intro q
  have := h1 q; have := h2 q
  omega

theorem cnt_set (s : St) (p q : Path) (e : Entry) : cnt (Store.set s p e) q = if q = p then 1 else cnt s q := by
  unfold cnt Store.set
  by_cases h : q = p
  · subst h
    simp only [List.map_cons, List.count_cons_self, if_true]
    have : ((s.filter (fun kv => decide (kv.1 ≠ q))).map (·.1)).count q = 0 := by
      apply List.count_eq_zero.2
      intro hm
      obtain ⟨kv, hkv, hq⟩ := List.mem_map.1 hm
      have := (List.mem_filter.1 hkv).2
      simp at this
      exact this hq
    omega
  · rw [if_neg h]
    simp only [List.map_cons]
    rw [List.count_cons_of_ne (fun hh => h hh.symm)]
    induction s with
    | nil => rfl
    | cons kv t ih =>
      simp only [ne_eq, decide_not] at ih
      have h' : ¬ p = q := fun hh => h hh.symm
      by_cases hk : kv.1 = p
      · simp [List.filter_cons, hk, List.count_cons, h', ih]
      · simp [List.filter_cons, hk, List.count_cons, ih]

theorem le1_set (s : St) (p : Path) (e : Entry) : LE1 s (Store.set s p e) := by
  intro q
  rw [cnt_set]
  split <;> omega

theorem le1_ensureGroup (s : St) (p : Path) : LE1 s (ensureGroup s p) := by
  unfold ensureGroup
  split
  · exact le1_set _ _ _
  · exact LE1.refl _

theorem le1_setArray (s : St) (p : Path) (k : String) (a : NdArr) : LE1 s (setArray s p k a) :=
  (le1_ensureGroup s p).trans (le1_set _ _ _)

theorem le1_storeProp (s : St) (q : Path) (v : NdArr) (m d : Option NdArr) : LE1 s (storeProp s q v m d) := by
  unfold storeProp
  cases m <;> cases d <;> simp only [] <;>
    first
      | exact ((le1_set _ _ _).trans (le1_set _ _ _))
      | exact (((le1_set _ _ _).trans (le1_set _ _ _)).trans (le1_set _ _ _))
      | exact ((((le1_set _ _ _).trans (le1_set _ _ _)).trans (le1_set _ _ _)).trans (le1_set _ _ _))

theorem bind_ok {α β} (x : Outcome α) (f : α → Outcome β) (b : β) (h : (x >>= f) = .ok b) :
    ∃ a, x = .ok a ∧ f a = .ok b := by
  cases x with
  | error e => cases h
  | ok a => exact ⟨a, rfl, h⟩

theorem le1_writeProp (c : VlenCodec) (pre : Path) (s s1 : St) (name : String) (p : PropArr) (pm : PropMeta)
    (h : writeProp c pre s name p = .ok (s1, pm)) : LE1 s s1 := by
  unfold writeProp at h
  obtain ⟨⟨pm', p'⟩, _, h⟩ := bind_ok _ _ _ h
  obtain ⟨⟨values, data⟩, _, h⟩ := bind_ok _ _ _ h
  simp only [] at h
  split at h
  · cases h
  split at h
  · cases h
  split at h
  · cases h
  · cases h
  · cases h
    exact le1_storeProp _ _ _ _ _

theorem le1_writePropsLoop (c : VlenCodec) (pre : Path) (ps : Props) : ∀ (s s1 : St) (pms : List PropMeta),
    writePropsLoop c pre s ps = .ok (s1, pms) → LE1 s s1 := by
  induction ps with
  | nil => intro s s1 pms h; cases h; exact LE1.refl _
  | cons kp rest ih =>
    intro s s1 pms h
    obtain ⟨name, p⟩ := kp
    unfold writePropsLoop at h
    obtain ⟨⟨sa, pm⟩, h1, h⟩ := bind_ok _ _ _ h
    obtain ⟨⟨sb, pms'⟩, h2, h⟩ := bind_ok _ _ _ h
    cases h
    exact (le1_writeProp c pre s sa name p pm h1).trans (ih sa _ pms' h2)

theorem le1_writePropsArrays (c : VlenCodec) (s s1 : St) (grp : String) (ps : Props)
    (uns : Option (List (String × List String))) (pms : List PropMeta)
    (h : writePropsArrays c s grp ps uns = .ok (s1, pms)) : LE1 s s1 := by
  unfold writePropsArrays at h
  simp only [] at h
  have key : ∀ ps', (match Store.get (ensureGroup (ensureGroup (ensureGroup s []) [grp]) [grp, PROPS]) [grp, PROPS] with
      | some (Entry.group _) => writePropsLoop c [grp, PROPS] (ensureGroup (ensureGroup (ensureGroup s []) [grp]) [grp, PROPS]) ps'
      | _ => throw (Err.other "ContainsArrayError")) = Except.ok (s1, pms) → LE1 s s1 := by
    intro ps' h
    split at h
    · exact (((le1_ensureGroup _ _).trans (le1_ensureGroup _ _)).trans (le1_ensureGroup _ _)).trans
        (le1_writePropsLoop c _ ps' _ _ _ h)
    · cases h
  cases uns with
  | none => exact key ps h
  | some u =>
    simp only [] at h
    obtain ⟨ps', _, h⟩ := bind_ok _ _ _ h
    exact key ps' h

theorem le1_writePropsOpt (c : VlenCodec) (s s1 : St) (grp : String) (ps : Option Props)
    (uns : Option (List (String × List String))) (pms : List PropMeta)
    (h : writePropsOpt c s grp ps uns = .ok (s1, pms)) : LE1 s s1 := by
  unfold writePropsOpt at h
  cases ps with
  | none => cases h; exact LE1.refl _
  | some ps => exact le1_writePropsArrays c s s1 grp ps uns pms h

theorem le1_writeIdArrays (s s1 : St) (a b : NdArr) (h : writeIdArrays s a b = .ok s1) : LE1 s s1 := by
  unfold writeIdArrays at h
  split at h
  · cases h
  split at h
  · cases h
  cases h
  exact ((le1_ensureGroup _ _).trans (le1_setArray _ _ _ _)).trans (le1_setArray _ _ _ _)

theorem le1_writeMeta (s : St) (m : GeffAttr) : LE1 s (writeMeta s m) := le1_set _ _ _

theorem le1_writeTail (c : VlenCodec) (s s1 : St) (g : InMem) (md : CallerMeta) (u : Unsquish)
    (h : writeTail c s g md u = .ok s1) : LE1 s s1 := by
  unfold writeTail at h
  simp only [] at h
  obtain ⟨r1, h1, h⟩ := bind_ok _ _ _ h
  obtain ⟨r2, h2, h⟩ := bind_ok _ _ _ h
  obtain ⟨_, _, h⟩ := bind_ok _ _ _ h
  obtain ⟨_, _, h⟩ := bind_ok _ _ _ h
  cases h
  exact ((le1_writePropsOpt c s r1.1 _ _ _ r1.2 h1).trans (le1_writePropsOpt c r1.1 r2.1 _ _ _ r2.2 h2)).trans
    (le1_writeMeta _ _)

theorem le1_writeCore (c : VlenCodec) (s0 s1 : St) (g : InMem) (md : CallerMeta) (u : Unsquish)
    (h : writeCore c s0 g md u = .ok s1) : LE1 s0 s1 := by
  unfold writeCore at h
  simp only [] at h
  split at h
  · cases h
  obtain ⟨sa, h1, h⟩ := bind_ok _ _ _ h
  split at h
  · cases h
  exact ((le1_ensureGroup _ _).trans (le1_writeIdArrays _ _ _ _ h1)).trans (le1_writeTail c _ _ g md u h)

end Geff.WR
