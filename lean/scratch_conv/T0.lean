#check @List.perm_ext_iff_of_nodup
#check @List.lookup
#check @List.zipIdx
#check @List.Pairwise.filter
#check @List.pairwise_append
#check @List.nodup_flatMap
#check @List.count_flatMap
#check @List.mem_zipIdx
#check @List.Forall₂
#check @List.range'
#check @List.foldlM
#check @List.Sorted
#check @List.getLast?
#check @List.head?
#check @List.mem_flatMap
#check @List.filter_append
#check @List.getLast?_append
#eval (3 : Nat) ∈ [1,2,3]
