#check @String.toList_append
#check @String.append_left_inj
#check @String.append_right_inj
example (b : String) : b ++ "-nodes.csv" ≠ b ++ "-edges.csv" := by
  intro h
  have := congrArg String.toList h
  simp [String.toList_append] at this
