import Mathlib.Logic.Relation
#check @Relation.ReflTransGen.mono
#check @Relation.ReflTransGen.lift
