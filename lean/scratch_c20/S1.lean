import Gen.MockData
import GeffProofs.MockData
open Geff.MockData Geff.PyDoMock

def genOf (ok : Bool) (p : Params) := Gen.MockData.createDummyInMemGeff ok p.idDtype ⟨p.posDtype, p.timeDtype⟩ p.directed p.numNodes p.numEdges p.extraNode p.extraEdge p.t p.z p.y p.x p.vl p.ms

def demo : Params :=
  { idDtype := "uint8", timeDtype := "float32", posDtype := "double", directed := false,
    numNodes := 3, numEdges := 7, z := false, vl := true, ms := true,
    extraNode := .dict [(some "label", .auto "str"), (some "score", .arr "float64" 3 0)],
    extraEdge := .dict [(some "w", .auto "int8")] }
#eval genOf false demo == createDummyInMemGeff false demo
#eval genOf false {demo with numNodes := 0} == createDummyInMemGeff false {demo with numNodes := 0}
#eval genOf true {demo with numNodes := 0, extraNode := .none} == createDummyInMemGeff true {demo with numNodes := 0, extraNode := .none}
#eval genOf false {demo with numNodes := 0, extraNode := .none} 
#eval genOf false {demo with extraNode := .notDict} 
set_option pp.explicit false in
#print Gen.MockData.addAxis
