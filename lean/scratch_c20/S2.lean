import Gen.MockData
set_option pp.proofs false
#print Gen.MockData.createDummyInMemGeff
