import Gen.MockData
import GeffProofs.MockData
open Geff.MockData Geff.PyDoMock Gen.MockData

@[simp] theorem ok_bind {α β} (v : α) (f : α → Outcome β) : (Outcome.ok v >>= f) = f v := rfl
@[simp] theorem ve_bind {α β} (f : α → Outcome β) : (Outcome.valueError >>= f) = .valueError := rfl
@[simp] theorem other_bind {α β} (n) (f : α → Outcome β) : (Outcome.other n >>= f) = .other n := rfl
@[simp] theorem pure_eq {α} (v : α) : (pure v : Outcome α) = .ok v := rfl

theorem bind_pure' {α} (x : Outcome α) : (x >>= fun t => pure t) = x := by cases x <;> rfl

theorem dictGet_dictSet {β} (d : Dict β) (k : String) (v : β) : dictGet? (dictSet d k v) k = some v := by
  unfold dictGet? dictSet
  split
  · rename_i h
    induction d with
    | nil => simp at h
    | cons x t ih =>
      simp only [List.map_cons, List.find?_cons]
      by_cases hx : x.1 == k
      · simp [hx]
      · simp only [hx, Bool.false_eq_true, ↓reduceIte]
        simp only [List.any_cons, hx, Bool.false_or] at h
        simpa using ih h
  · rename_i h
    simp only [List.find?_append]
    have : List.find? (fun kv => kv.1 == k) d = none := by
      rw [List.find?_eq_none]; intro x hx hk; exact h (List.any_eq_true.2 ⟨x, hx, hk⟩)
    simp [this]

theorem addAxis_eq (ok : Bool) (n : Nat) (props : Dict PropOut) (axes : List AxisOut) (name ty unit d : String) (v : Values) :
    addAxis ok n props axes name ty unit ⟨npName d, n, .vals v⟩ =
      .ok (dictSet props name (axisTriple n name unit d v).2.1,
           axes ++ [{ name := name, type := ty, unit := unit, hasMinMax := decide (n > 0) }],
           (name, (axisTriple n name unit d v).2.2)) := by
  unfold addAxis
  by_cases hn : n > 0
  · have h0 : ¬ n = 0 := by omega
    simp [mkPropDict, hn, arrMin, arrMax, h0, dictGetItem, dictGet_dictSet, createPropsMetadata, axisTriple, mkAxis]
  · have h0 : n = 0 := by omega
    simp [mkPropDict, h0, dictGetItem, dictGet_dictSet, createPropsMetadata, axisTriple, mkAxis]

theorem mock_eq (ok : Bool) (a : String) (b : AxisDtypes) (c : Bool) (n m : Nat) (xn xe : Extra) (t z y x vl ms : Bool) :
    createMockGeff ok a b c n m xn xe t z y x vl ms =
      match createDummyInMemGeff ok a b c n m xn xe t z y x vl ms with
      | .ok g => .ok (⟨[g]⟩, g)
      | .valueError => .valueError
      | .other e => .other e := by
  unfold createMockGeff
  cases createDummyInMemGeff ok a b c n m xn xe t z y x vl ms <;> simp [writeArraysInto, writeArrays, MemStore.new]

theorem s2d (ok : Bool) (n m : Nat) (d : Bool) : createSimple2dGeff ok n m d =
   createMockGeff ok "uint" ⟨"float64", "float64"⟩ d n m .none simpleEdgeProps true false true true false false := by
  unfold createSimple2dGeff
  exact bind_pure' _
