import GeffModel.Proto
import GeffModel.Ellipsoid
/-! JSON codec of the exact ellipsoid stage for `Drivers/C12.lean` (op `ellipsoid_exact`).
A rational travels as the pair `[numerator, denominator]` of decimal strings. -/
namespace Geff.Validate.EllipsoidProto
open Lean Geff.Proto Geff.Validate

def getRat (j : Json) : Except String Rat := do
  let a ← j.getArr?
  if a.size = 2 then
    let n ← getInt? a[0]!
    let d ← getInt? a[1]!
    if d ≤ 0 then throw "denominator must be positive" else pure (mkRat n d.toNat)
  else throw "rational = [num, den]"

def getMat (j : Json) : Except String Mat := do
  (← j.getArr?).toList.mapM fun r => do (← r.getArr?).toList.mapM getRat

def outcomeJson : Outcome → Json
  | .ok => Json.mkObj [("o", "ok")]
  | .valueError m => Json.mkObj [("o", "ValueError"), ("msg", m)]
  | .other n => Json.mkObj [("o", n)]

/-- `2^-k` -/
def pow2inv (k : Nat) : Rat := (1 : Rat) / ((2 ^ k : Nat) : Rat)

/-- request: `axes`, `shape`, `mats` (list of matrices of `[num, den]`), `missing` (bool list or
null), `slack_log2`, `eps_log2` (the margins `2^-k`).  Answer: outcome of the exact and of the
numpy-criterion validator, `stackWF`, and the classification flags of every matrix. -/
def handle (j : Json) : Except String Json := do
  let axes ← match j.getObjVal? "axes" with
    | .ok Json.null => pure none
    | .ok a => do pure (some (← (← a.getArr?).toList.mapM fun s => s.getStr?))
    | .error e => throw e
  let shape ← (← (← j.getObjVal? "shape").getArr?).toList.mapM fun s => s.getNat?
  let mats ← (← (← j.getObjVal? "mats").getArr?).toList.mapM getMat
  let missing ← match j.getObjVal? "missing" with
    | .ok Json.null => pure none
    | .ok m => do pure (some (← (← m.getArr?).toList.mapM fun b => b.getBool?))
    | .error _ => pure none
  let slack := pow2inv (← (← j.getObjVal? "slack_log2").getNat?)
  let eps := pow2inv (← (← j.getObjVal? "eps_log2").getNat?)
  let flags := mats.map fun A => Json.mkObj [
    ("sym", isSymmetric A), ("close", allcloseSym A),
    ("racc", symRobustlyAcceptedBy slack A), ("rrej", symRobustlyRejectedBy slack A),
    ("vis", visiblyAsymmetric A), ("pd", sylvester A),
    ("pin", pdRobustlyInsideBy eps A), ("pout", pdRobustlyOutsideBy eps A)]
  return Json.mkObj [
    ("exact", outcomeJson (validateEllipsoidExact axes shape mats missing)),
    ("tol", outcomeJson (validateEllipsoidTol axes shape mats missing)),
    ("wf", stackWF shape mats),
    ("flags", Json.arr flags.toArray)]

end Geff.Validate.EllipsoidProto
