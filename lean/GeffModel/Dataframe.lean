/-! Executable model of `geff.convert._dataframe.geff_to_dataframes` (core Lean only).

Abstract input: the in-memory geff that `read_to_memory` returns, with every value an opaque token
of type `α` (the table export only *moves* values, it never computes on them):
* node ids, edge ids (pairs),
* per property: name, the trailing shape `trail` (`values.shape = (n, *trail)`), the rows
  `values[r].ravel()` and the optional `missing` mask.
A geff property array always has at least the leading node/edge axis (structure validation, which
`read_to_memory` runs first), hence `trail` rather than a possibly empty `shape`.

Output: the two `df_dict` dictionaries handed to `pd.DataFrame` (insertion-ordered, a repeated key
overwrites the value but keeps its position) and the warnings emitted.  A cell is a value or NaN
(`Series.mask`).  pandas itself (dtype upcasts of masked columns, CSV text) is not modelled. -/
namespace Geff.Dataframe

inductive Outcome (α : Type) where
  | ok (v : α)
  | valueError
  | indexError
deriving Repr, DecidableEq

inductive Cell (α : Type) where
  | val (a : α)
  | nan
deriving Repr, DecidableEq

structure PropArr (α : Type) where
  name : String
  trail : List Nat
  rows : List (List α)
  missing : Option (List Bool)
deriving Repr

abbrev Column (α : Type) := String × List (Cell α)
abbrev Dict (α : Type) := List (Column α)

/-- `values.shape[:1] + tuple(dim for dim in values.shape[1:] if dim != 1)`, trailing part -/
def squeezeTrail (trail : List Nat) : List Nat := trail.filter (fun d => d ≠ 1)

/-- `values[:, i]` on the (n, k) view of the rows (`i = 0`, `k = 1` is the 1-d array itself);
`none` = numpy `IndexError` (cannot happen for a well-formed array) -/
def colAt {α : Type} (i : Nat) : List (List α) → Option (List α)
  | [] => some []
  | r :: rs =>
    match r[i]?, colAt i rs with
    | some a, some t => some (a :: t)
    | _, _ => none

/-- `Series.mask(missing)`: NaN where the mask is set (pandas raises `ValueError` when the mask
length differs from the series length) -/
def maskCells {α : Type} : List α → List Bool → List (Cell α)
  | a :: as, m :: ms => (if m then Cell.nan else Cell.val a) :: maskCells as ms
  | _, _ => []

/-- `series = pd.Series(col); if missing is not None and any(missing): series = series.mask(missing)` -/
def mkSeries {α : Type} (col : List α) (missing : Option (List Bool)) : Outcome (List (Cell α)) :=
  match missing with
  | none => .ok (col.map Cell.val)
  | some m =>
    if m.any id then
      if m.length = col.length then .ok (maskCells col m) else .valueError
    else .ok (col.map Cell.val)

/-- Python `d[k] = v` -/
def dictSet {α : Type} (d : Dict α) (k : String) (v : List (Cell α)) : Dict α :=
  if d.any (fun e => e.1 = k) then d.map (fun e => if e.1 = k then (k, v) else e) else d ++ [(k, v)]

/-- `f"{name}_{i}"` -/
def subName (name : String) (i : Nat) : String := name ++ "_" ++ toString i

/-- the `for i in range(values.shape[1])` loop of the 2-d branch, `i = start … start+cnt-1` -/
def addCols2 {α : Type} (p : PropArr α) : Nat → Nat → Dict α → Outcome (Dict α)
  | _, 0, d => .ok d
  | i, cnt + 1, d =>
    match colAt i p.rows with
    | none => .indexError
    | some col =>
      match mkSeries col p.missing with
      | .ok s => addCols2 p (i + 1) cnt (dictSet d (subName p.name i) s)
      | .valueError => .valueError
      | .indexError => .indexError

/-- a warning: (property name, ndim) of
`"{data_type} {name} ({ndim}D) will not be exported to csv with more than 2 dimensions"` -/
abbrev Warning := String × Nat

/-- body of `for name, prop in props.items()` -/
def addProp {α : Type} (acc : Dict α × List Warning) (p : PropArr α) : Outcome (Dict α × List Warning) :=
  match squeezeTrail p.trail with
  | [k] =>                                   -- ndim == 2
    match addCols2 p 0 k acc.1 with
    | .ok d => .ok (d, acc.2)
    | .valueError => .valueError
    | .indexError => .indexError
  | [] =>                                    -- data is 1-d
    match colAt 0 p.rows with
    | none => .indexError
    | some col =>
      match mkSeries col p.missing with
      | .ok s => .ok (dictSet acc.1 p.name s, acc.2)
      | .valueError => .valueError
      | .indexError => .indexError
  | sq =>                                    -- ndim > 2: warn, skip
    .ok (acc.1, acc.2 ++ [(p.name, sq.length + 1)])

def addProps {α : Type} : Dict α × List Warning → List (PropArr α) → Outcome (Dict α × List Warning)
  | acc, [] => .ok acc
  | acc, p :: ps =>
    match addProp acc p with
    | .ok acc' => addProps acc' ps
    | .valueError => .valueError
    | .indexError => .indexError

/-- `np.prod(trail)` : the length of `values[r].ravel()` -/
def prodNat : List Nat → Nat
  | [] => 1
  | d :: ds => d * prodNat ds

structure InMemGeff (α : Type) where
  nodeIds : List α
  edgeIds : List (α × α)
  nodeProps : List (PropArr α)
  edgeProps : List (PropArr α)
deriving Repr

def nodeIdCols {α : Type} (g : InMemGeff α) : Dict α := [("id", g.nodeIds.map Cell.val)]
def edgeIdCols {α : Type} (g : InMemGeff α) : Dict α :=
  [("source", g.edgeIds.map (fun e => Cell.val e.1)), ("target", g.edgeIds.map (fun e => Cell.val e.2))]

structure Tables (α : Type) where
  nodes : Dict α
  nodeWarnings : List Warning
  edges : Dict α
  edgeWarnings : List Warning
deriving Repr, DecidableEq

/-- `geff_to_dataframes` after `read_to_memory` -/
def geffToDataframes {α : Type} (g : InMemGeff α) : Outcome (Tables α) :=
  match addProps (nodeIdCols g, []) g.nodeProps with
  | .ok (nd, nw) =>
    match addProps (edgeIdCols g, []) g.edgeProps with
    | .ok (ed, ew) => .ok ⟨nd, nw, ed, ew⟩
    | .valueError => .valueError
    | .indexError => .indexError
  | .valueError => .valueError
  | .indexError => .indexError

/-- a sequence of exports in one process: `geff_to_dataframes` keeps no state between calls -/
def exportSeq {α : Type} (gs : List (InMemGeff α)) : List (Outcome (Tables α)) := gs.map geffToDataframes

/-! ### the column names a property must produce (specification side; used by the theorems'
`NoCollision` hypothesis and, through the driver, by the harness' known-finding classification) -/

/-- `name` when no trailing dimension differs from 1, `name_0 … name_{k-1}` when exactly one does
(`k` = that dimension), none for higher rank -/
def colNames {α : Type} (p : PropArr α) : List String :=
  match squeezeTrail p.trail with
  | [] => [p.name]
  | [k] => (List.range' 0 k).map (subName p.name)
  | _ => []

/-- no two sources (id columns, property columns) claim the same column name -/
def noCollisionB {α : Type} (idNames : List String) (props : List (PropArr α)) : Bool :=
  decide ((idNames ++ props.flatMap colNames).Nodup)

/-! ### `geff_to_csv`: which files are written (file system = path ↦ content) -/

abbrev FS := List (String × String)

def fsGet (fs : FS) (path : String) : Option String :=
  match fs with
  | [] => none
  | e :: rest => if e.1 = path then some e.2 else fsGet rest path

def fsSet (fs : FS) (path content : String) : FS :=
  match fs with
  | [] => [(path, content)]
  | e :: rest => if e.1 = path then (path, content) :: rest else e :: fsSet rest path content

/-- `df.to_csv(path, mode=mode)`: mode `"x"` raises `FileExistsError` when the file exists, mode
`"w"` truncates.  Returns (raised, file system afterwards). -/
def toCsv (fs : FS) (path content : String) (overwrite : Bool) : Bool × FS :=
  if !overwrite && (fsGet fs path).isSome then (true, fs) else (false, fsSet fs path content)

/-- `geff_to_csv` after the tables have been computed: the node table first, then the edge table,
both with `mode = "w" if overwrite else "x"`; an exception ends the call. -/
def geffToCsv (fs : FS) (base nodeCsv edgeCsv : String) (overwrite : Bool) : Bool × FS :=
  match toCsv fs (base ++ "-nodes.csv") nodeCsv overwrite with
  | (true, fs') => (true, fs')
  | (false, fs') => toCsv fs' (base ++ "-edges.csv") edgeCsv overwrite

end Geff.Dataframe
