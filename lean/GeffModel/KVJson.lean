import GeffModel.Proto
import GeffModel.KV
/-! JSON codec and request handler of the key-view model (drivers of C05 and C06).

requests (one object per line):
* `{"op":"trace", "fmt":2|3, "kind":"mem"|"loc"|"path", "docs":{…}, "pre":[[key,blob]…],
   "g":{…}, "entry":"write_arrays"|"write_dicts"|"api", "overwrite":b, "validate":b, "states":b}`
  → `{"ops":[[kind,key,blob]…], "outcome":…, "final":[[key,blob]…], "rec":[b…] (recognised after
  the first k mutations, k = 0…n), "check": b (check_for_geff on the pre-state), "states":[[…]…]?}`
* `{"op":"history", … "steps":[{"g","entry","overwrite","validate"}…]}` → per step outcome / number
  of mutations / store afterwards.
keys are `[[path components], leaf, chunk]`, blobs `["raw", id]` or `["root", geff|null, other]`. -/
namespace Geff.KVJson
open Lean Geff.KV Geff.KV.Prog

def leafOfJson (l c : String) : Except String Leaf :=
  match l with
  | "zgroup" => .ok .zgroup | "zattrs" => .ok .zattrs | "zarray" => .ok .zarray
  | "json" => .ok .json | "chunk" => .ok (.chunk c)
  | _ => .error s!"leaf {l}"

def keyOfJson (j : Json) : Except String Key := do
  let a ← j.getArr?
  if a.size ≠ 3 then throw "key: 3 fields expected"
  let p ← (← a[0]!.getArr?).toList.mapM (·.getStr?)
  return ⟨p, ← leafOfJson (← a[1]!.getStr?) (← a[2]!.getStr?)⟩

def leafName : Leaf → String
  | .zgroup => ".zgroup" | .zattrs => ".zattrs" | .zarray => ".zarray" | .json => "zarr.json"
  | .chunk c => c

def keyStr (k : Key) : String := "/".intercalate (k.path ++ [leafName k.leaf])

def blobOfJson (j : Json) : Except String Blob := do
  let a ← j.getArr?
  match (← a[0]!.getStr?) with
  | "raw" => return .raw (← a[1]!.getStr?)
  | "root" =>
    let g : Option String := match a[1]! with | .str s => some s | _ => none
    return .root g (← a[2]!.getStr?)
  | t => throw s!"blob {t}"

def blobJson : Blob → Json
  | .raw s => Json.arr #["raw", s]
  | .root g o => Json.arr #["root", (match g with | some s => Json.str s | none => Json.null), o]

def kvOfJson (j : Json) : Except String KV := do
  (← j.getArr?).toList.mapM fun e => do
    let a ← e.getArr?
    return (← keyOfJson a[0]!, ← blobOfJson a[1]!)

def kvJson (kv : KV) : Json := Json.arr (kv.map (fun e => Json.arr #[keyStr e.1, blobJson e.2])).toArray

def opJson : Op → Json
  | .set k b => Json.arr #["set", keyStr k, blobJson b]
  | .setnx k b => Json.arr #["setnx", keyStr k, blobJson b]
  | .del k => Json.arr #["del", keyStr k]
  | .delPrefix p => Json.arr #["delprefix", "/".intercalate p]
  | .clear => Json.arr #["clear", ""]

def outcomeStr {α} : Except Outcome α → String
  | .ok _ => "ok"
  | .error .fileExists => "FileExistsError"
  | .error .valueError => "ValueError"
  | .error .typeError => "TypeError"
  | .error (.other n) => "other:" ++ n

def fmtOfJson (j : Json) : Except String Fmt := do
  match (← j.getNat?) with | 2 => return .v2 | 3 => return .v3 | n => throw s!"fmt {n}"

def kindOfJson (j : Json) : Except String Kind := do
  match (← j.getStr?) with
  | "mem" => return .mem | "loc" => return .loc | "path" => return .path | k => throw s!"kind {k}"

def getBoolD (j : Json) (k : String) (dflt : Bool) : Bool :=
  match j.getObjVal? k with | .ok (.bool b) => b | _ => dflt

def arrOfJson (j : Json) : Except String Arr := do
  let cs ← (← (← j.getObjVal? "c").getArr?).toList.mapM fun c => do
    let a ← c.getArr?
    let b : Option String := match a[1]! with | .str s => some s | _ => none
    return (← a[0]!.getStr?, b)
  return { mdoc := ← (← j.getObjVal? "m").getStr?, chunks := cs, writable := getBoolD j "w" true }

def optArr (j : Json) (k : String) : Except String (Option Arr) :=
  match j.getObjVal? k with
  | .ok .null => .ok none
  | .ok v => (arrOfJson v).map some
  | .error _ => .ok none

def propOfJson (j : Json) : Except String PropA := do
  return { name := ← (← j.getObjVal? "name").getStr?, metaOk := getBoolD j "metaOk" true,
           values := ← arrOfJson (← j.getObjVal? "values"),
           missing := ← optArr j "missing", data := ← optArr j "data" }

def optProps (j : Json) (k : String) : Except String (Option (List PropA)) :=
  match j.getObjVal? k with
  | .ok .null => .ok none
  | .ok v => do return some (← (← v.getArr?).toList.mapM propOfJson)
  | .error _ => .ok none

def gOfJson (j : Json) : Except String G := do
  return { idsOk := getBoolD j "idsOk" true,
           nodeIds := ← arrOfJson (← j.getObjVal? "nodeIds"),
           edgeIds := ← arrOfJson (← j.getObjVal? "edgeIds"),
           nodeProps := ← optProps j "nodeProps", edgeProps := ← optProps j "edgeProps",
           geff := ← (← j.getObjVal? "geff").getStr?, valid := getBoolD j "valid" true }

def docsOfJson (j : Json) : Except String Docs := do
  return { zgroup := ← (← j.getObjVal? "zgroup").getStr?, zattrs := ← (← j.getObjVal? "zattrs").getStr?,
           gjson := ← (← j.getObjVal? "gjson").getStr?, emptyOther := ← (← j.getObjVal? "emptyOther").getStr? }

def entryProg (d : Docs) (kind : Kind) (f : Fmt) (j : Json) : Except String (Prog Unit) := do
  let g ← gOfJson (← j.getObjVal? "g")
  let ow := getBoolD j "overwrite" false
  let va := getBoolD j "validate" true
  match (← (← j.getObjVal? "entry").getStr?) with
  | "write_arrays" => return writeArrays d kind f g ow va
  | "write_dicts" => return writeDicts d kind f g va
  | "api" => return apiWrite d kind f g ow va
  | e => throw s!"entry {e}"

def entryPhases (d : Docs) (kind : Kind) (f : Fmt) (j : Json) (kv : KV) : Except String Phases := do
  let g ← gOfJson (← j.getObjVal? "g")
  let ow := getBoolD j "overwrite" false
  let va := getBoolD j "validate" true
  match (← (← j.getObjVal? "entry").getStr?) with
  | "write_arrays" => return phases d kind f g ow va kv
  | "write_dicts" => return phases d kind f g false va kv
  | "api" => return apiPhases d kind f g ow va kv
  | e => throw s!"entry {e}"

/-- states after the first k mutations, k = 0 … n -/
def prefixStates (kv : KV) : List Op → List KV
  | [] => [kv]
  | o :: os => kv :: prefixStates (step kv o) os

def handle (j : Json) : Except String Json := do
  let f ← fmtOfJson (← j.getObjVal? "fmt")
  let kind ← kindOfJson (← j.getObjVal? "kind")
  let d ← docsOfJson (← j.getObjVal? "docs")
  let pre ← kvOfJson (← j.getObjVal? "pre")
  match (← (← j.getObjVal? "op").getStr?) with
  | "trace" =>
    let p ← entryProg d kind f j
    let r := p pre
    let ph ← entryPhases d kind f j pre
    let sts := prefixStates pre r.ops
    let base := [("ops", Json.arr (r.ops.map opJson).toArray), ("outcome", Json.str (outcomeStr r.val)),
                 ("final", kvJson (run pre r.ops)),
                 ("rec", Json.arr (sts.map (fun s => Json.bool (recognised f s))).toArray),
                 ("check", Json.bool (checkForGeff kind pre)),
                 ("phases", Json.arr #[ph.D.length, ph.W.length, ph.C.length, ph.X.length]),
                 ("committed", Json.bool ph.committed)]
    let more := if getBoolD j "states" false then [("states", Json.arr (sts.map kvJson).toArray)] else []
    return Json.mkObj (base ++ more)
  | "history" =>
    let steps ← (← j.getObjVal? "steps").getArr?
    let mut kv := pre
    let mut out : Array Json := #[]
    for s in steps do
      let p ← entryProg d kind f s
      let r := p kv
      let chk := checkForGeff kind kv
      kv := run kv r.ops
      out := out.push (Json.mkObj [("outcome", Json.str (outcomeStr r.val)), ("nops", r.ops.length),
                                   ("check", Json.bool chk), ("state", kvJson kv),
                                   ("recognised", Json.bool (recognised f kv))])
    return Json.mkObj [("steps", Json.arr out)]
  | o => throw s!"unknown op {o}"

end Geff.KVJson
