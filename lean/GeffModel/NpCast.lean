import GeffModel.Np
/-! numpy's safe-cast relation and type promotion on `Geff.Np.Dtype` (core Lean only).

`canCastSafe a b`  = `np.can_cast(a, b, casting="safe")`
`promote a b`      = `np.promote_types(a, b)`
`resultType ds`    = `np.result_type(*ds)`           (`none` for the empty list and for `other`)

**Library tie.**  Nothing here is proved about numpy; instead `harness/corr/C11.py` re-derives, on
every run, every entry of the 15 x 15 `canCastSafe` and `promote` tables, `resultType` of every
subset of the 15 tabulated dtypes and of every sequence of length <= 3 from the *installed* numpy
and diffs them with what these definitions compute (driver op `"tables"`).

Conventions of the tabulation.  `Np.Dtype` collapses every unicode / bytes width into `str` /
`bytes`; the tabulated representative is a string type *wide enough* to hold the repr of any number
(`<U64`, `S64`), so `canCastSafe i64 str = true` (numpy: true from `<U21` on) while promotion does
not depend on the width at all (`promote_types(int64, "<U3") = "<U21"`, still `str`).  `other`
(complex, datetime, structured, ...) is a bucket, not a dtype: it has no numpy answer, so
`canCastSafe` is `false` and `promote`/`resultType` are `none` whenever it is involved, and the
harness does not tabulate it.

numpy's binary promotion is **not associative** (`promote_not_assoc` below), therefore a left fold
of `promote` over a sequence depends on the order of the sequence.  `np.result_type` of many
dtypes is computed by numpy in an order-independent way; the model does the same by first
summarising the sequence in a commutative, associative, idempotent way (`Summ`: the largest width
seen per kind) and then reading the result off the summary. -/
namespace Geff.Np
namespace Dtype

/-- `np.can_cast(a, b, casting="safe")` -/
def canCastSafe (a b : Dtype) : Bool :=
  match a, b with
  | other, _ | _, other => false
  | _, obj => true
  | obj, _ => false
  | str, str => true
  | str, _ => false
  | bytes, str | bytes, bytes => true
  | bytes, _ => false
  | _, str | _, bytes => true            -- number -> wide enough string
  | bool, _ => true
  | _, bool => false
  | a, b =>
    if a.isFloat then b.isFloat && a.bits ≤ b.bits
    else if b.isFloat then min 64 (2 * a.bits) ≤ b.bits          -- int -> float
    else if a.isUnsigned then
      if b.isUnsigned then a.bits ≤ b.bits else a.bits < b.bits   -- uint -> uint / int
    else b.isSigned && a.bits ≤ b.bits                            -- int -> int (never -> uint)

/-- Summary of a collection of dtypes: the largest signed / unsigned / float width met
(0 = none met) and which non-numeric kinds were met. -/
structure Summ where
  any : Bool := false     -- at least one dtype (bool contributes nothing else)
  s : Nat := 0
  u : Nat := 0
  f : Nat := 0
  bytes : Bool := false
  str : Bool := false
  obj : Bool := false
  other : Bool := false
deriving DecidableEq, Repr

def Summ.join (x y : Summ) : Summ :=
  { any := x.any || y.any, s := max x.s y.s, u := max x.u y.u, f := max x.f y.f,
    bytes := x.bytes || y.bytes, str := x.str || y.str, obj := x.obj || y.obj,
    other := x.other || y.other }

def summ (d : Dtype) : Summ :=
  match d with
  | bool => { any := true }
  | i8 | i16 | i32 | i64 => { any := true, s := d.bits }
  | u8 | u16 | u32 | u64 => { any := true, u := d.bits }
  | f16 | f32 | f64 => { any := true, f := d.bits }
  | bytes => { any := true, bytes := true }
  | str => { any := true, str := true }
  | obj => { any := true, obj := true }
  | other => { any := true, other := true }

def mkInt (b : Nat) : Dtype := if b ≤ 8 then i8 else if b ≤ 16 then i16 else if b ≤ 32 then i32 else i64
def mkUInt (b : Nat) : Dtype := if b ≤ 8 then u8 else if b ≤ 16 then u16 else if b ≤ 32 then u32 else u64
def mkFloat (b : Nat) : Dtype := if b ≤ 16 then f16 else if b ≤ 32 then f32 else f64

/-- float width needed to hold every integer of width `b` "safely" in numpy's sense
(8 -> 16, 16 -> 32, 32 -> 64, 64 -> 64; 0 = no integer met) -/
def floatFor (b : Nat) : Nat := min 64 (2 * b)

/-- common dtype of booleans, integers and floats whose largest signed / unsigned / float widths are
`s`, `u`, `f` (0 = kind not met) -/
def numResult (s u f : Nat) : Dtype :=
  if f ≠ 0 then mkFloat (max f (max (floatFor s) (floatFor u)))
  else if s = 0 && u = 0 then bool
  else if s = 0 then mkUInt u
  else if u = 0 then mkInt s
  else if max s (2 * u) ≤ 64 then mkInt (max s (2 * u))
  else f64                                        -- uint64 with a signed integer

/-- read the common dtype off a summary: numbers < bytes < str < object -/
def Summ.result (x : Summ) : Option Dtype :=
  if !x.any || x.other then none
  else if x.obj then some Dtype.obj
  else if x.str then some Dtype.str
  else if x.bytes then some Dtype.bytes
  else some (numResult x.s x.u x.f)

def summAll (ds : List Dtype) : Summ := ds.foldl (fun acc d => acc.join (summ d)) {}

/-- `np.result_type(*ds)` -/
def resultType (ds : List Dtype) : Option Dtype := (summAll ds).result

/-- `np.promote_types(a, b)` -/
def promote (a b : Dtype) : Option Dtype := resultType [a, b]

/-- the dtypes that are tabulated against numpy -/
def tabulated : List Dtype := [bool, i8, i16, i32, i64, u8, u16, u32, u64, f16, f32, f64, str, bytes, obj]

end Dtype
end Geff.Np
