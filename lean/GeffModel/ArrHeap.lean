/-! # numpy buffers and the array objects that share them (property C18, write side, arrays)

A numpy array object (a *cell*) has an identity, a header (dtype incl. byte order, shape, strides,
flags — one opaque token) and reads and writes one *buffer*; several cells may share a buffer
(views).  The caller's id arrays and property arrays are the cells and buffers that exist when a
write-side function is entered.

## Layer A — operations on cells (`Op`, `step`, `run`)

* `alloc`      a fresh buffer and a fresh cell on it: `np.array(copy=True)`, `np.asarray` of a list,
               `astype` (copying), `np.zeros/empty/ones`, `np.concatenate`, `np.stack`, boolean-mask and
               integer-array indexing, arithmetic results, `.copy()`, `copy.deepcopy`;
* `view`       a fresh cell on the buffer of an existing cell: basic slicing, `reshape`/`ravel` of
               contiguous data, `astype(copy=False)` with an equal dtype, `.T`, `squeeze`,
               `np.asarray` of an ndarray (which may even return the same cell: `Ev.bindAlias` below);
* `writeInto`  an in-place write through a cell: subscript assignment, augmented assignment, `out=`,
               `fill`/`sort`/`byteswap(inplace=True)`/`resize`/`put`/`setfield`, `np.copyto`/`place`/`putmask`;
* `setHdr`     an assignment to the header of a cell: `arr.flags.writeable = …`, `arr.dtype = …`,
               `arr.shape = …`, `setflags`.

An operation naming a cell that does not exist cannot be written in Python (there is no way to
refer to an object that does not exist); `step` then leaves the heap as it is (these branches take
part in no run the theorems are used for: `Ev` below only ever names bound cells).

## Layer B — programs over variables (`SOp`, `Prog`) and their executions (`Ev`, `stepEv`)

What translator T11 extracts from the source: per function, over *versions* of local names (one
version per binding site; a use lists the versions that may reach it),

* `fresh x`        `x` is bound to a newly allocated array,
* `derive x ys`    `x` is bound to something obtained from `ys`: a view, the same object, an element of
                   a container, a container built from them, the result of a call that received them,
* `write xs`       an in-place write through the object bound to one of `xs`,
* `setHdr xs`      a header assignment on the object bound to one of `xs`.

An execution is any sequence of events, in any order and number (loops, branches, early exits,
exceptions), each an instance of an operation of the program.  The semantics of a `derive` binding is
deliberately *larger* than Python's: the new binding may be **any** existing cell or a new view of
any existing cell, whatever the sources were — so containers (dicts, lists, tuples, object arrays
holding references) need no cells of their own: whatever object a container lookup, an iteration, a
call or an attribute access can possibly produce is covered.  Core Lean only. -/
namespace Geff.ArrHeap

/-- the contents of one buffer (opaque element tokens; for an object array: the references) -/
abbrev Buf := List Nat

structure Cell where
  buf : Nat
  hdr : Nat
deriving DecidableEq, Repr, Inhabited

structure Heap where
  bufs : List Buf
  cells : List Cell
deriving DecidableEq, Repr, Inhabited

inductive Op where
  | alloc (contents : Buf) (hdr : Nat)
  | view (src : Nat) (hdr : Nat)
  | writeInto (tgt : Nat) (new : Buf)
  | setHdr (tgt : Nat) (hdr : Nat)
deriving DecidableEq, Repr

def step (h : Heap) : Op → Heap
  | .alloc c hd => ⟨h.bufs ++ [c], h.cells ++ [⟨h.bufs.length, hd⟩]⟩
  | .view s hd =>
    match h.cells[s]? with
    | some c => ⟨h.bufs, h.cells ++ [⟨c.buf, hd⟩]⟩
    | none => h
  | .writeInto t new =>
    match h.cells[t]? with
    | some c => ⟨h.bufs.set c.buf new, h.cells⟩
    | none => h
  | .setHdr t hd =>
    match h.cells[t]? with
    | some c => ⟨h.bufs, h.cells.set t ⟨c.buf, hd⟩⟩
    | none => h

def run (h : Heap) (ops : List Op) : Heap := ops.foldl step h

/-- every cell refers to an existing buffer -/
def Heap.WF (h : Heap) : Prop := ∀ (i : Nat) (c : Cell), h.cells[i]? = some c → c.buf < h.bufs.length

/-- the operation does not touch what existed at entry (`nb` buffers, `nc` cells): a write goes
through a cell whose buffer was allocated later, a header assignment to a cell created later -/
def Op.safe (nb nc : Nat) (h : Heap) : Op → Bool
  | .writeInto t _ =>
    match h.cells[t]? with
    | some c => decide (nb ≤ c.buf)
    | none => true
  | .setHdr t _ => decide (nc ≤ t)
  | _ => true

def safeRun (nb nc : Nat) : Heap → List Op → Bool
  | _, [] => true
  | h, op :: t => op.safe nb nc h && safeRun nb nc (step h op) t

/-- ghost: which cells are *derived from an entry cell through views* (entry cells themselves,
views of them, views of views …); kept in step with `cells` -/
def stepD (h : Heap) (d : List Bool) : Op → List Bool
  | .alloc _ _ => d ++ [false]
  | .view s _ =>
    match h.cells[s]? with
    | some _ => d ++ [d[s]?.getD false]
    | none => d
  | _ => d

def runD : Heap → List Bool → List Op → Heap × List Bool
  | h, d, [] => (h, d)
  | h, d, op :: t => runD (step h op) (stepD h d op) t

/-! ## Layer B -/

abbrev Var := Nat

inductive SOp where
  | fresh (x : Var)
  | derive (x : Var) (ys : List Var)
  | write (xs : List Var)
  | setHdr (xs : List Var)
deriving DecidableEq, Repr

structure Prog where
  params : List Var
  ops : List SOp
deriving DecidableEq, Repr

def Prog.freshDef (p : Prog) (x : Var) : Bool :=
  p.ops.any fun | .fresh y => y == x | _ => false
def Prog.deriveDef (p : Prog) (x : Var) : Bool :=
  p.ops.any fun | .derive y _ => y == x | _ => false
def Prog.writes (p : Prog) (x : Var) : Bool :=
  p.ops.any fun | .write xs => xs.contains x | _ => false
def Prog.setsHdr (p : Prog) (x : Var) : Bool :=
  p.ops.any fun | .setHdr xs => xs.contains x | _ => false

/-- `x` can only ever be bound to an array the program allocated itself: it is not a parameter and
no binding of it derives from anything -/
def Prog.own (p : Prog) (x : Var) : Bool := !p.params.contains x && !p.deriveDef x

/-- **the obligation decided on the generated term**: every in-place write and every header
assignment goes through a variable that can only hold an array the function allocated itself -/
def Prog.safe (p : Prog) : Bool :=
  p.ops.all fun
    | .write xs => xs.all p.own
    | .setHdr xs => xs.all p.own
    | _ => true

/-- one step of an execution -/
inductive Ev where
  | bindFresh (x : Var) (contents : Buf) (hdr : Nat)
  | bindView (x : Var) (src : Nat) (hdr : Nat)
  | bindAlias (x : Var) (src : Nat)
  | write (x : Var) (new : Buf)
  | setHdr (x : Var) (hdr : Nat)
deriving DecidableEq, Repr

/-- the event is an instance of an operation of the program -/
def Ev.allowed (p : Prog) : Ev → Bool
  | .bindFresh x _ _ => p.freshDef x
  | .bindView x _ _ => p.deriveDef x
  | .bindAlias x _ => p.deriveDef x
  | .write x _ => p.writes x
  | .setHdr x _ => p.setsHdr x

structure State where
  heap : Heap
  env : Var → Option Nat

def upd (env : Var → Option Nat) (x : Var) (c : Nat) : Var → Option Nat :=
  fun y => if y = x then some c else env y

def stepEv (s : State) : Ev → State
  | .bindFresh x c hd => ⟨step s.heap (.alloc c hd), upd s.env x s.heap.cells.length⟩
  | .bindView x src hd =>
    if src < s.heap.cells.length then ⟨step s.heap (.view src hd), upd s.env x s.heap.cells.length⟩
    else s
  | .bindAlias x src => if src < s.heap.cells.length then ⟨s.heap, upd s.env x src⟩ else s
  | .write x new =>
    match s.env x with
    | some c => ⟨step s.heap (.writeInto c new), s.env⟩
    | none => s                                         -- NameError: nothing happens to the heap
  | .setHdr x hd =>
    match s.env x with
    | some c => ⟨step s.heap (.setHdr c hd), s.env⟩
    | none => s

def runEv (s : State) (evs : List Ev) : State := evs.foldl stepEv s

/-- environments as association lists (for the driver and the `decide`d examples) -/
def envOf (l : List (Var × Nat)) : Var → Option Nat :=
  fun x => (l.find? (·.1 == x)).map (·.2)

end Geff.ArrHeap
