import GeffModel.Proto
import GeffModel.WriteRead
/-! JSON transport of arrays, in-memory geffs and stores between `harness/corr/_rw_shared.py` and the
C01/C02 drivers (format described in the Python module). -/
namespace Geff.WRJson
open Lean Geff.Np Geff.Store Geff.WR Geff.Proto

def dtypeOfJson (s : String) : Dtype := (Dtype.ofName? s).getD .other

def valOfJson (d : Dtype) (j : Json) : Except String Val :=
  if d = .bool then do pure (.b (← j.getBool?))
  else if d.isInteger then do pure (.i (← getInt? j))
  else if d.isFloat then do pure (.f (← j.getStr?))
  else if d = .str then do pure (.s (← j.getStr?))
  else throw "value of an unsupported dtype"

def arrOfJson (j : Json) : Except String NdArr := do
  let d := dtypeOfJson (← (← j.getObjVal? "dtype").getStr?)
  let shape ← (← (← j.getObjVal? "shape").getArr?).toList.mapM (fun x => x.getNat?)
  let flat ← (← (← j.getObjVal? "flat").getArr?).toList.mapM (valOfJson d)
  pure { dtype := d, shape := shape, flat := flat }

def valToJson : Val → Json
  | .b v => Json.bool v
  | .i v => intJson v
  | .f h => Json.str h
  | .s v => Json.str v

def arrToJson (a : NdArr) : Json :=
  Json.mkObj [("dtype", Json.str a.dtype.name), ("shape", Json.arr (a.shape.map (fun n => Json.num (JsonNumber.fromNat n))).toArray),
              ("flat", Json.arr (a.flat.map valToJson).toArray)]

def optArrOfJson (j : Json) : Except String (Option NdArr) :=
  if j.isNull then pure none else do pure (some (← arrOfJson j))

def propOfJson (j : Json) : Except String PropArr := do
  let v ← j.getObjVal? "values"
  let vals ← match v.getObjVal? "obj" with
    | .ok es => do pure (PVals.obj (← (← es.getArr?).toList.mapM arrOfJson))
    | .error _ => do pure (PVals.dense (← arrOfJson v))
  pure ⟨vals, ← optArrOfJson (← j.getObjVal? "missing")⟩

def propToJson (p : PropArr) : Json :=
  let v := match p.values with
    | .dense a => arrToJson a
    | .obj es => Json.mkObj [("obj", Json.arr (es.map arrToJson).toArray)]
  Json.mkObj [("values", v), ("missing", match p.missing with | some m => arrToJson m | none => Json.null)]

def propsOfJson (j : Json) : Except String (Option Props) :=
  if j.isNull then pure none else do
    let l ← (← j.getArr?).toList.mapM (fun kv => do
      let a ← kv.getArr?
      if a.size = 2 then pure ((← a[0]!.getStr?), (← propOfJson a[1]!)) else throw "[name, prop] expected")
    pure (some l)

def propsToJson (ps : Props) : Json :=
  Json.arr (ps.map (fun kv => Json.arr #[Json.str kv.1, propToJson kv.2])).toArray

def inMemOfJson (j : Json) : Except String InMem := do
  pure ⟨← arrOfJson (← j.getObjVal? "node_ids"), ← arrOfJson (← j.getObjVal? "edge_ids"),
        ← propsOfJson (← j.getObjVal? "node_props"), ← propsOfJson (← j.getObjVal? "edge_props")⟩

def propMetasOfJson (j : Json) : Except String (List (String × PropMeta)) := do
  (← j.getArr?).toList.mapM (fun e => do
    let a ← e.getArr?
    if a.size = 4 then
      let vl ← if a[3]!.isNull then pure none else do pure (some (← a[3]!.getBool?))
      pure ((← a[0]!.getStr?), ⟨← a[1]!.getStr?, ← a[2]!.getStr?, vl⟩)
    else if a.size = 3 then
      -- caller metadata: [key, dtype, varlength]
      let k ← a[0]!.getStr?
      pure (k, ⟨k, ← a[1]!.getStr?, some (← a[2]!.getBool?)⟩)
    else throw "[key, identifier, dtype, varlength] expected")

def propMetasToJson (l : List (String × PropMeta)) : Json :=
  Json.arr (l.map (fun kv => Json.arr #[Json.str kv.1, Json.str kv.2.identifier, Json.str kv.2.dtype,
    match kv.2.varlength with | some b => Json.bool b | none => Json.null])).toArray

def axesOfJson (j : Json) : Except String (Option (List String)) :=
  if j.isNull then pure none else do pure (some (← (← j.getArr?).toList.mapM (·.getStr?)))

def geffAttrOfJson (j : Json) : Except String GeffAttr := do
  pure ⟨← (← j.getObjVal? "directed").getBool?, ← axesOfJson (← j.getObjVal? "axes"),
        ← propMetasOfJson (← j.getObjVal? "node_props"), ← propMetasOfJson (← j.getObjVal? "edge_props")⟩

def geffAttrToJson (m : GeffAttr) : Json :=
  Json.mkObj [("directed", Json.bool m.directed),
              ("axes", match m.axes with | some l => Json.arr (l.map Json.str).toArray | none => Json.null),
              ("node_props", propMetasToJson m.nodeProps), ("edge_props", propMetasToJson m.edgeProps)]

def callerMetaOfJson (j : Json) : Except String CallerMeta := do
  let m ← geffAttrOfJson j
  pure ⟨m.directed, m.axes, m.nodeProps, m.edgeProps⟩

def attrsOfJson (j : Json) : Except String Attrs := do
  (← j.getArr?).toList.mapM (fun e => do
    let a ← e.getArr?
    if a.size = 2 then
      let k ← a[0]!.getStr?
      match a[1]! with
      | .str _ => pure (k, AttrVal.other)
      | v => do pure (k, AttrVal.geff (← geffAttrOfJson v))
    else throw "[key, value] expected")

def attrsToJson (a : Attrs) : Json :=
  Json.arr (a.map (fun kv => Json.arr #[Json.str kv.1, match kv.2 with
    | .geff m => geffAttrToJson m
    | .other => Json.str "other"])).toArray

def storeOfJson (j : Json) : Except String St := do
  (← j.getArr?).toList.mapM (fun e => do
    let path ← (← (← e.getObjVal? "path").getArr?).toList.mapM (·.getStr?)
    let kind ← (← e.getObjVal? "kind").getStr?
    if kind = "group" then pure (path, Entry.group (← attrsOfJson (← e.getObjVal? "attrs")))
    else pure (path, Entry.array (← arrOfJson (← e.getObjVal? "arr"))))

def storeToJson (s : St) : Json :=
  Json.arr (s.map (fun kv =>
    let p := Json.arr (kv.1.map Json.str).toArray
    match kv.2 with
    | .group a => Json.mkObj [("path", p), ("kind", Json.str "group"), ("attrs", attrsToJson a)]
    | .array a => Json.mkObj [("path", p), ("kind", Json.str "array"), ("arr", arrToJson a)])).toArray

/-- `[[name, [new names]], ...]` in the dict's insertion order -/
def unsquishOfJson (j : Json) : Except String (Option (List (String × List String))) :=
  if j.isNull then pure none else do
    let l ← (← j.getArr?).toList.mapM (fun kv => do
      let a ← kv.getArr?
      if a.size = 2 then pure ((← a[0]!.getStr?), ← (← a[1]!.getArr?).toList.mapM (·.getStr?))
      else throw "[name, [names]] expected")
    pure (some l)

def readResultToJson (r : ReadResult) : Json :=
  Json.mkObj [("node_ids", arrToJson r.nodeIds), ("edge_ids", arrToJson r.edgeIds),
              ("node_props", propsToJson r.nodeProps), ("edge_props", propsToJson r.edgeProps)]

def outcomeJson {α} (r : Outcome α) (f : α → List (String × Json)) : Json :=
  match r with
  | .ok v => Json.mkObj (("outcome", Json.str "ok") :: f v)
  | .error e => Json.mkObj [("outcome", Json.str e.name)]

def optField (j : Json) (k : String) : Json := (j.getObjVal? k).toOption.getD Json.null

end Geff.WRJson
