import GeffModel.Segmentation
/-! # Run-time library for the source-translated segmentation checks (translator T13)

`harness/translators/t13_pydo_segmentation.py` turns the five functions of
`geff/validate/segmentation.py`, statement by statement, into Lean `do`-blocks in the
`Geff.Seg.Outcome` monad (`Gen/Segmentation.lean`).  Everything the generated code calls is defined
here: one small total function per Python / numpy primitive that occurs in that file, each returning
an explicit outcome where Python can raise.  The numpy primitives are *defined from* `npIndex`,
`npTakeLabels` (hence `wrapIndex`) of `GeffModel/Segmentation.lean`, so numpy's negative-index
wrap-around and its `IndexError` are reachable in the generated code as soon as a guard is removed
from the source.  The generated definitions are proved equal to the hand-written model in
`GeffProofs/SegmentationGen.lean`.

What the primitives assume (tied twice: by the C19 correspondence, which runs the model that the
generated code is proved equal to against the implementation, and by the primitive stream
`harness/corr/_c19_prims.py`, which runs each primitive below through the driver against real Python /
numpy on small inputs, the error points included):
* floats are exact dyadics (`Dy`): `c * s` is `Dy.mul`, `<=`/`<` are exact, `int(x)` truncates
  towards zero (`pyInt`); the rounding caveat of the C19 claim is unchanged;
* `np.asanyarray(v)` of a label volume is the volume; `.ndim`, `.shape`, `np.shape` read its shape;
* `np.unique(np.take(v, indices=t, axis=a))` is `npTakeLabels` (labels with repeats, only
  membership is used, so `.tolist()` and `set(…)` are identities on the list);
* `v[tuple(idx)]` is `npIndex`;
* a `defaultdict(list)` is an association list in insertion order; *reading* a missing key yields
  `[]` (the insertion of the default that Python performs on a read is not modelled: the two
  dictionaries of the source are only appended to, read, and measured with `len` after appends);
* a plain `dict` that is only assigned to and measured with `len` is the list of its keys;
* `axes.index(ax)` compares axes by the fields the model has (`type`, `max`).
Core Lean only. -/
namespace Geff.PyDoSeg
open Geff.Np Geff.Seg

instance instMonadOutcome : Monad Outcome where
  pure := .ok
  bind x f := match x with
    | .ok v => f v
    | .other n => .other n

/-! ## the arguments -/

/-- `GeffMetadata`, as far as the checks read it -/
structure Metadata where
  axes : Option (List Axis)
deriving Repr

/-- `InMemoryGeff`, as far as the checks read it: `memory_geff["node_props"]`,
`memory_geff["metadata"]` -/
structure MemoryGeff where
  nodeProps : List (String × PropInfo)
  metadata : Metadata
deriving Repr

/-- `prop["values"]`: the checks read only its dtype -/
structure ValuesArr where
  dtype : Dtype
deriving Repr

end Geff.PyDoSeg

namespace Geff.Seg
/-- `memory_geff["node_props"][k]["values"]` / `["missing"]` (the latter is the field) -/
def PropInfo.values (p : PropInfo) : Geff.PyDoSeg.ValuesArr := ⟨p.dtype⟩
end Geff.Seg

namespace Geff.PyDoSeg
open Geff.Np Geff.Seg

/-! ## dictionaries -/

/-- `k in d` -/
def dictContains {β : Type} (d : List (String × β)) (k : String) : Bool := (d.lookup k).isSome
/-- `d[k]`: `KeyError` when absent -/
def dictGet {β : Type} (d : List (String × β)) (k : String) : Outcome β :=
  match d.lookup k with
  | some v => .ok v
  | none => .other "KeyError"

/-- `dd[k].append(v)` on a `defaultdict(list)` -/
def ddAppend : List (Int × List Int) → Int → Int → List (Int × List Int)
  | [], k, v => [(k, [v])]
  | (k', l) :: rest, k, v => if k' == k then (k', l ++ [v]) :: rest else (k', l) :: ddAppend rest k v
/-- `dd[k]` (read) on a `defaultdict(list)` -/
def ddGet (d : List (Int × List Int)) (k : Int) : List Int :=
  match d.lookup k with
  | some l => l
  | none => []
/-- `d[k] = v` on a plain dict of which only the keys are observed -/
def dictSetKey (d : List Int) (k : Int) : List Int := if d.contains k then d else d ++ [k]

/-! ## Python built-ins -/

/-- truthiness of an optional list: `None` and `[]` are falsy -/
def truthy {α : Type} : Option (List α) → Bool
  | some (_ :: _) => true
  | _ => false
/-- truthiness of a float: `0.0` is falsy (on an optional float `None` is falsy too: the translator
emits a `match` around this) -/
def dyTruthy (a : Dy) : Bool := a.m != 0
/-- `len(x)` of an optional list: `TypeError` on `None` -/
def pyLen {α : Type} : Option (List α) → Outcome Nat
  | some l => .ok l.length
  | none => .other "TypeError"
/-- iterating an optional list: `TypeError` on `None` -/
def pyIter {α : Type} : Option (List α) → Outcome (List α)
  | some l => .ok l
  | none => .other "TypeError"
/-- `any(x)` of an optional list of booleans: `TypeError` on `None` -/
def pyAny : Option (List Bool) → Outcome Bool
  | some l => .ok (l.any id)
  | none => .other "TypeError"
/-- `l[i]` for a natural `i`: `IndexError` when out of range -/
def listGet {α : Type} (l : List α) (i : Nat) : Outcome α :=
  match l[i]? with
  | some x => .ok x
  | none => .other "IndexError"
/-- `enumerate(l)` -/
def enumFrom {α : Type} : Nat → List α → List (Nat × α)
  | _, [] => []
  | i, x :: xs => (i, x) :: enumFrom (i + 1) xs
def pyEnumerate {α : Type} (l : List α) : List (Nat × α) := enumFrom 0 l
/-- `zip(a, b, strict=False)` -/
def pyZip {α β : Type} (a : List α) (b : List β) : List (α × β) := a.zip b
/-- `[f(x, y) for x, y in zip(a, b, strict=True)]` (`f` cannot raise): the comprehension consumes
the whole zip, so different lengths are a `ValueError` -/
def mapZipStrict {α β γ : Type} (f : α → β → γ) : List α → List β → Outcome (List γ)
  | [], [] => .ok []
  | x :: xs, y :: ys =>
    match mapZipStrict f xs ys with
    | .ok r => .ok (f x y :: r)
    | .other e => .other e
  | _, _ => .other "ValueError"
/-- `all(p(x, y) for x, y in zip(a, b, strict=True))`: lazy — the first false element decides, the
length check of `zip` is reached only when every common element passed -/
def allZipStrict {α β : Type} (p : α → β → Bool) : List α → List β → Outcome Bool
  | [], [] => .ok true
  | x :: xs, y :: ys => if p x y then allZipStrict p xs ys else .ok false
  | _, _ => .other "ValueError"
/-- `int(x)` of a finite float: truncation towards zero -/
def pyInt (a : Dy) : Int := Int.tdiv a.m (2 ^ a.e)

/-- equality of axis objects as `list.index` sees it, on the fields of the model -/
def dyEq (a b : Dy) : Bool := decide (a.m * 2 ^ b.e = b.m * 2 ^ a.e)
def axisEq (a b : Axis) : Bool :=
  a.type == b.type &&
  (match a.max, b.max with
   | none, none => true
   | some x, some y => dyEq x y
   | _, _ => false)
def indexFrom (a : Axis) : Nat → List Axis → Outcome Nat
  | _, [] => .other "ValueError"
  | i, x :: xs => if axisEq x a then .ok i else indexFrom a (i + 1) xs
/-- `axes.index(ax)`: `AttributeError` on `None`, `ValueError` when absent -/
def pyIndexOf : Option (List Axis) → Axis → Outcome Nat
  | some l, a => indexFrom a 0 l
  | none, _ => .other "AttributeError"
/-- `metadata.axes` on an optional metadata object: `AttributeError` on `None` -/
def axesOf : Option Metadata → Outcome (Option (List Axis))
  | some m => .ok m.axes
  | none => .other "AttributeError"

/-! ## numpy -/

/-- `np.asanyarray(segmentation)` -/
def asanyarray (v : Vol) : Vol := v
/-- `np.shape(segmentation)` -/
def npShape (v : Vol) : List Nat := v.shape
/-- `np.issubdtype(d, np.integer)` -/
def issubdtypeInteger (d : Dtype) : Bool := d.isInteger
/-- `np.unique(np.take(segmentation, indices=t, axis=axis))` -/
def npUniqueTake (v : Vol) (t : Int) (axis : Nat) : Outcome (List Int) := npTakeLabels v axis t
/-- `labels.tolist()` and `set(…)`: only membership is used afterwards -/
def tolist (l : List Int) : List Int := l
def pySet (l : List Int) : List Int := l

end Geff.PyDoSeg
