import GeffModel.Proto
import GeffModel.NpPrim
import Gen.ValidateGraph
/-! Driver operations for (a) the numpy primitive library `GeffModel/NpPrim.lean` (one op per
primitive, compared with the real numpy call by `harness/corr/_c12_gen.py`) and (b) the GENERATED
definitions `Gen.ValidateGraph.*` (ops `gen_graph` / `gen_sphere`, same request and answer format
as the ops `graph` / `sphere` of `Drivers/C12.lean`).

`handle op j` returns `none` for an op it does not know, so that a driver can try it first:
`match Geff.NpPrim.handle op j with | some r => r | none => …`.

A `Py` result travels as `{"ok": value}` or `{"exc": "IndexError" | "ValueError"}`. -/
namespace Geff.NpPrim
open Lean Geff.Proto Geff.Validate

def intsJson (l : List Int) : Json := Json.arr (l.map intJson).toArray
def natsJson (l : List Nat) : Json := Json.arr (l.map fun (n : Nat) => intJson (Int.ofNat n)).toArray
def boolsJson (l : List Bool) : Json := Json.arr (l.map Json.bool).toArray
def rowsJson (l : List (Int × Int)) : Json :=
  Json.arr (l.map fun e => Json.arr #[intJson e.1, intJson e.2]).toArray

def Exc.name : Exc → String
  | .valueError _ => "ValueError"
  | .indexError => "IndexError"

def pyJson {α : Type} (f : α → Json) : Py α → Json
  | .ok v => Json.mkObj [("ok", f v)]
  | .error e => Json.mkObj [("exc", Json.str e.name)]

def getBools (j : Json) : Except String (List Bool) := do
  (← j.getArr?).toList.mapM fun b => b.getBool?

def getNats (j : Json) : Except String (List Nat) := do
  (← getIntList j).mapM fun i => if i < 0 then throw "negative index" else pure i.toNat

def getCmp (j : Json) : Except String Cmp := do
  match (← (← j.getObjVal? "cmp").getStr?) with
  | "lt" => pure .lt | "le" => pure .le | "gt" => pure .gt
  | "ge" => pure .ge | "eq" => pure .eq | "ne" => pure .ne
  | s => throw s!"unknown comparison {s}"

def getNum (j : Json) : Except String Num :=
  match j.getObjVal? "i" with
  | .ok v => do pure (.int (← getInt? v))
  | .error _ => do
    let b ← getInt? (← j.getObjVal? "f")
    pure (.f64 b.toNat)

def getMissing (j : Json) : Except String (Option (List Bool)) :=
  match j.getObjVal? "missing" with
  | .ok Json.null => pure none
  | .ok m => do pure (some (← getBools m))
  | .error _ => pure none

def outcomeJson : Outcome → Json
  | .ok => Json.mkObj [("o", "ok")]
  | .valueError m => Json.mkObj [("o", "ValueError"), ("msg", m)]
  | .other n => Json.mkObj [("o", n)]

/-- `(valid, offenders)` of a generated graph validator, or the exception it raised -/
def pairJson {α : Type} (f : List α → Json) : Py (Bool × List α) → Json
  | .ok (v, off) => Json.mkObj [("valid", Json.bool v), ("off", f off)]
  | .error e => Json.mkObj [("exc", Json.str e.name)]

def handleKnown (op : String) (j : Json) : Except String Json := do
  let ints (k : String) : Except String (List Int) := do getIntList (← j.getObjVal? k)
  let rows (k : String) : Except String (List (Int × Int)) := do getIntPairs (← j.getObjVal? k)
  let bools (k : String) : Except String (List Bool) := do getBools (← j.getObjVal? k)
  let int (k : String) : Except String Int := do getInt? (← j.getObjVal? k)
  let nat (k : String) : Except String Nat := do (← j.getObjVal? k).getNat?
  match op with
  | "np_unique" => return intsJson (unique (← ints "a"))
  | "np_unique_counts" =>
    let (u, c) := uniqueCounts (← ints "a")
    return Json.mkObj [("u", intsJson u), ("c", natsJson c)]
  | "np_unique_rows_index_counts" =>
    let (u, i, c) := uniqueRowsIndexCounts (rowView (ascontiguousarray (← rows "rows")))
    return Json.mkObj [("u", rowsJson u), ("i", natsJson i), ("c", natsJson c)]
  | "np_isin" => return boolsJson (isin (← ints "a") (← ints "b"))
  | "np_cmp_arr" => return pyJson boolsJson (cmpArr (← getCmp j) (← ints "a") (← ints "b"))
  | "np_cmp_scalar" => return boolsJson (cmpScalar (← getCmp j) (← ints "a") (← int "k"))
  | "np_cmp_scalar_nat" =>
    return boolsJson (cmpScalarNat (← getCmp j) (← getNats (← j.getObjVal? "a")) (← int "k"))
  | "np_cmp_scalar_num" =>
    let flat ← (← (← j.getObjVal? "flat").getArr?).toList.mapM getNum
    return boolsJson (cmpScalarNum (← getCmp j) flat (← int "k"))
  | "np_cmp" => return Json.bool (cmp (← getCmp j) (← int "a") (← int "b"))
  | "np_not" => return boolsJson (notMask (← bools "m"))
  | "np_and" => return pyJson boolsJson (andMask (← bools "a") (← bools "b"))
  | "np_or" => return pyJson boolsJson (orMask (← bools "a") (← bools "b"))
  | "np_xor" => return pyJson boolsJson (xorMask (← bools "a") (← bools "b"))
  | "np_any" => return Json.bool (any (← bools "m"))
  | "np_all" => return Json.bool (all (← bools "m"))
  | "np_len" => return intJson (len (← ints "a"))
  | "np_mask_index" => return pyJson intsJson (maskIndex (← ints "a") (← bools "m"))
  | "np_mask_index_rows" => return pyJson rowsJson (maskIndex (← rows "rows") (← bools "m"))
  | "np_mask_col" => return pyJson intsJson (maskCol (← rows "rows") (← bools "m") (← nat "k"))
  | "np_col" => return pyJson intsJson (col (← rows "rows") (← nat "k"))
  | "np_take" => return pyJson intsJson (take (← ints "a") (← getNats (← j.getObjVal? "idx")))
  | "np_take_rows" => return pyJson rowsJson (take (← rows "rows") (← getNats (← j.getObjVal? "idx")))
  | "gen_graph" =>
    let ids ← ints "ids"
    let edges ← rows "edges"
    return Json.mkObj [
      ("unique", pairJson intsJson (Gen.ValidateGraph.validate_unique_node_ids ids)),
      ("nodes_for_edges", pairJson rowsJson (Gen.ValidateGraph.validate_nodes_for_edges ids edges)),
      ("self", pairJson intsJson (Gen.ValidateGraph.validate_no_self_edges edges)),
      ("repeated", pairJson rowsJson (Gen.ValidateGraph.validate_no_repeated_edges edges)),
      ("translationOk", Json.bool Gen.ValidateGraph.translationOk)]
  | "gen_sphere" =>
    let ndim ← nat "ndim"
    let flat ← (← (← j.getObjVal? "flat").getArr?).toList.mapM getNum
    return outcomeJson (outcome (Gen.ValidateGraph.validate_sphere ⟨ndim, flat⟩ (← getMissing j)))
  | _ => throw s!"unknown op {op}"

def knownOps : List String :=
  ["np_unique", "np_unique_counts", "np_unique_rows_index_counts", "np_isin", "np_cmp_arr", "np_cmp_scalar",
   "np_cmp_scalar_nat", "np_cmp_scalar_num", "np_cmp", "np_not", "np_and", "np_or", "np_xor", "np_any", "np_all",
   "np_len", "np_mask_index", "np_mask_index_rows", "np_mask_col", "np_col", "np_take", "np_take_rows",
   "gen_graph", "gen_sphere"]

/-- `none` when `op` is not one of this file's operations -/
def handle (op : String) (j : Json) : Option (Except String Json) :=
  if knownOps.contains op then some (handleKnown op j) else none

end Geff.NpPrim
