import GeffModel.MetaProto
import Gen.Validators
/-! Driver side of the correspondence stream that runs the SOURCE-TRANSLATED validator bodies
(`Gen/Validators.lean`, translator T17) next to the real functions called directly
(`Axis.model_construct(…)._validate_model()`, `PropMetadata._convert_dtype(v)`, …): it ties the
primitives of `GeffModel/PyDoValidators.lean` (truthiness, `None` handling, numpy's `np.dtype(None)`, the
`TypeError` caught in `_convert_dtype`) to the libraries.  Core Lean only. -/
namespace Geff.Meta.Wire
open Lean Geff.Meta Geff.PyDoVal Gen.Validators

def excName : PyExc → String
  | .valueError => "ValueError"
  | .typeError => "TypeError"
  | .attributeError => "AttributeError"
  | .validationError => "ValidationError"

def outOf {α : Type} (r : VRes α) (same : α → Bool) : Json :=
  match r with
  | .ok a => Json.mkObj [("out", .str "ok"), ("same", .bool (same a))]
  | .error e => Json.mkObj [("out", .str (excName e))]

/-- `{"op":"genval","kind":…}`: `axis` / `related` / `meta` carry a (non-validating) dump of the object,
`keys` a props dict and `c_type`, `dtype` the raw value `s` (string or null) and numpy's answer
`np = [name, isStr, isBytes] | null` for it -/
def handleGenval (j : Json) : Except String Json := do
  let kind ← (← j.getObjVal? "kind").getStr?
  if kind = "axis" then
    match ofDumpAxis (← toJ (← j.getObjVal? "obj")) with
    | none => throw "axis does not decode"
    | some a => return outOf (axisValidateModel a) (fun b => decide (b = a))
  else if kind = "related" then
    match ofDumpRelated (← toJ (← j.getObjVal? "obj")) with
    | none => throw "related object does not decode"
    | some r => return outOf (relatedObjectValidateModel r) (fun b => decide (b = r))
  else if kind = "meta" then
    match ofDump (← toJ (← j.getObjVal? "obj")) with
    | none => throw "metadata does not decode"
    | some m => return outOf (geffMetadataValidateModelAfter m) (fun b => decide (b = m))
  else if kind = "keys" then
    match ofDumpPropsDict (some (← toJ (← j.getObjVal? "obj"))) with
    | none => throw "props dict does not decode"
    | some d => return outOf (validateKeyIdentifierEquality d (← (← j.getObjVal? "c_type").getStr?)) (fun _ => true)
  else if kind = "dtype" then
    let s : Option String := match j.getObjVal? "s" with
      | .ok (.str s) => some s
      | _ => none
    let ans : Option NpDtype ← match j.getObjVal? "np" with
      | .ok (.arr a) =>
        if a.size = 3 then do
          let n ← a[0]!.getStr?
          let b1 ← a[1]!.getBool?
          let b2 ← a[2]!.getBool?
          pure (some { name := n, isStr := b1, isBytes := b2 })
        else throw "bad np"
      | _ => pure none
    let np : NpEnv := { dtype := fun _ => ans }
    match propMetadataConvertDtype np s with
    | .ok n => return Json.mkObj [("out", .str "ok"), ("val", .str n)]
    | .error e => return Json.mkObj [("out", .str (excName e))]
  else if kind = "unit" then
    let s : Option String := match j.getObjVal? "s" with
      | .ok (.str s) => some s
      | _ => none
    let b (r : VRes Bool) : Json := match r with
      | .ok v => .bool v
      | .error e => .str (excName e)
    return Json.mkObj [("axis_type", b (validateAxisType s)), ("space", b (validateSpaceUnit s)),
                       ("time", b (validateTimeUnit s))]
  else throw s!"unknown kind {kind}"

end Geff.Meta.Wire
