import GeffModel.Proto
import GeffModel.MetaOps
/-! Wire format of the metadata drivers (C07, C08): how a `J` document, an `Env` and a history
travel as `Lean.Json`.

`J` is tagged so that Python's `1` / `1.0` / `True` stay apart:
`null`, `true|false`, `{"i":"<decimal>"}`, `{"f":["<num>","<k>"]}` (the float `num/2^k`) or
`{"f":"inf"|"-inf"|"nan"|"-0"}`, `"string"`, `[…]`, `{"o":[[key,value],…]}`. -/
namespace Geff.Meta.Wire
open Lean Geff.Meta

partial def toJ (j : Json) : Except String J :=
  match j with
  | .null => .ok .null
  | .bool b => .ok (.bool b)
  | .str s => .ok (.str s)
  | .arr xs => do
    let l ← xs.toList.mapM toJ
    return .arr l
  | .obj _ =>
    match j.getObjVal? "i", j.getObjVal? "f", j.getObjVal? "o" with
    | .ok i, _, _ => do
      let n ← Geff.Proto.getInt? i
      return .int n
    | _, .ok (.str "inf"), _ => .ok (.flt .pinf)
    | _, .ok (.str "-inf"), _ => .ok (.flt .ninf)
    | _, .ok (.str "nan"), _ => .ok (.flt .nan)
    | _, .ok (.str "-0"), _ => .ok (.flt .nzero)
    | _, .ok (.arr a), _ =>
      if a.size = 2 then do
        let n ← Geff.Proto.getInt? a[0]!
        let k ← Geff.Proto.getInt? a[1]!
        return .flt (.fin n k.toNat)
      else .error "bad float"
    | _, _, .ok (.arr kvs) => do
      let l ← kvs.toList.mapM fun kv => do
        let p ← kv.getArr?
        if p.size = 2 then
          let k ← p[0]!.getStr?
          let v ← toJ p[1]!
          return (k, v)
        else throw "bad pair"
      return .obj l
    | _, _, _ => .error "bad tagged value"
  | .num _ => .error "bare number"

partial def ofJ : J → Json
  | .null => .null
  | .bool b => .bool b
  | .int i => Json.mkObj [("i", .str (toString i))]
  | .flt (.fin n k) => Json.mkObj [("f", .arr #[.str (toString n), .str (toString k)])]
  | .flt .pinf => Json.mkObj [("f", .str "inf")]
  | .flt .ninf => Json.mkObj [("f", .str "-inf")]
  | .flt .nan => Json.mkObj [("f", .str "nan")]
  | .flt .nzero => Json.mkObj [("f", .str "-0")]
  | .str s => .str s
  | .arr xs => .arr (xs.map ofJ).toArray
  | .obj kvs => Json.mkObj [("o", .arr (kvs.map (fun kv => Json.arr #[.str kv.1, ofJ kv.2])).toArray)]

/-- env: {"vok":[strings the version pattern matches], "np":[[s, name|null],…], "dv": "<GEFF_VERSION>",
"offchk": bool}.  The regular expression and numpy are evaluated by Python and arrive as finite
tables covering the strings of the request. -/
def toEnv (j : Json) : Except String Env := do
  let vok ← (← (← j.getObjVal? "vok").getArr?).toList.mapM (·.getStr?)
  let np ← (← (← j.getObjVal? "np").getArr?).toList.mapM fun p => do
    let a ← p.getArr?
    if a.size = 2 then
      let s ← a[0]!.getStr?
      let n : Option String := match a[1]! with
        | .str n => some n
        | _ => none
      return (s, n)
    else throw "bad np pair"
  let dv ← (← j.getObjVal? "dv").getStr?
  let offchk := match j.getObjVal? "offchk" with
    | .ok (.bool b) => b
    | _ => false
  return { pat := fun _ s => vok.contains s,
           npName := fun s => (lookup np s).join,
           defaultVersion := dv, offsetLenChecked := offchk }

def optField (j : Json) (k : String) : Option Json :=
  match j.getObjVal? k with
  | .ok .null => none
  | .ok v => some v
  | .error _ => none

def toOptStrList (j : Option Json) : Except String (Option (List (Option String))) :=
  match j with
  | none => .ok none
  | some v => do
    let a ← v.getArr?
    let l ← a.toList.mapM fun x => match x with
      | .null => .ok none
      | .str s => .ok (some s)
      | _ => .error "string or null expected"
    return some l

def toOptNumList (j : Option Json) : Except String (Option (List (Option F))) :=
  match j with
  | none => .ok none
  | some v => do
    let a ← v.getArr?
    let l ← a.toList.mapM fun x => do
      let d ← toJ x
      match getOptNum (some d) with
      | .ok r => pure r
      | .error _ => throw "number or null expected"
    return some l

def toInit (j : Json) : Except String Init := do
  let k ← (← j.getObjVal? "k").getStr?
  if k = "parse" then return .parse (← toJ (← j.getObjVal? "doc"))
  else if k = "attrs" then
    match ← toJ (← j.getObjVal? "attrs") with
    | .obj kvs => return .attrs kvs
    | _ => throw "attrs must be an object"
  else if k = "create" then
    let d ← (← j.getObjVal? "directed").getBool?
    let ax ← match j.getObjVal? "axes" with
      | .ok v => (toJ v).map some
      | .error _ => pure none
    return .create d ax
  else throw s!"unknown init {k}"

def toOp (j : Json) : Except String Op := do
  let k ← (← j.getObjVal? "k").getStr?
  if k = "assign" then
    return .assign (← (← j.getObjVal? "f").getStr?) (← toJ (← j.getObjVal? "v"))
  else if k = "copy" then return .copy
  else if k = "updateAxes" then
    let names ← (← (← j.getObjVal? "names").getArr?).toList.mapM (·.getStr?)
    return .updateAxes names (← toOptStrList (optField j "units")) (← toOptStrList (optField j "types"))
      (← toOptNumList (optField j "scales")) (← toOptStrList (optField j "scaled_units"))
      (← toOptNumList (optField j "offset"))
  else if k = "createOrUpdate" then
    let d ← (← j.getObjVal? "directed").getBool?
    let ax ← match j.getObjVal? "axes" with
      | .ok v => (toJ v).map some
      | .error _ => pure none
    return .createOrUpdate d ax
  else if k = "addProps" then
    let props ← (← (← j.getObjVal? "props").getArr?).toList.mapM toJ
    return .addProps props (← (← j.getObjVal? "ctype").getStr?)
  else if k = "minMax" then
    let cols ← (← (← j.getObjVal? "cols").getArr?).toList.mapM fun c => do
      let a ← c.getArr?
      if a.size = 2 then
        let name ← a[0]!.getStr?
        let t ← (← a[1]!.getObjVal? "t").getStr?
        if t = "none" then return (name, MinMaxCol.noValues)
        else if t = "all" then return (name, MinMaxCol.allMissing)
        else
          let lo ← toJ (← a[1]!.getObjVal? "lo")
          let hi ← toJ (← a[1]!.getObjVal? "hi")
          match getOptNum (some lo), getOptNum (some hi) with
          | .ok (some l), .ok (some h) => return (name, MinMaxCol.bounds l h)
          | _, _ => throw "bounds must be numbers"
      else throw "bad column"
    return .minMax cols
  else throw s!"unknown op {k}"

def outName : Option Err → String
  | none => "ok"
  | some e => e.name

/-- what is observed of an object: its dump, its fields-set, and the verdict of the specification -/
def obsObj (env : Env) (o : MetaObj) : List (String × Json) :=
  [("dump", ofJ (dump o.val)), ("fs", .arr (o.fieldsSet.map Json.str).toArray),
   ("viol", .str (firstViolation env o.val)), ("valid", .bool (decide (Valid env o.val))),
   ("validCode", .bool (decide (ValidCode env o.val)))]

end Geff.Meta.Wire
