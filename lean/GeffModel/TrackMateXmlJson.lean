import GeffModel.Proto
import GeffModel.TrackMateXml
import GeffModel.TrackMateXmlDoc
/-! JSON codec of the XML layer of C16 for the driver (`Drivers/C16.lean`, requests with `"op": "xml"`).
No model logic here: every answer field is one function of `GeffModel/TrackMateXml.lean` applied to the
decoded tree. -/
namespace Geff.TrackMate.Xml.J
open Lean Geff Geff.Proto Geff.TrackMate Geff.TrackMate.Xml

def getPairs (j : Json) : Except String (List (String × String)) := do
  (← j.getArr?).toList.mapM fun kv => do
    let a ← kv.getArr?
    if a.size ≠ 2 then throw "pair" else return (← a[0]!.getStr?, ← a[1]!.getStr?)

/-- `[tag, [[k, v], …], text | null, [child, …]]` -/
partial def getTree (j : Json) : Except String Tree := do
  let a ← j.getArr?
  if a.size ≠ 4 then throw "tree = [tag, attrs, text, kids]" else
  let text ← match a[2]! with
    | .null => pure none
    | .str s => pure (some s)
    | _ => throw "text"
  let kids ← (← a[3]!.getArr?).toList.mapM getTree
  return .node (← a[0]!.getStr?) (← getPairs a[1]!) text kids

def pairsJ (l : List (String × String)) : Json := Json.arr (l.map (fun kv => Json.arr #[Json.str kv.1, Json.str kv.2])).toArray

partial def treeJ : Tree → Json
  | .node tag a tx kids => Json.arr #[Json.str tag, pairsJ a, (match tx with
      | none => Json.null
      | some s => Json.str s), Json.arr (kids.map treeJ).toArray]

def getTxt (j : Json) : Except String Txt := do
  match j.getObjVal? "i" with
  | .ok n => return .int (← getInt? n) (← (← j.getObjVal? "t").getStr?)
  | .error _ =>
    match j.getObjVal? "f" with
    | .ok s => return .flt (← s.getStr?)
    | .error _ => return .str (← (← j.getObjVal? "s").getStr?)

/-- Python's classification of the texts of the tree; any other text is a string -/
def getLex (j : Json) : Except String (String → Txt) := do
  let tbl ← (← j.getArr?).toList.mapM fun kv => do
    let a ← kv.getArr?
    if a.size ≠ 2 then throw "lex pair" else return (← a[0]!.getStr?, ← getTxt a[1]!)
  return fun s => (tbl.lookup s).getD (.str s)

def getMd (j : Json) : Except String (List Feat) := do
  (← j.getArr?).toList.mapM fun f => do
    let a ← f.getArr?
    if a.size ≠ 3 then throw "feature triple" else
    let isint ← match a[1]! with
      | .null => pure none
      | .bool b => pure (some b)
      | _ => throw "isint"
    let dim ← match a[2]! with
      | .null => pure none
      | .str s => pure (some s)
      | _ => throw "dim"
    return { name := ← a[0]!.getStr?, isint := isint, dim := dim }

def valJ : Val → Json
  | .i n => Json.mkObj [("i", Json.str (toString n))]
  | .f (.ofInt n) => Json.mkObj [("fi", Json.str (toString n))]
  | .f (.ofText s) => Json.mkObj [("ft", Json.str s)]
  | .s s => Json.mkObj [("s", Json.str s)]
  | .roi pts => Json.mkObj [("roi", Json.arr (pts.map (fun p => Json.arr (p.map Json.str).toArray)).toArray)]
  | .none => Json.mkObj [("none", Json.bool true)]

def attrsJ (a : Attrs) : Json := Json.arr (a.map (fun kv => Json.arr #[Json.str kv.1, valJ kv.2])).toArray

def graphJ (g : Graph) : Json :=
  Json.mkObj [("nodes", Json.arr (g.nodes.map (fun p => Json.arr #[Json.str (toString p.1), attrsJ p.2])).toArray),
    ("edges", Json.arr (g.edges.map (fun e => Json.arr #[Json.str (toString e.1.1), Json.str (toString e.1.2), attrsJ e.2])).toArray)]

def featJ (f : Feat) : Json :=
  Json.arr #[Json.str f.name, (match f.isint with
    | none => Json.null
    | some b => Json.bool b), (match f.dim with
    | none => Json.null
    | some d => Json.str d)]

def outJ {α : Type} (f : α → Json) : Outcome α → Json
  | .ok v => Json.mkObj [("ok", f v)]
  | .exc e => Json.mkObj [("exc", Json.str e)]

/-- a cursor result: the value and how many events the iterator still holds -/
def curJ {α : Type} (f : α → Json) : Outcome (α × List Ev) → Json
  | .ok (v, rest) => Json.mkObj [("ok", f v), ("left", Json.num (JsonNumber.fromNat rest.length))]
  | .exc e => Json.mkObj [("exc", Json.str e)]

def bdJ (st : BD) : Json :=
  Json.mkObj [("graph", graphJ st.g), ("seg", Json.bool st.seg), ("units", pairsJ st.units),
    ("md", Json.arr (st.md.map featJ).toArray)]

def evJ (e : Ev) : Json :=
  Json.arr #[Json.bool e.isEnd, Json.str e.tag, pairsJ e.attrs, (match e.el.text with
    | none => Json.null
    | some s => Json.str s), Json.arr (e.path.map (fun (n : Nat) => Json.num (JsonNumber.fromNat n))).toArray]

def tagsJ (r : List (String × Tree) × List String) : Json :=
  Json.mkObj [("found", Json.arr (r.1.map (fun kv => Json.arr #[Json.str kv.1, treeJ kv.2])).toArray),
    ("missing", Json.arr (r.2.map Json.str).toArray)]

def imageJ : ImagePath → Json
  | .none => Json.null
  | .folder f => Json.mkObj [("folder", Json.str f)]
  | .name n => Json.mkObj [("name", Json.str n)]
  | .both f n => Json.mkObj [("folder", Json.str f), ("name", Json.str n)]

def propMdJ (l : List (String × PropMd)) : Json :=
  Json.arr (l.map (fun kv => Json.arr #[Json.str kv.1, Json.str kv.2.name, Json.str kv.2.dtype, (match kv.2.unit with
    | none => Json.null
    | some u => Json.str u), Json.bool kv.2.varlength])).toArray

def propsJ (p : PropsMd) : Json := Json.mkObj [("node", propMdJ p.node), ("edge", propMdJ p.edge), ("lineage", propMdJ p.lineage)]

def bdEq (a b : Outcome BD) : Bool :=
  match a, b with
  | .ok x, .ok y => decide (x.g = y.g) && x.seg == y.seg && decide (x.units = y.units) && decide (x.md = y.md)
  | .exc x, .exc y => x == y
  | _, _ => false

/-- request: `{"op": "xml", "tree": T, "lex": [[text, txt], …], "md": [[name, isint, dim], …], "anc": [k, …]}`
(`anc`: indices of start events; each cursor function is run with that element as `ancestor` on the
events after it, with `md` and an empty graph) -/
def handle (j : Json) : Except String Json := do
  let t ← getTree (← j.getObjVal? "tree")
  let lex ← getLex (← j.getObjVal? "lex")
  let md ← getMd (← j.getObjVal? "md")
  let anc ← (← (← j.getObjVal? "anc").getArr?).toList.mapM (fun k => k.getNat?)
  let evs := events t
  let flags := [(false, false), (false, true), (true, false), (true, true)]
  let cursors := anc.map fun k =>
    match evs.drop k with
    | [] => Json.null
    | e :: rest =>
      Json.mkObj [("units", pairsJ (getUnits e.attrs)),
        ("features", curJ (fun fs => Json.arr (fs.map featJ).toArray) (getAttributesMetadata e.path rest)),
        ("spots", curJ (fun (r : Graph × Bool) => Json.mkObj [("graph", graphJ r.1), ("seg", Json.bool r.2)])
            (addAllNodes lex md e.path {} rest)),
        ("tracks", curJ graphJ (buildTracksEv lex md e.path {} rest)),
        ("filtered", curJ (fun l => Json.arr (l.map (fun n => Json.str (toString n))).toArray) (getFilteredTracksID lex e.path rest))]
  let tags1 := getSpecificTags ["FeatureDeclarations"] [] evs
  let tags2 := getSpecificTags ["Log", "Settings", "GUIState", "DisplaySettings"] [] evs
  let fd := tags1.1.lookup "FeatureDeclarations"
  let units := match buildDataEv lex false false evs with
    | .ok st => st.units
    | .exc _ => []
  return Json.mkObj [
    ("events", Json.arr (evs.map evJ).toArray),
    ("build", Json.arr (flags.map (fun f => outJ bdJ (buildDataEv lex f.1 f.2 evs))).toArray),
    ("walk_agrees", Json.bool (flags.all (fun f => bdEq (buildDataEv lex f.1 f.2 evs) (buildDataTree lex f.1 f.2 t)))),
    ("cursors", Json.arr cursors.toArray),
    -- the hypothesis of the end-to-end theorems (GeffProps.C16XmlDoc) evaluated on this tree
    ("doc", match docOfTree lex t with
      | none => Json.null
      | some d => Json.mkObj [("wf", Json.bool (wfB d)), ("spots", Json.num (JsonNumber.fromNat d.spots.length)),
          ("tracks", Json.num (JsonNumber.fromNat d.tracks.length)),
          ("agrees", Json.bool (flags.all (fun f => decide ((match buildDataEv lex f.1 f.2 evs with
            | .exc x => Outcome.exc x
            | .ok st => Outcome.ok (st.g, st.seg)) = buildData d f.1 f.2))))]),
    ("version", Json.str (getTrackmateVersion (endEvents t))),
    ("version_tree", Json.str (versionOfTree t)),
    ("tags1", tagsJ tags1), ("tags2", tagsJ tags2),
    ("tags_tree_agree", Json.bool ((specificTagsOf ["Log", "Settings", "GUIState", "DisplaySettings"] [] (pre t)).2 == tags2.2)),
    ("image", outJ imageJ (extractImagePath (tags2.1.lookup "Settings"))),
    ("props", Json.arr ([false, true].map (fun seg => outJ propsJ (extractPropsMetadata fd units seg))).toArray)]

end Geff.TrackMate.Xml.J
