import GeffModel.TrackMateXml
/-! # C16 — from the XML tree to the abstract document (`Doc`) of `GeffModel/TrackMate.lean`

`docOfTree lex t` reads a TrackMate file in its standard layout — written from the file structure
(`TrackMate > Model > FeatureDeclarations{SpotFeatures, EdgeFeatures, TrackFeatures > Feature},
AllSpots > SpotsInFrame > Spot, AllTracks > Track > Edge, FilteredTracks > TrackID`), not from the cursor
code — into the abstract document the existing C16 model and theorems consume.  It answers `none` when
the tree is not in that layout (`stdB`) or when an element is not *exactly* represented by its abstract
counterpart (`spotExactB` / `edgeExactB` / `trackExactB`: executable per-element checks that the abstract
`Spot` / `Edge` / `Track` yields the same attribute dict, flag and ids as the XML element; they depend on
the element and the feature table only, never on the graph built so far).  Core Lean only. -/
namespace Geff.TrackMate.Xml
open Geff.TrackMate

def txtInt? : Txt → Option Int
  | .int n _ => some n
  | _ => none

def natAttr (lex : String → Txt) (a : List (String × String)) (k : String) : Option Nat :=
  (a.lookup k).bind (fun v => (txtInt? (lex v)).map Int.toNat)

/-- the abstract `Spot` of a `Spot` element -/
def spotOfEl (lex : String → Txt) (el : Tree) : Spot :=
  { id := natAttr lex el.attrs "ID",
    name := el.attrs.lookup "name",
    feats := lexAttrs lex (el.attrs.filter (fun kv => !(kv.1 == "ID" || kv.1 == "name" || kv.1 == "ROI_N_POINTS"))),
    roi := (el.attrs.lookup "ROI_N_POINTS").bind (fun v => (txtInt? (lex v)).map (fun n =>
      { nPoints := n,
        pts := match el.text with
          | none => none
          | some tx => if tx.isEmpty then none else
            match roiOfText lex n tx with
            | .ok p => some p
            | .exc _ => some [] })) }

/-- the body of the abstract `_add_all_nodes` (`Geff.TrackMate.addAllNodes`) for one spot -/
def spotCoreDoc (md : List Feat) (seg : Bool) (s : Spot) : Outcome (Attrs × Bool × Option Nat) :=
  match convertAttributes md (spotTexts s) with
  | .exc e => .exc e
  | .ok attrs =>
    let withRoi : Outcome (Attrs × Bool) :=
      match s.roi with
      | some r => match convertRoi r attrs with
        | .ok a => .ok (a, true)
        | .exc e => .exc e
      | none => if seg then .exc "KeyError" else .ok (attrs, false)
    match withRoi with
    | .exc e => .exc e
    | .ok (attrs, seg') => .ok (attrs, seg || seg', s.id)

/-- the abstract spot is an exact abstraction of the element (whatever the `segmentation` flag) -/
def spotExactB (lex : String → Txt) (md : List Feat) (el : Tree) : Bool :=
  decide (spotCoreRaw lex md false el.attrs el.text = spotCoreDoc md false (spotOfEl lex el)) &&
  decide (spotCoreRaw lex md true el.attrs el.text = spotCoreDoc md true (spotOfEl lex el))

def edgeOfEl (lex : String → Txt) (el : Tree) : Edge :=
  { s := (natAttr lex el.attrs "SPOT_SOURCE_ID").getD 0, t := (natAttr lex el.attrs "SPOT_TARGET_ID").getD 0,
    feats := lexAttrs lex (el.attrs.filter (fun kv => !(kv.1 == "SPOT_SOURCE_ID" || kv.1 == "SPOT_TARGET_ID"))) }

def edgeCoreDoc (md : List Feat) (e : Edge) : Outcome (Option (Nat × Nat × Attrs)) :=
  match convertAttributes md (edgeTexts e) with
  | .exc x => .exc x
  | .ok a => .ok (some (e.s, e.t, a))

def edgeExactB (lex : String → Txt) (md : List Feat) (el : Tree) : Bool :=
  decide (edgeCoreRaw lex md el.attrs = edgeCoreDoc md (edgeOfEl lex el))

def trackOfEl (lex : String → Txt) (el : Tree) : Track :=
  { id := (el.attrs.lookup "TRACK_ID").map lex,
    feats := lexAttrs lex (el.attrs.filter (fun kv => !(kv.1 == "TRACK_ID"))),
    edges := el.kids.map (edgeOfEl lex) }

def trackCoreDoc (md : List Feat) (t : Track) : Outcome Val :=
  match convertAttributes md (trackTexts t) with
  | .exc x => .exc x
  | .ok a => match aget? a "TRACK_ID" with
    | none => .exc "KeyError"
    | some tid => .ok tid

def isLeaf (t : Tree) : Bool := t.kids.isEmpty

/-- a `Track` element whose children are `Edge` leaves, all exactly represented -/
def trackExactB (lex : String → Txt) (md : List Feat) (el : Tree) : Bool :=
  el.tag == "Track" && decide (trackCoreRaw lex md el.attrs = trackCoreDoc md (trackOfEl lex el)) &&
  el.kids.all (fun k => k.tag == "Edge" && isLeaf k && edgeExactB lex md k)

/-- a `SpotsInFrame`-like element: not itself a `Spot`, children are `Spot` leaves, all exactly represented -/
def frameExactB (lex : String → Txt) (md : List Feat) (el : Tree) : Bool :=
  !(el.tag == "Spot") && el.kids.all (fun k => k.tag == "Spot" && isLeaf k && spotExactB lex md k)

def featD (k : Tree) : Feat :=
  match featOf k.attrs with
  | .ok f => f
  | .exc _ => { name := "", isint := none, dim := none }

/-- a feature section: not itself a `Feature`, children are `Feature` leaves with a `feature` attribute -/
def featSectionB (tag : String) (el : Tree) : Bool :=
  el.tag == tag && el.kids.all (fun k => k.tag == "Feature" && isLeaf k && isOk (featOf k.attrs))

structure Layout where
  model : Tree
  fd : Tree
  allSpots : Tree
  allTracks : Tree
  ft : Option Tree

/-- the five parts of a file in standard layout: the first element of the root that is not ignored is the
`Model`; its children that are not ignored are `FeatureDeclarations`, `AllSpots`, `AllTracks` and
optionally `FilteredTracks`, in this order -/
def layoutOf (t : Tree) : Option Layout :=
  match t.kids.dropWhile ignoredB with
  | [] => none
  | m :: _ =>
    if kindOf m.tag == .model then
      match m.kids.filter (fun k => !ignoredB k) with
      | [fd, sp, tr] =>
        if kindOf fd.tag == .featureDecls && kindOf sp.tag == .allSpots && kindOf tr.tag == .allTracks
        then some ⟨m, fd, sp, tr, none⟩ else none
      | [fd, sp, tr, ft] =>
        if kindOf fd.tag == .featureDecls && kindOf sp.tag == .allSpots && kindOf tr.tag == .allTracks &&
           kindOf ft.tag == .filteredTracks
        then some ⟨m, fd, sp, tr, some ft⟩ else none
      | _ => none
    else none

def sectionFeats (el : Tree) : List Feat := el.kids.map featD

/-- the abstract document of a tree in standard layout with exactly represented elements -/
def docOfTree (lex : String → Txt) (t : Tree) : Option Doc :=
  match layoutOf t with
  | none => none
  | some L =>
    match L.fd.kids with
    | [s1, s2, s3] =>
      let md := sectionFeats s1 ++ sectionFeats s2 ++ sectionFeats s3
      let filtered : Option (Option (List Int)) := match L.ft with
        | none => some none
        | some ft => match filteredOfSection lex ft with
          | .ok l => some (some l)
          | .exc _ => none
      match filtered with
      | none => none
      | some fl =>
        if featSectionB "SpotFeatures" s1 && featSectionB "EdgeFeatures" s2 && featSectionB "TrackFeatures" s3 &&
           L.allSpots.kids.all (frameExactB lex md) && L.allTracks.kids.all (trackExactB lex md)
        then some { space := L.model.attrs.lookup "spatialunits", time := L.model.attrs.lookup "timeunits",
                    sf := sectionFeats s1, ef := sectionFeats s2, tf := sectionFeats s3,
                    spots := L.allSpots.kids.flatMap (fun f => f.kids.map (spotOfEl lex)),
                    tracks := L.allTracks.kids.map (trackOfEl lex), filtered := fl }
        else none
    | _ => none

end Geff.TrackMate.Xml
