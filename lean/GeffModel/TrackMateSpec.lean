import GeffModel.TrackMate
import GeffModel.Graph
/-! # C16 — specification vocabulary and closed forms for the TrackMate converter (core Lean only)

Definitions only (the lemmas about them are in `GeffProofs/TrackMate*.lean`):
* closed forms of what the mutating loops of the converter compute on a well-formed document
  (`spotAttrs`, `stamped`, `fullGraph`, `finalGraph`);
* the vocabulary of the property theorems: `WF` (TrackMate's own invariants), `tagged` (the links with
  their track id), `lone`, `trackIdOf`, `listed`, `keepSpot` (the filter of the two discard options),
  `cellOf` (the stored value of an element under a property);
* `wfB`: an executable check that implies `WF` (`wfB_sound`), so that the harness can ask the driver
  whether a generated document satisfies the hypotheses of the theorems. -/
namespace Geff.TrackMate

/-- the attribute dict `_add_all_nodes` stores for a spot (closed form) -/
def spotAttrs (md : List Feat) (s : Spot) : Attrs :=
  let a := match convertAttributes md (spotTexts s) with
    | .ok a => a
    | .exc _ => []
  match s.roi with
  | some r => (match r.pts with
    | some p => aset a "ROI_coords" (.roi p)
    | none => a)
  | none => a

/-- what makes one `Spot` element well-formed for `_add_all_nodes` -/
structure SpotOk (md : List Feat) (s : Spot) : Prop where
  conv : ∃ a, convertAttributes md (spotTexts s) = .ok a
  roi : ∀ r, s.roi = some r → r.pts.isSome = true → r.nPoints ≠ 0

def spotId (s : Spot) : Nat := s.id.getD 0

def touches (e : Edge) (n : Nat) : Bool := e.s == n || e.t == n

/-- the `TRACK_ID` entry a node carries after the (edge, track id) pairs `L` have been processed -/
def stampOf (L : List (Edge × Val)) (n : Nat) : Attrs :=
  match L.find? (fun x => touches x.1 n) with
  | some x => [("TRACK_ID", x.2)]
  | none => []

def edgeAttrs (md : List Feat) (e : Edge) : Attrs :=
  match convertAttributes md (edgeTexts e) with
  | .ok a => a
  | .exc _ => []

def edgeEntry (md : List Feat) (x : Edge × Val) : (Nat × Nat) × Attrs := ((x.1.s, x.1.t), edgeAttrs md x.1)

/-- the graph after `_add_all_nodes` (`base`) and the processing of `L` -/
def stamped (md : List Feat) (base : List (Nat × Attrs)) (L : List (Edge × Val)) : Graph :=
  { nodes := base.map (fun p => (p.1, p.2 ++ stampOf L p.1)), edges := L.map (edgeEntry md) }

def addTagged (md : List Feat) : List (Edge × Val) → Graph → Outcome Graph
  | [], g => .ok g
  | x :: rest, g => match addEdge md x.1 g x.2 with
    | .exc e => .exc e
    | .ok g' => addTagged md rest g'

structure TaggedOk (md : List Feat) (base : List (Nat × Attrs)) (L : List (Edge × Val)) : Prop where
  conv : ∀ x ∈ L, ∃ a, convertAttributes md (edgeTexts x.1) = .ok a
  ends : ∀ x ∈ L, x.1.s ∈ base.map (·.1) ∧ x.1.t ∈ base.map (·.1)
  distinct : (L.map (fun x => (x.1.s, x.1.t))).Nodup
  consistent : ∀ x ∈ L, ∀ y ∈ L, ∀ n, touches x.1 n = true → touches y.1 n = true → x.2 = y.2

/-- the `TRACK_ID` value `_build_tracks` reads off a `Track` element -/
def trackTid (md : List Feat) (t : Track) : Val :=
  match convertAttributes md (trackTexts t) with
  | .ok a => (aget? a "TRACK_ID").getD .none
  | .exc _ => .none

/-- every edge of the document with the id of its track, in document order -/
def tagged (md : List Feat) (tracks : List Track) : List (Edge × Val) :=
  tracks.flatMap (fun t => t.edges.map (fun e => (e, trackTid md t)))

/-- the nodes after `_add_all_nodes` -/
def baseNodes (d : Doc) : List (Nat × Attrs) := d.spots.map (fun s => (spotId s, spotAttrs (attrsMd d) s))

/-- **Well-formed document** = TrackMate's own invariants, as far as the converter relies on them. -/
structure WF (d : Doc) : Prop where
  /-- every spot converts (declared int features carry integer texts, …; a ROI with text has points) -/
  spotOk : ∀ s ∈ d.spots, SpotOk (attrsMd d) s
  /-- every spot has an ID and the IDs are pairwise distinct -/
  spotHasId : ∀ s ∈ d.spots, s.id.isSome = true
  idsNodup : (d.spots.map spotId).Nodup
  /-- a ROI on every spot or on none -/
  roiUniform : (∀ s ∈ d.spots, s.roi = none) ∨ (∀ s ∈ d.spots, s.roi.isSome = true)
  /-- no spot attribute is called TRACK_ID -/
  noTrackIdAttr : ∀ s ∈ d.spots, "TRACK_ID" ∉ (spotAttrs (attrsMd d) s).map (·.1)
  /-- every track has a TRACK_ID and its attributes convert -/
  trackOk : ∀ t ∈ d.tracks, ∃ a tid, convertAttributes (attrsMd d) (trackTexts t) = .ok a ∧ aget? a "TRACK_ID" = some tid
  /-- edges convert, join existing spots, are pairwise distinct, and a spot is touched by edges of one
  track id only (tracks are vertex-disjoint) -/
  edgesOk : TaggedOk (attrsMd d) (baseNodes d) (tagged (attrsMd d) d.tracks)
  /-- no link from a spot to itself (`SPOT_SOURCE_ID = SPOT_TARGET_ID`): TrackMate links spots of
  different frames.  The converter would accept such a link, graph validation of its output would
  not (`GeffProps.C16Links.C16_counterexample_self_link`). -/
  noSelfLink : ∀ x ∈ tagged (attrsMd d) d.tracks, x.1.s ≠ x.1.t

/-- the graph `_build_data` holds before the discard blocks (closed form) -/
def fullGraph (d : Doc) : Graph := stamped (attrsMd d) (baseNodes d) (tagged (attrsMd d) d.tracks)

def keys (g : Graph) : List Nat := g.nodes.map (·.1)

/-- every edge joins nodes of the graph -/
def Closed (g : Graph) : Prop := ∀ e ∈ g.edges, e.1.1 ∈ keys g ∧ e.1.2 ∈ keys g

/-- one removal block: `if b: graph.remove_nodes_from([n for n in graph if P(n)])` -/
def stage (g : Graph) (b : Bool) (P : Nat × Attrs → Bool) : Graph :=
  if b then g.removeNodes ((g.nodes.filter P).map (·.1)) else g

def restrictTo (g : Graph) (nodes : List (Nat × Attrs)) : Graph :=
  { nodes := nodes,
    edges := g.edges.filter (fun e => decide (e.1.1 ∈ nodes.map (·.1)) && decide (e.1.2 ∈ nodes.map (·.1))) }

/-- a spot that belongs to no track: no edge of the document touches it -/
def lone (d : Doc) (n : Nat) : Bool := (tagged (attrsMd d) d.tracks).all (fun x => !touches x.1 n)

/-- the `TRACK_ID` the converter stamps on node `n`: the id of the first track (document order)
with an edge at `n`; `none` for a spot that belongs to no track -/
def trackIdOf (d : Doc) (n : Nat) : Option Val :=
  ((tagged (attrsMd d) d.tracks).find? (fun x => touches x.1 n)).map (·.2)

/-- the track id is one of the listed ones (`t in id_to_keep`; `None` is never listed) -/
def listed (keep : List Int) : Option Val → Bool
  | some (.i t) => keep.contains t
  | some (.f (.ofInt t)) => keep.contains t
  | _ => false

/-- the node filter of `_build_data`, on the document: `discard_filtered_spots` drops the spots of no
track; `discard_filtered_tracks` — only when the document has a `FilteredTracks` section — drops the
nodes whose track is not listed (spots of no track included) -/
def keepSpot (d : Doc) (ds dt : Bool) (n : Nat) : Bool :=
  !(ds && lone d n) && !((dt && d.filtered.isSome) && !listed (d.filtered.getD []) (trackIdOf d n))

/-- the graph `_build_data` returns (closed form) -/
def finalGraph (d : Doc) (ds dt : Bool) : Graph :=
  restrictTo (fullGraph d) ((fullGraph d).nodes.filter (fun p => keepSpot d ds dt p.1))

/-- the value stored for element `n` under property `k`; `none` = flagged missing, or no such property -/
def cellOf {α : Type} [DecidableEq α] (ids : List α) (props : List PropOut) (k : String) (n : α) : Option Val :=
  match props.find? (fun p => p.name == k) with
  | none => none
  | some p => ((ids.zip p.col.cells).find? (fun x => x.1 == n)).bind (·.2)

/-! ### executable well-formedness checks (soundness: `GeffProofs/TrackMate8.lean`) -/

def isOk {α : Type} : Outcome α → Bool
  | .ok _ => true
  | .exc _ => false

def nodupB {α : Type} [DecidableEq α] : List α → Bool
  | [] => true
  | x :: t => !t.contains x && nodupB t

def spotOkB (md : List Feat) (s : Spot) : Bool :=
  isOk (convertAttributes md (spotTexts s)) &&
  (match s.roi with
   | some r => !r.pts.isSome || decide (r.nPoints ≠ 0)
   | none => true)

def taggedOkB (md : List Feat) (base : List (Nat × Attrs)) (L : List (Edge × Val)) : Bool :=
  L.all (fun x => isOk (convertAttributes md (edgeTexts x.1))) &&
  L.all (fun x => (base.map (·.1)).contains x.1.s && (base.map (·.1)).contains x.1.t) &&
  nodupB (L.map (fun x => (x.1.s, x.1.t))) &&
  L.all (fun x => L.all (fun y =>
    decide (x.2 = y.2) || (!touches y.1 x.1.s && !touches y.1 x.1.t)))

/-- executable check of every clause of `WF` except `noSelfLink` -/
def wfCoreB (d : Doc) : Bool :=
  let md := attrsMd d
  d.spots.all (spotOkB md) && d.spots.all (fun s => s.id.isSome) && nodupB (d.spots.map spotId) &&
  (d.spots.all (fun s => s.roi.isNone) || d.spots.all (fun s => s.roi.isSome)) &&
  d.spots.all (fun s => !((spotAttrs md s).map (·.1)).contains "TRACK_ID") &&
  d.tracks.all (fun t => match convertAttributes md (trackTexts t) with
    | .ok a => (aget? a "TRACK_ID").isSome
    | .exc _ => false) &&
  taggedOkB md (baseNodes d) (tagged md d.tracks)

/-- executable check of the clause `noSelfLink` -/
def noSelfLinkB (d : Doc) : Bool := (tagged (attrsMd d) d.tracks).all (fun x => x.1.s != x.1.t)

/-- executable check of `WF` -/
def wfB (d : Doc) : Bool := wfCoreB d && noSelfLinkB d

/-- executable check of the declarations (`GeffProps.C16.MetaOk`) -/
def metaOkB (d : Doc) : Bool :=
  let sp := d.space.getD "pixel"
  let ti := d.time.getD "frame"
  match processFeatures sp ti d.sf [], processFeatures sp ti d.ef [], processFeatures sp ti d.tf [] with
  | .ok nmd, .ok _, .ok _ => !(d.spots.any (fun s => s.roi.isSome)) || nmd.any (fun kv => kv.1 == "POSITION_X")
  | _, _, _ => false

/-- executable check that every track is connected (`GeffProps.C16.TracksConnected`): per track id,
the source of every link lies in the component of the first link's source -/
def tracksConnectedB (d : Doc) : Bool :=
  let L := tagged (attrsMd d) d.tracks
  (Geff.Graph.dedup (L.map (·.2))).all (fun tid =>
    let Lt := L.filter (fun z => decide (z.2 = tid))
    let es := Lt.map (fun z => (z.1.s, z.1.t))
    let V := es.flatMap (fun e => [e.1, e.2])
    match Lt with
    | [] => true
    | r :: _ =>
      let comp := Geff.Graph.component es V r.1.s
      Lt.all (fun y => comp.contains y.1.s))

end Geff.TrackMate
