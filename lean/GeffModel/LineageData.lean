import GeffModel.Lineage
import GeffModel.Tracklet
/-! Model of the integer-array entry point of `geff.validate.tracks.validate_lineages` and of its
wiring in `geff.validate.data.validate_data` (C14).

* `validate_lineages` starts with `np.asarray(…, dtype=np.int64)` on all three arguments
  (`Tracklet.toInt64`: identity on the int64 range, two's-complement wrap of uint64 values ≥ 2^63)
  and renders one message per offending lineage id (the cast id is what is printed);
* `validate_data` selects the nodes whose lineage id is not flagged missing
  (`Tracklet.nodesWithId`, the shared model of `_nodes_with_id`) and raises
  `ValueError("Found invalid lineages:\n", "\n".join(errors))` when the verdict is negative. -/
namespace Geff.Lineage
open Geff.Tracklet (toInt64 nodesWithId)

/-- the message `validate_lineages` appends for lineage id `l` -/
def message (l : Int) : String :=
  "Lineage " ++ toString l ++ ": Does not form a valid, isolated connected component."

def castEdges (edges : List (Int × Int)) : List (Int × Int) :=
  edges.map fun e => (toInt64 e.1, toInt64 e.2)

/-- offending lineage ids of `validate_lineages` on integer arrays (after the int64 cast) -/
def lineageErrorsInt64 (nodes labels : List Int) (edges : List (Int × Int)) : List Int :=
  lineageErrors ((nodes.map toInt64).zip (labels.map toInt64)) (castEdges edges)

/-- `validate_lineages(node_ids, edge_ids, lineage_ids)`: `(is_valid, errors)` -/
def validateLineagesArrays (nodes labels : List Int) (edges : List (Int × Int)) : Bool × List String :=
  let errs := lineageErrorsInt64 nodes labels edges
  (errs.isEmpty, errs.map message)

/-- observable outcome of the lineage branch of `validate_data` -/
inductive DataOutcome where
  | ok
  /-- `ValueError(arg0, arg1)` -/
  | valueError (arg0 arg1 : String)
  /-- numpy's IndexError for a mask whose length differs from the arrays -/
  | indexError
  deriving DecidableEq, Repr

/-- the lineage branch of `validate_data` on a geff whose lineage-id property has the given values
and (optional) missing mask -/
def validateDataLineage (nodes values : List Int) (missing : Option (List Bool))
    (edges : List (Int × Int)) : DataOutcome :=
  match nodesWithId nodes values missing with
  | none => .indexError
  | some nl =>
    let r := validateLineagesArrays (nl.map (·.1)) (nl.map (·.2)) edges
    if r.1 then .ok else .valueError "Found invalid lineages:\n" ("\n".intercalate r.2)

end Geff.Lineage
