import Lean.Data.Json
/-! JSON-lines protocol shared by the drivers: one request object per input line, one answer
object per output line, answers in request order.  A driver is `Proto.run handle`. -/
namespace Geff.Proto
open Lean

def err (msg : String) : Json := Json.mkObj [("err", Json.str msg)]

/-- integers travel as JSON numbers when small and as decimal strings otherwise -/
def getInt? (j : Json) : Except String Int :=
  match j with
  | .str s => match s.toInt? with
    | some i => .ok i
    | none => .error s!"not an integer string: {s}"
  | _ => j.getInt?

def getIntList (j : Json) : Except String (List Int) := do
  let a ← j.getArr?
  a.toList.mapM getInt?

def getIntPairs (j : Json) : Except String (List (Int × Int)) := do
  let a ← j.getArr?
  a.toList.mapM fun p => do
    let q ← p.getArr?
    if q.size = 2 then
      return (← getInt? q[0]!, ← getInt? q[1]!)
    else throw "pair expected"

def intJson (i : Int) : Json :=
  if i.natAbs < 9007199254740992 then Json.num (JsonNumber.fromInt i) else Json.str (toString i)

partial def loop (h : IO.FS.Stream) (out : IO.FS.Stream) (handle : Json → Except String Json) :
    IO Unit := do
  let line ← h.getLine
  if line.isEmpty then return ()
  let ans := match Json.parse line with
    | .error e => err ("parse: " ++ e)
    | .ok j => match handle j with
      | .ok r => r
      | .error e => err e
  out.putStrLn ans.compress
  loop h out handle

def run (handle : Json → Except String Json) : IO Unit := do
  let out ← IO.getStdout
  loop (← IO.getStdin) out handle
  out.flush

end Geff.Proto
