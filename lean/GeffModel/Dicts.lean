import GeffModel.Np
/-! # Attribute graphs, Python attribute values and the dict → array layer (property C03)

Model of `geff.core_io._base_write.write_dicts`, `_determine_default_value`, `_exact_int_array`
and `dict_props_to_arr`, of numpy's dtype inference for lists of Python scalars, and of the
in-memory geff (`InMemoryGeff`) the three backends are constructed from.

Conventions
* A Python attribute value is a scalar (`Val`) or a rectangular nested list / ndarray, given by
  its shape and its C-order leaves (`PyVal.arr`).  Its *kind* (`bool | int | float | str | array`)
  is the constructor, so equality of `PyVal`s is equality of value **and** kind.
* Floats are opaque bit-pattern tokens (`Val.f`), never computed on.  A float leaf of a stored
  array is the token of the Python float `.tolist()` yields (float32 widened exactly).
* `raise` is an explicit `Err`; what the model does not cover (numpy casts between different kinds:
  int → float rounding, anything → str) is the explicit outcome `Err.unmodelled`, never a default.
-/
namespace Geff.Dicts
open Geff.Np

/-- outcomes other than a normal return -/
inductive Err where
  | valueError | overflowError | keyError | indexError | typeError
  | unmodelled (why : String)
deriving DecidableEq, Repr, Inhabited

instance {ε α : Type} [DecidableEq ε] [DecidableEq α] : DecidableEq (Except ε α) := fun a b =>
  match a, b with
  | .ok x, .ok y => if h : x = y then isTrue (by rw [h]) else isFalse (fun e => h (Except.ok.inj e))
  | .error x, .error y => if h : x = y then isTrue (by rw [h]) else isFalse (fun e => h (Except.error.inj e))
  | .ok _, .error _ => isFalse (fun e => by cases e)
  | .error _, .ok _ => isFalse (fun e => by cases e)

/-- `[f a for a in l]` where `f` may raise (the first exception wins); structural, so that it
unfolds in proofs -/
def mapE {α β : Type} (f : α → Except Err β) : List α → Except Err (List β)
  | [] => .ok []
  | a :: t =>
    match f a with
    | .error e => .error e
    | .ok b =>
      match mapE f t with
      | .error e => .error e
      | .ok bs => .ok (b :: bs)

/-- the five kinds of property C03 -/
inductive Kind where
  | bool | int | float | str | array
deriving DecidableEq, Repr, Inhabited

def valKind : Val → Kind
  | .b _ => .bool | .i _ => .int | .f _ => .float | .s _ => .str

/-- a Python attribute value -/
inductive PyVal where
  | sc (v : Val)
  | arr (shape : List Nat) (flat : List Val)
  /-- Python `None`: not one of the five kinds; next to list values `construct_var_len_props`
  (and, since repair C03-06, `dict_props_to_arr`) treats it as a missing value -/
  | none
deriving DecidableEq, Repr, Inhabited

/-- kind of a value (`none` for Python `None`, which has none of the five) -/
def PyVal.kind : PyVal → Option Kind
  | .sc v => some (valKind v)
  | .arr _ _ => some .array
  | .none => Option.none

def PyVal.isNone : PyVal → Bool
  | .none => true
  | _ => false

def PyVal.isArr : PyVal → Bool
  | .arr _ _ => true
  | _ => false

/-- a Python `dict[str, Any]`: insertion ordered, keys unique -/
abbrev Attrs := List (String × PyVal)

/-- `d[k] = v` -/
def Attrs.set : Attrs → String → PyVal → Attrs
  | [], k, v => [(k, v)]
  | (k', v') :: t, k, v => if k' = k then (k, v) :: t else (k', v') :: Attrs.set t k v

/-- bit pattern of `0.0` (`struct.pack('<d', 0.0).hex()`) -/
def zeroBits : String := "0000000000000000"
/-- bit pattern of `1.0` -/
def oneBits : String := "000000000000f03f"

/-! ## numpy dtype inference for Python scalars -/

def two63 : Int := 9223372036854775808
def two64 : Int := 18446744073709551616

/-- dtype numpy discovers for one Python scalar -/
def discover : Val → Dtype
  | .b _ => .bool
  | .i v => if -two63 ≤ v ∧ v < two63 then .i64 else if two63 ≤ v ∧ v < two64 then .u64 else .obj
  | .f _ => .f64
  | .s _ => .str

/-- position in the chain `bool < {int64, uint64} < float64 < str < object` -/
def rank : Dtype → Nat
  | .bool => 0 | .i64 => 1 | .u64 => 1 | .f64 => 2 | .str => 3 | _ => 4

/-- `np.promote_types` on the dtypes `discover` can return: the join of the chain above, where
the two 64-bit integer types only meet in float64 -/
def promote (a b : Dtype) : Dtype :=
  if a = b then a
  else if rank a = 1 ∧ rank b = 1 then .f64
  else if rank a < rank b then b
  else if rank b < rank a then a
  else .obj

/-- dtype of `np.asarray(leaves)`; an empty list is float64 -/
def joinAll : List Dtype → Dtype
  | [] => .f64
  | d :: ds => ds.foldl promote d

/-- conversion of one Python scalar into an array of dtype `d`.  Same-kind conversions and the
bool → number conversions are modelled; int → float (rounding) and anything → str are not. -/
def castTo (d : Dtype) (v : Val) : Except Err Val :=
  match d, v with
  | .bool, .b x => .ok (.b x)
  | .i64, .i x => .ok (.i x)
  | .u64, .i x => .ok (.i x)
  | .i64, .b x => .ok (.i (if x then 1 else 0))
  | .u64, .b x => .ok (.i (if x then 1 else 0))
  | .f64, .f x => .ok (.f x)
  | .f64, .b x => .ok (.f (if x then oneBits else zeroBits))
  | .str, .s x => .ok (.s x)
  | .obj, _ => .error (.unmodelled "object array")
  | _, _ => .error (.unmodelled "cast between kinds")

def isInt : Val → Bool
  | .i _ => true
  | _ => false

def inU64 : Val → Bool
  | .i v => decide (0 ≤ v ∧ v < two64)
  | _ => false

/-- `_exact_int_array` (repair of D18/D21): when numpy's inference gave float64 or uint64 but every
leaf is a Python integer, the array is rebuilt as uint64 — `OverflowError` when a leaf does not fit -/
def exactIntDtype (leaves : List Val) (d : Dtype) : Except Err Dtype :=
  if (d = .f64 ∨ d = .u64) ∧ leaves ≠ [] ∧ leaves.all isInt then
    if leaves.all inU64 then .ok .u64 else .error .overflowError
  else .ok d

/-! ## Columns: the `{"values": ndarray, "missing": ndarray | None}` of one property -/

/-- one element's entry of a values array: its shape and C-order leaves (`[]`, `[v]` for a scalar) -/
abbrev Row := List Nat × List Val

structure Col where
  dtype : Dtype
  /-- object array of ndarrays (variable-length property) -/
  varlen : Bool
  rows : List Row
  missing : Option (List Bool)
deriving DecidableEq, Repr, Inhabited

/-- what `values[i]` means as a Python value after `.tolist()` (regular) / as the stored ndarray
(variable length) -/
def rowToPy (varlen : Bool) : Row → PyVal
  | ([], [v]) => if varlen then .arr [] [v] else .sc v
  | (sh, fl) => .arr sh fl

/-- shape tag numpy's homogeneity test compares: `none` = scalar, `some sh` = list / array of shape
`sh`; `some []` stands for "not a list": a 0-d array or Python `None` (excluded by the domains) -/
def pyShape : PyVal → Option (List Nat)
  | .sc _ => Option.none
  | .arr sh _ => some sh
  | .none => some []

def pyLeaves : PyVal → List Val
  | .sc v => [v]
  | .arr _ fl => fl
  | .none => []

def pyRow : PyVal → Row
  | .sc v => ([], [v])
  | .arr sh fl => (sh, fl)
  | .none => ([], [])

def castRow (d : Dtype) (r : Row) : Except Err Row :=
  match mapE (castTo d) r.2 with
  | .error e => .error e
  | .ok fl => .ok (r.1, fl)

/-- dtype of `np.asarray(x)` for one (rectangular) element -/
def elemDtype (x : PyVal) : Dtype := joinAll ((pyLeaves x).map discover)

/-- width of the unicode dtype numpy picks for the leaves (1 for no / empty strings) -/
def strWidth (x : PyVal) : Nat :=
  (pyLeaves x).foldl (fun w v => match v with | .s t => max w t.length | _ => w) 1

/-- `np.can_cast(a, b)` (safe casting) on the discovered dtypes; unicode widths compared separately -/
def canCast (a b : Dtype) : Bool :=
  a = b || a = .bool && rank b ≤ 2 || rank a = 1 && b = .f64

/-- `_get_common_type_dims`: the common dtype of the elements (their join), unicode width, ndim.
The pinned code folds left to right and raises `ValueError` when `can_cast(acc, elem)` fails at some
step, which depends on the order of the elements (defect D8 of property C11, repaired there by
promoting the set of dtypes at once); where that happens the model makes no claim
(`unmodelled`) — on every other input the two versions agree and so does the model. -/
def commonTypeDims : List PyVal → Except Err (Dtype × Nat × Nat)
  | [] => .ok (.i64, 1, 1)
  | x :: xs =>
    xs.foldlM (fun (acc : Dtype × Nat × Nat) y =>
        let d := elemDtype y
        let w := strWidth y
        if canCast acc.1 d ∧ (acc.1 = .str → acc.2.1 ≤ w) then
          .ok (promote acc.1 d, max acc.2.1 w, max acc.2.2 ((pyRow y).1.length))
        else .error (.unmodelled "order-dependent common dtype (D8, property C11)"))
      (elemDtype x, strWidth x, (pyRow x).1.length)

/-- one element of `construct_var_len_props`: cast to the common dtype, leading axes of extent 1
prepended up to the common rank -/
def varLenRow (d : Dtype) (nd : Nat) (x : PyVal) : Except Err Row :=
  match castRow d (pyRow x) with
  | .error e => .error e
  | .ok r => .ok (List.replicate (nd - r.1.length) 1 ++ r.1, r.2)

/-- `construct_var_len_props(values)["values"]` for a list without `None`.  numpy infers the
`ulonglong` flavour of uint64 for all-large Python ints, which zarr refuses; the model has one
uint64 only, so that case is outside it (known finding `C03:ragged-int-values-ge-2^63`). -/
def constructVarLenProps (vals : List PyVal) : Except Err (Dtype × List Row) :=
  match commonTypeDims vals with
  | .error e => .error e
  | .ok (d, _, nd) =>
    if d = .u64 then .error (.unmodelled "uint64 flavour of a variable-length array")
    else
      match mapE (varLenRow d nd) vals with
      | .error e => .error e
      | .ok rows => .ok (d, rows)

/-- `construct_var_len_props(values)` for a list with `None` entries: `None` is ignored for the
common dtype / rank, stored as an empty array `np.empty((0,)*ndim, dtype)` and flagged in the
returned `missing` mask (`None` when no entry is `None`) -/
def varLenWithNone (vals : List PyVal) : Except Err (Dtype × List Row × Option (List Bool)) :=
  match commonTypeDims (vals.filter (fun x => !x.isNone)) with
  | .error e => .error e
  | .ok (d, _, nd) =>
    if d = .u64 then .error (.unmodelled "uint64 flavour of a variable-length array")
    else
      match mapE (fun x => if x.isNone then .ok ((List.replicate nd 0, []) : Row) else varLenRow d nd x) vals with
      | .error e => .error e
      | .ok rows => .ok (d, rows, if vals.any PyVal.isNone then some (vals.map PyVal.isNone) else Option.none)

/-- `np.asarray(values)` + `_exact_int_array` for values of one shape: one regular array -/
def regularArr (vals : List PyVal) : Except Err (Dtype × Bool × List Row) :=
  match exactIntDtype (vals.flatMap pyLeaves) (joinAll ((vals.flatMap pyLeaves).map discover)) with
  | .error e => .error e
  | .ok d =>
    match mapE (fun y => castRow d (pyRow y)) vals with
    | .error e => .error e
    | .ok rows => .ok (d, false, rows)

/-- `np.asarray(values)` + `_exact_int_array`, falling back to `construct_var_len_props` on numpy's
"inhomogeneous shape" `ValueError` -/
def valuesToArr (vals : List PyVal) : Except Err (Dtype × Bool × List Row) :=
  match vals with
  | [] => .ok (.f64, false, [])
  | x :: _ =>
    if vals.all (fun y => pyShape y = pyShape x) then regularArr vals
    else
      match constructVarLenProps vals with
      | .error e => .error e
      | .ok (d, rows) => .ok (d, true, rows)

/-- `_determine_default_value` after the repair of D2: a zero of the first present value's own type -/
def defaultFor : PyVal → PyVal
  | .sc (.b _) => .sc (.b false)
  | .sc (.i _) => .sc (.i 0)
  | .sc (.f _) => .sc (.f zeroBits)
  | .sc (.s _) => .sc (.s "")
  | v => v

def determineDefaultValue {ι : Type} (data : List (ι × Attrs)) (name : String) : PyVal :=
  match data.findSome? (fun d => d.2.lookup name) with
  | some v => defaultFor v
  | none => .sc (.i 0)

/-- one property of `dict_props_to_arr` -/
def filledValues {ι : Type} (data : List (ι × Attrs)) (name : String) : List PyVal :=
  data.map fun d => (d.2.lookup name).getD (determineDefaultValue data name)

def missingMask {ι : Type} (data : List (ι × Attrs)) (name : String) : List Bool :=
  data.map fun d => (d.2.lookup name).isNone

/-- `[m or n for m, n in zip(missing, none_mask)]` -/
def orMasks : List Bool → List Bool → List Bool
  | a :: as, b :: bs => (a || b) :: orMasks as bs
  | _, _ => []

/-- one property of `dict_props_to_arr`.  With a `None` among the (filled) values: next to at least
one list numpy raises its "inhomogeneous" `ValueError` and the variable-length fallback treats the
`None`s as missing values, whose mask is OR-ed into the mask of the absent elements (repair
C03-06); without any list the result is an object array of Python objects that cannot be written
(outside the model). -/
def dictPropToArr {ι : Type} (data : List (ι × Attrs)) (name : String) : Except Err Col :=
  if (filledValues data name).any PyVal.isNone then
    if (filledValues data name).any PyVal.isArr then
      match varLenWithNone (filledValues data name) with
      | .error e => .error e
      | .ok (d, rows, _) =>
        .ok { dtype := d, varlen := true, rows := rows,
              missing := some (orMasks (missingMask data name) ((filledValues data name).map PyVal.isNone)) }
    else .error (.unmodelled "object array holding None")
  else
    match valuesToArr (filledValues data name) with
    | .error e => .error e
    | .ok (d, vl, rows) =>
      .ok { dtype := d, varlen := vl, rows := rows,
            missing := if (missingMask data name).any id then some (missingMask data name) else none }

def namedCol {ι : Type} (data : List (ι × Attrs)) (n : String) : Except Err (String × Col) :=
  match dictPropToArr data n with
  | .error e => .error e
  | .ok c => .ok (n, c)

/-- `dict_props_to_arr` -/
def dictPropsToArr {ι : Type} (data : List (ι × Attrs)) (names : List String) :
    Except Err (List (String × Col)) :=
  mapE (namedCol data) names

/-! ## The in-memory geff and `write_dicts` -/

structure MemGeff where
  directed : Bool
  nodeIds : List Int
  edgeIds : List (Int × Int)
  nodeProps : List (String × Col)
  edgeProps : List (String × Col)
deriving DecidableEq, Repr, Inhabited

/-- the node id array of `write_dicts`: inference, negative check, exact uint64 -/
def nodeIdArr (ids : List Int) : Except Err (List Int) :=
  if ids.any (· < 0) then .error .valueError
  else if ids.all (· < two64) then .ok ids
  else .error .overflowError

/-- `np.asarray(edge_ids, dtype=uint64)` -/
def edgeIdArr (es : List (Int × Int)) : Except Err (List (Int × Int)) :=
  if es.all (fun e => 0 ≤ e.1 ∧ e.1 < two64 ∧ 0 ≤ e.2 ∧ e.2 < two64) then .ok es else .error .overflowError

/-- `write_dicts` up to the call of `write_arrays`: the in-memory geff that is handed to the store -/
def writeDicts (directed : Bool) (nodeData : List (Int × Attrs)) (edgeData : List ((Int × Int) × Attrs))
    (nodePropNames edgePropNames : List String) : Except Err MemGeff := do
  let nodes ← nodeIdArr (nodeData.map (·.1))
  let edges ← edgeIdArr (edgeData.map (·.1))
  let np ← dictPropsToArr nodeData nodePropNames
  let ep ← dictPropsToArr edgeData edgePropNames
  return { directed := directed, nodeIds := nodes, edgeIds := edges, nodeProps := np, edgeProps := ep }

/-! ## What an in-memory geff denotes (specification side) -/

/-- the value element `i` shows for column `c`: nothing when marked missing -/
def Col.entry (c : Col) (i : Nat) : Option PyVal :=
  match c.rows[i]? with
  | none => none
  | some r =>
    match c.missing with
    | none => some (rowToPy c.varlen r)
    | some ms => if ms[i]? = some false then some (rowToPy c.varlen r) else none

/-- attribute `name` of the `i`-th element according to the property list `props` -/
def memAttr (props : List (String × Col)) (i : Nat) (name : String) : Option PyVal :=
  match props.lookup name with
  | none => none
  | some c => c.entry i

/-- well-formed in-memory geff: every column has one row (and one mask entry) per element -/
def Col.WF (c : Col) (n : Nat) : Prop :=
  c.rows.length = n ∧ ∀ ms, c.missing = some ms → ms.length = n

instance (c : Col) (n : Nat) : Decidable (c.WF n) := by
  unfold Col.WF
  cases h : c.missing with
  | none => exact decidable_of_iff (c.rows.length = n) (by simp)
  | some ms => exact decidable_of_iff (c.rows.length = n ∧ ms.length = n) (by simp)

end Geff.Dicts
