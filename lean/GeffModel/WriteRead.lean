import GeffModel.Store
import GeffModel.Vlen
import Gen.Paths
/-! Model of the array-level write path and of the unmasked read path of geff (C01, C02) on the
tree view of the store.

Python functions modelled (same names, camelCase):
* `geff_spec.utils.create_props_metadata` (with the D15 repair: an empty object array gets dtype
  int64, the dtype of the empty `data` array the serialiser writes), `add_or_update_props_metadata`,
  the outcome of `compute_and_add_axis_min_max`;
* `geff.core_io._base_write.write_id_arrays`, `write_props_arrays` (incl. unsquish, the float16
  upcast, var-length serialisation through a codec), `write_arrays` (ids → optional empty axis
  properties → properties per group → metadata → structural validation as a parameter);
* `geff.core_io._base_read.GeffReader.__init__` / `read_node_props` / `read_edge_props` /
  `_read_prop` / `_load_prop_to_memory` / `build` with no masks, and `read_to_memory`.

Path constants come from the regenerated `Gen.Paths`.  Not modelled (named where they matter):
`check_for_geff`/`delete_geff` on a target that already holds a geff (C06), masks (C09), the
structural validator (C04, a parameter here), axis min/max values (C10). -/
namespace Geff.WR
open Geff.Np Geff.Store
open Gen.Paths (NODES EDGES IDS PROPS VALUES MISSING DATA)

/-! ### in-memory geff -/

/-- `PropDictNpArray["values"]`: an ordinary array, or an object array of arrays (var-length) -/
inductive PVals where
  | dense (a : NdArr)
  | obj (es : List NdArr)
deriving DecidableEq, Repr, Inhabited

structure PropArr where
  values : PVals
  missing : Option NdArr
deriving DecidableEq, Repr, Inhabited

/-- a Python dict from names to properties, in insertion order -/
abbrev Props := List (String × PropArr)

structure InMem where
  nodeIds : NdArr
  edgeIds : NdArr
  nodeProps : Option Props
  edgeProps : Option Props
deriving DecidableEq, Repr, Inhabited

/-- what the reader returns (`InMemoryGeff` without the metadata object) -/
structure ReadResult where
  nodeIds : NdArr
  edgeIds : NdArr
  nodeProps : Props
  edgeProps : Props
  md : GeffAttr
deriving DecidableEq, Repr, Inhabited

/-- the caller's `GeffMetadata` as far as the write path looks at it -/
structure CallerMeta where
  directed : Bool
  axes : Option (List String)
  nodeProps : List (String × PropMeta)
  edgeProps : List (String × PropMeta)
deriving DecidableEq, Repr, Inhabited

/-- `serialize_vlen_property_data` / `deserialize_vlen_property_data` (C11's subject) enter as a
codec: `encode` gives `(values, data)`, `decode values data` the object array. -/
structure VlenCodec where
  encode : List NdArr → Outcome (NdArr × NdArr)
  decode : NdArr → NdArr → Outcome (List NdArr)

/-! ### float16 → float32 on bit patterns (numpy's software conversion; NaN payloads are shifted,
not quietened) -/

def hexVal (c : Char) : Nat :=
  if c.isDigit then c.toNat - 48
  else if 'a' ≤ c ∧ c ≤ 'f' then c.toNat - 87
  else if 'A' ≤ c ∧ c ≤ 'F' then c.toNat - 55 else 0

def hexToNat (s : String) : Nat := s.foldl (fun acc c => acc * 16 + hexVal c) 0

def hexDigit (n : Nat) : Char := if n < 10 then Char.ofNat (48 + n) else Char.ofNat (87 + n)

def natToHex (digits n : Nat) : String :=
  String.ofList ((List.range digits).reverse.map (fun i => hexDigit ((n / 16 ^ i) % 16)))

def f16to32bits (h : Nat) : Nat :=
  let s := h / 32768
  let e := (h / 1024) % 32
  let m := h % 1024
  if e = 31 then s * 2 ^ 31 + 255 * 2 ^ 23 + m * 2 ^ 13
  else if e = 0 then
    if m = 0 then s * 2 ^ 31
    else
      let k := Nat.log2 m
      s * 2 ^ 31 + (k + 103) * 2 ^ 23 + (m - 2 ^ k) * 2 ^ (23 - k)
  else s * 2 ^ 31 + (e + 112) * 2 ^ 23 + m * 2 ^ 13

def f16to32Val : Val → Val
  | .f h => .f (natToHex 8 (f16to32bits (hexToNat h)))
  | v => v

/-- `values.astype(np.float32)` for a float16 array -/
def f16to32 (a : NdArr) : NdArr := { dtype := .f32, shape := a.shape, flat := a.flat.map f16to32Val }

/-- the float16 upcast `create_props_metadata` performs (and writes back into the caller's dict) -/
def upcast (p : PropArr) : PropArr :=
  match p.values with
  | .dense a => if a.dtype = .f16 then { p with values := .dense (f16to32 a) } else p
  | .obj _ => p

/-! ### metadata helpers -/

/-- `geff_spec._valid_values.VALID_DTYPES` (the harness compares this list with the source on every run) -/
def validDtypes : List Dtype := [.bool, .i8, .i16, .i32, .i64, .u8, .u16, .u32, .u64, .f32, .f64, .bytes, .str]

/-- `PropMetadata(identifier=…, dtype=…, varlength=…)`: pydantic raises (a ValueError) on an empty
identifier and on a dtype name outside `VALID_DTYPES`.  A fixed-width bytes array has numpy name
`bytes<n>`, which is not in the list, so only the flexible names survive. -/
def mkPropMeta (name : String) (dt : Dtype) (varlen : Bool) : Outcome PropMeta :=
  if name = "" then throw .valueError
  else if dt ∈ validDtypes ∧ dt ≠ .bytes then pure ⟨name, dt.name, some varlen⟩
  else throw .valueError

def isVarlen (p : PropArr) : Bool :=
  match p.values with
  | .obj _ => true
  | .dense _ => false

/-- the dtype `create_props_metadata` records: the array's, or — for an object array — the dtype of
its first element (repaired, D15: `int64` for an empty one, the dtype of the empty `data` array the
serialiser writes), after checking that all elements have it (else ValueError) -/
def metaDtype : PVals → Outcome Dtype
  | .dense a => pure a.dtype
  | .obj es =>
    if es.all (fun e => e.dtype = Geff.Vlen.dataDtype es) then pure (Geff.Vlen.dataDtype es)
    else throw .valueError

/-- `create_props_metadata`: returns the metadata and the property as it is written (float16 upcast
applied; Python writes the upcast array back into the caller's dict). -/
def createPropsMetadata (name : String) (p : PropArr) : Outcome (PropMeta × PropArr) := do
  let dt ← metaDtype (upcast p).values
  let pm ← mkPropMeta name dt (isVarlen (upcast p))
  pure (pm, upcast p)

def lookupKey {β} (k : String) (l : List (String × β)) : Option β := (l.find? (fun kv => kv.1 = k)).map (·.2)

/-- an existing entry keeps its place and gets the dtype and varlength of the new entry of that name -/
def updEntry (new : List PropMeta) (kv : String × PropMeta) : String × PropMeta :=
  match new.find? (fun pm => pm.identifier = kv.1) with
  | some pm => (kv.1, { kv.2 with dtype := pm.dtype, varlength := pm.varlength })
  | none => kv

/-- `add_or_update_props_metadata`: entries that exist are updated in place; new ones are appended in order. -/
def addOrUpdate (existing : List (String × PropMeta)) (new : List PropMeta) : List (String × PropMeta) :=
  existing.map (updEntry new) ++
    (new.filter (fun pm => (lookupKey pm.identifier existing).isNone)).map (fun pm => (pm.identifier, pm))

/-! ### node names -/

/-- names zarr accepts as one path segment under both formats.  `""` is rejected by pydantic, `"."`
and `".."` by zarr (ValueError both); names containing a separator or equal to a metadata key of the
format are outside the model (`unmodelled`). -/
def reservedNames : List String := [".zattrs", ".zgroup", ".zarray", ".zmetadata", "zarr.json"]

def validName (n : String) : Bool :=
  n ≠ "" && n ≠ "." && n ≠ ".." && !(n.toList.contains '/') && !(n.toList.contains '\\') && !(reservedNames.contains n)

def unmodelled (what : String) : Err := .other ("unmodelled:" ++ what)

/-! ### the write path -/

/-- `root[path] = array`: parents are created when absent, the array replaces what was there -/
def setArray (s : St) (parent : Path) (k : String) (a : NdArr) : St :=
  set (ensureGroup s parent) (parent ++ [k]) (.array a)

/-- `write_id_arrays` -/
def writeIdArrays (s : St) (nodeIds edgeIds : NdArr) : Outcome St :=
  if nodeIds.dtype ≠ edgeIds.dtype then throw .typeError
  else if !nodeIds.dtype.isInteger then throw .typeError
  else
    let s := ensureGroup s []
    let s := setArray s [NODES] IDS nodeIds
    pure (setArray s [EDGES] IDS edgeIds)

/-- what is stored for one property: `(values, data?)` — the array itself, or the serialised form -/
def encodeProp (c : VlenCodec) (p : PropArr) : Outcome (NdArr × Option NdArr) :=
  match p.values with
  | .dense a => pure (a, none)
  | .obj es => do
    let (v, d) ← c.encode es
    pure (v, some d)

/-- `prop_group = props_group.create_group(prop)`, `prop_group["values"] = …`, and `missing` / `data`
when there are any -/
def storeProp (s : St) (q : Path) (values : NdArr) (missing data : Option NdArr) : St :=
  let s := set s q (.group [])
  let s := set s (q ++ [VALUES]) (.array values)
  let s := match missing with
    | some m => set s (q ++ [MISSING]) (.array m)
    | none => s
  match data with
  | some d => set s (q ++ [DATA]) (.array d)
  | none => s

/-- the body of the loop of `write_props_arrays` for one property -/
def writeProp (c : VlenCodec) (pre : Path) (s : St) (name : String) (p : PropArr) : Outcome (St × PropMeta) := do
  let (pm, p') ← createPropsMetadata name p
  let (values, data) ← encodeProp c p'
  if name = "." ∨ name = ".." then throw .valueError
  if !validName name then throw (unmodelled "node-name")
  -- `props_group.create_group(prop)` refuses an existing node
  match get s (pre ++ [name]) with
  | some (.group _) => throw (.other "ContainsGroupError")
  | some (.array _) => throw (.other "ContainsArrayError")
  | none => pure ()
  pure (storeProp s (pre ++ [name]) values p'.missing data, pm)

def writePropsLoop (c : VlenCodec) (pre : Path) : St → Props → Outcome (St × List PropMeta)
  | s, [] => pure (s, [])
  | s, (name, p) :: rest => do
    let (s1, pm) ← writeProp c pre s name p
    let (s2, pms) ← writePropsLoop c pre s1 rest
    pure (s2, pm :: pms)

/-- column `i` of a 2-D array (`values[:, i]`); `none` when out of range (IndexError) -/
def column (a : NdArr) (i : Nat) : Option NdArr :=
  match a.shape with
  | [n, w] => if i < w then
      some { dtype := a.dtype, shape := [n], flat := (List.range n).filterMap (fun r => a.flat[r * w + i]?) }
    else none
  | _ => none

/-- the `props_unsquish` pre-pass: for every `(name, [new names])`, the 2-D property `name` is replaced
by its columns (dict update: an existing key keeps its position, a new one is appended) -/
def dictSet (ps : Props) (k : String) (v : PropArr) : Props :=
  if ps.any (fun kv => kv.1 = k) then ps.map (fun kv => if kv.1 = k then (k, v) else kv) else ps ++ [(k, v)]

def unsquishOne (ps : Props) (name : String) (newNames : List String) : Outcome Props := do
  let p ← match lookupKey name ps with
    | some p => pure p
    | none => throw .keyError
  let a ← match p.values with
    | .dense a => if a.shape.length = 2 then pure a else throw .valueError
    | .obj _ => throw .valueError
  let rec go (ps : Props) (i : Nat) : List String → Outcome Props
    | [] => pure ps
    | r :: rs => match column a i with
      | some col => go (dictSet ps r ⟨.dense col, p.missing⟩) (i + 1) rs
      | none => throw .indexError
  let ps ← go ps 0 newNames
  -- `del props[name]` (after the updates: a replacement called `name` itself disappears again)
  pure (ps.filter (fun kv => kv.1 ≠ name))

def unsquish (ps : Props) : List (String × List String) → Outcome Props
  | [] => pure ps
  | (name, news) :: rest => do unsquish (← unsquishOne ps name news) rest

/-- `write_props_arrays` for one of the groups `nodes` / `edges` -/
def writePropsArrays (c : VlenCodec) (s : St) (group : String) (ps : Props)
    (uns : Option (List (String × List String)) := none) : Outcome (St × List PropMeta) := do
  let ps ← match uns with
    | some u => unsquish ps u
    | none => pure ps
  -- `geff_root.require_group(f"{group}/props")`
  let s := ensureGroup (ensureGroup (ensureGroup s []) [group]) [group, PROPS]
  match get s [group, PROPS] with
  | some (.group _) => writePropsLoop c [group, PROPS] s ps
  | _ => throw (.other "ContainsArrayError")

/-- `len(values)` -/
def pvLen (v : PVals) : Option Nat :=
  match v with
  | .dense a => a.len?
  | .obj es => some es.length

/-- every entry of the mask is set (`values[~missing]` is then empty) -/
def allMissing (m : Option NdArr) : Bool :=
  match m with
  | some m => m.flat.all (fun v => v = .b true)
  | none => false

/-- `np.min`/`np.max` over the non-missing values of a dense axis property: nothing to do on an empty
one; TypeError (UFuncTypeError) on strings; ValueError on a zero-size reduction -/
def axisMinMaxDense (a : NdArr) (missing : Option NdArr) : Outcome Unit :=
  if a.len? = none then throw .typeError
  else if a.len? = some 0 then pure ()
  else if a.dtype = .str then throw .typeError
  else if allMissing missing = true ∨ a.flat.isEmpty = true then throw .valueError
  else pure ()

/-- outcome of `compute_and_add_axis_min_max` for one axis that is present among the node properties -/
def axisMinMaxOutcome (p : PropArr) : Outcome Unit :=
  match p.values with
  | .dense a => axisMinMaxDense a p.missing
  | .obj es => if es.isEmpty then pure () else throw (unmodelled "axis-object-array")

def checkAxes (axes : Option (List String)) (nodeProps : Option Props) : Outcome Unit :=
  match axes, nodeProps with
  | some names, some ps => names.forM (fun ax =>
      match lookupKey ax ps with
      | none => throw .valueError
      | some p => axisMinMaxOutcome p)
  | _, _ => pure ()

/-- "Create empty arrays for axis properties in an empty geff" -/
def addEmptyAxes (axes : Option (List String)) (ps : Props) : Props :=
  match axes with
  | none => ps
  | some names => names.foldl (fun acc ax =>
      if acc.any (fun kv => kv.1 = ax) then acc
      else acc ++ [(ax, ⟨.dense { dtype := .f64, shape := [0], flat := [] }, none⟩)]) ps

def hasGeff (s : St) : Bool :=
  match get s [] with
  | some (.group attrs) => attrs.any (fun kv => kv.1 = "geff")
  | _ => false

/-- `metadata.write(store)`: `attrs["geff"] = …` on the root group, other attributes are kept -/
def writeMeta (s : St) (m : GeffAttr) : St :=
  let attrs := match get s [] with
    | some (.group a) => a
    | _ => []
  set s [] (.group (setAttr attrs "geff" (.geff m)))

/-- the properties as the writer ends up storing them for one group (after the optional empty axes) -/
def nodePropsToWrite (g : InMem) (md : CallerMeta) : Option Props :=
  match g.nodeIds.len? with
  | some 0 => g.nodeProps.map (addEmptyAxes md.axes)
  | _ => g.nodeProps

structure Unsquish where
  node : Option (List (String × List String)) := none
  edge : Option (List (String × List String)) := none

def writePropsOpt (c : VlenCodec) (s : St) (group : String) (ps : Option Props)
    (uns : Option (List (String × List String))) : Outcome (St × List PropMeta) :=
  match ps with
  | some ps => writePropsArrays c s group ps uns
  | none => pure (s, [])

/-- `compute_and_add_axis_min_max` sees the caller's dict after the unsquish pre-pass mutated it -/
def propsAfterUnsquish (nps : Option Props) (un : Option (List (String × List String))) : Outcome (Option Props) :=
  match nps, un with
  | some ps, some un => do pure (some (← unsquish ps un))
  | x, _ => pure x

/-- `write_arrays` after the id arrays: properties of both groups, metadata update, axis check,
`metadata.write` -/
def writeTail (c : VlenCodec) (s : St) (g : InMem) (md : CallerMeta) (u : Unsquish) : Outcome St := do
  let nps := nodePropsToWrite g md
  let r1 ← writePropsOpt c s NODES nps u.node
  let r2 ← writePropsOpt c r1.1 EDGES g.edgeProps u.edge
  let npsAfter ← propsAfterUnsquish nps u.node
  checkAxes md.axes npsAfter
  pure (writeMeta r2.1 ⟨md.directed, md.axes, addOrUpdate md.nodeProps r1.2, addOrUpdate md.edgeProps r2.2⟩)

/-- `write_arrays` up to and including `metadata.write` -/
def writeCore (c : VlenCodec) (s0 : St) (g : InMem) (md : CallerMeta) (u : Unsquish := {}) : Outcome St := do
  -- check_for_geff on a store object: the root group is opened in mode "a"
  let s := ensureGroup s0 []
  if hasGeff s then throw .fileExists
  let s ← writeIdArrays s g.nodeIds g.edgeIds
  if g.nodeIds.len?.isNone then throw .typeError          -- len() of a 0-d array
  writeTail c s g md u

/-- `write_arrays` with `structure_validation=True`: a `ValueError` of the validator is re-raised
(after `delete_geff`); `validate` is C04's model, a parameter here. -/
def writeArrays (c : VlenCodec) (validate : St → Outcome Unit) (s0 : St) (g : InMem) (md : CallerMeta)
    (u : Unsquish := {}) : Outcome St := do
  let s ← writeCore c s0 g md u
  validate s
  pure s

/-! ### the read path (no masks) -/

def expectArray (s : St) (p : Path) : Outcome NdArr :=
  match get s p with
  | some (.array a) => pure a
  | _ => throw .valueError

def expectGroup (s : St) (p : Path) : Outcome Unit :=
  match get s p with
  | some (.group _) => pure ()
  | _ => throw .valueError

/-- `GeffMetadata.read`: no `geff` key, not a mapping, or pydantic rejects it → ValueError -/
def readMeta (s : St) : Outcome GeffAttr :=
  match get s [] with
  | some (.group attrs) =>
    match lookupKey "geff" attrs with
    | some (.geff m) => pure m
    | _ => throw .valueError
  | _ => throw .valueError

/-- the zarr arrays `_read_prop` collects for one property group -/
structure ZarrProp where
  values : NdArr
  missing : Option NdArr
  data : Option NdArr
deriving Inhabited

def optArray (s : St) (p : Path) : Outcome (Option NdArr) :=
  match get s p with
  | none => pure none
  | some (.array a) => pure (some a)
  | some (.group _) => throw .valueError

/-- `_read_prop` -/
def readProp (s : St) (pre : Path) (name : String) : Outcome ZarrProp := do
  expectGroup s (pre ++ [name])
  let v ← expectArray s (pre ++ [name, VALUES])
  let m ← optArray s (pre ++ [name, MISSING])
  let d ← optArray s (pre ++ [name, DATA])
  pure ⟨v, m, d⟩

def wrapInt (d : Dtype) (v : Int) : Int :=
  let m : Int := 2 ^ d.bits
  let r := v % m
  if d.isSigned ∧ r ≥ 2 ^ (d.bits - 1) then r - m else r

/-- `np.array(x, dtype=d)`: the identity when the dtype already is `d` (the only case the theorems
use); integer/bool conversions wrap as numpy does; anything else is outside the model -/
def castTo (d : Dtype) (a : NdArr) : Outcome NdArr :=
  if a.dtype = d then pure a
  else if a.dtype.isInteger ∧ d.isInteger then
    pure { a with dtype := d, flat := a.flat.map (fun v => match v with | .i x => .i (wrapInt d x) | v => v) }
  else if a.dtype.isInteger ∧ d = .bool then
    pure { a with dtype := d, flat := a.flat.map (fun v => match v with | .i x => .b (x ≠ 0) | v => v) }
  else if a.dtype = .bool ∧ d.isInteger then
    pure { a with dtype := d, flat := a.flat.map (fun v => match v with | .b x => .i (if x then 1 else 0) | v => v) }
  else throw (unmodelled "cast")

/-- `np.array(zarr_prop["missing"][...], dtype=bool)` / `np.array(zarr_prop["data"][...], dtype=dtype)` when present -/
def castOpt (d : Dtype) (a : Option NdArr) : Outcome (Option NdArr) :=
  match a with
  | some m => do pure (some (← castTo d m))
  | none => pure none

/-- `_load_prop_to_memory` with `mask = None` -/
def loadPropToMemory (c : VlenCodec) (z : ZarrProp) (pm : PropMeta) : Outcome PropArr := do
  let dt ← match Dtype.ofName? pm.dtype with
    | some d => pure d
    | none => throw .typeError
  let varlen := pm.varlength.getD false
  let values ← castTo (if varlen then .u64 else dt) z.values
  let missing ← castOpt .bool z.missing
  let data ← castOpt dt z.data
  if varlen then
    match data with
    | none => throw .valueError
    | some d => do pure ⟨.obj (← c.decode values d), missing⟩
  else pure ⟨.dense values, missing⟩

/-- the property names `GeffReader.__init__` finds for one of the groups -/
def propNames (s : St) (group : String) : Outcome (List String) := do
  expectGroup s [group]
  match get s [group, PROPS] with
  | none => pure []
  | some (.group _) => pure (groupKeys s [group, PROPS])
  | some (.array _) => throw .valueError

def readProps (s : St) (pre : Path) (names : List String) : Outcome (List (String × ZarrProp)) :=
  names.mapM (fun k => do pure (k, ← readProp s pre k))

def loadProps (c : VlenCodec) (mds : List (String × PropMeta)) (zs : List (String × ZarrProp)) : Outcome Props :=
  zs.mapM (fun kz => do
    let pm ← match lookupKey kz.1 mds with
      | some pm => pure pm
      | none => throw .keyError
    pure (kz.1, ← loadPropToMemory c kz.2 pm))

/-- `read_to_memory(store, structure_validation=False)` = `GeffReader(store, False)`, all properties, `build()` -/
def readCore (c : VlenCodec) (s : St) : Outcome ReadResult := do
  -- open_storelike
  expectGroup s []
  let md ← readMeta s
  let nodes ← expectArray s [NODES, IDS]
  let edges ← expectArray s [EDGES, IDS]
  let nnames ← propNames s NODES
  let enames ← propNames s EDGES
  let nz ← readProps s [NODES, PROPS] nnames
  let ez ← readProps s [EDGES, PROPS] enames
  let np ← loadProps c md.nodeProps nz
  let ep ← loadProps c md.edgeProps ez
  pure ⟨nodes, edges, np, ep, md⟩

/-- `read_to_memory(store)` (structural validation first) -/
def readToMemory (c : VlenCodec) (validate : St → Outcome Unit) (s : St) : Outcome ReadResult := do
  validate s
  readCore c s

/-! ### the codec of `geff.core_io._serialization` (C11's model, `GeffModel/Vlen.lean`) -/

def ofVlen {α} : Geff.Vlen.Outcome α → Outcome α
  | .ok v => pure v
  | .valueError => throw .valueError
  | .typeError => throw .typeError
  | .other n => throw (.other n)
  | .unmodelled w => throw (unmodelled w)

def vlenCodec : VlenCodec :=
  ⟨fun es => ofVlen (Geff.Vlen.serializeVlen es), fun v d => ofVlen (Geff.Vlen.deserializeVlen v d)⟩

end Geff.WR
