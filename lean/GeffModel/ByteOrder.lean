import GeffModel.ValidateData
/-! C12 (deepening): the BYTE ORDER of the stored id arrays, per array.

A geff holds `nodes/ids` and `edges/ids` as two zarr arrays.  Each array records its own byte order
(zarr format 2: the `<` / `>` / `|` of the dtype string in `.zarray`; zarr format 3: the `endian` of
the `bytes` codec in `zarr.json`), independently of the other: `validate_structure` compares the two
id dtypes only up to byte order.  The reader (`GeffReader.build`, hence `read_to_memory` and
`geff.read`) hands the validators the VALUES: every item is decoded by the byte order recorded for
the array it belongs to, and `np.array(self.edges[:])`, the mask indexing and `validate_data` work
on values (numpy compares integers of the same type by value whatever their byte order).

This file models exactly that: items are byte strings (`List Nat`, entries < 256), an id array is a
byte order + signedness + its items, `IdArray.values` decodes every item by the array's OWN byte
order, and `readGraphStage` is `validate_data(graph=True)` on what `GeffReader.build` hands out.
`IdArray.viewAs` is the other possible reading — the bytes re-labelled with the byte order of
ANOTHER array (numpy's `.view(dtype)`) — which is not value preserving.

Tie to the code: op `read_bytes` of `Drivers/C12.lean` receives the raw chunk bytes and the recorded
byte order read back from the store under test and must reproduce the ids that were written and the
outcome of the real reader + validator (stream `reader_byteorder`, `harness/corr/_c12_bo.py`). -/
namespace Geff.ByteOrder
open Geff.Validate

inductive Endian where
  | little
  | big
deriving DecidableEq, Repr

/-- value of a byte string, least significant byte first -/
def leNat : List Nat → Nat
  | [] => 0
  | b :: bs => b + 256 * leNat bs

/-- the `w` bytes of `v mod 256^w`, least significant first -/
def leBytes : Nat → Nat → List Nat
  | 0, _ => []
  | w + 1, v => v % 256 :: leBytes w (v / 256)

/-- unsigned reading of an item under a byte order -/
def decodeU (e : Endian) (bs : List Nat) : Nat :=
  match e with
  | .little => leNat bs
  | .big => leNat bs.reverse

def encodeU (e : Endian) (w v : Nat) : List Nat :=
  match e with
  | .little => leBytes w v
  | .big => (leBytes w v).reverse

/-- two's complement reading of an unsigned `w`-byte value -/
def toSigned (w n : Nat) : Int :=
  if n < 2 ^ (8 * w - 1) then (n : Int) else (n : Int) - 2 ^ (8 * w)

/-- the integer an item of `bs.length` bytes denotes (numpy `iN` / `uN`) -/
def decode (signed : Bool) (e : Endian) (bs : List Nat) : Int :=
  if signed then toSigned bs.length (decodeU e bs) else (decodeU e bs : Int)

/-- the `w` bytes numpy stores for the integer `v` (two's complement when negative) -/
def encode (e : Endian) (w : Nat) (v : Int) : List Nat :=
  encodeU e w (v % 2 ^ (8 * w)).toNat

/-- `v` is a value of the `w`-byte integer type -/
def InRange (signed : Bool) (w : Nat) (v : Int) : Prop :=
  if signed then -(2 ^ (8 * w - 1) : Int) ≤ v ∧ v < 2 ^ (8 * w - 1) else 0 ≤ v ∧ v < 2 ^ (8 * w)

instance (signed : Bool) (w : Nat) (v : Int) : Decidable (InRange signed w v) := by
  unfold InRange; exact inferInstance

/-- one stored id array: the byte order RECORDED FOR THIS ARRAY, signedness, and its items -/
structure IdArray where
  endian : Endian
  signed : Bool
  items : List (List Nat)
deriving Repr

/-- what zarr + numpy hand out: every item decoded by the array's own byte order -/
def IdArray.values (a : IdArray) : List Int := a.items.map (decode a.signed a.endian)

/-- numpy's `a.view(other.dtype)`: the same bytes read under the byte order of ANOTHER array -/
def IdArray.viewAs (a other : IdArray) : List Int := a.items.map (decode other.signed other.endian)

/-- the array a writer stores for the values `vs` with `w`-byte items and byte order `e` -/
def store (e : Endian) (signed : Bool) (w : Nat) (vs : List Int) : IdArray :=
  { endian := e, signed := signed, items := vs.map (encode e w) }

/-- rows of an `(E, 2)` array from its row-major items (an odd trailing item is dropped; the
harness only sends even lengths) -/
def pairs : List Int → List (Int × Int)
  | a :: b :: rest => (a, b) :: pairs rest
  | _ => []

/-- row-major items of an `(E, 2)` array -/
def flat : List (Int × Int) → List Int
  | [] => []
  | e :: es => e.1 :: e.2 :: flat es

/-- `GeffReader.build` followed by the `if config.graph:` block of `validate_data`: the node ids
and the edge ids each decoded by their own recorded byte order -/
def readGraphStage (directed : Bool) (nodes edges : IdArray) : Outcome :=
  graphStage directed nodes.values (pairs edges.values)

/-- the same with the edge bytes re-labelled by the node array's dtype (`edges.view(nodes.dtype)`) -/
def readGraphStageView (directed : Bool) (nodes edges : IdArray) : Outcome :=
  graphStage directed nodes.values (pairs (edges.viewAs nodes))

end Geff.ByteOrder
