import GeffModel.Vlen
/-! # Run-time library for source-translated Python (`harness/translators/t12_pydo_serialization.py`)

The translator turns a restricted subset of Python statements into Lean `do`-notation in the
`Geff.Vlen.Outcome` monad (`let mut`, `for … in … do`, `if`, `return`; `raise X` becomes the failing
action `raiseX`).  Everything the generated code calls is defined here — one small total function
per numpy / Python primitive that occurs in `geff/core_io/_serialization.py`, each returning an
explicit outcome where Python can raise.  The generated definitions live in `Gen/Serialization.lean`
and are proved equal to the hand-written model in `GeffProofs/SerializationGen.lean`.

What the primitives assume about numpy (tied by the C11 correspondence, which runs the model that
the generated code is proved equal to against the implementation):
* `np.asarray(rows, dtype=uint64)` of a list of equal-length tuples is the `(N, w)` table of them;
* `np.concatenate` of 1-D arrays of ONE dtype keeps the dtype and joins the contents (the loop
  before it rejects mixed dtypes);
* `a[i]` on a 2-D array is row `i`, on a 1-D array a scalar, and indexing a scalar raises
  `IndexError`; `a.shape[0]` raises `IndexError` and `len(a)` raises `TypeError` for a 0-d array;
* a slice `data[o : o + n]` is clipped to the data; `.reshape(shape)` raises `ValueError` when the
  number of elements differs.
Core Lean only. -/
namespace Geff.PyDo
open Geff.Np Geff.Vlen

instance instMonadOutcome : Monad Outcome where
  pure := .ok
  bind x f := match x with
    | .ok v => f v
    | .valueError => .valueError
    | .typeError => .typeError
    | .other n => .other n
    | .unmodelled w => .unmodelled w

/-- the argument `prop_dict` of `serialize_vlen_property_data`; `missing` is passed through and is
kept abstract -/
structure PropDict (μ : Type) where
  values : List PyElem
  missing : μ

def raiseValueError {α : Type} : Outcome α := .valueError
def raiseTypeError {α : Type} : Outcome α := .typeError
def raiseIndexError {α : Type} : Outcome α := .other "IndexError"

/-- `isinstance(e, np.ndarray)` -/
def isNdarray : PyElem → Bool | .arr _ => true | .notArray => false
/-- `e.ndim` / `e.dtype` / `e.shape` / `e.ravel()`: `AttributeError` on something that is not an
ndarray (a list, a scalar, `None`) -/
def ndim : PyElem → Outcome Nat | .arr a => .ok a.ndim | .notArray => .other "AttributeError"
def dtype : PyElem → Outcome Dtype | .arr a => .ok a.dtype | .notArray => .other "AttributeError"
def shape : PyElem → Outcome (List Nat) | .arr a => .ok a.shape | .notArray => .other "AttributeError"
def ravelArr (a : NdArr) : NdArr := { dtype := a.dtype, shape := [a.flat.length], flat := a.flat }
def ravel : PyElem → Outcome NdArr | .arr a => .ok (ravelArr a) | .notArray => .other "AttributeError"
/-- `np.asarray(shape).prod()` -/
def shapeProd (s : List Nat) : Nat := prod s
/-- `np.asarray(rows, dtype=np.uint64)` for a list of `(offset, *shape)` tuples -/
def asarrayU64 (rows : List (Nat × List Nat)) : NdArr :=
  match rows with
  | [] => { dtype := .u64, shape := [0], flat := [] }
  | r :: _ => { dtype := .u64, shape := [rows.length, r.2.length + 1],
                flat := rows.flatMap (fun row => (row.1 :: row.2).map natVal) }
/-- `np.empty(shape, dtype=np.uint64)` for a shape with a zero extent -/
def emptyU64 (shape : List Nat) : NdArr := { dtype := .u64, shape := shape, flat := [] }
/-- `np.concatenate(l)` for 1-D arrays of one dtype -/
def concatenate (l : List NdArr) : NdArr :=
  match l with
  | [] => { dtype := .f64, shape := [0], flat := [] }
  | a :: _ => { dtype := a.dtype, shape := [(l.flatMap (·.flat)).length], flat := l.flatMap (·.flat) }
/-- `np.array([], dtype=d)` -/
def emptyArr (d : Dtype) : NdArr := { dtype := d, shape := [0], flat := [] }

/-! ## primitives of the decoder -/

/-- `a.shape[k]` -/
def shapeAt (a : NdArr) (k : Nat) : Outcome Nat :=
  match a.shape[k]? with
  | some n => .ok n
  | none => .other "IndexError"
/-- `len(a)` -/
def lenArr (a : NdArr) : Outcome Nat :=
  match a.shape with
  | [] => .typeError
  | n :: _ => .ok n

/-- what `a[i]` is -/
inductive Sub where
  | scalar (v : Val)
  | vec (vals : List Val)
  | higher
deriving DecidableEq, Repr

/-- `a[i]` for a natural `i` -/
def getItem (a : NdArr) (i : Nat) : Outcome Sub :=
  match a.shape with
  | [] => .other "IndexError"
  | [n] => if i < n then (match a.flat[i]? with | some v => .ok (.scalar v) | none => .unmodelled "ill-formed array")
           else .other "IndexError"
  | [n, w] => if i < n then .ok (.vec ((a.flat.drop (i * w)).take w)) else .other "IndexError"
  | n :: _ => if i < n then .ok .higher else .other "IndexError"
/-- `sub[0]` -/
def Sub.first : Sub → Outcome Val
  | .scalar _ => .other "IndexError"
  | .vec [] => .other "IndexError"
  | .vec (v :: _) => .ok v
  | .higher => .unmodelled "values table of rank > 2"
/-- `sub[1:]` -/
def Sub.rest : Sub → Outcome (List Val)
  | .scalar _ => .other "IndexError"
  | .vec l => .ok l.tail
  | .higher => .unmodelled "values table of rank > 2"

/-- `data[offset : offset + np.prod(shape)].reshape(shape)` for a 1-D `data`, a non-negative
integer `offset` and a `shape` of non-negative integers -/
def sliceReshape (data : NdArr) (offset : Val) (shape : List Val) : Outcome NdArr :=
  if data.shape.length ≠ 1 then .unmodelled "data is not 1-D" else
  match valNat? offset, shape.mapM valNat? with
  | some o, some sh => decodeRow data.dtype data.flat (o, sh)
  | _, _ => .unmodelled "values table is not a well-formed array of non-negative integers"

/-- `np.empty(shape=(n,), dtype=np.object_)`: `n` unset slots -/
def emptyObj (n : Nat) : List (Option NdArr) := List.replicate n none
/-- `arr[i] = v` on a 1-D object array -/
def setItem (arr : List (Option NdArr)) (i : Nat) (v : NdArr) : Outcome (List (Option NdArr)) :=
  if i < arr.length then .ok (arr.set i (some v)) else .other "IndexError"

end Geff.PyDo
