import GeffModel.Tracklet
import GeffModel.LineageData
/-! Model of the integer-array entry point of `geff.validate.tracks.validate_tracklets` with its
rendered messages, and of the tracklet / lineage part of `geff.validate.data.validate_data` (C13).

* `validate_tracklets(node_ids, edge_ids, tracklet_ids)` starts with
  `np.asarray(…, dtype=np.int64)` on all three arguments (`toInt64`: identity on the int64 range,
  two's-complement wrap of uint64 values ≥ 2^63), zips nodes with tracklet ids (non-strict),
  builds `nx.DiGraph(tuple(edge) for edge in edges)` + `add_nodes_from(nodes)`, and loops over the
  tracklet ids in dict-insertion order (= first occurrence).  Each iteration appends at most one
  f-string (`message`); the ids and nodes printed are the CAST ones.  An exception raised inside
  the loop (`StopIteration`, `NetworkXPointlessConcept`) aborts the call: `.raised`.
* `validate_data` (last block): only when `meta.track_node_props is not None`; FIRST the tracklet
  branch (`config.tracklet and "tracklet" in track_node_props`), THEN the lineage branch — in this
  order whatever the key order of `track_node_props`; each selects the nodes whose id is not
  flagged missing (`_nodes_with_id`: `node_props[key]` → `KeyError(key)` when the declared property
  was not loaded; a mask of the wrong length → numpy `IndexError`, except the EMPTY mask, which numpy
  accepts against any length and which selects nothing) and raises
  `ValueError("Found invalid tracklets:\n", "\n".join(errors))` resp. `… lineages …` on a negative
  verdict.  So when both are invalid the tracklet error wins, and a failing tracklet branch means
  the lineage branch is never reached. -/
namespace Geff.Tracklet

/-- the f-string appended for tracklet id `t` (already cast) and verdict `v` -/
def message (t : Int) : Verdict Int → Option String
  | .ok => none
  | .branchMerge =>
    some ("Tracklet " ++ toString t ++ ": Invalid path structure (branch or merge detected).")
  | .cycle => some ("Tracklet " ++ toString t ++ ": Cycle detected.")
  | .notConnected => some ("Tracklet " ++ toString t ++ ": Not fully connected.")
  | .extendBack p =>
    some ("Tracklet " ++ toString t ++ ": Not maximal. Path can extend backward to node "
      ++ toString p ++ ".")
  | .extendFwd n =>
    some ("Tracklet " ++ toString t ++ ": Not maximal. Path can extend forward to node "
      ++ toString n ++ ".")
  | .exc _ => none

def isExc : Verdict Int → Bool
  | .exc _ => true
  | _ => false

/-- observable outcome of `validate_tracklets` on integer arrays -/
inductive ArraysOutcome where
  /-- the returned pair `(not errors, errors)` -/
  | result (valid : Bool) (errors : List String)
  /-- an exception escaped from the loop -/
  | raised (name : String)
  deriving DecidableEq, Repr

/-- `validate_tracklets(node_ids, edge_ids, tracklet_ids)` -/
def validateTrackletsArrays (nodes labels : List Int) (edges : List (Int × Int)) : ArraysOutcome :=
  let errs := trackletErrorsInt64 nodes labels edges
  match errs.find? (fun p => isExc p.2) with
  | some (_, .exc name) => .raised name
  | _ => .result errs.isEmpty (errs.filterMap fun p => message p.1 p.2)

/-- one id property of the in-memory geff: `{"values": …, "missing": … | None}` -/
structure IdProp where
  values : List Int
  missing : Option (List Bool)
  deriving DecidableEq, Repr

/-- the two flags of `ValidationConfig` read by the last block of `validate_data` -/
structure TrackCfg where
  tracklet : Bool
  lineage : Bool
  deriving DecidableEq, Repr

/-- observable outcome of the tracklet / lineage block of `validate_data` -/
inductive DataOutcome where
  | ok
  /-- `ValueError(arg0, arg1)` -/
  | valueError (arg0 arg1 : String)
  /-- `KeyError(key)`: a property declared in `track_node_props` is not in `node_props` -/
  | keyError (key : String)
  /-- numpy's IndexError for a non-empty mask whose length differs from the arrays -/
  | indexError
  /-- an exception escaped from `validate_tracklets` -/
  | raised (name : String)
  deriving DecidableEq, Repr

/-- the tracklet branch once the property is found: `_nodes_with_id`, `validate_tracklets`, raise -/
def trackletBranch (nodes : List Int) (p : IdProp) (edges : List (Int × Int)) : DataOutcome :=
  match nodesWithId nodes p.values p.missing with
  | none => .indexError
  | some nl =>
    match validateTrackletsArrays (nl.map (·.1)) (nl.map (·.2)) edges with
    | .raised name => .raised name
    | .result true _ => .ok
    | .result false errors => .valueError "Found invalid tracklets:\n" ("\n".intercalate errors)

def ofLineage : Geff.Lineage.DataOutcome → DataOutcome
  | .ok => .ok
  | .valueError a b => .valueError a b
  | .indexError => .indexError

def lineageBranch (nodes : List Int) (p : IdProp) (edges : List (Int × Int)) : DataOutcome :=
  ofLineage (Geff.Lineage.validateDataLineage nodes p.values p.missing edges)

/-- `if config.<flag> and "<name>" in meta.track_node_props:` … `node_props[key]` … -/
def branch (enabled : Bool) (name : String) (tnp : List (String × String))
    (props : List (String × IdProp)) (run : IdProp → DataOutcome) : DataOutcome :=
  if enabled then
    match tnp.lookup name with
    | none => .ok
    | some key =>
      match props.lookup key with
      | none => .keyError key
      | some p => run p
  else .ok

/-- the last block of `validate_data`: `tnp` = `meta.track_node_props` (`none` = None; the list
keeps the dict's key order), `props` = `memory_geff["node_props"]` restricted to integer id
properties -/
def validateDataTracks (cfg : TrackCfg) (tnp : Option (List (String × String)))
    (props : List (String × IdProp)) (nodes : List Int) (edges : List (Int × Int)) : DataOutcome :=
  match tnp with
  | none => .ok
  | some tnp =>
    match branch cfg.tracklet "tracklet" tnp props (fun p => trackletBranch nodes p edges) with
    | .ok => branch cfg.lineage "lineage" tnp props (fun p => lineageBranch nodes p edges)
    | r => r

end Geff.Tracklet
