import GeffModel.Np
import Gen.ValidValues
/-! Metadata written with the data (core Lean only): executable model of

* `geff_spec.utils.axes_from_lists`                → `axesFromLists`       (after the D17 repair)
* `geff_spec.utils.update_metadata_axes`           → `updateMetadataAxes`
* `geff_spec.utils.create_or_update_metadata`      → `createOrUpdateMetadata`
* `geff_spec.utils.create_props_metadata`          → `createPropsMetadata`
* `geff_spec.utils.add_or_update_props_metadata`   → `addOrUpdatePropsMetadata`
* `geff_spec.utils.compute_and_add_axis_min_max`   → `computeAndAddAxisMinMax`
* `geff.core_io._base_write.write_props_arrays`    → `writePropsArrays`  (metadata + what is stored)
* `geff.core_io._base_write.write_arrays`          → `writeArrays`       (on a fresh store)
* `write_dicts` / `NxBackend.write` / `RxBackend.write` → `writeDicts` / `nxWrite`
* `SgBackend.write`                                → `sgWrite`           (after the D20 repair)

Coordinates live in an abstract ordered type `κ` (the theorems need a linear order; the driver
uses `Int`: the harness scales the exact binary fractions of a case to integers, Lean never
computes a float).  Float-valued pass-through fields (`scale`, `offset`) are opaque tokens.
Metadata fields the functions never look at (sphere, ellipsoid, track_node_props,
related_objects, extra, the layout of display_hints) are the opaque token `rest`; the axis names
the display hints refer to are kept (`hintNames`) because pydantic re-validates them whenever
`axes` is assigned.  Python exceptions are explicit outcomes. -/
namespace Geff.MetaW
open Geff.Np

inductive Err where
  | valueError
  | typeError
  | other (name : String)
  | unmodelled (why : String)
deriving DecidableEq, Repr

abbrev Res := Except Err

/-! ## metadata objects -/

structure PropMeta where
  identifier : String
  dtype : String
  varlength : Bool
  unit : Option String
  name : Option String
  description : Option String
deriving DecidableEq, Repr

structure Axis (κ : Type) where
  name : String
  type : Option String
  unit : Option String
  min : Option κ
  max : Option κ
  scale : Option String
  scaledUnit : Option String
  offset : Option String
deriving DecidableEq, Repr

structure Meta (κ : Type) where
  geffVersion : String
  directed : Bool
  axes : Option (List (Axis κ))
  nodeProps : List (String × PropMeta)      -- dict, insertion order
  edgeProps : List (String × PropMeta)
  hintNames : List String                   -- axis names referred to by display_hints ([] = None)
  rest : String
deriving DecidableEq, Repr

/-! ## dict helpers -/

def lookup {β} (k : String) : List (String × β) → Option β
  | [] => none
  | (k', v) :: t => if k' = k then some v else lookup k t

def keys {β} (d : List (String × β)) : List String := d.map (·.1)
def hasKey {β} (k : String) (d : List (String × β)) : Bool := (keys d).contains k

/-- `d[k] = v` -/
def insert {β} (d : List (String × β)) (k : String) (v : β) : List (String × β) :=
  if hasKey k d then d.map (fun p => if p.1 = k then (k, v) else p) else d ++ [(k, v)]

/-- `del d[k]` -/
def erase {β} (d : List (String × β)) (k : String) : List (String × β) := d.filter (fun p => p.1 ≠ k)

/-! ## pydantic validation that runs inside the modelled functions -/

variable {κ : Type} [LT κ] [DecidableLT κ]

/-- `Axis(...)`: type is one of the axis types; min/max both or neither and ordered; a scaled unit
needs a scale -/
def axisValid (a : Axis κ) : Bool :=
  (match a.type with
    | some t => Gen.ValidValues.axisTypes.contains t
    | none => true) &&
  (match a.min, a.max with
    | none, none => true
    | some lo, some hi => !decide (hi < lo)
    | _, _ => false) &&
  (match a.scaledUnit with
    | some u => u = "" || a.scale.isSome
    | none => true)

/-- the `mode="after"` validator of `GeffMetadata` as far as `axes` is concerned: unique axis
names; display hints name declared axes -/
def axesAssignable (hintNames : List String) (axes : Option (List (Axis κ))) : Bool :=
  match axes with
  | none => true
  | some l =>
    let names := l.map (·.name)
    names.eraseDups.length = names.length && hintNames.all names.contains

/-! ## `axes_from_lists` -/

structure AxisLists where
  names : Option (List String)
  units : Option (List (Option String))
  types : Option (List (Option String))
  scales : Option (List (Option String))
  scaledUnits : Option (List (Option String))
  offset : Option (List (Option String))
deriving DecidableEq, Repr

def lenOk {β} (l : Option (List β)) (n : Nat) : Bool :=
  match l with
  | some x => x.length = n
  | none => true

/-- `lst[i] if lst is not None else None`; a short list is an `IndexError` -/
def pick {β} (l : Option (List (Option β))) (i : Nat) : Res (Option β) :=
  match l with
  | none => .ok none
  | some x => match x[i]? with
    | some v => .ok v
    | none => .error (.other "IndexError")

/-- `Axis(name=axis_names[i], type=axis_types[i] if axis_types is not None else None, …)` -/
def mkAxis (ls : AxisLists) (roiMin roiMax : Option (List (Option κ))) (i : Nat) (n : String) : Res (Axis κ) :=
  pick ls.types i >>= fun ty => pick ls.units i >>= fun un => pick ls.scales i >>= fun sc =>
  pick ls.scaledUnits i >>= fun su => pick ls.offset i >>= fun off =>
  pick roiMin i >>= fun lo => pick roiMax i >>= fun hi =>
  if axisValid ({ name := n, type := ty, unit := un, min := lo, max := hi, scale := sc, scaledUnit := su,
                  offset := off } : Axis κ)
  then .ok { name := n, type := ty, unit := un, min := lo, max := hi, scale := sc, scaledUnit := su, offset := off }
  else .error .valueError

def axesLoop (ls : AxisLists) (roiMin roiMax : Option (List (Option κ))) :
    Nat → List String → Res (List (Axis κ))
  | _, [] => .ok []
  | i, n :: t =>
    mkAxis ls roiMin roiMax i n >>= fun a => axesLoop ls roiMin roiMax (i + 1) t >>= fun rest => .ok (a :: rest)

def axesFromLists (ls : AxisLists) (roiMin roiMax : Option (List (Option κ))) : Res (List (Axis κ)) :=
  match ls.names with
  | none => .ok []
  | some names =>
    if !(lenOk ls.units names.length) then .error .valueError
    else if !(lenOk ls.types names.length) then .error .valueError
    else if !(lenOk ls.scales names.length) then .error .valueError
    else if !(lenOk ls.scaledUnits names.length) then .error .valueError
    else if !(lenOk ls.offset names.length) then .error .valueError
    else axesLoop ls roiMin roiMax 0 names

/-- `metadata.axes = axes` under `validate_assignment` -/
def assignAxes (md : Meta κ) (axes : Option (List (Axis κ))) : Res (Meta κ) :=
  if axesAssignable md.hintNames axes then .ok { md with axes := axes } else .error .valueError

def updateMetadataAxes (md : Meta κ) (ls : AxisLists) : Res (Meta κ) :=
  axesFromLists ls none none >>= fun axes => assignAxes md (some axes)

/-- `create_or_update_metadata`; `version` is `GEFF_VERSION` -/
def createOrUpdateMetadata (version : String) (md : Option (Meta κ)) (isDirected : Bool)
    (axes : Option (List (Axis κ))) : Res (Meta κ) :=
  match md with
  | some m =>
    let m := { m with geffVersion := version, directed := isDirected }
    match axes with
    | some a => assignAxes m (some a)
    | none => .ok m
  | none =>
    assignAxes { geffVersion := version, directed := isDirected, axes := none, nodeProps := [],
                 edgeProps := [], hintNames := [], rest := "" } axes

/-! ## property data and `create_props_metadata` -/

/-- `prop_data["values"]` as far as the metadata functions look at it -/
inductive Values (κ : Type) where
  | dense (dtype : Dtype) (trail : List Nat) (rows : List (List κ))   -- one row per element
  | object (elems : List (Dtype × Nat))                              -- var-length: (dtype, ndim) per element
deriving DecidableEq, Repr

structure PropData (κ : Type) where
  values : Values κ
  missing : Option (List Bool)
deriving DecidableEq, Repr

def Values.len : Values κ → Nat
  | .dense _ _ rows => rows.length
  | .object es => es.length

/-- `PropMetadata(dtype=…)`: `_convert_dtype` maps every unicode width to `str` and rejects names
outside `VALID_DTYPES` -/
def mkPropMeta (identifier : String) (dt : Dtype) (varlength : Bool) : Res PropMeta :=
  if identifier = "" then .error .valueError
  else if Gen.ValidValues.dtypes.contains dt.name then
    .ok { identifier := identifier, dtype := dt.name, varlength := varlength, unit := none,
          name := none, description := none }
  else .error .valueError

/-- `create_props_metadata(identifier, prop_data)`: the metadata entry and the (possibly upcast)
property.  An empty object array has no element to take the dtype from: `int64` (D15 repair). -/
def createPropsMetadata (identifier : String) (p : PropData κ) : Res (PropMeta × PropData κ) :=
  match p.values with
  | .dense dt tr rows =>
    let dt' := if dt = .f16 then .f32 else dt
    if dt' = .obj then .error (.unmodelled "object array reported as dense") else do
    let pm ← mkPropMeta identifier dt' false
    pure (pm, { p with values := .dense dt' tr rows })
  | .object es =>
    let dt := (es.head?.map (·.1)).getD .i64
    if es.any (·.1 ≠ dt) then .error .valueError else do
    let pm ← mkPropMeta identifier dt true
    pure (pm, p)

/-! ## `add_or_update_props_metadata` -/

/-- `existing[id].dtype = p.dtype; existing[id].varlength = p.varlength` -/
def upd (p q : PropMeta) : PropMeta := { q with dtype := p.dtype, varlength := p.varlength }

def addOrUpdateOne (existing : List (String × PropMeta)) (new : List (String × PropMeta))
    (p : PropMeta) : List (String × PropMeta) × List (String × PropMeta) :=
  if hasKey p.identifier existing then
    (existing.map (fun q => if q.1 = p.identifier then (q.1, upd p q.2) else q), new)
  else (existing, insert new p.identifier p)

/-- the loop `for prop in props_md` -/
def addOrUpdateLoop (existing new : List (String × PropMeta)) :
    List PropMeta → List (String × PropMeta) × List (String × PropMeta)
  | [] => (existing, new)
  | p :: t => addOrUpdateLoop (addOrUpdateOne existing new p).1 (addOrUpdateOne existing new p).2 t

/-- `d.update(new)` -/
def updateDict (d : List (String × PropMeta)) : List (String × PropMeta) → List (String × PropMeta)
  | [] => d
  | q :: t => updateDict (insert d q.1 q.2) t

/-- the loop over `props_md` followed by `existing_props.update(md_dict)` -/
def addOrUpdateDict (existing : List (String × PropMeta)) (propsMd : List PropMeta) :
    List (String × PropMeta) :=
  updateDict (addOrUpdateLoop existing [] propsMd).1 (addOrUpdateLoop existing [] propsMd).2

def addOrUpdatePropsMetadata (md : Meta κ) (propsMd : List PropMeta) (nodes : Bool) : Meta κ :=
  if nodes then { md with nodeProps := addOrUpdateDict md.nodeProps propsMd }
  else { md with edgeProps := addOrUpdateDict md.edgeProps propsMd }

/-! ## `compute_and_add_axis_min_max` -/

variable [Min κ] [Max κ]

/-- `values[np.logical_not(missing)]` flattened; a mask of another length is an `IndexError` -/
def keptValues (rows : List (List κ)) (missing : Option (List Bool)) : Res (List κ) :=
  match missing with
  | none => .ok rows.flatten
  | some m =>
    if m.length = rows.length then
      .ok ((rows.zip m).filter (fun p => !p.2) |>.map (·.1)).flatten
    else .error (.other "IndexError")

def axisMinMax (nodeProps : List (String × PropData κ)) (a : Axis κ) : Res (Axis κ) :=
  match lookup a.name nodeProps with
  | none => .error .valueError
  | some p =>
    if p.values.len = 0 then .ok a
    else match p.values with
      | .object _ => .error (.unmodelled "min of an object array")
      | .dense _ _ rows => do
        let vals ← keptValues rows p.missing
        match vals.min?, vals.max? with
        | some lo, some hi => pure { a with min := some lo, max := some hi }
        | _, _ => .error .valueError            -- zero-size array to reduction operation

def computeAndAddAxisMinMax (md : Meta κ) (nodeProps : List (String × PropData κ)) : Res (Meta κ) :=
  match md.axes with
  | none => .ok md
  | some axes => do
    let newAxes ← axes.mapM (axisMinMax nodeProps)
    assignAxes md (some newAxes)

/-! ## `write_props_arrays` -/

/-- what one property group of the store holds -/
structure Stored (κ : Type) where
  name : String
  dtype : Dtype            -- dtype of `values` (fixed) / of `data` (var-length)
  hasData : Bool
  hasMissing : Bool
  len : Nat                -- shape[0] of `values`
  ndim : Nat               -- rank of `values`
  rows : List (List κ)     -- contents of a fixed-shape `values` array
deriving DecidableEq, Repr

/-- `values[:, i]` for every name of `replace_names` -/
def unsquishOne (props : List (String × PropData κ)) (name : String) (replaceNames : List String) :
    Res (List (String × PropData κ)) :=
  match lookup name props with
  | none => .error (.other "KeyError")
  | some p =>
    match p.values with
    | .object _ => .error .valueError
    | .dense dt tr rows =>
      if tr.length ≠ 1 then .error .valueError else do
      let width := tr.headD 0
      let props' ← (List.range replaceNames.length).zip replaceNames |>.foldlM
        (fun (acc : List (String × PropData κ)) (ir : Nat × String) =>
          if ir.1 < width then
            .ok (insert acc ir.2 { values := .dense dt [] (rows.map (fun r => (r[ir.1]?).toList)),
                                   missing := p.missing })
          else .error (.other "IndexError")) props
      -- `del props[name]` (the name has just been looked up, so it is there unless replaced)
      pure (erase props' name)

def storedOf (name : String) (p : PropData κ) : Stored κ :=
  match p.values with
  | .dense dt tr rows => { name := name, dtype := dt, hasData := false, hasMissing := p.missing.isSome,
                           len := rows.length, ndim := tr.length + 1, rows := rows }
  | .object es =>
    -- the offset/shape table is 2-D: `(N, ndim + 1)`, and `(0, 2)` without rows (C11-02 repair)
    { name := name, dtype := (es.head?.map (·.1)).getD .i64, hasData := true,
      hasMissing := p.missing.isSome, len := es.length, ndim := 2, rows := [] }

/-- `serialize_vlen_property_data` refuses elements of different rank (`ValueError`); the dtypes
have been compared by `create_props_metadata` already -/
def serializable (p : PropData κ) : Bool :=
  match p.values with
  | .dense _ _ _ => true
  | .object es => es.all (fun e => e.2 = (es.head?.map (·.2)).getD 0)

/-- the loop over `props.items()`: metadata entry, stored arrays, and the property as it is left
in the caller's dict (float16 upcast) -/
def writeLoop : List (String × PropData κ) → Res (List PropMeta × List (Stored κ) × List (String × PropData κ))
  | [] => .ok ([], [], [])
  | (name, p) :: t => do
    let (pm, p') ← createPropsMetadata name p
    if !serializable p' then .error .valueError
    let (pms, sts, ps) ← writeLoop t
    pure (pm :: pms, storedOf name p' :: sts, (name, p') :: ps)

/-- the loop over `props_unsquish.items()` -/
def unsquishAll (props : List (String × PropData κ)) (unsquish : Option (List (String × List String))) :
    Res (List (String × PropData κ)) :=
  match unsquish with
  | none => .ok props
  | some u => u.foldlM (fun acc nr => unsquishOne acc nr.1 nr.2) props

def writePropsArrays (props : List (String × PropData κ)) (unsquish : Option (List (String × List String))) :
    Res (List PropMeta × List (Stored κ) × List (String × PropData κ)) :=
  unsquishAll props unsquish >>= writeLoop

/-! ## `write_arrays` (fresh store; ids of a matching integer dtype) -/

structure Written (κ : Type) where
  md : Meta κ                               -- attrs["geff"]
  nodes : Option (List (Stored κ))          -- `none`: no `nodes/props` group
  edges : Option (List (Stored κ))
deriving DecidableEq, Repr

/-- empty float64 arrays for axes of an empty graph that have no property -/
def addEmptyAxisProps (md : Meta κ) (nNodes : Nat) (nodeProps : Option (List (String × PropData κ))) :
    Option (List (String × PropData κ)) :=
  match nodeProps, md.axes with
  | some ps, some axes =>
    if nNodes = 0 then
      some (axes.foldl (fun acc a => if hasKey a.name acc then acc
        else insert acc a.name { values := .dense .f64 [] [], missing := none }) ps)
    else some ps
  | ps, _ => ps

abbrev PropsResult (κ : Type) := List PropMeta × List (Stored κ) × List (String × PropData κ)

/-- `write_props_arrays(...) if props is not None else []` -/
def writeOpt (props : Option (List (String × PropData κ))) (unsquish : Option (List (String × List String))) :
    Res (Option (PropsResult κ)) :=
  match props with
  | some ps => (writePropsArrays ps unsquish).map some
  | none => .ok none

def pmsOf (r : Option (PropsResult κ)) : List PropMeta := (r.map (·.1)).getD []

/-- `if node_props is not None: metadata = compute_and_add_axis_min_max(metadata, node_props)` —
on the dict as `write_props_arrays` left it (un-squished, float16 upcast) -/
def finishMeta (md : Meta κ) (nodeRes : Option (PropsResult κ)) : Res (Meta κ) :=
  match nodeRes with
  | some r => computeAndAddAxisMinMax md r.2.2
  | none => .ok md

def writeArrays (md : Meta κ) (nNodes : Nat) (nodeProps edgeProps : Option (List (String × PropData κ)))
    (nodeUnsquish edgeUnsquish : Option (List (String × List String))) : Res (Written κ) :=
  writeOpt (addEmptyAxisProps md nNodes nodeProps) nodeUnsquish >>= fun nodeRes =>
  writeOpt edgeProps edgeUnsquish >>= fun edgeRes =>
  finishMeta (addOrUpdatePropsMetadata (addOrUpdatePropsMetadata md (pmsOf nodeRes) true)
    (pmsOf edgeRes) false) nodeRes >>= fun md' =>
  .ok { md := md', nodes := nodeRes.map (·.2.1), edges := edgeRes.map (·.2.1) }

/-- what an accepting `validate_structure` guarantees about a written store (C04's `Conformant`,
the part that concerns the metadata): (a) a props group holds exactly the properties the metadata
lists, each with one row per node/edge (the table of a var-length property is 2-D); (b) without a props group the metadata lists none;
(c) every axis names a 1-D node property without a missing mask. -/
def groupAccepted (n : Nat) (mdProps : List (String × PropMeta)) (g : Option (List (Stored κ))) : Bool :=
  match g with
  | none => mdProps.isEmpty
  | some sts =>
    (keys mdProps).all (fun k => (sts.map (·.name)).contains k) &&
    sts.all (fun st => hasKey st.name mdProps && st.len = n && (!st.hasData || st.ndim = 2))

def axesAccepted (md : Meta κ) (nodes : Option (List (Stored κ))) : Bool :=
  match md.axes with
  | none => true
  | some axes => axes.all (fun a => match nodes with
      | none => false
      | some sts => match sts.find? (fun st => st.name = a.name) with
        | some st => st.ndim = 1 && !st.hasMissing
        | none => false)

def accepted (nNodes nEdges : Nat) (w : Written κ) : Bool :=
  groupAccepted nNodes w.md.nodeProps w.nodes && groupAccepted nEdges w.md.edgeProps w.edges &&
  axesAccepted w.md w.nodes

/-- `write_arrays(..., structure_validation=True)`: the store is deleted again and `ValueError`
raised when validation refuses it -/
def writeArraysValidated (md : Meta κ) (nNodes nEdges : Nat)
    (nodeProps edgeProps : Option (List (String × PropData κ)))
    (nodeUnsquish edgeUnsquish : Option (List (String × List String))) : Res (Written κ) :=
  writeArrays md nNodes nodeProps edgeProps nodeUnsquish edgeUnsquish >>= fun w =>
  if accepted nNodes nEdges w then pure w else .error .valueError

/-! ## the other entry points -/

/-- `write_dicts`: `dict_props_to_arr` (numpy's dtype inference, property C03) produces the two
property dicts — always dicts, never `None` — which go to `write_arrays` -/
def writeDicts (md : Meta κ) (nNodes nEdges : Nat) (nodeProps edgeProps : List (String × PropData κ)) :
    Res (Written κ) :=
  writeArraysValidated md nNodes nEdges (some nodeProps) (some edgeProps) none none

/-- `NxBackend.write` and `RxBackend.write` (the same metadata code): directedness from the graph
class, `axis_*` lists override every axis when `axis_names` is given and are ignored otherwise -/
def nxWrite (version : String) (md : Option (Meta κ)) (isDirected : Bool) (ls : AxisLists)
    (nNodes nEdges : Nat) (nodeProps edgeProps : List (String × PropData κ)) : Res (Written κ) :=
  createOrUpdateMetadata version md isDirected none >>= fun m =>
  (match ls.names with
    | some _ => updateMetadataAxes m ls
    | none => .ok m) >>= fun m =>
  writeDicts m nNodes nEdges nodeProps edgeProps

/-- the axis lists `SgBackend.write` ends up using (D20 repair): names from the metadata when
`axis_names` is not given, and then every field the caller's lists do not override -/
def sgLists (md : Option (Meta κ)) (ls : AxisLists) (nNodes : Nat) : Res AxisLists :=
  match ls.names, md.bind (·.axes) with
  | none, some axes =>
    .ok { names := some (axes.map (·.name)),
          units := some (ls.units.getD (axes.map (·.unit))),
          types := some (ls.types.getD (axes.map (·.type))),
          scales := some (ls.scales.getD (axes.map (·.scale))),
          scaledUnits := some (ls.scaledUnits.getD (axes.map (·.scaledUnit))),
          offset := some (ls.offset.getD (axes.map (·.offset))) }
  | some _, _ => .ok ls
  | none, none => if nNodes ≠ 0 then .error .valueError else .ok { ls with names := some [] }

/-- `SgBackend.write`: `roi` = `graph.roi`, `position`/attributes are the node properties with the
position un-squished into the axis names -/
def sgWrite (version : String) (md : Option (Meta κ)) (isDirected : Bool) (ls : AxisLists)
    (ndims nNodes nEdges : Nat) (roiMin roiMax : List κ) (positionAttr : String)
    (nodeProps edgeProps : List (String × PropData κ)) : Res (Written κ) :=
  sgLists md ls nNodes >>= fun ls' =>
  axesFromLists ls' (some (roiMin.map some)) (some (roiMax.map some)) >>= fun axes =>
  createOrUpdateMetadata version md isDirected (some axes) >>= fun m =>
  if ndims ≠ axes.length ∧ nNodes ≠ 0 then .error .valueError
  else writeArraysValidated m nNodes nEdges (some nodeProps) (some edgeProps)
    (some [(positionAttr, ls'.names.getD [])]) none

end Geff.MetaW
