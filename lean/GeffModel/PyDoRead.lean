import GeffModel.PartialRead
/-! # Run-time library for the source-translated reader (`harness/translators/t20_pydo_base_read.py`)

The translator T20 turns `GeffReader._mask_to_indices`, `_load_zarr_subset`, `_load_prop_to_memory`,
`build`, `read_node_props`, `read_edge_props` and `read_to_memory` of
`geff/core_io/_base_read.py` statement by statement into Lean `do`-notation
(`Gen/BaseRead.lean`).  Everything the generated code calls is defined here, from the store / array
types of `GeffModel/PartialRead.lean`: one small function per numpy / zarr / dict primitive that
occurs in those functions, with an explicit outcome where Python can raise.

Two monads: `Geff.PRead.Res` (= `Except Err`) for functions that only read `self`, and `RdM` for
the methods that assign to `self.…` — there the reader state survives an exception (Python keeps
the mutated object when a loop raises half way).

What the primitives assume about numpy / zarr (tied by the C09 correspondence, which runs the
hand-written model that the generated code is proved equal to against the implementation):
* a mask is a 1-D boolean array (`np.asarray(mask)` is the identity on it, `.shape` is `(len,)`);
  `np.where(mask)[0]` are the positions of its `True` entries in increasing order;
* `zarr_arr[...]` delivers the whole array, `zarr_arr.oindex[indices]` the rows at `indices` along
  the first axis (`IndexError` out of bounds), `np.empty((0, *trail))` has no rows;
* `a[mask]` with a boolean mask of the length of the first axis keeps the rows where it is `True`
  (`IndexError` for another length), `a[...]` is `a`; `np.isin(edges, nodes).all(axis=1)` says for
  each edge whether both endpoints occur in `nodes`; `np.logical_and` of two equally long masks is
  the element-wise conjunction (other lengths: broadcasting, outside the model);
* the element-wise dtype cast (`np.array(x, dtype=…)`, `_as_dtype`) is the parameter `cast`.
Core Lean only. -/
namespace Geff.PyDoRead
open Geff.Np Geff.PRead

/-! ## arrays -/

/-- a zarr array handle with a leading node/edge axis: `shape = rows.length :: trail` -/
structure ZArr (α : Type) where
  trail : List Nat
  rows : List α
deriving DecidableEq, Repr

/-- an in-memory ndarray with a leading axis, as read from zarr (stored dtype, beneath the model) -/
structure NArr (α : Type) where
  trail : List Nat
  rows : List α
deriving DecidableEq, Repr

/-- an in-memory ndarray of scalars with a leading axis after `np.array(…, dtype=d)` -/
structure RowArr where
  dtype : Dtype
  trail : List Nat
  rows : List (List Val)
deriving DecidableEq, Repr

def raiseValueError {α : Type} : Res α := .error .valueError
def raiseIndexError {α : Type} : Res α := .error (.other "IndexError")

/-- `zarr_arr.shape` / `arr.shape` -/
def ZArr.shape {α} (z : ZArr α) : List Nat := z.rows.length :: z.trail
def NArr.shape {α} (a : NArr α) : List Nat := a.rows.length :: a.trail
/-- `shape[k]` (`IndexError` beyond the rank) -/
def shapeAt (sh : List Nat) (k : Nat) : Res Nat :=
  match sh[k]? with
  | some n => .ok n
  | none => .error (.other "IndexError")
/-- `np.asarray(mask)` of a 1-D boolean array -/
def npAsarrayMask (m : List Bool) : List Bool := m
/-- `mask.shape` of a 1-D boolean array -/
def maskShape (m : List Bool) : List Nat := [m.length]
/-- `np.where(mask)[0]` -/
def npWhere0 (m : List Bool) : List Nat := whereIdx m
/-- `zarr_arr[...]` / `zarr_arr[:]` -/
def zarrGetAll {α} (z : ZArr α) : NArr α := { trail := z.trail, rows := z.rows }
/-- `np.asarray(a)` / `np.array(a)` of an ndarray -/
def npAsarray {α} (a : NArr α) : NArr α := a
/-- `np.empty(shape, dtype=…)`: modelled only when there are no elements (otherwise the contents
are uninitialised memory) -/
def npEmpty {α} (shape : List Nat) : Res (NArr α) :=
  match shape with
  | 0 :: tr => .ok { trail := tr, rows := [] }
  | _ => .error (.unmodelled "np.empty of a shape with elements")
/-- `zarr_arr.oindex[indices]` -/
def oindex {α} (z : ZArr α) (indices : List Nat) : Res (NArr α) := do
  let rows ← indices.mapM (fun i => match z.rows[i]? with
      | some r => .ok r
      | none => .error (.other "IndexError"))
  pure { trail := z.trail, rows := rows }

/-- `_as_dtype(a, dtype=d)` / `np.array(a, dtype=d)` on rows of scalars -/
def asDtype (cast : Dtype → Val → Val) (a : NArr (List Val)) (d : Dtype) : RowArr :=
  { dtype := d, trail := a.trail, rows := a.rows.map (·.map (cast d)) }
/-- `np.array(a, dtype=bool)` of a stored boolean array -/
def npArrayBool (a : NArr Bool) : List Bool := a.rows
/-- `np.array(zarr_arr[...], dtype=d)` of the flat `data` array -/
def npArrayFlat (cast : Dtype → Val → Val) (data : List Val) (d : Dtype) : NdArr :=
  { dtype := d, shape := [data.length], flat := data.map (cast d) }
/-- `np.dtype(prop_metadata.dtype)` -/
def npDtype (d : Dtype) : Dtype := d
/-- the ndarray a `RowArr` is, for `deserialize_vlen_property_data` -/
def RowArr.toNdArr (a : RowArr) : NdArr :=
  { dtype := a.dtype, shape := a.rows.length :: a.trail, flat := a.rows.flatten }

/-- `a[mask]` with a boolean mask over the first axis -/
def boolIndex {α} (a : NArr α) (m : List Bool) : Res (NArr α) :=
  if m.length = a.rows.length then .ok { trail := a.trail, rows := filterByMask a.rows m }
  else .error (.other "IndexError")
/-- `a[sel]` where `sel` is a boolean mask or `...` (`none`) -/
def getSel {α} (a : NArr α) (sel : Option (List Bool)) : Res (NArr α) :=
  match sel with
  | none => .ok a
  | some m => boolIndex a m
/-- `np.isin(edges, nodes).all(axis=1)` -/
def isinAllAxis1 (edges : NArr (Int × Int)) (nodes : NArr Int) : List Bool :=
  endpointsIn nodes.rows edges.rows
/-- `np.logical_and(a, b)` of two 1-D masks of equal length -/
def npLogicalAnd (a b : List Bool) : Res (List Bool) :=
  if a.length = b.length then .ok (List.zipWith (· && ·) a b)
  else .error (.unmodelled "np.logical_and of masks of different lengths (broadcasting)")

/-! ## dicts (insertion-ordered association lists with unique keys) -/

/-- `d[k]` -/
def dictGet {β} (d : List (String × β)) (k : String) : Res β :=
  match lookup k d with
  | some v => .ok v
  | none => .error (.other "KeyError")
/-- `d[k] = v` -/
def dictSet {β} (d : List (String × β)) (k : String) (v : β) : List (String × β) := insert d k v
/-- `del d[k]` -/
def dictDel {β} (d : List (String × β)) (k : String) : Res (List (String × β)) :=
  if hasKey k d then .ok (d.filter (fun p => p.1 ≠ k)) else .error (.other "KeyError")
/-- `d.keys()` (a snapshot: Lean lists are values) -/
def dictKeys {β} (d : List (String × β)) : List String := keys d

/-! ## the property group handle (`ZarrPropDict`) -/

/-- `zarr_prop[_path.VALUES]` (always present) -/
def propValues (zp : ZarrProp) : ZArr (List Val) := { trail := zp.values.trail, rows := zp.values.rows }
/-- `_path.MISSING in zarr_prop` -/
def hasMissing (zp : ZarrProp) : Bool := zp.missing.isSome
/-- `zarr_prop[_path.MISSING]` -/
def propMissing (zp : ZarrProp) : Res (ZArr Bool) :=
  match zp.missing with
  | some m => .ok { trail := [], rows := m }
  | none => .error (.other "KeyError")
/-- `_path.DATA in zarr_prop` -/
def hasData (zp : ZarrProp) : Bool := zp.data.isSome
/-- `zarr_prop[_path.DATA][...]`: the flat data array in full -/
def propDataAll (zp : ZarrProp) : Res (List Val) :=
  match zp.data with
  | some d => .ok d
  | none => .error (.other "KeyError")

/-! ## in-memory result, as Python packages it -/

inductive GValues where
  | dense (a : RowArr)
  | object (slots : List (Option NdArr))       -- the object array `deserialize_vlen_property_data` fills
deriving DecidableEq, Repr

/-- `PropDictNpArray` -/
structure GMemProp where
  values : GValues
  missing : Option (List Bool)
deriving DecidableEq, Repr

/-- the dict `deserialize_vlen_property_data` returns -/
def GMemProp.ofVlenDict (r : List (Option NdArr) × Option (List Bool)) : GMemProp :=
  { values := .object r.1, missing := r.2 }

/-- `GeffMetadata` as far as the reader looks at it -/
structure GMeta where
  nodePropsMetadata : List (String × PropMeta)
  edgePropsMetadata : List (String × PropMeta)
  rest : String
deriving DecidableEq, Repr

/-- `copy.deepcopy` of a value (Lean values are immutable) -/
def deepcopy {α} (x : α) : α := x

/-- `InMemoryGeff` -/
structure GInMem where
  metadata : GMeta
  nodeIds : NArr Int
  nodeProps : List (String × GMemProp)
  edgeIds : NArr (Int × Int)
  edgeProps : List (String × GMemProp)
deriving DecidableEq, Repr

/-! ## `self` -/

def selfNodes (r : Reader) : ZArr Int := { trail := [], rows := r.store.ids }
def selfEdges (r : Reader) : ZArr (Int × Int) := { trail := [2], rows := r.store.edges }
def selfMetadata (r : Reader) : GMeta :=
  { nodePropsMetadata := r.store.nodeMeta, edgePropsMetadata := r.store.edgeMeta, rest := r.store.metaRest }
def selfNodePropNames (r : Reader) : List String := keys r.store.nodeProps
def selfEdgePropNames (r : Reader) : List String := keys r.store.edgeProps

inductive PropType where | node | edge
deriving DecidableEq, Repr

/-- `self._read_prop(name, prop_type)`: opens the property group (`GroupNotFoundError` when there is
none) and collects its arrays -/
def readProp (r : Reader) (name : String) (t : PropType) : Res ZarrProp :=
  match lookup name (match t with | .node => r.store.nodeProps | .edge => r.store.edgeProps) with
  | some zp => .ok zp
  | none => .error (.other "GroupNotFoundError")

/-- `GeffReader(source, validate)` on a store `validate_structure` accepts -/
def geffReader (source : Store) (_validate : Bool) : Reader := Reader.init source

/-- methods that assign to `self.…` and may raise: the state survives the exception -/
def RdM (α : Type) : Type := Reader → Except Err α × Reader

instance instMonadRdM : Monad RdM where
  pure a := fun r => (.ok a, r)
  bind x f := fun r => match x r with
    | (.ok a, r') => f a r'
    | (.error e, r') => (.error e, r')

/-- read `self` -/
def getSelf : RdM Reader := fun r => (.ok r, r)
/-- `self.node_props = d` / `self.edge_props = d` -/
def setNodeProps (d : List (String × ZarrProp)) : RdM Unit := fun r => (.ok (), { r with nodeProps := d })
def setEdgeProps (d : List (String × ZarrProp)) : RdM Unit := fun r => (.ok (), { r with edgeProps := d })
/-- an operation that may raise, inside a method -/
def liftRes {α} (x : Res α) : RdM α := fun r => (x, r)
/-- `obj.method(…)` from a function that does not catch: the exception propagates -/
def callMethod (m : RdM Unit) (obj : Reader) : Res Reader :=
  match m obj with
  | (.ok _, r) => .ok r
  | (.error e, _) => .error e

end Geff.PyDoRead
