import GeffModel.TrackMate
import GeffModel.TrackMateSpec
/-! # C16 — the XML layer of `geff.convert._trackmate_xml`: element trees, `iterparse` events, cursors

What the abstract `Doc` of `GeffModel/TrackMate.lean` left out: the streaming layer.

* `Tree` — an XML element (tag, attributes in document order, text before the first child, children).
  Tail text, comments and processing instructions are not part of it: lxml yields no event for them under
  `events=["start","end"]` and the converter never reads `.tail` (checked by the correspondence, which
  renders trees *with* comments / PIs / tails and compares lxml's real event stream with `events`).
* `events : Tree → List Ev` — what `ET.iterparse(f, events=["start","end"])` yields; an event carries the
  identity of its element (`path` from the root: Python compares `(event, element) != ("end", ancestor)`
  by element identity) and the element.  `endEvents` is the default end-only stream.
* the cursor functions, as recursions over the *remaining* event list that return the rest of the iterator:
  `getUnits`, `getAttributesMetadata`, `addAllNodes`, `buildTracks`, `getFilteredTracksID`, `buildDataEv`
  (the dispatching `for` loop of `_build_data` with its `break`), `getTrackmateVersion`, `getSpecificTags`,
  and on the deep-copied elements `extractImagePath`, `getFeatureName/Dtype/Unit`, `processFeatureMetadata`,
  `extractPropsMetadata`.  `next(it)` on an exhausted iterator is `Outcome.exc "StopIteration"`.
* Python's `int()` / `float()` on an attribute text is a parameter `lex : String → Txt` (the theorems hold
  for every lexer; the driver receives Python's own classification of every text of the tree).
* `element.clear()` / `root.clear()`: every read of `attrib` / `text` in the code happens on the event being
  handled, before that element is cleared, and `clear()` keeps the tag; an element's events that are
  already queued are delivered unchanged.  So clearing has no effect on what the cursor code sees and is
  not represented (tie: the cursor-function streams of the correspondence, which call the real functions).

Core Lean only. -/
namespace Geff.TrackMate.Xml
open Geff.TrackMate

inductive Tree where
  | node (tag : String) (attrs : List (String × String)) (text : Option String) (kids : List Tree)

instance : Inhabited Tree := ⟨.node "" [] none []⟩

def Tree.tag : Tree → String | .node t _ _ _ => t
def Tree.attrs : Tree → List (String × String) | .node _ a _ _ => a
def Tree.text : Tree → Option String | .node _ _ x _ => x
def Tree.kids : Tree → List Tree | .node _ _ _ k => k

/-- one `(event, element)` pair of `iterparse` -/
structure Ev where
  isEnd : Bool
  path : List Nat
  el : Tree

def Ev.tag (e : Ev) : String := e.el.tag
def Ev.attrs (e : Ev) : List (String × String) := e.el.attrs

mutual
/-- the events of the element `t` whose identity is `p` -/
def eventsAt (p : List Nat) : Tree → List Ev
  | .node tag a tx kids =>
    ⟨false, p, .node tag a tx kids⟩ :: (eventsKids p 0 kids ++ [⟨true, p, .node tag a tx kids⟩])
/-- the events of the children `ts` (the first of which is child number `i`) of the element `p` -/
def eventsKids (p : List Nat) (i : Nat) : List Tree → List Ev
  | [] => []
  | t :: ts => eventsAt (p ++ [i]) t ++ eventsKids p (i + 1) ts
end

/-- `ET.iterparse(f, events=["start", "end"])` -/
def events (t : Tree) : List Ev := eventsAt [] t
/-- `ET.iterparse(f)` (end events only) -/
def endEvents (t : Tree) : List Ev := (events t).filter (·.isEnd)

mutual
/-- elements in document (pre-) order = order of the start events -/
def pre : Tree → List Tree
  | .node tag a tx kids => .node tag a tx kids :: preKids kids
def preKids : List Tree → List Tree
  | [] => []
  | t :: ts => pre t ++ preKids ts
end

mutual
/-- elements in the order of their end tags (post-order) = order of the end events -/
def post : Tree → List Tree
  | .node tag a tx kids => postKids kids ++ [.node tag a tx kids]
def postKids : List Tree → List Tree
  | [] => []
  | t :: ts => post t ++ postKids ts
end

/-- `(event, element) == ("end", ancestor)` -/
def isEndOf (anc : List Nat) (e : Ev) : Bool := e.isEnd && e.path == anc

/-! ### the two loop shapes of the cursor functions -/

/-- `while (event, element) != ("end", ancestor): body(event, element); event, element = next(it)`
— called with the current pair at the head of the list; returns the state and the rest of the iterator -/
def scanUntil {σ : Type} (anc : List Nat) (step : σ → Ev → Outcome σ) : σ → List Ev → Outcome (σ × List Ev)
  | _, [] => .exc "StopIteration"
  | s, e :: rest =>
    if isEndOf anc e then .ok (s, rest)
    else match step s e with
      | .exc x => .exc x
      | .ok s' => scanUntil anc step s' rest

/-- `while (event, element) != ("end", ancestor): event, element = next(it); body(event, element)`
— called when the current pair is not the end of the ancestor; the pair that ends the loop is still
handed to the body -/
def scanThrough {σ : Type} (anc : List Nat) (step : σ → Ev → Outcome σ) : σ → List Ev → Outcome (σ × List Ev)
  | _, [] => .exc "StopIteration"
  | s, e :: rest =>
    match step s e with
    | .exc x => .exc x
    | .ok s' => if isEndOf anc e then .ok (s', rest) else scanThrough anc step s' rest

/-- a fold with exceptions (the tree-level counterparts of the loops) -/
def foldO {σ α : Type} (step : σ → α → Outcome σ) : σ → List α → Outcome σ
  | s, [] => .ok s
  | s, x :: xs => match step s x with
    | .exc e => .exc e
    | .ok s' => foldO step s' xs

/-! ### `_get_units` -/

/-- `_get_units(element)`: every attribute of the element, plus the two defaults -/
def getUnits (attrs : List (String × String)) : List (String × String) :=
  let u := attrs
  let u := if (u.lookup "spatialunits").isNone then u ++ [("spatialunits", "pixel")] else u
  if (u.lookup "timeunits").isNone then u ++ [("timeunits", "frame")] else u

/-! ### `_get_attributes_metadata` -/

/-- the `attrs_md` entry of a `Feature` element: `attrs_md[attrs["feature"]] = attrs` -/
def featOf (a : List (String × String)) : Outcome Feat :=
  match a.lookup "feature" with
  | none => .exc "KeyError"
  | some n => .ok { name := n, isint := (a.lookup "isint").map (· == "true"), dim := a.lookup "dimension" }

/-- the body of the inner loop, on an element: `if element.tag == "Feature" (and event == "start")` -/
def featStepT (acc : List Feat) (t : Tree) : Outcome (List Feat) :=
  if t.tag == "Feature" then
    match featOf t.attrs with
    | .exc x => .exc x
    | .ok f => .ok (acc ++ [f])
  else .ok acc

def featStep (acc : List Feat) (e : Ev) : Outcome (List Feat) := if e.isEnd then .ok acc else featStepT acc e.el

/-- `_get_attributes_metadata(it, ancestor)`.  The first `next(it)` is only compared with the end of the
ancestor; the outer loop body then reads the *next* pair without looking at the first (so a `Feature`
that is the very first child of the ancestor is skipped); when the inner loop ends the outer one ends
too.  Later declarations of a name replace earlier ones (`mdLookup` reads the list from the back). -/
def getAttributesMetadata (anc : List Nat) : List Ev → Outcome (List Feat × List Ev)
  | [] => .exc "StopIteration"
  | e1 :: rest => if isEndOf anc e1 then .ok ([], rest) else scanUntil anc featStep [] rest

/-! ### `_add_all_nodes` -/

def lexAttrs (lex : String → Txt) (a : List (String × String)) : List (String × Txt) := a.map (fun kv => (kv.1, lex kv.2))

/-- Python's `str.split()` on ASCII white space -/
def isWs (c : Char) : Bool := c == ' ' || c == '\t' || c == '\n' || c == '\r' || c == '\x0b' || c == '\x0c'

def splitWsAux : List Char → List Char → List String → List String
  | [], cur, acc => if cur.isEmpty then acc.reverse else (String.ofList cur.reverse :: acc).reverse
  | c :: cs, cur, acc =>
    if isWs c then (if cur.isEmpty then splitWsAux cs [] acc else splitWsAux cs [] (String.ofList cur.reverse :: acc))
    else splitWsAux cs (c :: cur) acc

def splitWs (s : String) : List String := splitWsAux s.toList [] []

/-- `[tuple(coords[i : i + d]) for i in range(0, len(coords), d)]`, `d > 0` (fuel = `len(coords)`) -/
def chunks {α : Type} (d : Nat) : Nat → List α → List (List α)
  | 0, _ => []
  | _, [] => []
  | fuel + 1, x :: xs => (x :: xs).take d :: chunks d fuel ((x :: xs).drop d)

/-- the list comprehension of `_convert_ROI_coordinates` on a non-empty text -/
def roiOfText (lex : String → Txt) (n : Int) (text : String) : Outcome (List (List String)) :=
  let toks := splitWs text
  if toks.any (fun t => match lex t with
    | .str _ => true
    | _ => false) then .exc "ValueError"                 -- float(v)
  else if n = 0 then .exc "ZeroDivisionError"            -- len(coords) // n_points
  else
    let d := Int.fdiv (toks.length : Int) n
    if d = 0 then .exc "ValueError"                      -- range() arg 3 must not be zero
    else if d < 0 then .ok []
    else .ok (chunks d.toNat toks.length toks)

def aerase (a : Attrs) (k : String) : Attrs := a.filter (fun kv => !(kv.1 == k))

/-- `_convert_ROI_coordinates(element, attrs)` followed by the removal of a `None` result -/
def convertRoiRaw (lex : String → Txt) (text : Option String) (a : Attrs) : Outcome Attrs :=
  match aget? a "ROI_N_POINTS" with
  | none => .exc "KeyError"                              -- No key 'ROI_N_POINTS'
  | some nv =>
    match text with
    | none => .ok (aerase a "ROI_coords")                -- attrs["ROI_coords"] = None; del attrs["ROI_coords"]
    | some tx =>
      if tx.isEmpty then .ok (aerase a "ROI_coords")
      else match nv with
        | .i n => match roiOfText lex n tx with
          | .exc x => .exc x
          | .ok pts => .ok (aset a "ROI_coords" (.roi pts))
        | _ => .exc "TypeError"                          -- ROI_N_POINTS should be an integer

/-- the body of `_add_all_nodes` for one `Spot` element up to `graph.add_node`: the attribute dict, the
new `segmentation` flag and the node id (`none`: no `ID`, warning, node not added) -/
def spotCoreRaw (lex : String → Txt) (md : List Feat) (seg : Bool) (raw : List (String × String)) (text : Option String) :
    Outcome (Attrs × Bool × Option Nat) :=
  match convertAttributes md (lexAttrs lex raw) with
  | .exc x => .exc x
  | .ok attrs =>
    let hasN := ahas attrs "ROI_N_POINTS"
    let withRoi : Outcome Attrs := if seg || hasN then convertRoiRaw lex text attrs else .ok attrs
    match withRoi with
    | .exc x => .exc x
    | .ok attrs =>
      match aget? attrs "ID" with
      | none => .ok (attrs, seg || hasN, none)
      | some (.i n) => if n < 0 then .exc "unmodelled:negative-spot-id" else .ok (attrs, seg || hasN, some n.toNat)
      | some _ => .exc "unmodelled:non-integer-spot-id"

/-- the body of `_add_all_nodes` for one element (`event == "end"`) -/
def spotStepT (lex : String → Txt) (md : List Feat) (st : Graph × Bool) (t : Tree) : Outcome (Graph × Bool) :=
  if t.tag == "Spot" then
    match spotCoreRaw lex md st.2 t.attrs t.text with
    | .exc x => .exc x
    | .ok (_, seg', none) => .ok (st.1, seg')
    | .ok (attrs, seg', some i) => .ok (st.1.addNode i attrs, seg')
  else .ok st

def spotStep (lex : String → Txt) (md : List Feat) (st : Graph × Bool) (e : Ev) : Outcome (Graph × Bool) :=
  if e.isEnd then spotStepT lex md st e.el else .ok st

/-- `_add_all_nodes(it, ancestor, attrs_md, graph)`: the graph and the `segmentation` flag -/
def addAllNodes (lex : String → Txt) (md : List Feat) (anc : List Nat) (g : Graph) :
    List Ev → Outcome ((Graph × Bool) × List Ev)
  | [] => .exc "StopIteration"
  | e1 :: rest => if isEndOf anc e1 then .ok ((g, false), rest) else scanThrough anc (spotStep lex md) (g, false) rest

/-! ### `_build_tracks` / `_add_edge` -/

/-- `int(attrs[key])` on a converted attribute -/
def pyIntOf (lex : String → Txt) : Val → Outcome Nat
  | .i n => if n < 0 then .exc "unmodelled:negative-spot-id" else .ok n.toNat
  | .f (.ofInt n) => if n < 0 then .exc "unmodelled:negative-spot-id" else .ok n.toNat
  | .f (.ofText _) => .exc "unmodelled:int-of-float"
  | .s s => match lex s with
    | .int n _ => if n < 0 then .exc "unmodelled:negative-spot-id" else .ok n.toNat
    | _ => .exc "ValueError"
  | _ => .exc "TypeError"

/-- `_add_edge` up to `graph.add_edge`: source, target and the attribute dict (`none`: a key is missing,
warning, edge not added) -/
def edgeCoreRaw (lex : String → Txt) (md : List Feat) (raw : List (String × String)) : Outcome (Option (Nat × Nat × Attrs)) :=
  match convertAttributes md (lexAttrs lex raw) with
  | .exc x => .exc x
  | .ok attrs =>
    match aget? attrs "SPOT_SOURCE_ID" with
    | none => .ok none                                   -- KeyError caught: warning, edge not added
    | some sv =>
      match pyIntOf lex sv with
      | .exc x => .exc x
      | .ok s =>
        match aget? attrs "SPOT_TARGET_ID" with
        | none => .ok none
        | some tv =>
          match pyIntOf lex tv with
          | .exc x => .exc x
          | .ok t => .ok (some (s, t, attrs))

/-- `_add_edge(element, attrs_md, graph, current_track_id)` -/
def addEdgeRaw (lex : String → Txt) (md : List Feat) (raw : List (String × String)) (g : Graph) (tid : Val) : Outcome Graph :=
  match edgeCoreRaw lex md raw with
  | .exc x => .exc x
  | .ok none => .ok g
  | .ok (some (s, t, attrs)) =>
    let g := g.addEdge s t attrs
    match stamp g s tid with
    | .exc x => .exc x
    | .ok g => stamp g t tid

/-- the `TRACK_ID` `_build_tracks` reads off a `Track` element -/
def trackCoreRaw (lex : String → Txt) (md : List Feat) (raw : List (String × String)) : Outcome Val :=
  match convertAttributes md (lexAttrs lex raw) with
  | .exc x => .exc x
  | .ok a => match aget? a "TRACK_ID" with
    | none => .exc "KeyError"                            -- No key 'TRACK_ID'
    | some tid => .ok tid

/-- the loop body of `_build_tracks` on an element (`event == "start"`); state = `current_track_id`, graph -/
def trackStepT (lex : String → Txt) (md : List Feat) (st : Option Val × Graph) (t : Tree) : Outcome (Option Val × Graph) :=
  if t.tag == "Track" then
    match trackCoreRaw lex md t.attrs with
    | .exc x => .exc x
    | .ok tid => .ok (some tid, st.2)
  else if t.tag == "Edge" then
    match st.1 with
    | none => .exc "AssertionError"                      -- No current track ID.
    | some tid => match addEdgeRaw lex md t.attrs st.2 tid with
      | .exc x => .exc x
      | .ok g => .ok (st.1, g)
  else .ok st

def trackStep (lex : String → Txt) (md : List Feat) (st : Option Val × Graph) (e : Ev) : Outcome (Option Val × Graph) :=
  if e.isEnd then .ok st else trackStepT lex md st e.el

/-- `_build_tracks(iterator, ancestor, attrs_md, graph)` -/
def buildTracksEv (lex : String → Txt) (md : List Feat) (anc : List Nat) (g : Graph) : List Ev → Outcome (Graph × List Ev) :=
  fun evs => match scanUntil anc (trackStep lex md) (none, g) evs with
    | .exc x => .exc x
    | .ok (st, rest) => .ok (st.2, rest)

/-! ### `_get_filtered_tracks_ID` -/

/-- `filtered_tracks_ID.append(int(attrs["TRACK_ID"]))` with the `KeyError` caught -/
def ftAppend (lex : String → Txt) (acc : List Int) (a : List (String × String)) : Outcome (List Int) :=
  match a.lookup "TRACK_ID" with
  | none => .ok acc                                      -- warning
  | some t => match lex t with
    | .int n _ => .ok (acc ++ [n])
    | _ => .exc "ValueError"

def ftStepT (lex : String → Txt) (acc : List Int) (t : Tree) : Outcome (List Int) :=
  if t.tag == "TrackID" then ftAppend lex acc t.attrs else .ok acc

def ftStep (lex : String → Txt) (acc : List Int) (e : Ev) : Outcome (List Int) :=
  if e.isEnd then .ok acc else ftStepT lex acc e.el

/-- `_get_filtered_tracks_ID(iterator, ancestor)`: the first pair is read whatever its tag and event -/
def getFilteredTracksID (lex : String → Txt) (anc : List Nat) : List Ev → Outcome (List Int × List Ev)
  | [] => .exc "StopIteration"
  | e1 :: rest =>
    match ftAppend lex [] e1.attrs with
    | .exc x => .exc x
    | .ok acc => if isEndOf anc e1 then .ok (acc, rest) else scanThrough anc (ftStep lex) acc rest

/-! ### `_build_data` -/

inductive TagKind where
  | model | featureDecls | allSpots | allTracks | filteredTracks | other
deriving DecidableEq, Repr

def kindOf (tag : String) : TagKind :=
  if tag == "Model" then .model else if tag == "FeatureDeclarations" then .featureDecls
  else if tag == "AllSpots" then .allSpots else if tag == "AllTracks" then .allTracks
  else if tag == "FilteredTracks" then .filteredTracks else .other

/-- the local variables of `_build_data` -/
structure BD where
  g : Graph := {}
  seg : Bool := false
  units : List (String × String) := []
  md : List Feat := []

/-- `if discard_filtered_spots: graph.remove_nodes_from([n for n, d in graph.degree if d == 0])` -/
def dropLone (ds : Bool) (g : Graph) : Graph :=
  if ds then g.removeNodes ((g.nodes.filter (fun p => g.degree p.1 == 0)).map (·.1)) else g

/-- `if discard_filtered_tracks: graph.remove_nodes_from([n … if t is None or t not in id_to_keep])` -/
def dropUnlisted (dt : Bool) (keep : List Int) (g : Graph) : Graph :=
  if dt then g.removeNodes ((g.nodes.filter (fun p => notKept keep p.2)).map (·.1)) else g

/-- one iteration of `for event, element in it:` — the new variables, the rest of the iterator, and
whether the loop `break`s.  The five tag tests are on the same unchanged `element`, so they exclude one
another. -/
def bdStep (lex : String → Txt) (ds dt : Bool) (e : Ev) (rest : List Ev) (st : BD) : Outcome (BD × List Ev × Bool) :=
  match kindOf e.tag, e.isEnd with
  | .model, false => .ok ({ st with units := getUnits e.attrs }, rest, false)
  | .model, true => .ok (st, rest, true)
  | .featureDecls, false =>
    match getAttributesMetadata e.path rest with
    | .exc x => .exc x
    | .ok (md, rest') => .ok ({ st with md := md }, rest', false)
  | .allSpots, false =>
    match addAllNodes lex st.md e.path st.g rest with
    | .exc x => .exc x
    | .ok ((g, seg), rest') => .ok ({ st with g := g, seg := seg }, rest', false)
  | .allTracks, false =>
    match buildTracksEv lex st.md e.path st.g rest with
    | .exc x => .exc x
    | .ok (g, rest') => .ok ({ st with g := dropLone ds g }, rest', false)
  | .filteredTracks, false =>
    match getFilteredTracksID lex e.path rest with
    | .exc x => .exc x
    | .ok (keep, rest') => .ok ({ st with g := dropUnlisted dt keep st.g }, rest', false)
  | _, _ => .ok (st, rest, false)

/-- the `for` loop of `_build_data`.  The guard `rest'.length ≤ rest.length` (an iterator only moves
forward) makes the recursion well-founded; it never fails (`bdLoop_walk`). -/
def bdLoop (lex : String → Txt) (ds dt : Bool) (evs : List Ev) (st : BD) : Outcome BD :=
  match evs with
  | [] => .ok st
  | e :: rest =>
    match bdStep lex ds dt e rest st with
    | .exc x => .exc x
    | .ok (st', rest', brk) =>
      if brk then .ok st'
      else if _h : rest'.length ≤ rest.length then bdLoop lex ds dt rest' st'
      else .exc "unmodelled:iterator-moved-backwards"
termination_by evs.length
decreasing_by simp_wf; omega

/-- `_build_data(xml_path, discard_filtered_spots, discard_filtered_tracks)` on the event stream:
`_, root = next(it)` and then the loop; returns `graph, units, segmentation` -/
def buildDataEv (lex : String → Txt) (ds dt : Bool) : List Ev → Outcome BD
  | [] => .exc "StopIteration"
  | _ :: rest => bdLoop lex ds dt rest {}

/-! ### tree-level description of the same computation -/

/-- `attrs_md` of a `FeatureDeclarations` element with children `kids`: every `Feature` element below it
in document order, except that the first child itself is not looked at -/
def featuresOfKids (kids : List Tree) : Outcome (List Feat) := foldO featStepT [] ((preKids kids).drop 1)

/-- the spots of an `AllSpots` element `t`: every `Spot` element in the order of the end tags (the loop
also looks at the end of `t` itself) -/
def spotsOfSection (lex : String → Txt) (md : List Feat) (g : Graph) (t : Tree) : Outcome (Graph × Bool) :=
  match t.kids with
  | [] => .ok (g, false)
  | _ :: _ => foldO (spotStepT lex md) (g, false) (post t)

/-- the tracks of an `AllTracks` element: every `Track` / `Edge` element below it in document order; an
`Edge` belongs to the last `Track` element *opened* before it -/
def tracksOfKids (lex : String → Txt) (md : List Feat) (g : Graph) (kids : List Tree) : Outcome Graph :=
  match foldO (trackStepT lex md) (none, g) (preKids kids) with
  | .exc x => .exc x
  | .ok st => .ok st.2

/-- the kept track ids of a `FilteredTracks` element `t`: the `TRACK_ID` of the first element below it
whatever its tag (of `t` itself when it has no child), then of every further `TrackID` element in
document order -/
def filteredOfSection (lex : String → Txt) (t : Tree) : Outcome (List Int) :=
  match preKids t.kids with
  | [] => ftAppend lex [] t.attrs
  | c :: more => match ftAppend lex [] c.attrs with
    | .exc x => .exc x
    | .ok acc => foldO (ftStepT lex) acc more

mutual
/-- `_build_data` as a walk over the tree: the new variables and whether the loop has broken -/
def walk (lex : String → Txt) (ds dt : Bool) : Tree → BD → Outcome (BD × Bool)
  | .node tag a tx kids, st =>
    match kindOf tag with
    | .featureDecls => match featuresOfKids kids with
      | .exc x => .exc x
      | .ok md => .ok ({ st with md := md }, false)
    | .allSpots => match spotsOfSection lex st.md st.g (.node tag a tx kids) with
      | .exc x => .exc x
      | .ok (g, seg) => .ok ({ st with g := g, seg := seg }, false)
    | .allTracks => match tracksOfKids lex st.md st.g kids with
      | .exc x => .exc x
      | .ok g => .ok ({ st with g := dropLone ds g }, false)
    | .filteredTracks => match filteredOfSection lex (.node tag a tx kids) with
      | .exc x => .exc x
      | .ok keep => .ok ({ st with g := dropUnlisted dt keep st.g }, false)
    | .model => match walkKids lex ds dt kids { st with units := getUnits a } with
      | .exc x => .exc x
      | .ok (st', _) => .ok (st', true)                 -- `break` at the end of the element at the latest
    | .other => walkKids lex ds dt kids st
def walkKids (lex : String → Txt) (ds dt : Bool) : List Tree → BD → Outcome (BD × Bool)
  | [], st => .ok (st, false)
  | t :: ts, st => match walk lex ds dt t st with
    | .exc x => .exc x
    | .ok (st', true) => .ok (st', true)
    | .ok (st', false) => walkKids lex ds dt ts st'
end

/-- `_build_data` on a document: the root element's own tag is never looked at on its start -/
def buildDataTree (lex : String → Txt) (ds dt : Bool) (t : Tree) : Outcome BD :=
  match walkKids lex ds dt t.kids {} with
  | .exc x => .exc x
  | .ok (st, _) => .ok st

/-- no element of the subtree carries one of the five tags `_build_data` dispatches on -/
def ignoredB (t : Tree) : Bool := (pre t).all (fun x => kindOf x.tag == .other)

/-! ### `_get_trackmate_version`, `_get_specific_tags` -/

def versionOf (a : List (String × String)) : String :=
  match a.lookup "version" with
  | some v => if v.isEmpty then "unknown" else v
  | none => "unknown"

/-- `_get_trackmate_version` on the end-only stream -/
def getTrackmateVersion : List Ev → String
  | [] => "unknown"
  | e :: rest => if e.tag == "TrackMate" then versionOf e.attrs else getTrackmateVersion rest

def versionOfTree (t : Tree) : String :=
  match (post t).find? (fun x => x.tag == "TrackMate") with
  | some x => versionOf x.attrs
  | none => "unknown"

/-- `_get_specific_tags(xml_path, tag_names, …)`: the found elements (deep copies, taken at the *start*
event — complete only when the parser has already read the whole element) and the names not found -/
def getSpecificTags : List String → List (String × Tree) → List Ev → List (String × Tree) × List String
  | names, acc, [] => (acc, names)
  | names, acc, e :: rest =>
    if !e.isEnd && names.contains e.tag then
      if (names.erase e.tag).isEmpty then (acc ++ [(e.tag, e.el)], [])
      else getSpecificTags (names.erase e.tag) (acc ++ [(e.tag, e.el)]) rest
    else getSpecificTags names acc rest

/-- tree level: for each wanted name the first element in document order carrying it -/
def specificTagsOf : List String → List (String × Tree) → List Tree → List (String × Tree) × List String
  | names, acc, [] => (acc, names)
  | names, acc, t :: rest =>
    if names.contains t.tag then
      if (names.erase t.tag).isEmpty then (acc ++ [(t.tag, t)], [])
      else specificTagsOf (names.erase t.tag) (acc ++ [(t.tag, t)]) rest
    else specificTagsOf names acc rest

/-! ### metadata from the copied elements -/

inductive ImagePath where
  | none | folder (f : String) | name (n : String) | both (f n : String)
deriving Repr, DecidableEq

/-- `_extract_image_path(settings_md)` (the `pathlib` join is left to the caller) -/
def extractImagePath : Option Tree → Outcome ImagePath
  | none => .ok .none
  | some s =>
    match s.kids.find? (fun c => c.tag == "ImageData") with
    | none => .ok .none
    | some im =>
      match im.attrs.lookup "filename" with
      | none => .exc "KeyError"
      | some fn => match im.attrs.lookup "folder" with
        | none => .exc "KeyError"
        | some fo =>
          if fn.isEmpty && fo.isEmpty then .ok .none
          else if fn.isEmpty then .ok (.folder fo)
          else if fo.isEmpty then .ok (.name fn)
          else .ok (.both fo fn)

structure PropMd where
  name : String
  dtype : String
  unit : Option String
  varlength : Bool := false
deriving Repr, DecidableEq

def getFeatureName (a : List (String × String)) (key : String) : String := (a.lookup "name").getD key

def getFeatureDtype (a : List (String × String)) : Outcome String :=
  match a.lookup "isint" with
  | none => .exc "ValueError"
  | some v => .ok (if v == "true" then "int" else "float")

def getFeatureUnit (a : List (String × String)) (units : List (String × String)) : Outcome String :=
  match a.lookup "dimension" with
  | none => .exc "ValueError"
  | some d => match unitOf d ((units.lookup "spatialunits").getD "pixel") ((units.lookup "timeunits").getD "frame") with
    | none => .exc "ValueError"
    | some u => .ok u

/-- `_process_feature_metadata(feat, geff_dict, feat_type, units)` -/
def processFeatureMetadata (units : List (String × String)) (acc : List (String × PropMd)) (feat : Tree) :
    Outcome (List (String × PropMd)) :=
  match feat.attrs.lookup "feature" with
  | none => .exc "KeyError"
  | some key =>
    if acc.any (fun kv => kv.1 == key) then .exc "ValueError"
    else match getFeatureDtype feat.attrs with
      | .exc x => .exc x
      | .ok dt => match getFeatureUnit feat.attrs units with
        | .exc x => .exc x
        | .ok u => .ok (acc ++ [(key, { name := getFeatureName feat.attrs key, dtype := dt, unit := some u })])

structure PropsMd where
  node : List (String × PropMd) := []
  edge : List (String × PropMd) := []
  lineage : List (String × PropMd) := []
deriving Repr, DecidableEq

/-- the loop `for feat_type in xml_md: … for feat in feat_type.findall("Feature")` -/
def propsStep (units : List (String × String)) (pm : PropsMd) (ft : Tree) : Outcome PropsMd :=
  let feats := ft.kids.filter (fun c => c.tag == "Feature")
  if ft.tag == "SpotFeatures" then
    match foldO (processFeatureMetadata units) pm.node feats with
    | .exc x => .exc x
    | .ok l => .ok { pm with node := l }
  else if ft.tag == "EdgeFeatures" then
    match foldO (processFeatureMetadata units) pm.edge feats with
    | .exc x => .exc x
    | .ok l => .ok { pm with edge := l }
  else if ft.tag == "TrackFeatures" then
    match foldO (processFeatureMetadata units) pm.lineage feats with
    | .exc x => .exc x
    | .ok l => .ok { pm with lineage := l }
  else .ok pm

/-- `_extract_props_metadata` on the copied `FeatureDeclarations` element (`none`: tag not found) -/
def extractPropsMetadata (fd : Option Tree) (units : List (String × String)) (seg : Bool) : Outcome PropsMd :=
  match fd with
  | none => .exc "KeyError"                              -- tags_data["FeatureDeclarations"]
  | some fd =>
    match foldO (propsStep units) {} fd.kids with
    | .exc x => .exc x
    | .ok pm =>
      if seg then
        match pm.node.find? (fun kv => kv.1 == "POSITION_X") with
        | none => .exc "KeyError"
        | some px =>
          let put (l : List (String × PropMd)) (k : String) (v : PropMd) : List (String × PropMd) :=
            if l.any (fun kv => kv.1 == k) then l.map (fun kv => if kv.1 == k then (k, v) else kv) else l ++ [(k, v)]
          let n1 := put pm.node "ROI_N_POINTS" { name := "ROI number of points", dtype := "int", unit := none }
          let n2 := put n1 "ROI_coords"
            { name := "ROI coordinates", dtype := "float", unit := some (px.2.unit.getD "pixel"), varlength := true }
          .ok { pm with node := n2 }
      else .ok pm

end Geff.TrackMate.Xml
