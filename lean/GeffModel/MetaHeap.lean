/-! # Object identities of the metadata a writer receives (property C18, write side)

Python objects are heap cells; an address is an object identity.  A `GeffMetadata` object refers
to its `axes` list object (or `None`) and to its two property dictionaries; the list refers to its
`Axis` objects.  (A dictionary is one cell together with its `PropMetadata` entries: no code path
shares entries between dictionaries.)  Modelled line by line, `geff_spec/utils.py` and
`core_io/_base_write.py`:

* `copy.deepcopy(metadata)`            — `deepcopyMeta`: fresh copies of everything reachable;
* `metadata.model_copy()`              — a fresh `GeffMetadata` cell with the *same* field references;
* `add_or_update_props_metadata`       — deep copy, then in-place update of the copied dictionary;
* `compute_and_add_axis_min_max`       — shallow copy of the metadata, a copy of every axis that
                                          receives `min`/`max` (repaired, fixes/C18-02; before, the
                                          assignments went to the Axis objects shared with the
                                          argument: `computeAndAddAxisMinMaxPreFix`), new list,
                                          rebinding `new_meta.axes`;
* `write_arrays` (metadata part)       — the three calls in the order of the source.

Cells of the wrong kind where an object is dereferenced cannot occur in Python; the model then does
nothing (documented fallbacks, they do not take part in any well-typed run).  Core Lean only. -/
namespace Geff.MetaHeap

abbrev Addr := Nat

structure PropMd where
  identifier : String
  dtype : String
  varlength : Bool
  unit : Option String
deriving DecidableEq, Repr, Inhabited

inductive Obj where
  | axis (name : String) (min max : Option String)   -- min/max: opaque float tokens
  | axesList (items : List Addr)
  | propsDict (items : List (String × PropMd))
  | geffMeta (axes : Option Addr) (nodeProps edgeProps : Addr) (directed : Bool)
deriving DecidableEq, Repr, Inhabited

abbrev Heap := List Obj

/-- a new object; its identity is the next free address -/
def alloc (h : Heap) (o : Obj) : Heap × Addr := (h ++ [o], h.length)

/-- deep copy of the `Axis` objects of a list -/
def copyAxisObjs (h : Heap) : List Addr → Heap × List Addr
  | [] => (h, [])
  | a :: t =>
    match h[a]? with
    | some (.axis nm mn mx) =>
      let (h1, a') := alloc h (.axis nm mn mx)
      let (h2, t') := copyAxisObjs h1 t
      (h2, a' :: t')
    | _ => copyAxisObjs h t

def deepcopyAxes (h : Heap) : Option Addr → Heap × Option Addr
  | none => (h, none)
  | some l =>
    match h[l]? with
    | some (.axesList items) =>
      let (h1, items') := copyAxisObjs h items
      let (h2, l') := alloc h1 (.axesList items')
      (h2, some l')
    | _ => (h, none)

def deepcopyDict (h : Heap) (d : Addr) : Heap × Addr :=
  match h[d]? with
  | some (.propsDict items) => alloc h (.propsDict items)
  | _ => alloc h (.propsDict [])

/-- `copy.deepcopy(metadata)` -/
def deepcopyMeta (h : Heap) (m : Addr) : Heap × Addr :=
  match h[m]? with
  | some (.geffMeta axes np ep dir) =>
    let (h1, axes') := deepcopyAxes h axes
    let (h2, np') := deepcopyDict h1 np
    let (h3, ep') := deepcopyDict h2 ep
    alloc h3 (.geffMeta axes' np' ep' dir)
  | _ => (h, m)

/-- the dictionary after the loop of `add_or_update_props_metadata`: an existing entry keeps its
other fields and takes `dtype`/`varlength`; new entries are appended in order -/
def updateDict (items : List (String × PropMd)) : List PropMd → List (String × PropMd)
  | [] => items
  | p :: t =>
    if items.any (·.1 == p.identifier) then
      updateDict (items.map fun kv =>
        if kv.1 == p.identifier then (kv.1, { kv.2 with dtype := p.dtype, varlength := p.varlength }) else kv) t
    else updateDict (items ++ [(p.identifier, p)]) t

/-- `add_or_update_props_metadata(metadata, props_md, c_type)` -/
def addOrUpdatePropsMetadata (h : Heap) (m : Addr) (propsMd : List PropMd) (node : Bool) :
    Heap × Addr :=
  let (h1, m1) := deepcopyMeta h m
  match h1[m1]? with
  | some (.geffMeta _ np ep _) =>
    let d := if node then np else ep
    match h1[d]? with
    | some (.propsDict items) => (h1.set d (.propsDict (updateDict items propsMd)), m1)
    | _ => (h1, m1)
  | _ => (h1, m1)

/-- what `node_props[axis.name]` offers -/
inductive AxisData where
  | absent                       -- `axis.name not in node_props`: ValueError
  | empty                        -- `len(values) == 0`: the axis is kept as it is
  | range (lo hi : String)       -- np.min / np.max of the unmasked values (opaque tokens)
deriving DecidableEq, Repr

/-- the loop of `compute_and_add_axis_min_max` (repaired): every axis that receives a min/max is
first copied (`axis = axis.model_copy()`), the assignments go to the copy; returns the objects of
`new_axes`, `none` = raised -/
def setAxesMinMax (h : Heap) (data : String → AxisData) : List Addr → Heap × Option (List Addr)
  | [] => (h, some [])
  | a :: t =>
    match h[a]? with
    | some (.axis nm mn mx) =>
      match data nm with
      | .absent => (h, none)
      | .empty =>                                              -- new_axes.append(axis); continue
        let (h', r) := setAxesMinMax h data t
        (h', r.map (a :: ·))
      | .range lo hi =>
        let (h1, a') := alloc h (.axis nm mn mx)               -- axis = axis.model_copy()
        let h2 := h1.set a' (.axis nm (some lo) (some hi))     -- axis.min = …; axis.max = …
        let (h', r) := setAxesMinMax h2 data t
        (h', r.map (a' :: ·))
    | _ => setAxesMinMax h data t

/-- `compute_and_add_axis_min_max(metadata, node_props)` (repaired); `none` = ValueError -/
def computeAndAddAxisMinMax (h : Heap) (m : Addr) (data : String → AxisData) : Heap × Option Addr :=
  match h[m]? with
  | some (.geffMeta axes np ep dir) =>
    let (h1, m') := alloc h (.geffMeta axes np ep dir)        -- new_meta = metadata.model_copy()
    match axes with
    | none => (h1, some m')
    | some l =>
      match h1[l]? with
      | some (.axesList items) =>
        match setAxesMinMax h1 data items with
        | (h2, none) => (h2, none)
        | (h2, some items') =>
          let (h3, l') := alloc h2 (.axesList items')         -- new_axes
          (h3.set m' (.geffMeta (some l') np ep dir), some m')   -- new_meta.axes = new_axes
      | _ => (h1, some m')
  | _ => (h, none)

/-- the loop **before the repair** (fixes/C18-02): `axis.min = …; axis.max = …` directly on the
Axis objects the shallow copy shares with its argument -/
def setAxesMinMaxInPlace (h : Heap) (data : String → AxisData) : List Addr → Heap × Bool
  | [] => (h, true)
  | a :: t =>
    match h[a]? with
    | some (.axis nm _ _) =>
      match data nm with
      | .absent => (h, false)
      | .empty => setAxesMinMaxInPlace h data t
      | .range lo hi => setAxesMinMaxInPlace (h.set a (.axis nm (some lo) (some hi))) data t
    | _ => setAxesMinMaxInPlace h data t

/-- `compute_and_add_axis_min_max` before the repair (kept for the regression theorem) -/
def computeAndAddAxisMinMaxPreFix (h : Heap) (m : Addr) (data : String → AxisData) :
    Heap × Option Addr :=
  match h[m]? with
  | some (.geffMeta axes np ep dir) =>
    let (h1, m') := alloc h (.geffMeta axes np ep dir)
    match axes with
    | none => (h1, some m')
    | some l =>
      match h1[l]? with
      | some (.axesList items) =>
        match setAxesMinMaxInPlace h1 data items with
        | (h2, false) => (h2, none)
        | (h2, true) =>
          let (h3, l') := alloc h2 (.axesList items)
          (h3.set m' (.geffMeta (some l') np ep dir), some m')
      | _ => (h1, some m')
  | _ => (h, none)

/-- the metadata part of `write_arrays`: returns the heap and the object that is written to the
store (`none`: `compute_and_add_axis_min_max` raised) -/
def writeArraysMeta (h : Heap) (m : Addr) (nodeMd edgeMd : List PropMd) (haveNodeProps : Bool)
    (data : String → AxisData) : Heap × Option Addr :=
  let (h1, m1) := addOrUpdatePropsMetadata h m nodeMd true
  let (h2, m2) := addOrUpdatePropsMetadata h1 m1 edgeMd false
  if haveNodeProps then computeAndAddAxisMinMax h2 m2 data else (h2, some m2)

/-- the names of the axes of a metadata object (`[ax.name for ax in metadata.axes]`) -/
def axisNames (h : Heap) (m : Addr) : List String :=
  match h[m]? with
  | some (.geffMeta (some l) _ _ _) =>
    match h[l]? with
    | some (.axesList items) => items.filterMap fun a =>
        match h[a]? with
        | some (Obj.axis nm _ _) => (some nm : Option String)
        | _ => none
    | _ => []
  | _ => []

/-- `write_arrays` with its first loop ("Create empty arrays for axis properties in an empty
geff"): for an empty graph every axis whose name is not a key of the caller's `node_props` *dict*
gets a float64 placeholder array there (an edit of that dict, which the property allows).  The loop
only **reads** `metadata.axes` / `ax.name`: the heap is passed on unchanged.  The placeholders then
take part in the rest like any other property: they get a metadata entry and count as empty axis
data. -/
def writeArraysFull (h : Heap) (m : Addr) (nodeMd edgeMd : List PropMd)
    (haveNodeProps emptyGraph : Bool) (data : String → AxisData) : Heap × Option Addr :=
  let ph : List String :=
    if emptyGraph && haveNodeProps then
      (axisNames h m).filter fun nm => !(nodeMd.any (·.identifier == nm))
    else []
  let nodeMd' := nodeMd ++ ph.map fun nm => (⟨nm, "float64", false, none⟩ : PropMd)
  let data' : String → AxisData := fun nm => if ph.contains nm then .empty else data nm
  writeArraysMeta h m nodeMd' edgeMd haveNodeProps data'

/-! ## The metadata route of the backend writers (`geff.write`) -/

/-- name, min, max of an `Axis` that is constructed anew -/
abbrev AxisSpec := String × Option String × Option String

/-- new `Axis` objects -/
def allocAxes (h : Heap) : List AxisSpec → Heap × List Addr
  | [] => (h, [])
  | (nm, mn, mx) :: t =>
    let (h1, a) := alloc h (.axis nm mn mx)
    let (h2, r) := allocAxes h1 t
    (h2, a :: r)

/-- `metadata.axes = axes` on the object `m`, `axes` being freshly constructed `Axis` objects in a
new list -/
def setAxes (h : Heap) (m : Addr) (axes : List AxisSpec) : Heap :=
  match h[m]? with
  | some (.geffMeta _ np ep dir) =>
    let (h1, items) := allocAxes h axes
    let (h2, l) := alloc h1 (.axesList items)
    h2.set m (.geffMeta (some l) np ep dir)
  | _ => h

/-- `metadata.geff_version = GEFF_VERSION; metadata.directed = is_directed` on the object `m`
(the version string is not part of the cell: both are plain in-place assignments) -/
def setDirected (h : Heap) (m : Addr) (d : Bool) : Heap :=
  match h[m]? with
  | some (.geffMeta ax np ep _) => h.set m (.geffMeta ax np ep d)
  | _ => h

/-- `create_or_update_metadata(metadata, is_directed, axes)`: a caller's object is **deep-copied
first**, every assignment goes to the copy; without one a new object is built -/
def createOrUpdateMetadata (h : Heap) (m : Option Addr) (isDirected : Bool)
    (axes : Option (List AxisSpec)) : Heap × Addr :=
  match m with
  | none =>
    let (h1, np) := alloc h (.propsDict [])
    let (h2, ep) := alloc h1 (.propsDict [])
    let (h3, m') := alloc h2 (.geffMeta none np ep isDirected)
    match axes with
    | none => (h3, m')
    | some ax => (setAxes h3 m' ax, m')
  | some m =>
    match h[m]? with
    | some (.geffMeta _ _ _ _) =>
      let (h1, m1) := deepcopyMeta h m                 -- metadata = copy.deepcopy(metadata)
      let h2 := setDirected h1 m1 isDirected           -- metadata.geff_version = …; metadata.directed = …
      match axes with
      | none => (h2, m1)
      | some ax => (setAxes h2 m1 ax, m1)              -- metadata.axes = axes
    | _ => (h, m)

/-- `update_metadata_axes(metadata, axis_names, …)`: shallow `model_copy()`, then
`new_meta.axes = axes_from_lists(…)` on the copy -/
def updateMetadataAxes (h : Heap) (m : Addr) (axes : List AxisSpec) : Heap × Addr :=
  match h[m]? with
  | some (.geffMeta a np ep d) =>
    let (h1, m') := alloc h (.geffMeta a np ep d)
    (setAxes h1 m' axes, m')
  | _ => (h, m)

/-- the metadata route of `NxBackend.write` / `RxBackend.write` / `SgBackend.write`:
`create_or_update_metadata` (spatial-graph passes its axes here), optionally
`update_metadata_axes` (the `axis_names=` override), then `write_dicts` → `write_arrays` -/
def backendWriteMeta (h : Heap) (m : Option Addr) (isDirected : Bool)
    (createAxes override : Option (List AxisSpec)) (nodeMd edgeMd : List PropMd)
    (haveNodeProps emptyGraph : Bool) (data : String → AxisData) : Heap × Option Addr :=
  let (h1, m1) := createOrUpdateMetadata h m isDirected createAxes
  let (h2, m2) := match override with
    | none => (h1, m1)
    | some ax => updateMetadataAxes h1 m1 ax
  writeArraysFull h2 m2 nodeMd edgeMd haveNodeProps emptyGraph data

end Geff.MetaHeap
