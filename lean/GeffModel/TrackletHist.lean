import GeffModel.TrackletData
/-! Histories of validator calls on the same ARRAY OBJECTS (C13, history dimension).

The caller of `geff.validate.tracks.validate_tracklets`, `validate_lineages` and
`geff.validate.data.validate_data` owns numpy arrays; between two calls it may edit them IN PLACE
(`edge_ids[i] = (u, v)`, `node_ids[i] = x`, `np.copyto(arr, other)`) and hand the very same objects
to the next call.  The model keeps the arrays in a heap addressed by position (= object identity:
two calls naming the same address pass the same object, two addresses may hold equal contents) and
runs a list of operations; a call reads the CURRENT contents of the addressed arrays and — as the
code does on the tree this model mirrors — neither changes the heap nor leaves anything behind for
later calls: `tracks.py` and `data.py` have no module-level state.  The correspondence harness
(`run_array_histories`) replays whole histories on real array objects and compares the trace. -/
namespace Geff.Tracklet

/-- the caller's arrays: 1-D integer arrays (node ids, tracklet ids, lineage ids) and (m, 2) edge arrays -/
structure Heap where
  ints : List (List Int)
  pairs : List (List (Int × Int))
  deriving DecidableEq, Repr

/-- what `memory_geff["node_props"]` holds for an id property: the ADDRESS of the values array and the mask -/
structure PropRef where
  values : Nat
  missing : Option (List Bool)
  deriving DecidableEq, Repr

inductive HOp where
  /-- `ints[a][i] = x` (the harness only generates indices in range; out of range numpy raises in the CALLER) -/
  | setInt (a i : Nat) (x : Int)
  /-- `pairs[a][i] = e` -/
  | setPair (a i : Nat) (e : Int × Int)
  /-- `np.copyto(ints[a], xs)` -/
  | loadInt (a : Nat) (xs : List Int)
  /-- `np.copyto(pairs[a], es)` -/
  | loadPair (a : Nat) (es : List (Int × Int))
  /-- `validate_tracklets(ints[n], pairs[e], ints[l])` -/
  | callTracklets (n e l : Nat)
  /-- `validate_lineages(ints[n], pairs[e], ints[l])` -/
  | callLineages (n e l : Nat)
  /-- `validate_data(g, cfg)` for an in-memory geff built from `ints[n]`, `pairs[e]` and the id properties `props` -/
  | callData (n e : Nat) (cfg : TrackCfg) (tnp : Option (List (String × String))) (props : List (String × PropRef))
  deriving DecidableEq, Repr

inductive HRes where
  | tracklets (o : ArraysOutcome)
  | lineages (valid : Bool) (errors : List String)
  | data (o : DataOutcome)
  /-- an address that is not in the heap (never generated) -/
  | badRef
  deriving DecidableEq, Repr

def isCall : HOp → Bool
  | .callTracklets .. | .callLineages .. | .callData .. => true
  | _ => false

/-- the in-place edits; calls leave the heap as it is -/
def stepHeap (h : Heap) : HOp → Heap
  | .setInt a i x => { h with ints := h.ints.modify a (·.set i x) }
  | .setPair a i e => { h with pairs := h.pairs.modify a (·.set i e) }
  | .loadInt a xs => { h with ints := h.ints.set a xs }
  | .loadPair a es => { h with pairs := h.pairs.set a es }
  | _ => h

def resolveProps (h : Heap) : List (String × PropRef) → Option (List (String × IdProp))
  | [] => some []
  | (k, r) :: rest =>
    match h.ints[r.values]?, resolveProps h rest with
    | some v, some ps => some ((k, { values := v, missing := r.missing }) :: ps)
    | _, _ => none

/-- what a call returns on the heap as it is NOW -/
def callResult (h : Heap) : HOp → Option HRes
  | .callTracklets n e l =>
    match h.ints[n]?, h.pairs[e]?, h.ints[l]? with
    | some nodes, some edges, some labels => some (.tracklets (validateTrackletsArrays nodes labels edges))
    | _, _, _ => some .badRef
  | .callLineages n e l =>
    match h.ints[n]?, h.pairs[e]?, h.ints[l]? with
    | some nodes, some edges, some labels =>
      let r := Geff.Lineage.validateLineagesArrays nodes labels edges
      some (.lineages r.1 r.2)
    | _, _, _ => some .badRef
  | .callData n e cfg tnp props =>
    match h.ints[n]?, h.pairs[e]?, resolveProps h props with
    | some nodes, some edges, some ps => some (.data (validateDataTracks cfg tnp ps nodes edges))
    | _, _, _ => some .badRef
  | _ => none

/-- the heap after a list of operations -/
def heapAfter (h : Heap) : List HOp → Heap
  | [] => h
  | op :: ops => heapAfter (stepHeap h op) ops

/-- the trace of results of the calls of a history, in order -/
def runHist (h : Heap) : List HOp → List HRes
  | [] => []
  | op :: ops =>
    match callResult h op with
    | some r => r :: runHist (stepHeap h op) ops
    | none => runHist (stepHeap h op) ops

end Geff.Tracklet
