import GeffModel.Graph
/-! Model of `geff.validate.tracks.validate_lineages` (C14).

Input: the node list zipped with its lineage labels (`zip(nodes, lineages)`), and the edge list.
The implementation builds a DiGraph from the edges, adds the nodes, computes the weakly connected
components and reports every label (dict insertion order = first occurrence) whose node set is
not one of the components. -/
namespace Geff.Lineage
open Geff.Graph
variable {α L : Type} [DecidableEq α] [DecidableEq L]

/-- vertex set networkx builds: node list plus every edge endpoint -/
def verts (nl : List (α × L)) (es : List (α × α)) : List α :=
  nl.map (·.1) ++ es.flatMap (fun e => [e.1, e.2])

def nodesWith (nl : List (α × L)) (l : L) : List α := (nl.filter (fun p => p.2 = l)).map (·.1)

/-- label `l`'s node set is one of the weakly connected components -/
def labelOk (nl : List (α × L)) (es : List (α × α)) (l : L) : Bool :=
  (verts nl es).any (fun r => sameSet (nodesWith nl l) (component es (verts nl es) r))

/-- the labels named in the error list, in reporting order -/
def lineageErrors (nl : List (α × L)) (es : List (α × α)) : List L :=
  (dedup (nl.map (·.2))).filter (fun l => !labelOk nl es l)

/-- first component of the result of `validate_lineages` -/
def validateLineages (nl : List (α × L)) (es : List (α × α)) : Bool :=
  (lineageErrors nl es).isEmpty

end Geff.Lineage
