import GeffModel.MetaWrite
/-! # Run-time library for the source-translated metadata helpers (`harness/translators/t14_pydo_meta_utils.py`)

Translator T14 turns the six helpers of `geff_spec/utils.py` (`axes_from_lists`,
`update_metadata_axes`, `create_or_update_metadata`, `add_or_update_props_metadata`,
`create_props_metadata`, `compute_and_add_axis_min_max`) statement by statement into Lean
`do`-blocks in the monad `Geff.MetaW.Res = Except Err` (`Gen/MetaUtils.lean`).  Everything the
generated code calls is defined here: one small total function per Python / numpy / pydantic
primitive that occurs in those functions, with Python's exceptions as explicit outcomes.  The
metadata types are the ones of the hand-written C10 model (`GeffModel/MetaWrite.lean`): coordinates
in an abstract ordered type `κ`, float pass-through fields as opaque tokens.

What the primitives assume about the libraries (tied by the C10 correspondence, which runs the
hand-written model — proved equal to the generated code in `GeffProofs/MetaUtilsGen.lean` — against
the implementation on every run):
* pydantic: `Axis(…)`, `PropMetadata(…)`, `GeffMetadata(…)` validate (a `ValidationError` is a
  `ValueError`); assignment to a field of `GeffMetadata` validates (`validate_assignment=True`),
  assignment to a field of `Axis` / `PropMetadata` does not (the three flags are re-read from the
  class bodies by the translator on every run);
* `copy.deepcopy` / `model_copy()` are the identity on the immutable values of the model — whether
  the copy really is independent of the caller's object (aliasing) is the subject of C18, not of C10;
* numpy: `np.min(values).item()` / `np.max` of an empty selection RAISES `ValueError`;
  `values[mask]` with a Boolean mask of another length raises `IndexError`; `len`, `.dtype`,
  `.astype(float32)` (exact for float16 values), `np.issubdtype(d, np.float16 | np.object_)` (leaf
  classes: equality of dtypes).
Core Lean only. -/
namespace Geff.PyDoMeta
open Geff.Np Geff.MetaW

variable {κ : Type} {α β : Type}

def raiseValueError : Res α := .error .valueError
def raiseTypeError : Res α := .error .typeError
def raiseIndexError : Res α := .error (.other "IndexError")
def raiseKeyError : Res α := .error (.other "KeyError")

/-- `copy.deepcopy(x)`: values are immutable here (aliasing is C18's subject) -/
def deepcopy (x : α) : α := x
/-- `x.model_copy()` -/
def modelCopy (x : α) : α := x

/-- the value of a local that is bound only on some paths (`match` without a default case):
`UnboundLocalError` when no assignment was executed -/
def bound (x : Option α) : Res α :=
  match x with
  | some a => .ok a
  | none => .error (.other "UnboundLocalError")

/-! ## `Sequence[…] | None` -/

/-- `len(l)`; `len(None)` is a `TypeError` -/
def lenOpt (l : Option (List α)) : Res Nat :=
  match l with
  | some x => .ok x.length
  | none => .error .typeError

/-- `l[i]`; `None[i]` is a `TypeError`, a short list an `IndexError` -/
def getItemOpt (l : Option (List α)) (i : Nat) : Res α :=
  match l with
  | none => .error .typeError
  | some x =>
    match x[i]? with
    | some v => .ok v
    | none => .error (.other "IndexError")

/-- `for x in l`; iterating `None` is a `TypeError` -/
def iterOpt (l : Option (List α)) : Res (List α) :=
  match l with
  | some x => .ok x
  | none => .error .typeError

/-! ## dicts (insertion-ordered association lists with unique keys) -/

/-- `k in d` -/
def dictContains (d : List (String × β)) (k : String) : Bool := hasKey k d
/-- `d[k]` -/
def dictGetItem (d : List (String × β)) (k : String) : Res β :=
  match lookup k d with
  | some v => .ok v
  | none => .error (.other "KeyError")
/-- `d[k] = v` -/
def dictSetItem (d : List (String × β)) (k : String) (v : β) : List (String × β) := insert d k v
/-- `d[k].field = …` (an in-place edit of the object stored under `k`) -/
def dictModify (d : List (String × β)) (k : String) (f : β → β) : Res (List (String × β)) :=
  if hasKey k d then .ok (d.map (fun q => if q.1 = k then (q.1, f q.2) else q))
  else .error (.other "KeyError")
/-- `d.update(new)`: existing keys keep their position, new keys are appended in order -/
def dictUpdate (d new : List (String × PropMeta)) : List (String × PropMeta) := updateDict d new

/-! ## views: a local that aliases a dict-valued attribute of the metadata object

`existing_props = metadata.node_props_metadata` does not copy: every later edit through
`existing_props` is an edit of `metadata`.  The translator keeps such a local as the *name of the
attribute* (`PropsRef`), reads through `get` and writes back through `set`. -/

inductive PropsRef where
  | node
  | edge
deriving DecidableEq, Repr

def PropsRef.get (r : PropsRef) (m : Meta κ) : List (String × PropMeta) :=
  match r with
  | .node => m.nodeProps
  | .edge => m.edgeProps

def PropsRef.set (r : PropsRef) (m : Meta κ) (d : List (String × PropMeta)) : Meta κ :=
  match r with
  | .node => { m with nodeProps := d }
  | .edge => { m with edgeProps := d }

/-! ## pydantic constructors and validated assignment -/

section
variable [LT κ] [DecidableLT κ]

/-- `Axis(name=…, type=…, unit=…, min=…, max=…, scale=…, scaled_unit=…, offset=…)`: the field check of
`type` and `Axis._validate_model` (`axisValid`); a failure is a `ValidationError` (a `ValueError`) -/
def newAxis (name : String) (type unit : Option String) (min max : Option κ)
    (scale scaledUnit offset : Option String) : Res (Axis κ) :=
  if axisValid ({ name := name, type := type, unit := unit, min := min, max := max, scale := scale,
                  scaledUnit := scaledUnit, offset := offset } : Axis κ)
  then .ok { name := name, type := type, unit := unit, min := min, max := max, scale := scale,
             scaledUnit := scaledUnit, offset := offset }
  else .error .valueError

/-- `_validate_key_identifier_equality` -/
def keysMatch (d : List (String × PropMeta)) : Bool := d.all (fun q => q.1 = q.2.identifier)

/-- `GeffMetadata(geff_version=…, directed=…, axes=…, node_props_metadata=…, edge_props_metadata=…)`
(every other field at its default): the `mode="after"` validator -/
def newGeffMetadata (geffVersion : String) (directed : Bool) (axes : Option (List (Axis κ)))
    (nodeProps edgeProps : List (String × PropMeta)) : Res (Meta κ) :=
  if axesAssignable ([] : List String) axes && keysMatch nodeProps && keysMatch edgeProps then
    .ok { geffVersion := geffVersion, directed := directed, axes := axes, nodeProps := nodeProps,
          edgeProps := edgeProps, hintNames := [], rest := "" }
  else .error .valueError

/-- `metadata.axes = axes` (`validate_assignment=True`) -/
def Meta.setAxes (m : Meta κ) (axes : Option (List (Axis κ))) : Res (Meta κ) := assignAxes m axes
end

/-- `metadata.geff_version = GEFF_VERSION` (the constant matches the version pattern) -/
def Meta.setGeffVersion (m : Meta κ) (v : String) : Res (Meta κ) := .ok { m with geffVersion := v }
/-- `metadata.directed = b` -/
def Meta.setDirected (m : Meta κ) (b : Bool) : Res (Meta κ) := .ok { m with directed := b }

/-- attribute assignment on a variable of type `GeffMetadata | None`: `None.x = …` is an
`AttributeError` -/
def onObj (o : Option α) (f : α → Res α) : Res (Option α) :=
  match o with
  | none => .error (.other "AttributeError")
  | some a => (f a).map some

/-- `PropMetadata(identifier=…, dtype=…, varlength=…, unit=…, name=…, description=…)`:
`MinLen(1)` on the identifier, `_convert_dtype` (numpy's name, every unicode width `str`, must be in
`VALID_DTYPES`) -/
def newPropMetadata (identifier : String) (dtype : Dtype) (varlength : Bool)
    (unit name description : Option String) : Res PropMeta :=
  if identifier = "" then .error .valueError
  else if Gen.ValidValues.dtypes.contains dtype.name then
    .ok { identifier := identifier, dtype := dtype.name, varlength := varlength, unit := unit,
          name := name, description := description }
  else .error .valueError

/-! ## property data (`PropDictNpArray`) and numpy -/

/-- `isinstance(prop_data, dict)`: the model's property data is a dict by type -/
def isDict (_p : PropData κ) : Bool := true

/-- one element of an object array, as far as the metadata functions look at it: (dtype, ndim) -/
abbrev Elem := Dtype × Nat
/-- `array.dtype` -/
def elemDtype (e : Elem) : Dtype := e.1

/-- `values.dtype` -/
def Values.dtype : Values κ → Dtype
  | .dense dt _ _ => dt
  | .object _ => .obj

/-- `np.issubdtype(d, c)` for a leaf class `c` (`np.float16`, `np.object_`) -/
def issubdtype (d c : Dtype) : Bool := d == c

/-- `values.astype(d)` (reached for float16 → float32 only: exact) -/
def Values.astype (v : Values κ) (d : Dtype) : Res (Values κ) :=
  match v with
  | .dense _ tr rows => .ok (.dense d tr rows)
  | .object _ => .error (.unmodelled "astype of an object array")

/-- `values[i]` of an object array -/
def Values.getItem (v : Values κ) (i : Nat) : Res Elem :=
  match v with
  | .object es =>
    (match es[i]? with
     | some e => .ok e
     | none => .error (.other "IndexError"))
  | .dense _ _ _ => .error (.unmodelled "object array reported as dense")

/-- `for array in values` over an object array -/
def Values.iter (v : Values κ) : Res (List Elem) :=
  match v with
  | .object es => .ok es
  | .dense _ _ _ => .error (.unmodelled "object array reported as dense")

/-- `np.logical_not(missing)`; `np.logical_not(None)` is a `TypeError` -/
def logicalNot (m : Option (List Bool)) : Res (List Bool) :=
  match m with
  | some l => .ok (l.map (fun b => !b))
  | none => .error .typeError

/-- `values[mask]` with a Boolean mask over the first axis; a mask of another length is an
`IndexError` -/
def Values.maskIndex (v : Values κ) (mask : List Bool) : Res (Values κ) :=
  match v with
  | .dense dt tr rows =>
    if mask.length = rows.length then .ok (.dense dt tr (((rows.zip mask).filter (fun p => p.2)).map (·.1)))
    else .error (.other "IndexError")
  | .object es =>
    if mask.length = es.length then .ok (.object (((es.zip mask).filter (fun p => p.2)).map (·.1)))
    else .error (.other "IndexError")

/-- `np.min(values).item()`: numpy RAISES `ValueError` on an empty selection ("zero-size array to
reduction operation minimum which has no identity") -/
def npMinItem [Min κ] (v : Values κ) : Res κ :=
  match v with
  | .dense _ _ rows =>
    (match rows.flatten.min? with
     | some x => .ok x
     | none => .error .valueError)
  | .object _ => .error (.unmodelled "min of an object array")

/-- `np.max(values).item()` -/
def npMaxItem [Max κ] (v : Values κ) : Res κ :=
  match v with
  | .dense _ _ rows =>
    (match rows.flatten.max? with
     | some x => .ok x
     | none => .error .valueError)
  | .object _ => .error (.unmodelled "min of an object array")

end Geff.PyDoMeta
