/-! Python integer / list primitives used by the code that translator T9
(`harness/translators/t9_mock_edges.py`) generates into `lean/Gen/MockEdges.lean`.  Core Lean only.

Python `int` is unbounded, so every integer is an `Int` (never a truncated `Nat`).

* `range a b`            — `range(a, b)` (`range(b)` is `range 0 b`): empty when `b ≤ a`.
* `floordiv a b`, `mod a b` — `a // b`, `a % b` (floor semantics, sign of the divisor).  They are
  only ever *called* behind a generated `if b = 0 then <raise ZeroDivisionError> else …` guard, or with
  a literal non-zero divisor; for a literal **positive** divisor the translator emits Lean's `/` and
  `%` on `Int` directly (`floordiv_pos` / `mod_pos` below show that this is the same function), so
  that `omega` can reason about them.
* `setAdd s x`           — `s.add(x)` on a set kept as a duplicate-free list (so `len` is faithful).
-/
namespace Geff.Py

def range (a b : Int) : List Int := (List.range (b - a).toNat).map (fun (k : Nat) => a + (k : Int))

def floordiv (a b : Int) : Int := Int.fdiv a b
def mod (a b : Int) : Int := Int.fmod a b

theorem floordiv_pos (a b : Int) (hb : 0 < b) : floordiv a b = a / b :=
  Int.fdiv_eq_ediv_of_nonneg a (Int.le_of_lt hb)

theorem mod_pos (a b : Int) (hb : 0 < b) : mod a b = a % b :=
  Int.fmod_eq_emod_of_nonneg a (Int.le_of_lt hb)

def setAdd (s : List (Int × Int)) (x : Int × Int) : List (Int × Int) :=
  if s.contains x then s else s ++ [x]

end Geff.Py
