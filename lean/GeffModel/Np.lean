/-! Scalars, dtypes and n-d arrays as the models see them (core Lean only).

* `Dtype` — the numpy dtypes geff can meet; `name` is numpy's `.name` with every unicode width
  collapsed to `str` (what `PropMetadata._convert_dtype` stores in the metadata).
* `Val` — a scalar.  Integers are mathematical (`Int`), the dtype range is the explicit predicate
  `inRange`.  A float is an opaque token: its IEEE-754 bit pattern as 16 hex digits; the models
  never compute on floats, they only move them and compare tokens for equality (so NaN payloads
  and -0.0 are distinguished exactly as bit-equality does).
* `NdArr` — dtype, shape, C-order flat contents; `WF` says `flat.length = prod shape`.
-/
namespace Geff.Np

inductive Dtype where
  | bool | i8 | i16 | i32 | i64 | u8 | u16 | u32 | u64 | f16 | f32 | f64 | str | bytes | obj | other
deriving DecidableEq, Repr, Inhabited

namespace Dtype
def all : List Dtype := [bool, i8, i16, i32, i64, u8, u16, u32, u64, f16, f32, f64, str, bytes, obj, other]

def name : Dtype → String
  | bool => "bool" | i8 => "int8" | i16 => "int16" | i32 => "int32" | i64 => "int64"
  | u8 => "uint8" | u16 => "uint16" | u32 => "uint32" | u64 => "uint64"
  | f16 => "float16" | f32 => "float32" | f64 => "float64"
  | str => "str" | bytes => "bytes" | obj => "object" | other => "other"

def ofName? (s : String) : Option Dtype := all.find? (fun d => d.name = s)

def isSigned : Dtype → Bool | i8 | i16 | i32 | i64 => true | _ => false
def isUnsigned : Dtype → Bool | u8 | u16 | u32 | u64 => true | _ => false
def isInteger (d : Dtype) : Bool := d.isSigned || d.isUnsigned
def isFloat : Dtype → Bool | f16 | f32 | f64 => true | _ => false
def bits : Dtype → Nat
  | bool => 8 | i8 | u8 => 8 | i16 | u16 | f16 => 16 | i32 | u32 | f32 => 32 | i64 | u64 | f64 => 64
  | _ => 0
end Dtype

inductive Val where
  | b (v : Bool)
  | i (v : Int)
  | f (bitsHex : String)
  | s (v : String)
deriving DecidableEq, Repr, Inhabited

/-- the integer fits the dtype -/
def inRange (d : Dtype) (v : Int) : Bool :=
  if d.isSigned then decide (-(2 ^ (d.bits - 1) : Int) ≤ v ∧ v < 2 ^ (d.bits - 1))
  else if d.isUnsigned then decide (0 ≤ v ∧ v < 2 ^ d.bits)
  else false

/-- np.prod(shape); `prod [] = 1` (rank 0) -/
def prod (sh : List Nat) : Nat := sh.foldl (· * ·) 1

structure NdArr where
  dtype : Dtype
  shape : List Nat
  flat : List Val
deriving DecidableEq, Repr, Inhabited

def NdArr.WF (a : NdArr) : Prop := a.flat.length = prod a.shape
instance (a : NdArr) : Decidable a.WF := by unfold NdArr.WF; infer_instance
def NdArr.ndim (a : NdArr) : Nat := a.shape.length
/-- `a.shape[0]`; `none` for a rank-0 array (Python raises IndexError) -/
def NdArr.len? (a : NdArr) : Option Nat := a.shape.head?

theorem Dtype.ofName_name (d : Dtype) : Dtype.ofName? d.name = some d := by
  cases d <;> decide

end Geff.Np
