import GeffModel.MetaJson
import Gen.ValidValues
import Gen.Schema
/-! Executable model of the geff metadata objects (`geff_spec/_schema.py`, `_axis.py`,
`_prop_metadata.py`, `utils.py`) — core Lean only.

* structures `Axis`, `PropMeta`, `RelatedObject`, `DisplayHint`, `Meta` mirror the pydantic models
  field for field (tied to the class bodies by the `Gen.Schema` obligations in `GeffProps/C07`);
* `setField` is pydantic's per-field validator (the same function is used by construction/parsing and
  by `validate_assignment`), `validateModelAfter` the `mode="after"` model validator;
* `parse` = `GeffMetadata(**doc)` / `model_validate(doc)`; `assign` = `obj.field = value`
  (outcome **and** the object afterwards); `copy`; the helpers of `utils.py`;
* `dump` = `model_dump(mode="json")`; `ofDump` is a non-validating decoder of a dump (used to
  evaluate the specification on the implementation's observed output).

Python exceptions are explicit: `Err.validation` = `pydantic.ValidationError`, `Err.value` =
`ValueError`, `Err.index` = `IndexError`.  Inputs are JSON documents (`J`) whose scalars have the
declared JSON types; pydantic's lax coercions (`"yes"` → `True`, `"1.5"` → `1.5`) are outside the
model (and outside the claim).  Three library behaviours are parameters (`Env`): regular-expression
search (`re`), numpy's dtype-name normalisation, and the installed package version. -/
namespace Geff.Meta

inductive Err where
  | validation
  | value
  | index
deriving DecidableEq, Repr, Inhabited

instance {ε α : Type} [DecidableEq ε] [DecidableEq α] : DecidableEq (Except ε α) := fun a b =>
  match a, b with
  | .ok x, .ok y => if h : x = y then isTrue (by rw [h]) else isFalse (fun e => h (by injection e))
  | .error x, .error y => if h : x = y then isTrue (by rw [h]) else isFalse (fun e => h (by injection e))
  | .ok _, .error _ => isFalse (fun e => by cases e)
  | .error _, .ok _ => isFalse (fun e => by cases e)

def Err.name : Err → String
  | .validation => "ValidationError"
  | .value => "ValueError"
  | .index => "IndexError"

structure Env where
  /-- `re.search(pattern, s) is not None` -/
  pat : String → String → Bool
  /-- `np.dtype(s).name`, every unicode width collapsed to `"str"`; `none` = numpy raises TypeError -/
  npName : String → Option String
  /-- `GEFF_VERSION` (first two components of the installed geff_spec version) -/
  defaultVersion : String
  /-- code variant: `axes_from_lists` compares `len(axis_offset)` with `len(axis_names)` (`true`, the
  repair of D17 owned by C10) or with itself (`false`, the pinned tree).  No theorem depends on it. -/
  offsetLenChecked : Bool := false

def Env.versionOk (env : Env) (s : String) : Bool := env.pat Gen.Schema.VERSION_PATTERN s

structure Axis where
  name : String
  type : Option String := none
  unit : Option String := none
  min : Option F := none
  max : Option F := none
  scale : Option F := none
  scaled_unit : Option String := none
  offset : Option F := none
deriving DecidableEq, Repr, Inhabited

structure PropMeta where
  identifier : String
  dtype : String
  varlength : Bool := false
  unit : Option String := none
  name : Option String := none
  description : Option String := none
deriving DecidableEq, Repr, Inhabited

structure RelatedObject where
  type : String
  path : String
  label_prop : Option String := none
deriving DecidableEq, Repr, Inhabited

structure DisplayHint where
  display_horizontal : String
  display_vertical : String
  display_depth : Option String := none
  display_time : Option String := none
deriving DecidableEq, Repr, Inhabited

structure Meta where
  geff_version : String
  directed : Bool
  axes : Option (List Axis) := none
  node_props_metadata : List (String × PropMeta)
  edge_props_metadata : List (String × PropMeta)
  sphere : Option String := none
  ellipsoid : Option String := none
  track_node_props : Option (List (String × String)) := none
  related_objects : Option (List RelatedObject) := none
  display_hints : Option DisplayHint := none
  extra : List (String × J) := []
deriving DecidableEq, Repr, Inhabited

/-- a metadata *object*: field values plus pydantic's `model_fields_set` (kept in declaration order) -/
structure MetaObj where
  val : Meta
  fieldsSet : List String
deriving DecidableEq, Repr, Inhabited

/-- the declared top-level fields, in declaration order -/
inductive Field where
  | geff_version | directed | axes | node_props_metadata | edge_props_metadata | sphere | ellipsoid
  | track_node_props | related_objects | display_hints | extra
deriving DecidableEq, Repr, Inhabited

def Field.all : List Field :=
  [.geff_version, .directed, .axes, .node_props_metadata, .edge_props_metadata, .sphere, .ellipsoid,
   .track_node_props, .related_objects, .display_hints, .extra]

def Field.name : Field → String
  | .geff_version => "geff_version" | .directed => "directed" | .axes => "axes"
  | .node_props_metadata => "node_props_metadata" | .edge_props_metadata => "edge_props_metadata"
  | .sphere => "sphere" | .ellipsoid => "ellipsoid" | .track_node_props => "track_node_props"
  | .related_objects => "related_objects" | .display_hints => "display_hints" | .extra => "extra"

def Field.ofName? (s : String) : Option Field := Field.all.find? (fun f => f.name = s)

def fieldNames : List String := Field.all.map Field.name

def requiredFields : List String := ["directed", "node_props_metadata", "edge_props_metadata"]

def trackKeys : List String := ["lineage", "tracklet"]

/-! ## scalar decoders (declared JSON types only) -/

def getStr : J → Except Err String
  | .str s => .ok s
  | _ => .error .validation

def getBool : J → Except Err Bool
  | .bool b => .ok b
  | _ => .error .validation

/-- `str | None` with default `None` -/
def getOptStr : Option J → Except Err (Option String)
  | none => .ok none
  | some .null => .ok none
  | some (.str s) => .ok (some s)
  | some _ => .error .validation

/-- `float | None` with default `None`; a JSON integer becomes the float of the same value -/
def getOptNum : Option J → Except Err (Option F)
  | none => .ok none
  | some .null => .ok none
  | some (.int i) => .ok (some (.fin i 0))
  | some (.flt f) => .ok (some f)
  | some _ => .error .validation

def getReqStr (kvs : List (String × J)) (k : String) : Except Err String :=
  match lookup kvs k with
  | some v => getStr v
  | none => .error .validation

/-- `if not c: raise ValidationError` -/
def guardE (c : Bool) : Except Err Unit := if c then .ok () else .error .validation

/-- `[f(x) for x in xs]` where `f` may raise: the first error wins -/
def mapE {α β : Type} (f : α → Except Err β) : List α → Except Err (List β)
  | [] => .ok []
  | x :: xs =>
    match f x with
    | .error e => .error e
    | .ok y =>
      match mapE f xs with
      | .error e => .error e
      | .ok ys => .ok (y :: ys)

def mapO {α β : Type} (f : α → Option β) : List α → Option (List β)
  | [] => some []
  | x :: xs =>
    match f x, mapO f xs with
    | some y, some ys => some (y :: ys)
    | _, _ => none

/-- Python truthiness of `str | None` -/
def truthy : Option String → Bool
  | some s => s ≠ ""
  | none => false

/-! ## Axis -/

/-- the three tests of `Axis._validate_model` (the unit warnings do not raise and are not modelled):
exactly one of min/max given; `min > max`; a (truthy) scaled unit without a scale -/
def Axis.modelBad (a : Axis) : Bool :=
  (a.min.isNone != a.max.isNone) ||
  (match a.min, a.max with
   | some lo, some hi => F.gt lo hi
   | _, _ => false) ||
  (truthy a.scaled_unit && a.scale.isNone)

/-- `Axis._validate_model` -/
def Axis.validateModel (a : Axis) : Except Err Axis :=
  if a.modelBad then .error .validation else .ok a

/-- `AxisType | None`: a string must be one of the `Literal` members -/
def axisTypeOk : Option String → Bool
  | some t => decide (t ∈ Gen.ValidValues.axisTypes)
  | none => true

def parseAxis : J → Except Err Axis
  | .obj kvs => do
    let name ← getReqStr kvs "name"
    let type ← getOptStr (lookup kvs "type")
    guardE (axisTypeOk type)
    let unit ← getOptStr (lookup kvs "unit")
    let min ← getOptNum (lookup kvs "min")
    let max ← getOptNum (lookup kvs "max")
    let scale ← getOptNum (lookup kvs "scale")
    let scaled_unit ← getOptStr (lookup kvs "scaled_unit")
    let offset ← getOptNum (lookup kvs "offset")
    Axis.validateModel { name, type, unit, min, max, scale, scaled_unit, offset }
  | _ => .error .validation

/-! ## PropMetadata -/

/-- `PropMetadata._convert_dtype` (`mode="before"`) followed by `MinLen(1)` -/
def convertDtype (env : Env) (raw : J) : Except Err String :=
  match raw with
  | .str s =>
    match env.npName s with
    | none => .error .validation          -- numpy TypeError → ValueError
    | some name =>
      if name ∈ Gen.ValidValues.dtypes ∧ name.length ≥ 1 then .ok name else .error .validation
  | _ => .error .validation               -- None, numbers, …: ValueError / TypeError → ValueError

def getReqDtype (env : Env) (kvs : List (String × J)) : Except Err String :=
  match lookup kvs "dtype" with
  | some v => convertDtype env v
  | none => .error .validation

/-- `bool` with a default -/
def getBoolOr (v : Option J) (dflt : Bool) : Except Err Bool :=
  match v with
  | some v => getBool v
  | none => .ok dflt

def parseProp (env : Env) : J → Except Err PropMeta
  | .obj kvs => do
    let identifier ← getReqStr kvs "identifier"
    guardE (decide (identifier.length ≥ 1))
    let dtype ← getReqDtype env kvs
    let varlength ← getBoolOr (lookup kvs "varlength") false
    let unit ← getOptStr (lookup kvs "unit")
    let name ← getOptStr (lookup kvs "name")
    let description ← getOptStr (lookup kvs "description")
    return { identifier, dtype, varlength, unit, name, description }
  | _ => .error .validation

/-! ## RelatedObject, DisplayHint -/

/-- `RelatedObject._validate_model` (the unknown-type warning does not raise) -/
def RelatedObject.validateModel (r : RelatedObject) : Except Err RelatedObject :=
  if r.type ≠ "labels" && r.label_prop.isSome then .error .validation else .ok r

def parseRelated : J → Except Err RelatedObject
  | .obj kvs => do
    let type ← getReqStr kvs "type"
    let path ← getReqStr kvs "path"
    let label_prop ← getOptStr (lookup kvs "label_prop")
    RelatedObject.validateModel { type, path, label_prop }
  | _ => .error .validation

def parseHint : J → Except Err DisplayHint
  | .obj kvs => do
    let display_horizontal ← getReqStr kvs "display_horizontal"
    let display_vertical ← getReqStr kvs "display_vertical"
    let display_depth ← getOptStr (lookup kvs "display_depth")
    let display_time ← getOptStr (lookup kvs "display_time")
    return { display_horizontal, display_vertical, display_depth, display_time }
  | _ => .error .validation

/-! ## GeffMetadata: field validators -/

def parsePropsDict (env : Env) : J → Except Err (List (String × PropMeta))
  | .obj kvs => mapE (fun kv => (parseProp env kv.2).map (fun p => (kv.1, p))) kvs
  | _ => .error .validation

def parseTrackProps : J → Except Err (Option (List (String × String)))
  | .null => .ok none
  | .obj kvs => do
    let l ← mapE (fun kv => if kv.1 ∈ trackKeys then (getStr kv.2).map (fun s => (kv.1, s)) else .error .validation) kvs
    return some l
  | _ => .error .validation

/-- `geff_version: str = Field(pattern=VERSION_PATTERN)` -/
def parseVersion (env : Env) (v : J) : Except Err String := do
  let s ← getStr v
  guardE (env.versionOk s)
  return s

/-- `list[Axis] | None` -/
def parseAxesField : J → Except Err (Option (List Axis))
  | .null => .ok none
  | .arr xs => (mapE parseAxis xs).map some
  | _ => .error .validation

/-- `list[RelatedObject] | None` -/
def parseRelatedField : J → Except Err (Option (List RelatedObject))
  | .null => .ok none
  | .arr xs => (mapE parseRelated xs).map some
  | _ => .error .validation

/-- `DisplayHint | None` -/
def parseHintField : J → Except Err (Option DisplayHint)
  | .null => .ok none
  | j => (parseHint j).map some

/-- `dict[str, Any]` -/
def parseExtraField : J → Except Err (List (String × J))
  | .obj kvs => .ok kvs
  | _ => .error .validation

/-- The validator of one declared field, storing the validated value.  It is what
`GeffMetadata(**doc)` runs per provided key and what `validate_assignment` runs for `obj.f = v`. -/
def setFieldT (env : Env) (m : Meta) : Field → J → Except Err Meta
  | .geff_version, v => (parseVersion env v).map (fun s => { m with geff_version := s })
  | .directed, v => (getBool v).map (fun b => { m with directed := b })
  | .axes, v => (parseAxesField v).map (fun l => { m with axes := l })
  | .node_props_metadata, v => (parsePropsDict env v).map (fun d => { m with node_props_metadata := d })
  | .edge_props_metadata, v => (parsePropsDict env v).map (fun d => { m with edge_props_metadata := d })
  | .sphere, v => (getOptStr (some v)).map (fun s => { m with sphere := s })
  | .ellipsoid, v => (getOptStr (some v)).map (fun s => { m with ellipsoid := s })
  | .track_node_props, v => (parseTrackProps v).map (fun t => { m with track_node_props := t })
  | .related_objects, v => (parseRelatedField v).map (fun l => { m with related_objects := l })
  | .display_hints, v => (parseHintField v).map (fun h => { m with display_hints := h })
  | .extra, v => (parseExtraField v).map (fun e => { m with extra := e })

/-- by name; an unknown name is `no_such_attribute` on assignment (construction never asks for one) -/
def setField (env : Env) (m : Meta) (f : String) (v : J) : Except Err Meta :=
  match Field.ofName? f with
  | some t => setFieldT env m t v
  | none => .error .validation

/-! ## GeffMetadata: the `mode="after"` model validator -/

def axisNames (axes : List Axis) : List String := axes.map (·.name)

/-- `_validate_key_identifier_equality` -/
def keysMatch (d : List (String × PropMeta)) : Bool := d.all (fun kv => kv.1 = kv.2.identifier)

def hintOk (names : List String) (h : DisplayHint) : Bool :=
  names.contains h.display_horizontal && names.contains h.display_vertical &&
  (match h.display_time with
   | some t => names.contains t
   | none => true) &&
  (match h.display_depth with
   | some d => names.contains d
   | none => true)

/-- `len(names) != len(set(names))` is `false` -/
def nodupB : List String → Bool
  | [] => true
  | x :: xs => !xs.contains x && nodupB xs

/-- `GeffMetadata._validate_model_after`: `true` = passes -/
def modelAfterOk (m : Meta) : Bool :=
  (match m.axes with
   | some l => nodupB (axisNames l)
   | none => true) &&
  (match m.axes, m.display_hints with
   | some l, some h => hintOk (axisNames l) h
   | _, _ => true) &&
  keysMatch m.node_props_metadata && keysMatch m.edge_props_metadata

def validateModelAfter (m : Meta) : Except Err Meta :=
  if modelAfterOk m then .ok m else .error .validation

/-! ## construction / parsing -/

/-- field values before any key is looked at: defaults for the optional fields (pydantic does not
validate defaults), placeholders for the three required ones (always overwritten or an error) -/
def blank (env : Env) : Meta :=
  { geff_version := env.defaultVersion, directed := false, node_props_metadata := [], edge_props_metadata := [] }

def validateFieldsAux (env : Env) (kvs : List (String × J)) : List String → Meta → Except Err Meta
  | [], m => .ok m
  | f :: fs, m =>
    match lookup kvs f with
    | some v => do
      let m' ← setField env m f v
      validateFieldsAux env kvs fs m'
    | none => if f ∈ requiredFields then .error .validation else validateFieldsAux env kvs fs m

def providedFields (kvs : List (String × J)) : List String :=
  fieldNames.filter (fun f => (lookup kvs f).isSome)

/-- `GeffMetadata(**doc)` = `GeffMetadata.model_validate(doc)` (unknown keys are ignored) -/
def parse (env : Env) : J → Except Err MetaObj
  | .obj kvs => do
    let m ← validateFieldsAux env kvs fieldNames (blank env)
    let m ← validateModelAfter m
    return { val := m, fieldsSet := providedFields kvs }
  | _ => .error .validation

/-! ## assignment, copy -/

/-- `obj.f = v` with `validate_assignment=True` and the roll-back of `GeffMetadata.__setattr__`:
the outcome and the object afterwards.  (Without the roll-back a failure of the model validator
left `o'` behind — defect D3.) -/
def assign (env : Env) (o : MetaObj) (f : String) (v : J) : Option Err × MetaObj :=
  match setField env o.val f v with
  | .error e => (some e, o)
  | .ok m' =>
    if modelAfterOk m' then
      (none, { val := m', fieldsSet := fieldNames.filter (fun g => o.fieldsSet.contains g || g == f) })
    else (some .validation, o)

/-- `model_copy()` / `copy.deepcopy`: values are immutable here, so a copy is the same value -/
def copy (o : MetaObj) : MetaObj := o

/-! ## the helpers of `geff_spec/utils.py` -/

/-- `seq[i] if seq is not None else None`; `IndexError` when the list is too short -/
def pick {α : Type} (l : Option (List (Option α))) (i : Nat) : Except Err (Option α) :=
  match l with
  | none => .ok none
  | some xs => match xs[i]? with
    | some x => .ok x
    | none => .error .index

/-- `Axis(name=…, type=…, …)` from already typed arguments: field check of `type`, then the model validator -/
def mkAxis (a : Axis) : Except Err Axis := do
  guardE (axisTypeOk a.type)
  a.validateModel

def axesLoop (names : List String) (units types scaledUnits : Option (List (Option String)))
    (scales offset roiMin roiMax : Option (List (Option F))) : Nat → List String → Except Err (List Axis)
  | _, [] => .ok []
  | i, n :: rest => do
    let type ← pick types i
    let unit ← pick units i
    let scale ← pick scales i
    let scaled_unit ← pick scaledUnits i
    let off ← pick offset i
    let min ← pick roiMin i
    let max ← pick roiMax i
    let a ← mkAxis { name := n, type, unit, min, max, scale, scaled_unit, offset := off }
    let tl ← axesLoop names units types scaledUnits scales offset roiMin roiMax (i + 1) rest
    return a :: tl

def lenMismatch {α : Type} (l : Option (List α)) (n : Nat) : Bool :=
  match l with
  | some xs => xs.length != n
  | none => false

/-- `axes_from_lists` -/
def axesFromLists (env : Env) (names : Option (List String))
    (units types : Option (List (Option String))) (scales : Option (List (Option F)))
    (scaledUnits : Option (List (Option String))) (offset roiMin roiMax : Option (List (Option F))) :
    Except Err (List Axis) :=
  match names with
  | none => .ok []
  | some ns =>
    if lenMismatch units ns.length then .error .value
    else if lenMismatch types ns.length then .error .value
    else if lenMismatch scales ns.length then .error .value
    else if lenMismatch scaledUnits ns.length then .error .value
    else if env.offsetLenChecked && lenMismatch offset ns.length then .error .value
    else axesLoop ns units types scaledUnits scales offset roiMin roiMax 0 ns

/-- `new_meta.axes = axes` where `axes` is a list of already validated `Axis` instances
(instances are not re-validated): only the model validator can fail -/
def assignAxes (o : MetaObj) (axes : List Axis) : Except Err MetaObj :=
  let m' := { o.val with axes := some axes }
  if modelAfterOk m' then
    .ok { val := m', fieldsSet := fieldNames.filter (fun g => o.fieldsSet.contains g || g == "axes") }
  else .error .validation

/-- `update_metadata_axes`: returns a new object; the argument is never modified -/
def updateMetadataAxes (env : Env) (o : MetaObj) (names : List String)
    (units types : Option (List (Option String))) (scales : Option (List (Option F)))
    (scaledUnits : Option (List (Option String))) (offset : Option (List (Option F))) :
    Except Err MetaObj := do
  let axes ← axesFromLists env (some names) units types scales scaledUnits offset none none
  assignAxes (copy o) axes

/-- what `compute_and_add_axis_min_max` sees of one node-property column (the harness reduces the value
column; the models never compute on floats): the column has no entries (`len(values) == 0`); every entry
is flagged missing (numpy's reduction over the empty selection raises `ValueError`); or `lo` / `hi` are
`np.min` / `np.max` of the entries **not** flagged missing.  A column the dict does not hold at all is
simply not listed. -/
inductive MinMaxCol where
  | noValues
  | allMissing
  | bounds (lo hi : F)
deriving DecidableEq, Repr, Inhabited

/-- both numbers come from one non-empty selection, so numpy guarantees "not `lo > hi`" (NaN propagates
to both).  This is the operation's well-formedness precondition, supplied and checked by the harness. -/
def MinMaxCol.WF : MinMaxCol → Prop
  | .bounds lo hi => (!F.gt lo hi) = true
  | _ => True

instance (c : MinMaxCol) : Decidable c.WF := by cases c <;> unfold MinMaxCol.WF <;> infer_instance

/-- the loop of `compute_and_add_axis_min_max`: an axis whose column is absent → `ValueError`; an empty
column → the axis as it is; otherwise a *copy* of the axis carrying min/max (assigned without validation:
`Axis` does not validate on assignment) -/
def minMaxLoop (cols : List (String × MinMaxCol)) : List Axis → Except Err (List Axis)
  | [] => .ok []
  | a :: rest =>
    match lookup cols a.name with
    | none => .error .value
    | some .allMissing => .error .value
    | some .noValues =>
      match minMaxLoop cols rest with
      | .error e => .error e
      | .ok tl => .ok (a :: tl)
    | some (.bounds lo hi) =>
      match minMaxLoop cols rest with
      | .error e => .error e
      | .ok tl => .ok ({ a with min := some lo, max := some hi } :: tl)

/-- `compute_and_add_axis_min_max(metadata, node_props)`: returns a new object; the argument is never
modified (the axes are copied before they are edited) -/
def computeAndAddAxisMinMax (o : MetaObj) (cols : List (String × MinMaxCol)) : Except Err MetaObj :=
  match o.val.axes with
  | none => .ok (copy o)
  | some l =>
    match minMaxLoop cols l with
    | .error e => .error e
    | .ok l' => assignAxes (copy o) l'

def unwrapAssign (r : Option Err × MetaObj) : Except Err MetaObj :=
  match r.1 with
  | some e => .error e
  | none => .ok r.2

/-- `create_or_update_metadata(metadata, is_directed, axes)`; `axes` is any JSON-like value -/
def createOrUpdateMetadata (env : Env) (o : Option MetaObj) (directed : Bool) (axes : Option J) :
    Except Err MetaObj :=
  match o with
  | some o => do
    let o1 ← unwrapAssign (assign env (copy o) "geff_version" (.str env.defaultVersion))
    let o2 ← unwrapAssign (assign env o1 "directed" (.bool directed))
    match axes with
    | some a => unwrapAssign (assign env o2 "axes" a)
    | none => .ok o2
  | none =>
    parse env (.obj [("geff_version", .str env.defaultVersion), ("directed", .bool directed),
                     ("axes", axes.getD .null), ("node_props_metadata", .obj []),
                     ("edge_props_metadata", .obj [])])

/-- the loop of `add_or_update_props_metadata`: entries already present get `dtype` and `varlength`
overwritten in place (no validation: `PropMetadata` does not validate on assignment), new ones are
collected in `md_dict` (a later entry with the same identifier replaces the earlier one) -/
def addPropsLoop : List PropMeta → List (String × PropMeta) → List (String × PropMeta) →
    List (String × PropMeta) × List (String × PropMeta)
  | [], existing, mdDict => (existing, mdDict)
  | p :: ps, existing, mdDict =>
    match lookup existing p.identifier with
    | some old =>
      addPropsLoop ps (setKey existing p.identifier { old with dtype := p.dtype, varlength := p.varlength }) mdDict
    | none => addPropsLoop ps existing (setKey mdDict p.identifier p)

/-- `existing_props.update(md_dict)` -/
def dictUpdate (existing mdDict : List (String × PropMeta)) : List (String × PropMeta) :=
  mdDict.foldl (fun acc kv => setKey acc kv.1 kv.2) existing

/-- `add_or_update_props_metadata` (`@validate_call`: every element of `props_md` is validated into a
`PropMetadata`, `c_type` must be `"node"` or `"edge"`); works on a deep copy -/
def addOrUpdatePropsMetadata (env : Env) (o : MetaObj) (props : List J) (cType : String) :
    Except Err MetaObj := do
  let ps ← mapE (parseProp env) props
  if cType = "node" then
    let (ex, md) := addPropsLoop ps o.val.node_props_metadata []
    return { o with val := { o.val with node_props_metadata := dictUpdate ex md } }
  else if cType = "edge" then
    let (ex, md) := addPropsLoop ps o.val.edge_props_metadata []
    return { o with val := { o.val with edge_props_metadata := dictUpdate ex md } }
  else throw .validation

/-! ## serialisation: `model_dump(mode="json")` -/

def optStrJ : Option String → J
  | none => .null
  | some s => .str s

def optNumJ : Option F → J
  | none => .null
  | some f => .flt f

def dumpAxis (a : Axis) : J :=
  .obj [("name", .str a.name), ("type", optStrJ a.type), ("unit", optStrJ a.unit), ("min", optNumJ a.min),
        ("max", optNumJ a.max), ("scale", optNumJ a.scale), ("scaled_unit", optStrJ a.scaled_unit),
        ("offset", optNumJ a.offset)]

def dumpProp (p : PropMeta) : J :=
  .obj [("identifier", .str p.identifier), ("dtype", .str p.dtype), ("varlength", .bool p.varlength),
        ("unit", optStrJ p.unit), ("name", optStrJ p.name), ("description", optStrJ p.description)]

def dumpRelated (r : RelatedObject) : J :=
  .obj [("type", .str r.type), ("path", .str r.path), ("label_prop", optStrJ r.label_prop)]

def dumpHint (h : DisplayHint) : J :=
  .obj [("display_horizontal", .str h.display_horizontal), ("display_vertical", .str h.display_vertical),
        ("display_depth", optStrJ h.display_depth), ("display_time", optStrJ h.display_time)]

def dumpPropsDict (d : List (String × PropMeta)) : J := .obj (d.map (fun kv => (kv.1, dumpProp kv.2)))

def dumpAxesOpt : Option (List Axis) → J
  | none => .null
  | some l => .arr (l.map dumpAxis)

def dumpTrackOpt : Option (List (String × String)) → J
  | none => .null
  | some l => .obj (l.map (fun kv => (kv.1, .str kv.2)))

def dumpRelatedOpt : Option (List RelatedObject) → J
  | none => .null
  | some l => .arr (l.map dumpRelated)

def dumpHintOpt : Option DisplayHint → J
  | none => .null
  | some h => dumpHint h

def dumpFields (m : Meta) : List (String × J) :=
  [("geff_version", .str m.geff_version),
   ("directed", .bool m.directed),
   ("axes", dumpAxesOpt m.axes),
   ("node_props_metadata", dumpPropsDict m.node_props_metadata),
   ("edge_props_metadata", dumpPropsDict m.edge_props_metadata),
   ("sphere", optStrJ m.sphere),
   ("ellipsoid", optStrJ m.ellipsoid),
   ("track_node_props", dumpTrackOpt m.track_node_props),
   ("related_objects", dumpRelatedOpt m.related_objects),
   ("display_hints", dumpHintOpt m.display_hints),
   ("extra", .obj m.extra)]

def dump (m : Meta) : J := .obj (dumpFields m)

/-! ## zarr attributes (an abstract attribute map; both zarr formats differ only in the file that
carries it) -/

abbrev Attrs := List (String × J)

/-- `GeffMetadata.write`: `group.attrs["geff"] = self.model_dump(mode="json")` -/
def writeAttrs (attrs : Attrs) (m : Meta) : Attrs := setKey attrs "geff" (dump m)

/-- `GeffMetadata.read`: no `geff` key / not a mapping → `ValueError`, else `model_validate` -/
def readAttrs (env : Env) (attrs : Attrs) : Except Err MetaObj :=
  match lookup attrs "geff" with
  | none => .error .value
  | some (.obj kvs) => parse env (.obj kvs)
  | some _ => .error .value

/-! ## a non-validating decoder of a dump (for evaluating the specification on observed output) -/

def ofDumpOptStr : Option J → Option (Option String)
  | some .null => some none
  | some (.str s) => some (some s)
  | _ => none

def ofDumpOptNum : Option J → Option (Option F)
  | some .null => some none
  | some (.flt f) => some (some f)
  | some (.int i) => some (some (.fin i 0))
  | _ => none

def ofDumpStr : Option J → Option String
  | some (.str s) => some s
  | _ => none

def ofDumpAxis : J → Option Axis
  | .obj kvs => do
    let name ← ofDumpStr (lookup kvs "name")
    let type ← ofDumpOptStr (lookup kvs "type")
    let unit ← ofDumpOptStr (lookup kvs "unit")
    let min ← ofDumpOptNum (lookup kvs "min")
    let max ← ofDumpOptNum (lookup kvs "max")
    let scale ← ofDumpOptNum (lookup kvs "scale")
    let scaled_unit ← ofDumpOptStr (lookup kvs "scaled_unit")
    let offset ← ofDumpOptNum (lookup kvs "offset")
    return { name, type, unit, min, max, scale, scaled_unit, offset }
  | _ => none

def ofDumpBool : Option J → Option Bool
  | some (.bool b) => some b
  | _ => none

def ofDumpProp : J → Option PropMeta
  | .obj kvs => do
    let identifier ← ofDumpStr (lookup kvs "identifier")
    let dtype ← ofDumpStr (lookup kvs "dtype")
    let varlength ← ofDumpBool (lookup kvs "varlength")
    let unit ← ofDumpOptStr (lookup kvs "unit")
    let name ← ofDumpOptStr (lookup kvs "name")
    let description ← ofDumpOptStr (lookup kvs "description")
    return { identifier, dtype, varlength, unit, name, description }
  | _ => none

def ofDumpRelated : J → Option RelatedObject
  | .obj kvs => do
    let type ← ofDumpStr (lookup kvs "type")
    let path ← ofDumpStr (lookup kvs "path")
    let label_prop ← ofDumpOptStr (lookup kvs "label_prop")
    return { type, path, label_prop }
  | _ => none

def ofDumpHint : J → Option DisplayHint
  | .obj kvs => do
    let display_horizontal ← ofDumpStr (lookup kvs "display_horizontal")
    let display_vertical ← ofDumpStr (lookup kvs "display_vertical")
    let display_depth ← ofDumpOptStr (lookup kvs "display_depth")
    let display_time ← ofDumpOptStr (lookup kvs "display_time")
    return { display_horizontal, display_vertical, display_depth, display_time }
  | _ => none

def ofDumpPropsDict : Option J → Option (List (String × PropMeta))
  | some (.obj kvs) => mapO (fun kv => (ofDumpProp kv.2).map (fun p => (kv.1, p))) kvs
  | _ => none

def ofDumpAxesOpt : Option J → Option (Option (List Axis))
  | some .null => some none
  | some (.arr xs) => (mapO ofDumpAxis xs).map some
  | _ => none

def ofDumpTrackOpt : Option J → Option (Option (List (String × String)))
  | some .null => some none
  | some (.obj l) => (mapO (fun (kv : String × J) => (ofDumpStr (some kv.2)).map (fun s => (kv.1, s))) l).map some
  | _ => none

def ofDumpRelatedOpt : Option J → Option (Option (List RelatedObject))
  | some .null => some none
  | some (.arr xs) => (mapO ofDumpRelated xs).map some
  | _ => none

def ofDumpHintOpt : Option J → Option (Option DisplayHint)
  | some .null => some none
  | some j => (ofDumpHint j).map some
  | none => none

def ofDumpExtra : Option J → Option (List (String × J))
  | some (.obj l) => some l
  | _ => none

def ofDump : J → Option Meta
  | .obj kvs => do
    let geff_version ← ofDumpStr (lookup kvs "geff_version")
    let directed ← ofDumpBool (lookup kvs "directed")
    let axes ← ofDumpAxesOpt (lookup kvs "axes")
    let node_props_metadata ← ofDumpPropsDict (lookup kvs "node_props_metadata")
    let edge_props_metadata ← ofDumpPropsDict (lookup kvs "edge_props_metadata")
    let sphere ← ofDumpOptStr (lookup kvs "sphere")
    let ellipsoid ← ofDumpOptStr (lookup kvs "ellipsoid")
    let track_node_props ← ofDumpTrackOpt (lookup kvs "track_node_props")
    let related_objects ← ofDumpRelatedOpt (lookup kvs "related_objects")
    let display_hints ← ofDumpHintOpt (lookup kvs "display_hints")
    let extra ← ofDumpExtra (lookup kvs "extra")
    return { geff_version, directed, axes, node_props_metadata, edge_props_metadata, sphere, ellipsoid,
             track_node_props, related_objects, display_hints, extra }
  | _ => none

end Geff.Meta
