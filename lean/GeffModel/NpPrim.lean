import GeffModel.ValidateData
/-! A small library of the numpy primitives used by `geff/validate/graph.py` and by
`validate_sphere` (`geff/validate/shapes.py`).  The translator T11
(`harness/translators/t11_validate_graph.py`) maps every expression of those function bodies to
one call of a primitive of this file; the result is `lean/Gen/ValidateGraph.lean`.

Representation: a 1-D integer array is a `List Int`, an `(E, 2)` integer array the `List (Int × Int)`
of its rows, a boolean array a `List Bool`, the count / index arrays returned by `np.unique`
(`intp`, never negative) a `List Nat`, a radius array an `NdArr Num`.

Every primitive does what numpy DOES, including its failures: a boolean mask of the wrong length
and an out-of-range index raise `IndexError`, element-wise operators on arrays whose lengths
neither agree nor are 1 raise `ValueError` (broadcasting), a column that does not exist raises
`IndexError`.  Those are explicit outcomes (`Py α = Except Exc α`), not totalised.

Each primitive is tied to numpy by its own correspondence stream (`harness/corr/_c12_gen.py`,
ops of `GeffModel/NpPrimProto.lean`). -/
namespace Geff.NpPrim
open Geff.Validate Geff.Graph

/-- the exceptions that the translated code can raise -/
inductive Exc where
  | valueError (msg : String)     -- `raise ValueError(msg)` in the source, or numpy's broadcast error
  | indexError                    -- raised by numpy indexing
deriving DecidableEq, Repr

/-- a Python computation: a value or an exception -/
abbrev Py := Except Exc

def Exc.toOutcome : Exc → Outcome
  | .valueError m => .valueError m
  | .indexError => .other "IndexError"

/-- outcome of a function that returns `None` -/
def outcome : Py Unit → Outcome
  | .ok _ => .ok
  | .error e => e.toOutcome

def broadcastMsg : String := "operands could not be broadcast together"

/-! ## comparison operators -/
inductive Cmp where
  | lt | le | gt | ge | eq | ne
deriving DecidableEq, Repr

def Cmp.eval : Cmp → Int → Int → Bool
  | .lt, a, b => decide (a < b)
  | .le, a, b => decide (a ≤ b)
  | .gt, a, b => decide (a > b)
  | .ge, a, b => decide (a ≥ b)
  | .eq, a, b => decide (a = b)
  | .ne, a, b => decide (a ≠ b)

/-- comparison of two Python / numpy integer scalars -/
def cmp (op : Cmp) (a b : Int) : Bool := op.eval a b

/-! ## conversions that do nothing on an array of the right kind -/
/-- `np.asarray(a)` on an array -/
def asarray {α : Type} (a : List α) : List α := a
/-- `np.asarray(m, dtype=bool)` on a boolean array -/
def asarrayBool (m : List Bool) : List Bool := m
/-- `np.ascontiguousarray(a)`: same values, C layout -/
def ascontiguousarray {α : Type} (a : List α) : List α := a
/-- `a.view([("", a.dtype)] * a.shape[1])` on a C-contiguous `(E, 2)` array: one structured scalar per
row (fields compared lexicographically by `np.unique`) -/
def rowView (e : List (Int × Int)) : List (Int × Int) := e
/-- `np.array([])` -/
def emptyArray {α : Type} : List α := []
/-- `len(a)` -/
def len {α : Type} (a : List α) : Int := (a.length : Int)

/-! ## `np.unique` -/
/-- `np.unique(a)`: the distinct values, ascending -/
def unique (a : List Int) : List Int := npUnique a
/-- `np.unique(a, return_counts=True)` -/
def uniqueCounts (a : List Int) : List Int × List Nat :=
  (npUnique a, (npUnique a).map fun x => a.count x)
/-- `np.unique(view, return_index=True, return_counts=True)` on the structured row view: the distinct
rows in lexicographic order, the index of the first occurrence of each, the number of occurrences -/
def uniqueRowsIndexCounts (e : List (Int × Int)) : List (Int × Int) × List Nat × List Nat :=
  (npUniqueRows e, (npUniqueRows e).map fun r => e.idxOf r, (npUniqueRows e).map fun r => e.count r)

/-! ## element-wise operations -/
/-- numpy broadcasting of a binary element-wise operation on two 1-D arrays -/
def broadcast2 {α β γ : Type} (f : α → β → γ) (a : List α) (b : List β) : Py (List γ) :=
  if a.length = b.length then .ok (List.zipWith f a b)
  else match a, b with
    | [x], _ => .ok (b.map (f x))
    | _, [y] => .ok (a.map fun x => f x y)
    | _, _ => .error (.valueError broadcastMsg)

/-- `a <op> b` on two integer arrays -/
def cmpArr (op : Cmp) (a b : List Int) : Py (List Bool) := broadcast2 op.eval a b
/-- `a <op> k` on an integer array and a Python integer -/
def cmpScalar (op : Cmp) (a : List Int) (k : Int) : List Bool := a.map fun x => op.eval x k
/-- `a <op> k` on a count / index array and a Python integer -/
def cmpScalarNat (op : Cmp) (a : List Nat) (k : Int) : List Bool := a.map fun (x : Nat) => op.eval (Int.ofNat x) k
/-- `~m` -/
def notMask (m : List Bool) : List Bool := m.map not
/-- `m1 & m2` -/
def andMask (a b : List Bool) : Py (List Bool) := broadcast2 and a b
/-- `m1 | m2` -/
def orMask (a b : List Bool) : Py (List Bool) := broadcast2 or a b
/-- `m1 ^ m2` -/
def xorMask (a b : List Bool) : Py (List Bool) := broadcast2 xor a b
/-- `np.isin(a, b)` -/
def isin (a b : List Int) : List Bool := a.map fun x => decide (x ∈ b)
/-- `any(m)` / `np.any(m)` -/
def any (m : List Bool) : Bool := m.any id
/-- `np.all(m)` -/
def all (m : List Bool) : Bool := m.all id

/-! ## indexing -/
/-- `a[m]` with a boolean array `m` (first axis).  numpy raises IndexError when the lengths differ —
except for an EMPTY boolean index, which selects nothing from an array of any length
(`np.array([1, 2, 3])[np.array([], dtype=bool)]` is `array([])`, numpy 2.5). -/
def maskIndex {α : Type} (a : List α) (m : List Bool) : Py (List α) :=
  if m.length = a.length ∨ m.length = 0 then
    .ok ((a.zip m).filterMap fun p => if p.2 then some p.1 else none)
  else .error .indexError
/-- `e[:, k]` on an `(E, 2)` array -/
def col (e : List (Int × Int)) (k : Nat) : Py (List Int) :=
  match k with
  | 0 => .ok (e.map (·.1))
  | 1 => .ok (e.map (·.2))
  | _ => .error .indexError
/-- `e[m, k]` -/
def maskCol (e : List (Int × Int)) (m : List Bool) (k : Nat) : Py (List Int) := do
  let r ← maskIndex e m
  col r k
/-- `a[idx]` with an index array (first axis) -/
def take {α : Type} (a : List α) (idx : List Nat) : Py (List α) :=
  idx.mapM fun i => match a[i]? with
    | some x => .ok x
    | none => .error .indexError

/-! ## arrays of unknown rank, float entries -/
/-- an array of which the code first inspects `.ndim`; `flat` holds the entries when `ndim = 1` -/
structure NdArr (α : Type) where
  ndim : Nat
  flat : List α
deriving Repr

/-- `a.ndim` -/
def ndim {α : Type} (a : NdArr α) : Int := (a.ndim : Int)
/-- the entries of an array known to be 1-D (used after a guard `a.ndim != 1: raise`) -/
def flat1 {α : Type} (a : NdArr α) : List α := a.flat

/-- exact comparison of the binary64 number with bit pattern `b` against the integer `k`:
`some (A, B)` such that `x ⋈ k ↔ A ⋈ B` for each of `< ≤ > ≥ = ≠`; `none` for a NaN (and for a `b`
that is not a 64-bit pattern). -/
def f64VsInt (b : Nat) (k : Int) : Option (Int × Int) :=
  if 2 ^ 64 ≤ b then none
  else
    let neg : Bool := decide (2 ^ 63 ≤ b)
    let e : Nat := b / 2 ^ 52 % 2048
    let f : Nat := b % 2 ^ 52
    if e = 2047 then
      (if f = 0 then some (if neg then -1 else 1, 0) else none)      -- ±inf, NaN
    else
      let m : Int := if e = 0 then (f : Int) else 2 ^ 52 + (f : Int)
      let sm : Int := if neg then -m else m
      let ex : Nat := if e = 0 then 1 else e                               -- x = sm · 2^(ex − 1075)
      if 1075 ≤ ex then some (sm * 2 ^ (ex - 1075), k) else some (sm, k * 2 ^ (1075 - ex))

/-- `x <op> k` for one radius entry and a Python integer.  numpy first converts `k` to the dtype of the array; the
comparison below is exact, i.e. it is numpy's for every `k` that the float dtype represents exactly (|k| ≤ 2^24 for
float32, ≤ 2^53 for float64 — the source's constant is `0`); integer entries are compared exactly by numpy 2 for
every Python integer. -/
def numCmp (op : Cmp) (k : Int) : Num → Bool
  | .int v => op.eval v k
  | .f64 b => match f64VsInt b k with
    | some (A, B) => op.eval A B
    | none => decide (op = .ne)
/-- `a <op> k` on a radius array -/
def cmpScalarNum (op : Cmp) (a : List Num) (k : Int) : List Bool := a.map (numCmp op k)

end Geff.NpPrim
