/-! # Key view of a store and the effect of zarr's open modes (property C18, read side)

A store seen from outside is its set of keys with their bytes plus, for a directory store, the
directories that exist.  A read-side run of geff is a sequence of store-level operations; each
operation is an *instance of a call site* of the source (`Gen.ReadSideCalls`, translator T5) and
carries the `mode=` recorded there:

* `openAt mode fmt path` — `zarr.open / open_group / open_array(store, path=…, mode=…)`;
* `via mode access`      — any use of a handle (group, array, attrs) obtained from an open with
                            `mode`: a read, or a write/delete *attempt*;
* `probe path`           — `Path.exists()`, directory listing, `in`, `keys()`.

zarr-python's semantics (modelled, exercised by `harness/corr/C18.py` on every small state × mode ×
format): `r`/`r+` never create; `a` (zarr's default) creates a group document — and the directory —
where there is no node; `w` clears the prefix first; `w-` creates only where there is nothing;
a handle opened with `r` refuses every write ("store was opened in read-only mode").

Core Lean only (linked into `drv_C18`). -/
namespace Geff.KV

abbrev Key := String
abbrev Blob := String

/-- outside view of a store -/
structure FS where
  keys : List (Key × Blob)
  dirs : List String
deriving DecidableEq, Repr, Inhabited

inductive Mode where
  | r | rplus | a | w | wminus
deriving DecidableEq, Repr

/-- the `mode=` string recorded by T5; an absent argument ("default") is zarr's default `a`; a
non-literal argument is treated as the most permissive mode -/
def Mode.ofString : String → Mode
  | "r" => .r
  | "r+" => .rplus
  | "a" => .a
  | "w" => .w
  | "w-" => .wminus
  | "default" => .a
  | _ => .w

/-- a node path as its components (`[]` = the root of the store) -/
abbrev NodePath := List String

def pathKey (path : NodePath) : String := String.intercalate "/" path
def docKey (path : NodePath) (name : String) : Key := String.intercalate "/" (path ++ [name])

def lookupKey (fs : FS) (k : Key) : Option Blob := (fs.keys.find? (·.1 == k)).map (·.2)
def hasKey (fs : FS) (k : Key) : Bool := (lookupKey fs k).isSome

inductive NodeKind where
  | group | array
deriving DecidableEq, Repr

/-- what zarr finds at `path` when looking for format `fmt` (2, 3, or 0 = not given: 3 then 2).
A v3 `zarr.json` holds both kinds; its bytes say which (`"<array>"` stands for an array document). -/
def nodeKind (fs : FS) (fmt : Nat) (path : NodePath) : Option NodeKind :=
  let v3 : Option NodeKind := (lookupKey fs (docKey path "zarr.json")).map
    fun b => if b == "<array>" then NodeKind.array else NodeKind.group
  let v2 : Option NodeKind :=
    if hasKey fs (docKey path ".zgroup") then some .group
    else if hasKey fs (docKey path ".zarray") then some .array else none
  if fmt = 3 then v3 else if fmt = 2 then v2 else v3.orElse fun _ => v2

def setKey (fs : FS) (k : Key) (v : Blob) : FS :=
  { fs with keys := if hasKey fs k then fs.keys.map (fun kv => if kv.1 == k then (k, v) else kv)
                    else fs.keys ++ [(k, v)] }

def deleteKey (fs : FS) (k : Key) : FS := { fs with keys := fs.keys.filter (·.1 != k) }

def underPrefix (path : NodePath) (k : Key) : Bool :=
  path.isEmpty || k.startsWith (pathKey path ++ "/")

/-- write the group document of format `fmt` at `path` unless a node is there (and make the
directory) -/
def ensureGroup (fs : FS) (fmt : Nat) (path : NodePath) : FS :=
  if (nodeKind fs fmt path).isSome then fs
  else
    let fs' := setKey fs (docKey path (if fmt = 2 then ".zgroup" else "zarr.json")) "<group>"
    { fs' with dirs := if fs'.dirs.contains (pathKey path) then fs'.dirs else fs'.dirs ++ [pathKey path] }

/-- all prefixes of a path, shortest first: `[] , [a], [a, b], …` -/
def inits : NodePath → List NodePath
  | [] => [[]]
  | a :: t => [] :: (inits t).map (a :: ·)

/-- create a group at `path` together with every missing ancestor group -/
def createGroup (fs : FS) (fmt : Nat) (path : NodePath) : FS :=
  (inits path).foldl (fun acc p => ensureGroup acc fmt p) fs

/-- an ancestor (proper prefix) of `path` is an array: nothing can be created below it -/
def underArray (fs : FS) (fmt : Nat) (path : NodePath) : Bool :=
  (inits path).dropLast.any fun p => nodeKind fs fmt p == some .array

/-- effect on the store of `zarr.open_group(store, path=path, mode=mode, zarr_format=fmt)`
(`fmt = 0`: no format given; new documents are then written in zarr's default format 3) -/
def openGroup (mode : Mode) (fmt : Nat) (path : NodePath) (fs : FS) : FS :=
  let wfmt := if fmt = 0 then 3 else fmt
  match mode with
  | .r | .rplus => fs
  | .a | .wminus =>
    if (nodeKind fs fmt path).isSome || underArray fs wfmt path then fs else createGroup fs wfmt path
  | .w =>
    if underArray fs wfmt path then fs
    else
      let cleared : FS := { fs with keys := fs.keys.filter fun kv =>
        !(underPrefix path kv.1 || kv.1 == docKey path ".zgroup" || kv.1 == docKey path ".zarray"
          || kv.1 == docKey path ".zattrs" || kv.1 == docKey path "zarr.json") }
      createGroup cleared wfmt path

inductive Access where
  | read
  | write (k : Key) (v : Blob)
  | delete (k : Key)
deriving DecidableEq, Repr

inductive Op where
  | openAt (mode : String) (fmt : Nat) (path : NodePath)
  | via (mode : String) (a : Access)
  | probe (path : String)
deriving DecidableEq, Repr

/-- the `mode=` an operation runs under (`none`: a pure probe) -/
def Op.mode? : Op → Option String
  | .openAt m _ _ => some m
  | .via m _ => some m
  | .probe _ => none

def step (fs : FS) : Op → FS
  | .openAt m fmt path => openGroup (Mode.ofString m) fmt path fs
  | .via m a =>
    match Mode.ofString m, a with
    | _, .read => fs
    | .r, _ => fs                      -- zarr raises: the store was opened read-only
    | _, .write k v => setKey fs k v
    | _, .delete k => deleteKey fs k
  | .probe _ => fs

def run (tr : List Op) (fs : FS) : FS := tr.foldl step fs

end Geff.KV
