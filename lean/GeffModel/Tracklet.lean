import GeffModel.Graph
import GeffModel.Lineage
/-! Model of `geff.validate.tracks.validate_tracklets` (C13), as repaired by
`fixes/C13-01-tracklet-junctions-and-single-nodes.patch`, and of the node selection
`geff.validate.data._nodes_with_id` that `validate_data` applies first
(`fixes/C12-03-missing-track-ids.patch`).

Input: the node list zipped with its tracklet ids (`zip(nodes, tracklets)`) and the edge list.
The implementation builds `G = nx.DiGraph(edges)` (parallel edges collapse, so degrees count
*distinct* neighbours), adds the nodes, and for every tracklet id `t` (dict insertion order =
first occurrence) looks at the induced subgraph `S = G.subgraph(nodes labelled t)`:

1. max in/out degree in `S` must be ≤ 1                         — "branch or merge detected"
2. every edge `(u, v)` of `S` has `G.out_degree(u) = 1 = G.in_degree(v)`   — same message (the repair)
3. `nx.is_directed_acyclic_graph(S)`                            — "Cycle detected"
4. `nx.is_weakly_connected(S)`                                  — "Not fully connected"
5. `start = next(n for n, d in S.in_degree if d == 0)`, `end = next(… out_degree …)`;
   if `start` has exactly one predecessor `p` in `G` and `G.out_degree(p) = 1`  — "extend backward to node p"
   if `end` has exactly one successor `s` in `G` and `G.in_degree(s) = 1`     — "extend forward to node s"

`next(…)` on an exhausted generator raises `StopIteration` and `is_weakly_connected` of the null
graph raises `NetworkXPointlessConcept`; both are kept as explicit verdicts (`exc`) and proved
unreachable in `GeffProps/C13.lean`. -/
namespace Geff.Tracklet
open Geff.Graph Geff.Lineage
variable {α L : Type} [DecidableEq α] [DecidableEq L]

/-- distinct successors / predecessors of a node in `nx.DiGraph(edges)` -/
def succs (es : List (α × α)) (u : α) : List α := dedup ((es.filter (fun e => e.1 = u)).map (·.2))
def preds (es : List (α × α)) (v : α) : List α := dedup ((es.filter (fun e => e.2 = v)).map (·.1))

/-- edge list of the induced subgraph `G.subgraph(C)` -/
def inner (es : List (α × α)) (C : List α) : List (α × α) := es.filter (fun e => e.1 ∈ C ∧ e.2 ∈ C)

/-- `nx.is_directed_acyclic_graph` (Kahn): repeatedly delete a vertex without incoming edge from
the remaining vertices; acyclic iff everything can be deleted.  Fuel = number of vertices. -/
def kahn (es : List (α × α)) : Nat → List α → Bool
  | 0, vs => vs.isEmpty
  | n + 1, vs =>
    match vs.find? (fun v => !(es.any (fun e => e.2 = v ∧ e.1 ∈ vs))) with
    | none => vs.isEmpty
    | some v => kahn es n (vs.filter (· ≠ v))

inductive Verdict (α : Type) where
  | ok
  | branchMerge
  | cycle
  | notConnected
  | extendBack (p : α)
  | extendFwd (s : α)
  | exc (name : String)
deriving DecidableEq, Repr

/-- maximality test at the two ends (step 5) -/
def checkEnds (es : List (α × α)) (s e : α) : Verdict α :=
  match preds es s with
  | [p] => if (succs es p).length = 1 then .extendBack p else
    match succs es e with
    | [n] => if (preds es n).length = 1 then .extendFwd n else .ok
    | _ => .ok
  | _ =>
    match succs es e with
    | [n] => if (preds es n).length = 1 then .extendFwd n else .ok
    | _ => .ok

/-- the body of the loop over tracklets for one tracklet id -/
def checkTracklet (nl : List (α × L)) (es : List (α × α)) (t : L) : Verdict α :=
  let C := nodesWith nl t
  let S := inner es C
  if C.any (fun v => 1 < (preds S v).length ∨ 1 < (succs S v).length) then .branchMerge
  else if S.any (fun e => (succs es e.1).length ≠ 1 ∨ (preds es e.2).length ≠ 1) then .branchMerge
  else if !kahn S C.length C then .cycle
  else match C with
    | [] => .exc "NetworkXPointlessConcept"
    | r :: _ =>
      if !C.all (· ∈ component S C r) then .notConnected
      else match C.find? (fun v => (preds S v).length = 0) with
        | none => .exc "StopIteration"
        | some s => match C.find? (fun v => (succs S v).length = 0) with
          | none => .exc "StopIteration"
          | some e => checkEnds es s e

/-- (tracklet id, verdict) for every tracklet id that produces an error message, in order -/
def trackletErrors (nl : List (α × L)) (es : List (α × α)) : List (L × Verdict α) :=
  (dedup (nl.map (·.2))).filterMap fun t =>
    match checkTracklet nl es t with
    | .ok => none
    | v => some (t, v)

/-- first component of the result of `validate_tracklets` -/
def validateTracklets (nl : List (α × L)) (es : List (α × α)) : Bool :=
  (trackletErrors nl es).isEmpty

/-- `geff.validate.data._nodes_with_id`: nodes whose id is flagged missing are dropped.
`none` = no missing mask.  numpy raises IndexError when the mask length differs — except for a mask
of length 0, which numpy accepts against an array of ANY length and which selects nothing (an empty
boolean index is treated as an empty integer index). -/
def nodesWithId (nodes : List α) (values : List L) (missing : Option (List Bool)) :
    Option (List (α × L)) :=
  match missing with
  | none => some (nodes.zip values)
  | some m =>
    if m.length = 0 ∨ (m.length = nodes.length ∧ m.length = values.length) then
      some (((nodes.zip values).zip m).filterMap fun p => if p.2 then none else some p.1)
    else none


/-! ## the entry point on integer arrays: `np.asarray(…, dtype=np.int64)` -/
/-- numpy's cast of an integer array to int64: two's-complement wrap-around (identity on the int64
range; uint64 values ≥ 2^63 become negative) -/
def toInt64 (x : Int) : Int := (x + 2 ^ 63) % 2 ^ 64 - 2 ^ 63

/-- `validate_tracklets(node_ids, edge_ids, tracklet_ids)` on integer arrays: all three are cast
to int64 first, so the tracklet ids printed in the messages are the cast ones -/
def trackletErrorsInt64 (nodes labels : List Int) (edges : List (Int × Int)) : List (Int × Verdict Int) :=
  trackletErrors ((nodes.map toInt64).zip (labels.map toInt64))
    (edges.map fun e => (toInt64 e.1, toInt64 e.2))

end Geff.Tracklet
