import GeffModel.LineageData
import GeffModel.TrackletData
/-! # Run-time library for the source-translated `geff/validate/tracks.py` (translator T21)

`harness/translators/t21_pydo_tracks.py` turns `validate_lineages` and `validate_tracklets`,
statement by statement, into Lean `do`-blocks in the monad `Outcome = Except PyExc`
(`Gen/Tracks.lean`).  Everything the generated code calls is defined here: one small function per
numpy / Python / networkx operation that occurs in the file, DEFINED FROM the graph library
(`GeffModel/Graph.lean`: `component`, `sameSet`, `dedup`; `GeffModel/Tracklet.lean`: `succs`,
`preds`, `inner`, `kahn`) so that the theorems about the hand-written models apply.  Where the
library call can raise on its own, the exception is an explicit outcome (`PyExc`).

What the primitives assume about the libraries (tied to the real code by the C14 / C13
correspondence, which runs the hand-written models — proved EQUAL to the generated functions in
`GeffProofs/TracksGen.lean` — against the implementation):

* `np.asarray(x, dtype=np.int64)` of an integer array is the element-wise two's-complement wrap
  `toInt64` (identity on the int64 range).  Non-integer input is outside the model: the parameters
  are typed as integer lists and a list of integer pairs (an `(m, 2)` array);
* `zip(a, b, strict=False)` stops at the shorter argument;
* a `dict` is an insertion-ordered association list; `d.setdefault(k, []).append(v)` appends `v` to
  the list stored under `k`, inserting `k` at the END when it is new; `d.items()` iterates in
  insertion order;
* `nx.DiGraph(tuple(edge) for edge in edges)` adds the end points of every edge in order (source
  first), `G.add_nodes_from(nodes)` then adds the nodes that are still missing, in order: the node
  list is the first-occurrence de-duplication.  The edge list is kept as given: it REPRESENTS the
  edge set (a DiGraph collapses parallel edges), and every observation below is a function of that
  set — degrees count DISTINCT neighbours (`succs` / `preds` de-duplicate);
* `nx.weakly_connected_components(G)` yields, for every node in node order that is not in a
  component yielded before, its weakly connected component (`Graph.component`, the executable
  closure whose soundness and completeness w.r.t. `Conn` is `mem_component_iff`);
* a `frozenset` is a list read as a set: the ONLY observation the code makes is membership of a
  frozenset in a set of frozensets, which is `any sameSet`;
* `G.subgraph(nodes)` is the induced subgraph view; its node list is the given list restricted to
  the nodes of `G` (a node listed twice stays listed twice: the list represents the node set, and
  `max`, `any`, `next`-of-a-unique-element, acyclicity and connectivity do not depend on repeats;
  the iteration order of a subgraph view is unspecified in networkx — it may iterate a Python
  set — and the model uses the order of the given list);
* `S.in_degree` / `S.out_degree` iterate `(node, degree)` pairs; `S.edges` the edges of the view;
* `G.out_degree(u)` / `G.in_degree(v)` / `G.predecessors(v)` / `G.successors(u)` are used by the code
  only on nodes of `G` (end points of edges of a subgraph, members of a tracklet); networkx raises
  for any other node, the primitives are defined (degree 0, no neighbour) there;
* `nx.is_directed_acyclic_graph` is Kahn's algorithm (`Tracklet.kahn`);
* `nx.is_weakly_connected(S)` raises `NetworkXPointlessConcept` on the null graph;
* `next(generator)` raises `StopIteration` on an exhausted generator; `l[0]` raises `IndexError` on
  an empty list; `max(..., default=0)`; `str(np.int64)` is the decimal rendering.
Core Lean only. -/
namespace Geff.PyDoTracks
open Geff.Graph Geff.Lineage Geff.Tracklet

/-- the exceptions that can escape from the library calls of `tracks.py` -/
inductive PyExc where
  | stopIteration
  | pointlessConcept
  | indexError
  | other (name : String)
  deriving DecidableEq, Repr

abbrev Outcome := Except PyExc

/-! ## numpy / Python -/

/-- `np.asarray(x, dtype=np.int64)` on a 1-D integer array -/
def npAsarrayInt64 (xs : List Int) : List Int := xs.map toInt64
/-- `np.asarray(x, dtype=np.int64)` on an `(m, 2)` integer array -/
def npAsarrayInt64Pairs (es : List (Int × Int)) : List (Int × Int) :=
  es.map fun e => (toInt64 e.1, toInt64 e.2)

/-- `zip(a, b, strict=False)` -/
def pyZip {α β : Type} (a : List α) (b : List β) : List (α × β) := a.zip b

/-- `dict[int, list[int]]`, insertion ordered -/
abbrev PyDict := List (Int × List Int)

/-- `d.setdefault(k, []).append(v)` -/
def dictSetdefaultAppend : PyDict → Int → Int → PyDict
  | [], k, v => [(k, [v])]
  | (k', vs) :: rest, k, v =>
    if k' = k then (k', vs ++ [v]) :: rest else (k', vs) :: dictSetdefaultAppend rest k v

/-- `d.items()` -/
def dictItems (d : PyDict) : List (Int × List Int) := d

/-- `frozenset(l)`: a list read as a set -/
abbrev FrozenSet := List Int
def frozenset (l : List Int) : FrozenSet := l
/-- a `set` of frozensets -/
abbrev SetOfFrozenSets := List FrozenSet
/-- `x in s` for a frozenset `x` and a set of frozensets `s` -/
def frozensetIn (x : FrozenSet) (s : SetOfFrozenSets) : Bool := s.any (fun c => sameSet x c)

/-- `str(i)` inside an f-string -/
def pyStr (i : Int) : String := toString i

/-- `max(gen, default=0)` over natural numbers -/
def pyMaxDefault0 (l : List Nat) : Nat := l.foldl max 0

/-- `next(gen)` -/
def pyNext {α : Type} : List α → Outcome α
  | [] => throw .stopIteration
  | x :: _ => pure x

/-- `l[0]` -/
def pyGetItem0 {α : Type} : List α → Outcome α
  | [] => throw .indexError
  | x :: _ => pure x

/-! ## networkx -/

structure DiGraph where
  nodes : List Int
  edges : List (Int × Int)
  deriving DecidableEq, Repr

/-- `nx.DiGraph(tuple(edge) for edge in edges)` -/
def nxDiGraph (edges : List (Int × Int)) : DiGraph :=
  ⟨dedup (edges.flatMap fun e => [e.1, e.2]), edges⟩

/-- `G.add_nodes_from(nodes)` -/
def DiGraph.addNodesFrom (g : DiGraph) (ns : List Int) : DiGraph :=
  ⟨dedup (g.nodes ++ ns), g.edges⟩

/-- the loop of `nx.weakly_connected_components`: `acc` = components yielded so far -/
def wccGo (es : List (Int × Int)) (V : List Int) : List Int → List (List Int) → List (List Int)
  | [], acc => acc
  | r :: rest, acc =>
    if acc.any (fun c => r ∈ c) then wccGo es V rest acc
    else wccGo es V rest (acc ++ [component es V r])

/-- `nx.weakly_connected_components(G)` -/
def nxWeaklyConnectedComponents (g : DiGraph) : List (List Int) := wccGo g.edges g.nodes g.nodes []

/-- `G.subgraph(nodes)` -/
def DiGraph.subgraph (g : DiGraph) (ns : List Int) : DiGraph :=
  ⟨ns.filter (· ∈ g.nodes), inner g.edges ns⟩

/-- `G.in_degree(v)` / `G.out_degree(u)`: number of distinct predecessors / successors -/
def DiGraph.inDegree (g : DiGraph) (v : Int) : Nat := (preds g.edges v).length
def DiGraph.outDegree (g : DiGraph) (u : Int) : Nat := (succs g.edges u).length
/-- the views `S.in_degree` / `S.out_degree` / `S.edges` -/
def DiGraph.inDegreeView (g : DiGraph) : List (Int × Nat) := g.nodes.map fun v => (v, g.inDegree v)
def DiGraph.outDegreeView (g : DiGraph) : List (Int × Nat) := g.nodes.map fun v => (v, g.outDegree v)
def DiGraph.edgesView (g : DiGraph) : List (Int × Int) := g.edges
/-- `G.predecessors(v)` / `G.successors(u)` -/
def DiGraph.predecessors (g : DiGraph) (v : Int) : List Int := preds g.edges v
def DiGraph.successors (g : DiGraph) (u : Int) : List Int := succs g.edges u

/-- `nx.is_directed_acyclic_graph(S)` -/
def nxIsDirectedAcyclicGraph (s : DiGraph) : Bool := kahn s.edges s.nodes.length s.nodes

/-- `nx.is_weakly_connected(S)` -/
def nxIsWeaklyConnected (s : DiGraph) : Outcome Bool :=
  match s.nodes with
  | [] => throw .pointlessConcept
  | r :: _ => pure (s.nodes.all (· ∈ component s.edges s.nodes r))

end Geff.PyDoTracks
