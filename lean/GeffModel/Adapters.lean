import GeffModel.Backends
/-! # The graph-adapter layer (property C03, deepening)

Model of `geff/_graph_libs/_graph_adapter.py` (`GraphAdapter` protocol) and of its three
implementations `NxGraphAdapter` (`_networkx.py`), `RxGraphAdapter` (`_rustworkx.py`),
`SgGraphAdapter` (`_spatial_graph.py`): `get_node_ids`, `get_edge_ids`, `has_node_prop`,
`get_node_prop`, `has_edge_prop`, `get_edge_prop`, each with its `metadata` argument, on top of the
backend graph models of `GeffModel/Backends.lean`.

Differences to the observation functions of `Backends.lean` (`nodeAttr`, `edgeAttr`, `hasNode`,
`hasEdge`, which merge `has` and `get` into one `Option` and report membership only):

* the id functions return **lists**, in the order the real adapter reports them — for networkx the
  adjacency order of `list(G.edges)` (`nxEdgeOrder`), for rustworkx index order translated back
  through the inverse of `to_rx_id_map`, for spatial-graph the order of the container (the model
  lists insertion order; the real container may permute, the tie compares it as a multiset);
* `has_*` / `get_*` are separate functions whose Python exceptions are explicit outcomes
  (`AErr`): a node that is not in the graph, an edge that is not in the graph, a name the element
  does not carry;
* `SgGraphAdapter` reads the axis names out of the `metadata` argument (`ValueError` when it has
  none), indexes `position` for an axis name and answers `True` to every `has_*` question.

Not in the model (library behaviour, named in the claims): for parallel edges rustworkx'
`get_edge_data` returns the most recently added one — `construct` never builds parallel edges from
a valid geff; what spatial-graph raises for an edge whose end point is no node at all
(`IndexError` or `RuntimeError`, outcome `missingEndpoint`). -/
namespace Geff.Adapters
open Geff.Np Geff.Dicts Geff.Backends

/-- the Python exceptions of the adapter layer -/
inductive AErr where
  | keyError | indexError | valueError | attributeError | overflowError
  /-- `rustworkx.NoEdgeBetweenNodes` -/
  | noEdge
  /-- spatial-graph, edge query with an end point that is no node: `IndexError` or `RuntimeError` -/
  | missingEndpoint
deriving DecidableEq, Repr, Inhabited

abbrev Out := Except AErr

/-- `[f a for a in l]`, first exception wins -/
def mapA {α β : Type} (f : α → Out β) : List α → Out (List β)
  | [] => .ok []
  | a :: t =>
    match f a with
    | .error e => .error e
    | .ok b =>
      match mapA f t with
      | .error e => .error e
      | .ok bs => .ok (b :: bs)

/-- the part of the `metadata: GeffMetadata` argument an adapter reads: the axis names
(`none` = `metadata.axes is None`) -/
structure AMeta where
  axes : Option (List String)
deriving DecidableEq, Repr, Inhabited

/-- `name in d` for a found attribute dict -/
def hasIn (v : Option PyVal) : Out Bool := .ok v.isSome
/-- `d[name]` -/
def getIn (v : Option PyVal) : Out PyVal :=
  match v with
  | some x => .ok x
  | none => .error .keyError

/-! ## networkx -/

/-- `list(self.graph.nodes)`: insertion order of `_node` -/
def nxGetNodeIds (g : NxGraph) : List Int := g.nodes.map (·.1)

/-- `G._adj[u]` in insertion order: the other end of every edge at `u`, in the order the edges were
added (successors only when directed) -/
def nxNbrs (directed : Bool) (edges : List (Int × Int)) (u : Int) : List Int :=
  edges.filterMap fun e =>
    if e.1 = u then some e.2 else if !directed && e.2 = u then some e.1 else none

/-- `list(G.edges)`: for every node in node order its adjacency in insertion order; an undirected
graph skips the neighbours already visited as a node (`seen`), so every edge is reported once, from
the end point that comes first in node order -/
def nxEdgesFrom (directed : Bool) (edges : List (Int × Int)) (seen : List Int) : List Int → List (Int × Int)
  | [] => []
  | u :: t =>
    ((nxNbrs directed edges u).filter (fun v => directed || !seen.contains v)).map (fun v => (u, v)) ++
      nxEdgesFrom directed edges (u :: seen) t

def nxEdgeOrder (directed : Bool) (nodes : List Int) (edges : List (Int × Int)) : List (Int × Int) :=
  nxEdgesFrom directed edges [] nodes

/-- `list(self.graph.edges)` -/
def nxGetEdgeIds (g : NxGraph) : List (Int × Int) :=
  nxEdgeOrder g.directed (g.nodes.map (·.1)) (g.edges.map (·.1))

/-- `name in self.graph.nodes[node]` (`KeyError`: no such node; `metadata` is not looked at) -/
def nxHasNodeProp (g : NxGraph) (_md : AMeta) (name : String) (node : Int) : Out Bool :=
  if g.hasNode node then hasIn (g.nodeAttr node name) else .error .keyError

/-- `self.graph.nodes[node][name]` -/
def nxGetNodeProp (g : NxGraph) (_md : AMeta) (name : String) (node : Int) : Out PyVal :=
  if g.hasNode node then getIn (g.nodeAttr node name) else .error .keyError

/-- `name in self.graph.edges[edge]` (`KeyError`: no such edge; either orientation when undirected) -/
def nxHasEdgeProp (g : NxGraph) (_md : AMeta) (name : String) (e : Int × Int) : Out Bool :=
  if g.hasEdge e then hasIn (g.edgeAttr e name) else .error .keyError

/-- `self.graph.edges[edge][name]` -/
def nxGetEdgeProp (g : NxGraph) (_md : AMeta) (name : String) (e : Int × Int) : Out PyVal :=
  if g.hasEdge e then getIn (g.edgeAttr e name) else .error .keyError

/-! ## rustworkx -/

/-- `{v: k for k, v in to_rx_id_map.items()}[k]`: a later entry with the same value wins -/
def invLookup (k : Nat) : List (Int × Nat) → Option Int
  | [] => none
  | (i, v) :: t =>
    match invLookup k t with
    | some j => some j
    | none => if v = k then some i else none

/-- `_geff_id(rx_id)`: the identity without `to_rx_id_map`, else the inverse map (`KeyError`) -/
def rxGeffId (g : RxGraph) (k : Nat) : Out Int :=
  match g.idMap with
  | none => .ok (Int.ofNat k)
  | some mp =>
    match invLookup k mp with
    | some i => .ok i
    | none => .error .keyError

/-- `[self._geff_id(i) for i in self.graph.node_indices()]`: index order, holes skipped -/
def rxGetNodeIds (g : RxGraph) : Out (List Int) :=
  mapA (rxGeffId g) (g.nodeList.map (·.1))

/-- `[(self._geff_id(u), self._geff_id(v)) for u, v in self.graph.edge_list()]`: edge-index order,
orientation as stored -/
def rxGetEdgeIds (g : RxGraph) : Out (List (Int × Int)) :=
  mapA (fun (e : (Nat × Nat) × Attrs) =>
    match rxGeffId g e.1.1 with
    | .error x => .error x
    | .ok u =>
      match rxGeffId g e.1.2 with
      | .error x => .error x
      | .ok v => .ok (u, v)) g.edges

/-- `_rx_id(node)`: `to_rx_id_map[node]` (`KeyError`), the node itself without a map (a negative
number cannot be an index: `OverflowError` at the call into rustworkx) -/
def rxRxId (g : RxGraph) (node : Int) : Out Nat :=
  match g.idMap with
  | none => if node < 0 then .error .overflowError else .ok node.toNat
  | some mp =>
    match mp.lookup node with
    | some k => .ok k
    | none => .error .keyError

/-- `self.graph[idx]` (`IndexError`: no node at that index) -/
def rxPayload (g : RxGraph) (k : Nat) : Out Attrs :=
  match g.slots[k]? with
  | some (some a) => .ok a
  | _ => .error .indexError

/-- `name in self.graph[self._rx_id(node)]` -/
def rxHasNodeProp (g : RxGraph) (_md : AMeta) (name : String) (node : Int) : Out Bool :=
  match rxRxId g node with
  | .error e => .error e
  | .ok k =>
    match rxPayload g k with
    | .error e => .error e
    | .ok a => hasIn (a.lookup name)

/-- `self.graph[self._rx_id(node)][name]` -/
def rxGetNodeProp (g : RxGraph) (_md : AMeta) (name : String) (node : Int) : Out PyVal :=
  match rxRxId g node with
  | .error e => .error e
  | .ok k =>
    match rxPayload g k with
    | .error e => .error e
    | .ok a => getIn (a.lookup name)

/-- `self.graph.get_edge_data(self._rx_id(edge[0]), self._rx_id(edge[1]))`: the payload of the edge
between the two indices, either orientation when undirected (`NoEdgeBetweenNodes` when there is
none).  Parallel edges: see the header. -/
def rxEdgeData (g : RxGraph) (e : Int × Int) : Out Attrs :=
  match rxRxId g e.1 with
  | .error x => .error x
  | .ok a =>
    match rxRxId g e.2 with
    | .error x => .error x
    | .ok b =>
      match g.edges.find? (fun x => x.1 = (a, b) || (!g.directed && x.1 = (b, a))) with
      | some x => .ok x.2
      | none => .error .noEdge

def rxHasEdgeProp (g : RxGraph) (_md : AMeta) (name : String) (e : Int × Int) : Out Bool :=
  match rxEdgeData g e with
  | .error x => .error x
  | .ok a => hasIn (a.lookup name)

def rxGetEdgeProp (g : RxGraph) (_md : AMeta) (name : String) (e : Int × Int) : Out PyVal :=
  match rxEdgeData g e with
  | .error x => .error x
  | .ok a => getIn (a.lookup name)

/-! ## spatial-graph -/

/-- `list(self.graph.nodes)` (insertion order in the model; see the header) -/
def sgGetNodeIds (g : SgGraph) : List Int := g.nodes

/-- `[tuple(edge.tolist()) for edge in self.graph.edges]` -/
def sgGetEdgeIds (g : SgGraph) : List (Int × Int) := g.edges

/-- `has_node_prop`: "doesn't support missing node properties" — always `True`, whatever the name
or the node -/
def sgHasNodeProp (_g : SgGraph) (_md : AMeta) (_name : String) (_node : Int) : Out Bool := .ok true

def sgHasEdgeProp (_g : SgGraph) (_md : AMeta) (_name : String) (_e : Int × Int) : Out Bool := .ok true

/-- the name of the squished attribute (`position_attr`, the default of `SgBackend.construct`) -/
def positionAttr : String := "position"

/-- row of node `node` (`IndexError`: "Node … does not exist") -/
def sgNodeRow (g : SgGraph) (node : Int) : Out Nat :=
  match g.nodes.findIdx? (fun x => x = node) with
  | some k => .ok k
  | none => .error .indexError

/-- `SgGraphAdapter.get_node_prop`: `ValueError` without axes in the metadata; an axis name is
looked up in `position` at its index in the **metadata's** axis list (`IndexError` beyond the width
of `position`); any other name is an attribute of the graph (`AttributeError` when it is none — raised
before the node is looked at), `position` itself being one -/
def sgGetNodeProp (g : SgGraph) (md : AMeta) (name : String) (node : Int) : Out PyVal :=
  match md.axes with
  | none => .error .valueError
  | some axes =>
    match axes.findIdx? (fun x => x = name) with
    | some a =>
      match sgNodeRow g node with
      | .error e => .error e
      | .ok k =>
        match g.position[k]? with
        | none => .error .indexError
        | some r =>
          match r[a]? with
          | some v => .ok (.sc v)
          | none => .error .indexError
    | none =>
      if name = positionAttr then
        match sgNodeRow g node with
        | .error e => .error e
        | .ok k =>
          match g.position[k]? with
          | none => .error .indexError
          | some r => .ok (.arr [r.length] r)
      else
        match g.nodeAttrs.lookup name with
        | none => .error .attributeError
        | some c =>
          match sgNodeRow g node with
          | .error e => .error e
          | .ok k =>
            match c.rows[k]? with
            | some r => .ok (rowToPy false r)
            | none => .error .indexError

/-- `SgGraphAdapter.get_edge_prop`: `getattr(self.graph.edge_attrs[edge], name)` — `AttributeError`
for a name that is no edge attribute (raised first), `IndexError` for a pair of nodes without an
edge (either orientation when undirected) -/
def sgGetEdgeProp (g : SgGraph) (_md : AMeta) (name : String) (e : Int × Int) : Out PyVal :=
  match g.edgeAttrs.lookup name with
  | none => .error .attributeError
  | some c =>
    if !(g.hasNode e.1 && g.hasNode e.2) then .error .missingEndpoint
    else
      match g.edges.findIdx? (fun x => sameEdge g.directed x e) with
      | none => .error .indexError
      | some k =>
        match c.rows[k]? with
        | some r => .ok (rowToPy false r)
        | none => .error .indexError

/-! ## the one interface: an adapter as a record of the six functions -/

/-- what `Backend.graph_adapter(graph)` returns, for any backend -/
structure Adapter where
  getNodeIds : Out (List Int)
  getEdgeIds : Out (List (Int × Int))
  hasNodeProp : AMeta → String → Int → Out Bool
  getNodeProp : AMeta → String → Int → Out PyVal
  hasEdgeProp : AMeta → String → Int × Int → Out Bool
  getEdgeProp : AMeta → String → Int × Int → Out PyVal

/-- `NxBackend.graph_adapter` -/
def nxAdapter (g : NxGraph) : Adapter :=
  ⟨.ok (nxGetNodeIds g), .ok (nxGetEdgeIds g), nxHasNodeProp g, nxGetNodeProp g, nxHasEdgeProp g, nxGetEdgeProp g⟩

/-- `RxBackend.graph_adapter` -/
def rxAdapter (g : RxGraph) : Adapter :=
  ⟨rxGetNodeIds g, rxGetEdgeIds g, rxHasNodeProp g, rxGetNodeProp g, rxHasEdgeProp g, rxGetEdgeProp g⟩

/-- `SgBackend.graph_adapter` -/
def sgAdapter (g : SgGraph) : Adapter :=
  ⟨.ok (sgGetNodeIds g), .ok (sgGetEdgeIds g), sgHasNodeProp g, sgGetNodeProp g, sgHasEdgeProp g, sgGetEdgeProp g⟩

end Geff.Adapters
