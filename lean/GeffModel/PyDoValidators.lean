import GeffModel.Meta
/-! # Run-time library for the source-translated pydantic validators (`harness/translators/t17_pydo_validators.py`)

Translator T17 turns the validator *bodies* of `geff_spec` — `Axis._validate_model`, `Axis._check_units`,
`PropMetadata._convert_dtype`, `RelatedObject._validate_model`, `_validate_key_identifier_equality`,
`GeffMetadata._validate_model_after`, `GeffMetadata.__setattr__` and the three `validate_*` functions of
`_valid_values.py` — statement by statement into Lean `do`-blocks (`Gen/Validators.lean`) over the
structures of `GeffModel/Meta.lean`.  Everything the generated code calls is defined here: one small
total function per Python / numpy / pydantic primitive, with Python's exceptions as explicit outcomes.

What the primitives assume about the libraries (tied by the C07 correspondence, which runs the
hand-written model — proved equal to the generated code in `GeffProofs/ValidatorsGen.lean` — against
the implementation on every run):
* a `warnings.warn(…)` does not raise under the default filters: the translator drops it (a validator's
  *outcome* — accepted value or error — is what is modelled);
* reading an attribute of `None` is an `AttributeError`, iterating `None` and ordering `None` against a
  float are `TypeError`s (never reached by the code as written — that is a theorem, not an assumption);
* numpy: `np.dtype(s)` parses a string or raises `TypeError`; `np.dtype(None)` is `float64`;
  `np.issubdtype(d, np.str_ | np.bytes_)` and `d.name` are read off the parsed dtype (`NpEnv`);
* pydantic 2.13 `BaseModel.__setattr__` under `validate_assignment=True` (`superSetattr`): the field
  validator runs first and a failure leaves the object untouched; on success the new value and the
  enlarged fields-set are STORED and only then the `mode="after"` model validators run — a failure there
  raises with the object already changed (defect D3; `GeffMetadata.__setattr__` repairs it, and that
  repair is what the generated `geffMetadataSetattr` is proved to achieve).
Core Lean only. -/
namespace Geff.PyDoVal
open Geff.Meta

inductive PyExc where
  | valueError
  | typeError
  | attributeError
  /-- `pydantic.ValidationError` (what pydantic raises when a validator raised `ValueError`) -/
  | validationError
deriving DecidableEq, Repr, Inhabited

abbrev VRes := Except PyExc

variable {α β : Type}

def raiseValueError : VRes α := .error .valueError
def raiseTypeError : VRes α := .error .typeError

/-- `x.attr` where `x : T | None`: `None.attr` is an `AttributeError` -/
def deref (x : Option α) : VRes α :=
  match x with
  | some a => .ok a
  | none => .error .attributeError

/-- `for a in l` / `[… for a in l]` where `l : list | None`: iterating `None` is a `TypeError` -/
def iterOpt (l : Option (List α)) : VRes (List α) :=
  match l with
  | some x => .ok x
  | none => .error .typeError

/-- `a > b` on `float | None` operands: `None > x` is a `TypeError`; floats compare as IEEE `>` -/
def pyGt (a b : Option F) : VRes Bool :=
  match a, b with
  | some x, some y => .ok (F.gt x y)
  | _, _ => .error .typeError

/-- `a >= b` likewise (not used by the code as written; present so that a rewritten comparison
still translates and is then *disproved* instead of refused) -/
def pyGe (a b : Option F) : VRes Bool :=
  match a, b with
  | some x, some y => .ok (F.le y x)
  | _, _ => .error .typeError

def pyLt (a b : Option F) : VRes Bool := pyGt b a
def pyLe (a b : Option F) : VRes Bool := pyGe b a

/-- Python truthiness of `str | None` -/
abbrev truthyStr (s : Option String) : Bool := truthy s
/-- Python truthiness of `list | None` -/
def truthyList (l : Option (List α)) : Bool :=
  match l with
  | some (_ :: _) => true
  | _ => false
/-- Python truthiness of `Model | None` (a pydantic model defines neither `__bool__` nor `__len__`) -/
def truthyObj (o : Option α) : Bool := o.isSome

/-- `s in TUPLE` for a string -/
def strIn (s : String) (l : List String) : Bool := l.contains s
/-- `x in TUPLE` for `x : str | None` (`None` is in no tuple of strings) -/
def optIn (s : Option String) (l : List String) : Bool :=
  match s with
  | some x => l.contains x
  | none => false

/-- `set(names)` as far as `len` looks at it: one representative per distinct element -/
def pySet : List String → List String
  | [] => []
  | x :: xs => if (pySet xs).contains x then pySet xs else x :: pySet xs

/-! ## numpy dtypes -/

structure NpDtype where
  /-- `d.name` -/
  name : String
  /-- `np.issubdtype(d, np.str_)` -/
  isStr : Bool
  /-- `np.issubdtype(d, np.bytes_)` -/
  isBytes : Bool
deriving DecidableEq, Repr, Inhabited

inductive NpKind where
  | str_
  | bytes_
deriving DecidableEq, Repr

/-- the part of numpy the validators consult: `np.dtype(s)` for a string (`none` = `TypeError`) -/
structure NpEnv where
  dtype : String → Option NpDtype

/-- `np.dtype(value)` for `value : str | None`; `np.dtype(None)` is `float64` -/
def npDtype (np : NpEnv) (value : Option String) : VRes NpDtype :=
  match value with
  | none => .ok { name := "float64", isStr := false, isBytes := false }
  | some s =>
    match np.dtype s with
    | some d => .ok d
    | none => .error .typeError

/-- `np.issubdtype(d, np.str_ | np.bytes_)` -/
def npIssubdtype (d : NpDtype) (k : NpKind) : Bool :=
  match k with
  | .str_ => d.isStr
  | .bytes_ => d.isBytes

/-- what the hand-written model's `Env.npName` is in terms of `NpEnv`: the name, every unicode width
collapsed to `"str"` -/
def NpEnv.npName (np : NpEnv) (s : String) : Option String :=
  (np.dtype s).map (fun d => if d.isStr then "str" else d.name)

/-! ## objects with state: `GeffMetadata.__setattr__` -/

/-- a computation on ONE metadata object (`self`): outcome and the object afterwards -/
def SRes (α : Type) := MetaObj → Except PyExc α × MetaObj

instance : Monad SRes where
  pure a := fun s => (.ok a, s)
  bind x f := fun s =>
    match x s with
    | (.ok a, s') => f a s'
    | (.error e, s') => (.error e, s')

instance : MonadExcept PyExc SRes where
  throw e := fun s => (.error e, s)
  tryCatch x h := fun s =>
    match x s with
    | (.error e, s') => h e s'
    | r => r

/-- `self.__dict__.copy()` -/
def dictCopy : SRes Meta := fun s => (.ok s.val, s)
/-- `self.__pydantic_fields_set__.copy()` -/
def fieldsSetCopy : SRes (List String) := fun s => (.ok s.fieldsSet, s)
/-- `object.__setattr__(self, "__dict__", d)` -/
def objectSetDict (d : Meta) : SRes Unit := fun s => (.ok (), { s with val := d })
/-- `object.__setattr__(self, "__pydantic_fields_set__", fs)` -/
def objectSetFieldsSet (fs : List String) : SRes Unit := fun s => (.ok (), { s with fieldsSet := fs })

/-- `super().__setattr__(name, value)` = pydantic's `BaseModel.__setattr__` with
`validate_assignment=True` (see the header): `after` is the class's `mode="after"` model validator -/
def superSetattr (after : Meta → VRes Meta) (env : Env) (name : String) (value : J) : SRes Unit := fun s =>
  match setField env s.val name value with
  | .error _ => (.error .validationError, s)
  | .ok m' =>
    let s' : MetaObj :=
      { val := m', fieldsSet := fieldNames.filter (fun g => s.fieldsSet.contains g || g == name) }
    match after m' with
    | .ok _ => (.ok (), s')
    | .error .valueError => (.error .validationError, s')
    | .error e => (.error e, s')

end Geff.PyDoVal
