/-! Executable model of `geff.convert._ctc.from_ctc_to_geff` (graph construction part; core Lean
only).

Abstract input (`Dataset`): what the converter sees of a Cell-Tracking-Challenge directory *after*
the libraries have done their part —
* `ndim`   : `frame.ndim` of the tiff frames (2 or 3),
* `frames` : for every `*.tif` in sorted order the list of `skimage.measure.regionprops` objects
             (label, centroid) — regionprops yields them in ascending label order and never yields
             label 0; a centroid is the list of `ndim` float *tokens* (IEEE bit patterns, never
             computed on here) in array-axis order `(z,) y, x`,
* `table`  : the rows `L B E P` of `man_track.txt` / `res_track.txt` as `np.loadtxt(..., ndmin=2)`
             returns them.

The functions follow the Python statement by statement: the node loop with its running
`node_id`, the parallel `node_props` lists, the insertion-ordered `tracks` dict, the
consecutive-occurrence edges, the table loop (`tracks[child][0]`, `tracks[parent][-1]`, with
Python's `KeyError`/`IndexError` as explicit outcomes), the axes list and the final arrays handed
to `write_arrays`.  Segmentation export, tiff decoding and `regionprops` itself are not modelled
(differential tests in `harness/corr/C15.py`). -/
namespace Geff.Ctc

/-- result of a Python call: a value or the class of the exception raised -/
inductive Outcome (α : Type) where
  | ok (v : α)
  | valueError
  | keyError
  | indexError
deriving Repr, DecidableEq

/-- one `regionprops` object -/
structure Region where
  label : Int
  centroid : List String
deriving Repr, DecidableEq

/-- one row of the track table: label, begin, end, parent -/
structure Row where
  L : Int
  B : Int
  E : Int
  P : Int
deriving Repr, DecidableEq

structure Dataset where
  ndim : Nat
  frames : List (List Region)
  table : List Row
deriving Repr

/-- Python `dict.__contains__` on an insertion-ordered association list -/
def hasKey {κ ν : Type} [DecidableEq κ] (d : List (κ × ν)) (k : κ) : Bool := d.any (fun e => e.1 = k)

/-- Python `d[k]`; `none` = `KeyError` -/
def dictGet? {κ ν : Type} [DecidableEq κ] : List (κ × ν) → κ → Option ν
  | [], _ => none
  | e :: d, k => if e.1 = k then some e.2 else dictGet? d k

/-- `d[k].append(v)` for a key that is present (every entry with that key; keys are unique) -/
def dictAppendAt {κ ν : Type} [DecidableEq κ] (d : List (κ × List ν)) (k : κ) (v : ν) : List (κ × List ν) :=
  d.map (fun e => if e.1 = k then (e.1, e.2 ++ [v]) else e)

/-- `if k not in d: d[k] = []` followed by `d[k].append(v)` -/
def dictPush {κ ν : Type} [DecidableEq κ] (d : List (κ × List ν)) (k : κ) (v : ν) : List (κ × List ν) :=
  if hasKey d k then dictAppendAt d k v else d ++ [(k, [v])]

/-- the mutable state of the frame loop -/
structure St where
  nodeId : Nat                              -- `node_id`
  ids : List Nat                            -- `node_props["id"]`
  tracklet : List Int                       -- `node_props["tracklet_id"]`
  ts : List Nat                             -- `node_props["t"]`
  coords : List (String × List String)      -- `node_props["x"]`, `["y"]`, (`["z"]`), in dict order
  tracks : List (Int × List Nat)            -- `tracks`
deriving Repr, DecidableEq

def St.init : St := ⟨0, [], [], [], [("x", []), ("y", [])], []⟩

/-- `for c, v in zip(("x","y","z"), obj.centroid[::-1], strict=False): node_props[c].append(v)` -/
def appendCoords (coords : List (String × List String)) :
    List String → List String → Outcome (List (String × List String))
  | c :: cs, v :: vs =>
    if hasKey coords c then appendCoords (dictAppendAt coords c v) cs vs else .keyError
  | _, _ => .ok coords

/-- body of `for obj in regionprops(frame)` -/
def addObj (t : Nat) (st : St) (o : Region) : Outcome St :=
  match appendCoords st.coords ["x", "y", "z"] o.centroid.reverse with
  | .ok coords =>
    .ok { nodeId := st.nodeId + 1
          ids := st.ids ++ [st.nodeId]
          tracklet := st.tracklet ++ [o.label]
          ts := st.ts ++ [t]
          coords := coords
          tracks := dictPush st.tracks o.label st.nodeId }
  | .valueError => .valueError
  | .keyError => .keyError
  | .indexError => .indexError

def addObjs (t : Nat) : St → List Region → Outcome St
  | st, [] => .ok st
  | st, o :: os =>
    match addObj t st o with
    | .ok st' => addObjs t st' os
    | e => e

/-- `if frame.ndim == 3 and "z" not in node_props: node_props["z"] = []` -/
def ensureZ (ndim : Nat) (st : St) : St :=
  if ndim = 3 ∧ hasKey st.coords "z" = false then { st with coords := st.coords ++ [("z", [])] } else st

/-- `for t, filepath in enumerate(sorted_files)` -/
def addFrames (ndim : Nat) : Nat → St → List (List Region) → Outcome St
  | _, st, [] => .ok st
  | t, st, fr :: frs =>
    match addObjs t (ensureZ ndim st) fr with
    | .ok st' => addFrames ndim (t + 1) st' frs
    | e => e

/-- `for i in range(len(ids) - 1): edges.append((ids[i], ids[i + 1]))` -/
def consec : List Nat → List (Nat × Nat)
  | a :: b :: r => (a, b) :: consec (b :: r)
  | _ => []

/-- `for _node_ids in tracks.values(): …` -/
def trackEdges (tracks : List (Int × List Nat)) : List (Nat × Nat) :=
  tracks.flatMap (fun e => consec e.2)

/-- body of `for row in tracks_table` : `(tracks[parent][-1], tracks[child][0])` -/
def parentEdge (tracks : List (Int × List Nat)) (r : Row) : Outcome (Nat × Nat) :=
  match dictGet? tracks r.L with
  | none => .keyError
  | some cs =>
    match cs.head? with
    | none => .indexError
    | some c =>
      match dictGet? tracks r.P with
      | none => .keyError
      | some ps =>
        match ps.getLast? with
        | none => .indexError
        | some p => .ok (p, c)

def parentEdges (tracks : List (Int × List Nat)) : List Row → Outcome (List (Nat × Nat))
  | [] => .ok []
  | r :: rs =>
    match parentEdge tracks r with
    | .ok e =>
      match parentEdges tracks rs with
      | .ok es => .ok (e :: es)
      | err => err
    | .valueError => .valueError
    | .keyError => .keyError
    | .indexError => .indexError

/-- what is handed to `write_arrays` -/
structure Out where
  nodeIds : List Nat
  tracklet : List Int
  ts : List Nat
  coords : List (String × List String)
  edges : List (Nat × Nat)
  axes : List (String × String)             -- (name, type)
deriving Repr, DecidableEq

def axesOf (coords : List (String × List String)) : List (String × String) :=
  if hasKey coords "z" then [("t", "time"), ("z", "space"), ("y", "space"), ("x", "space")]
  else [("t", "time"), ("y", "space"), ("x", "space")]

/-- `from_ctc_to_geff` from the frame loop to the call of `write_arrays` (whose own validation
rejects property arrays whose length differs from the number of nodes: `ValueError`). -/
def fromCtc (ds : Dataset) : Outcome Out :=
  match addFrames ds.ndim 0 St.init ds.frames with
  | .ok st =>
    if st.ids.isEmpty then .valueError          -- "No nodes found in the CTC directory"
    else
      let edges := trackEdges st.tracks
      match parentEdges st.tracks (ds.table.filter (fun r => decide (r.P > 0))) with
      | .ok pes =>
        if st.coords.all (fun c => c.2.length = st.ids.length) then
          .ok { nodeIds := st.ids, tracklet := st.tracklet, ts := st.ts, coords := st.coords
                edges := edges ++ pes, axes := axesOf st.coords }
        else .valueError
      | .valueError => .valueError
      | .keyError => .keyError
      | .indexError => .indexError
  | .valueError => .valueError
  | .keyError => .keyError
  | .indexError => .indexError

/-! ### sequences of conversions -/

/-- a sequence of conversions in one process: the converter keeps no state between calls, so the
model of a history is the pure `fromCtc` mapped over the datasets (what every step of a real
history must equal: `GeffProps.C15.C15_history_independent`, tied by the harness' sequence stream) -/
def convertSeq (dss : List Dataset) : List (Outcome Out) := dss.map fromCtc

/-! ### shape of the exported segmentation array -/

/-- `n_1_padding = (1,) * (5 - frame.ndim - 1)` when `tczyx` else `()` (a negative count is the
empty tuple in Python, truncated subtraction here) -/
def n1Padding (frameShape : List Nat) (tczyx : Bool) : List Nat :=
  if tczyx then List.replicate (5 - frameShape.length - 1) 1 else []

/-- `shape=(len(sorted_files), *n_1_padding, *frame.shape)` -/
def segShape (nFiles : Nat) (frameShape : List Nat) (tczyx : Bool) : List Nat :=
  nFiles :: (n1Padding frameShape tczyx ++ frameShape)

/-- `chunks=(1, *n_1_padding, *frame.shape)` -/
def segChunks (frameShape : List Nat) (tczyx : Bool) : List Nat :=
  1 :: (n1Padding frameShape tczyx ++ frameShape)

/-! ### Bool decider of the *consistency* hypothesis of the C15 theorems (proved equivalent to the
`Prop` in `GeffProofs/CtcBridge.lean`; the harness cross-checks its own notion against it) -/

/-- `ndim ∈ {2,3}` and every centroid has `ndim` coordinates (hypothesis `Dataset.WF`) -/
def wfB (ds : Dataset) : Bool :=
  (ds.ndim == 2 || ds.ndim == 3) && ds.frames.all (fun fr => fr.all (fun r => r.centroid.length == ds.ndim))

/-- labels strictly ascending inside each frame (hypothesis `Dataset.Sorted`) -/
def sortedB (ds : Dataset) : Bool :=
  ds.frames.all (fun fr => decide ((fr.map (·.label)).Pairwise (· < ·)))

/-- label `l` occurs in frame `t` -/
def occursB (ds : Dataset) (l : Int) (t : Nat) : Bool :=
  match ds.frames[t]? with
  | some fr => fr.any (fun r => r.label = l)
  | none => false

/-- the frames in which label `l` occurs -/
def timesOf (ds : Dataset) (l : Int) : List Nat := (List.range ds.frames.length).filter (occursB ds l)

/-- rows with a parent name occurring labels, parent strictly before child, one parent row per label -/
def consistentB (ds : Dataset) : Bool :=
  let rows := ds.table.filter (fun r => decide (r.P > 0))
  rows.all (fun r => !(timesOf ds r.L).isEmpty && !(timesOf ds r.P).isEmpty &&
      (timesOf ds r.P).all (fun tp => (timesOf ds r.L).all (fun tc => decide (tp < tc))))
    && decide ((rows.map (·.L)).Nodup)

end Geff.Ctc
