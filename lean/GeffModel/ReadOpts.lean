import GeffModel.WriteRead
import GeffModel.ValidateData
/-! Read-side CONFIGURATIONS of the round trip (C01): everything a caller can choose when "reading it back".

Python functions modelled (same names, camelCase), on top of `GeffModel/WriteRead.lean`:
* `geff.core_io._base_read.read_to_memory(source, structure_validation, node_props, edge_props,
  data_validation)` — `readToMemoryOpts`: optional `validate_structure`, `GeffReader.__init__`,
  `read_node_props(names)` / `read_edge_props(names)` (`None` = every property found), `build()`
  (no masks; the metadata returned keeps only the entries of the loaded properties), and, when a
  `ValidationConfig` is given, `validate_data(config=…, memory_geff=…)`;
* `GeffReader(source, validate)` + `read_*_props` + `build()` used directly — `readerBuild`;
* `Backend.read` / `geff.read(..., backend=…)` — `geffRead`: `read_to_memory` with the same five arguments
  (C03's forwarding table) followed by the backend's `construct`.

`validate_data` enters as a CHECK: a function of the config and of the in-memory geff whose only result
is "returns `None`" or "raises".  That it does not touch the in-memory geff it is given is a fact about
the Python code, exercised by the correspondence on every case (`harness/corr/_c01_readcfg.py` compares
what every configuration returns with what was written and with the plain read).  `validateDataOn` is
the instance built from C12's model: the dispatch of `validate_data` (`Geff.Validate.validateData`) with
the four graph validators evaluated on the ids and edges that were read; the sphere / ellipsoid /
tracklet / lineage validators (C12–C14's subjects: float arithmetic, tracks) enter through `DataSide`. -/
namespace Geff.WR
open Geff.Np Geff.Store
open Gen.Paths (NODES EDGES IDS PROPS)

/-- the keyword arguments of `read_to_memory` -/
structure ReadOpts where
  structureValidation : Bool := true
  nodeProps : Option (List String) := none
  edgeProps : Option (List String) := none
  dataValidation : Option Geff.Validate.Config := none
deriving DecidableEq, Repr

/-- `read_node_props(names)` / `read_edge_props(names)`: `None` = the names `GeffReader.__init__` found;
the loaded properties go into a dict, so a name listed twice is loaded once (first position) -/
def selected (sel : Option (List String)) (found : List String) : List String :=
  match sel with
  | none => found
  | some names => Geff.Graph.dedup names

/-- `build()`: "we have to remove the unused properties from the props_metadata" -/
def restrictMeta (md : GeffAttr) (nn en : List String) : GeffAttr :=
  { md with nodeProps := md.nodeProps.filter (fun kv => decide (kv.1 ∈ nn)),
            edgeProps := md.edgeProps.filter (fun kv => decide (kv.1 ∈ en)) }

/-- `GeffReader(source, validate=False)`, `read_node_props(nsel)`, `read_edge_props(esel)`, `build()` -/
def readSel (c : VlenCodec) (s : St) (nsel esel : Option (List String)) : Outcome ReadResult := do
  expectGroup s []
  let md ← readMeta s
  let nodes ← expectArray s [NODES, IDS]
  let edges ← expectArray s [EDGES, IDS]
  let nfound ← propNames s NODES
  let efound ← propNames s EDGES
  let nz ← readProps s [NODES, PROPS] (selected nsel nfound)
  let ez ← readProps s [EDGES, PROPS] (selected esel efound)
  let np ← loadProps c md.nodeProps nz
  let ep ← loadProps c md.edgeProps ez
  pure ⟨nodes, edges, np, ep, restrictMeta md (selected nsel nfound) (selected esel efound)⟩

/-- `read_to_memory(source, structure_validation, node_props, edge_props, data_validation)`.
`validate` is `validate_structure` (C04's model), `vd` is `validate_data`: both only raise or return. -/
def readToMemoryOpts (c : VlenCodec) (validate : St → Outcome Unit)
    (vd : Geff.Validate.Config → ReadResult → Outcome Unit) (o : ReadOpts) (s : St) : Outcome ReadResult := do
  if o.structureValidation then validate s
  let r ← readSel c s o.nodeProps o.edgeProps
  match o.dataValidation with
  | some cfg => vd cfg r
  | none => pure ()
  pure r

/-- `GeffReader(source, validate)` + `read_node_props` + `read_edge_props` + `build()` called by hand -/
def readerBuild (c : VlenCodec) (validate : St → Outcome Unit) (structureValidation : Bool)
    (nsel esel : Option (List String)) (s : St) : Outcome ReadResult := do
  if structureValidation then validate s
  readSel c s nsel esel

/-- `Backend.read`: `read_to_memory(store, structure_validation, node_props, edge_props, data_validation)`,
then `cls.construct(**in_memory_geff)`; the graph and the metadata are returned -/
def geffRead {γ : Type} (construct : ReadResult → Outcome γ) (c : VlenCodec) (validate : St → Outcome Unit)
    (vd : Geff.Validate.Config → ReadResult → Outcome Unit) (o : ReadOpts) (s : St) : Outcome (γ × GeffAttr) := do
  let r ← readToMemoryOpts c validate vd o s
  let g ← construct r
  pure (g, r.md)

/-! ### `validate_data` on what was read (C12's model) -/

/-- the integers of an id array (`none` when an entry is not an integer) -/
def intsOf (a : NdArr) : Option (List Int) :=
  a.flat.mapM (fun v => match v with | .i x => some x | _ => none)

/-- the rows of a flat (E, 2) array -/
def pairsOf : List Int → List (Int × Int)
  | u :: v :: rest => (u, v) :: pairsOf rest
  | _ => []

/-- outcome of each call of `validate_data` (the call plus its `if not valid: raise`): the four graph
validators on the ids and edges at hand (C12's model), the others as given -/
def graphCalls (directed : Bool) (ids : List Int) (edges : List (Int × Int))
    (other : Geff.Validate.Call → Geff.Validate.Outcome) : Geff.Validate.Call → Geff.Validate.Outcome
  | .uniqueNodeIds =>
    if (Geff.Validate.validateUniqueNodeIds ids).1 then .ok else .valueError "Some node ids are not unique:"
  | .nodesForEdges =>
    if (Geff.Validate.validateNodesForEdges ids edges).1 then .ok else .valueError "Some edges are missing nodes:"
  | .noSelfEdges =>
    if (Geff.Validate.validateNoSelfEdges edges).1 then .ok else .valueError "Self edges found in data:"
  | .noRepeatedEdges =>
    if (Geff.Validate.validateNoRepeatedEdges
        (if directed then edges else edges.map Geff.Validate.sortPair)).1 then .ok
    else .valueError "Repeated edges found in data:"
  | c => other c

/-- what lies outside the store-level model: which of `sphere` / `ellipsoid` / `track_node_props` the
metadata declares, and what the sphere / ellipsoid / tracklet / lineage validators do on the data read -/
structure DataSide where
  decl : Geff.Validate.Decl
  other : Geff.Validate.Call → Geff.Validate.Outcome

def ofValidate : Geff.Validate.Outcome → Outcome Unit
  | .ok => pure ()
  | .valueError _ => throw .valueError
  | .other n => throw (.other n)

/-- `validate_data(config=cfg, memory_geff=r)`: raises, or returns `None`.  The in-memory geff is an
input only — the TYPE says so; the code is held to it by the correspondence. -/
def validateDataOn (ds : DataSide) (cfg : Geff.Validate.Config) (r : ReadResult) : Outcome Unit :=
  match intsOf r.nodeIds, intsOf r.edgeIds with
  | some ids, some es =>
    ofValidate (Geff.Validate.validateData cfg ds.decl (graphCalls r.md.directed ids (pairsOf es) ds.other))
  | _, _ => throw (unmodelled "non-integer-ids")

end Geff.WR
