import GeffModel.SchemaEval
import Gen.ValidValues
import Gen.Schema
/-! The schema the pydantic models are expected to export — hand-written, typed, small.
`GeffProps.C08.published_parses_to_spec` / `exported_parses_to_spec` check (kernel computation)
that the file shipped as `geff-schema.json` and the schema exported by the working tree both parse
to exactly this value; every theorem about schema validity is proved against it.

The enumerations are the lists translated from `_valid_values.py` (`Gen.ValidValues`) and the
version pattern is the constant translated from `_schema.py` (`Gen.Schema.VERSION_PATTERN`), so the
obligation also says "the schema's enums are the model's lists".  Keys appear in the translator's
canonical (sorted) order. -/
namespace Geff.Meta.Schema.Spec
open Geff.Meta Geff.Meta.Schema

def S (ref : Option String := none) (type : Option String := none) (enum : Option (List String) := none)
    (minLength : Option Nat := none) (pattern : Option String := none) (anyOf : Option (List Sch) := none)
    (items : Option Sch := none) (required : List String := []) (properties : List (String × Sch) := [])
    (propertyNames : Option Sch := none) (additional : Option Sch := none) : Sch :=
  .mk ref type enum minLength pattern anyOf items required properties propertyNames additional

def str : Sch := S (type := some "string")
def null : Sch := S (type := some "null")
def optString : Sch := S (anyOf := some [str, null])
def optNumber : Sch := S (anyOf := some [S (type := some "number"), null])
def strEnum (vs : List String) : Sch := S (type := some "string") (enum := some vs)
def unit : Sch :=
  S (anyOf := some [str, strEnum Gen.ValidValues.spaceUnits, strEnum Gen.ValidValues.timeUnits, null])
def ref (name : String) : Sch := S (ref := some ("#/$defs/" ++ name))

def axisType : Sch := S (anyOf := some [strEnum Gen.ValidValues.axisTypes, null])

def axis : Sch :=
  S (type := some "object") (required := ["name"])
    (properties := [("max", optNumber), ("min", optNumber), ("name", str), ("offset", optNumber),
                    ("scale", optNumber), ("scaled_unit", unit), ("type", axisType), ("unit", unit)])

def displayHint : Sch :=
  S (type := some "object") (required := ["display_horizontal", "display_vertical"])
    (properties := [("display_depth", optString), ("display_horizontal", str), ("display_time", optString),
                    ("display_vertical", str)])

def nonEmptyStr : Sch := S (type := some "string") (minLength := some 1)
def boolean : Sch := S (type := some "boolean")

def propMetadata : Sch :=
  S (type := some "object") (required := ["dtype", "identifier"])
    (properties := [("description", optString), ("dtype", nonEmptyStr), ("identifier", nonEmptyStr),
                    ("name", optString), ("unit", optString), ("varlength", boolean)])

def relatedObject : Sch :=
  S (type := some "object") (required := ["path", "type"])
    (properties := [("label_prop", optString), ("path", str), ("type", str)])

def propsDict : Sch := S (type := some "object") (additional := some (ref "PropMetadata"))
def axesField : Sch := S (anyOf := some [S (type := some "array") (items := some (ref "Axis")), null])
def displayHintsField : Sch := S (anyOf := some [ref "DisplayHint", null])
def extraField : Sch := S (type := some "object") (additional := some .any)
def versionField : Sch := S (type := some "string") (pattern := some Gen.Schema.VERSION_PATTERN)
def relatedField : Sch := S (anyOf := some [S (type := some "array") (items := some (ref "RelatedObject")), null])
def trackField : Sch :=
  S (anyOf := some [S (type := some "object") (additional := some str)
                      (propertyNames := some (S (enum := some ["lineage", "tracklet"]))), null])

def geffMetadata : Sch :=
  S (type := some "object")
    (required := ["directed", "edge_props_metadata", "geff_version", "node_props_metadata"])
    (properties := [
      ("axes", axesField), ("directed", boolean), ("display_hints", displayHintsField),
      ("edge_props_metadata", propsDict), ("ellipsoid", optString), ("extra", extraField),
      ("geff_version", versionField), ("node_props_metadata", propsDict), ("related_objects", relatedField),
      ("sphere", optString), ("track_node_props", trackField)])

def root : Sch :=
  S (type := some "object") (required := ["geff"]) (properties := [("geff", ref "GeffMetadata")])

def defs : List (String × Sch) :=
  [("#/$defs/Axis", axis), ("#/$defs/DisplayHint", displayHint), ("#/$defs/GeffMetadata", geffMetadata),
   ("#/$defs/PropMetadata", propMetadata), ("#/$defs/RelatedObject", relatedObject)]

def doc : Doc := { root, defs }

end Geff.Meta.Schema.Spec
