import GeffModel.Dataframe
/-! # Run-time library for the source-translated table export (`harness/translators/t18_pydo_dataframe.py`)

The translator turns `geff_to_dataframes` and `geff_to_csv` of `geff/convert/_dataframe.py`, statement
by statement, into Lean `do`-notation (`lean/Gen/Dataframe.lean`).  Everything the generated code
calls is defined here: one small function per pandas / numpy / pathlib operation the source uses,
defined from the primitives of the hand-written model `GeffModel/Dataframe.lean`, with Python's
exceptions as explicit outcomes.  `GeffProofs/DataframeGen.lean` proves the generated functions equal
to the hand-written model for every input.

Two monads:
* `Res` — outcomes of a computation without side effects (`geff_to_dataframes`; the warnings it emits
  are returned next to its result, in emission order);
* `IOM` — outcomes over a world (`geff_to_csv`): the file system `path ↦ content` and the warnings
  emitted so far.  The world survives an exception (a CSV written before `FileExistsError` stays).

What the primitives assume about the libraries (exercised on every run by the C17 correspondence,
which compares the model that the generated code is proved equal to with the implementation):
* numpy: `a.reshape(s)` raises `ValueError` when the number of elements differs and, when the leading
  axis is kept, leaves every `a[r].ravel()` as it is (C order); `a[:, i]` of an `(n, k)` array is the
  1-D array of the i-th entries; `e[:, 0]` / `e[:, 1]` of the `(E, 2)` id array are sources / targets;
* pandas: `pd.Series(x)` of a 1-D array holds its values in order; `s.mask(m)` replaces the flagged
  entries by NaN and raises `ValueError` when the lengths differ; `pd.DataFrame(d)` of a dict whose
  values all have the same length has the dict's keys as columns in insertion order with those
  values (`GeffProps.C17Gen.C17Gen_rows`: that is the only case that arises from a well-formed geff);
  `df.to_csv(path, mode="x")` raises `FileExistsError` when `path` exists and otherwise creates it,
  `mode="w"` creates or truncates; the text written is a function of the frame and of `index=`
  (`CsvEnv.csvText`, uninterpreted);
* pathlib: `str(Path(p).with_suffix(s))` is a function of `p` and `s` that may raise `ValueError`
  (empty name) — `CsvEnv.withSuffix`, uninterpreted;
* `read_to_memory(store)`: the abstract store IS what `read_to_memory` returns for it (C17Links
  discharges its well-formedness from C09/C01).
Core Lean only. -/
namespace Geff.PyDoDf
open Geff.Dataframe

inductive Res (β : Type) where
  | ok (v : β)
  | valueError
  | indexError
  | typeError
  | fileExists
  | unmodelled (why : String)
deriving Repr, DecidableEq

instance instMonadRes : Monad Res where
  pure := .ok
  bind x f := match x with
    | .ok v => f v
    | .valueError => .valueError
    | .indexError => .indexError
    | .typeError => .typeError
    | .fileExists => .fileExists
    | .unmodelled w => .unmodelled w

/-- an outcome of the hand-written model as an outcome of the generated code -/
def ofOutcome {β γ : Type} (f : β → γ) : Outcome β → Res γ
  | .ok v => .ok (f v)
  | .valueError => .valueError
  | .indexError => .indexError

def raiseValueError {β : Type} : Res β := .valueError
def raiseIndexError {β : Type} : Res β := .indexError
def raiseTypeError {β : Type} : Res β := .typeError

/-! ## `read_to_memory` and the in-memory geff -/

/-- the argument `store`, abstracted by what `read_to_memory` returns for it -/
abbrev StoreLike (α : Type) := InMemGeff α
/-- `read_to_memory(store)` -/
def readToMemory {α : Type} (store : StoreLike α) : Res (InMemGeff α) := .ok store

/-- a numpy array with a leading axis: its shape and `a[r].ravel()` for every `r` -/
structure Arr (α : Type) where
  shape : List Nat
  rows : List (List α)
deriving Repr

/-- a `pd.Series` -/
abbrev Series (α : Type) := List (Cell α)

/-- `memory_geff["node_ids"]` (a 1-D array) -/
def nodeIds {α : Type} (g : InMemGeff α) : List α := g.nodeIds
/-- `memory_geff["edge_ids"]` (an `(E, 2)` array) -/
def edgeIds {α : Type} (g : InMemGeff α) : List (α × α) := g.edgeIds
/-- `memory_geff["node_props"]` / `["edge_props"]` -/
def nodeProps {α : Type} (g : InMemGeff α) : List (PropArr α) := g.nodeProps
def edgeProps {α : Type} (g : InMemGeff α) : List (PropArr α) := g.edgeProps
/-- `props.items()` -/
def propsItems {α : Type} (ps : List (PropArr α)) : List (String × PropArr α) := ps.map (fun p => (p.name, p))
/-- `prop["missing"]` -/
def propMissing {α : Type} (p : PropArr α) : Option (List Bool) := p.missing
/-- `prop["values"]`: shape `(n, *trail)` -/
def propValues {α : Type} (p : PropArr α) : Arr α := ⟨p.rows.length :: p.trail, p.rows⟩

/-- `edge_ids[:, i]` on the `(E, 2)` id array -/
def pairCol {α : Type} (e : List (α × α)) (i : Nat) : Res (List α) :=
  if i = 0 then .ok (e.map (·.1)) else if i = 1 then .ok (e.map (·.2)) else .indexError

/-- a 1-D array as a dict value handed to `pd.DataFrame` -/
def arr1Column {α : Type} (l : List α) : Series α := l.map Cell.val

/-! ## numpy -/

/-- `shape[i]` -/
def shapeAt (s : List Nat) (i : Nat) : Res Nat :=
  match s[i]? with
  | some n => .ok n
  | none => .indexError

/-- `a.reshape(s)` -/
def reshape {α : Type} (a : Arr α) (s : List Nat) : Res (Arr α) :=
  if prodNat s ≠ prodNat a.shape then .valueError
  else if s ≠ [] ∧ s.head? = a.shape.head? then .ok ⟨s, a.rows⟩
  else .unmodelled "reshape that does not keep the leading axis"

/-- `a.squeeze()`: numpy removes EVERY axis of extent 1 — the leading one too.  When the leading axis
has extent 1 the result no longer has one row per node / edge (the historical defect D10 of the
export); that case is outside what `Arr` can describe and is reported as such, so that a source
which squeezes the whole array cannot be proved equal to the model. -/
def squeeze {α : Type} (a : Arr α) : Res (Arr α) :=
  match a.shape with
  | [] => .ok a
  | n :: trail =>
    if n = 1 then .unmodelled "squeeze() removes the leading axis of a one-row array"
    else .ok ⟨n :: trail.filter (fun d => d ≠ 1), a.rows⟩

/-- `a[:, i]` -/
def sliceCol {α : Type} (a : Arr α) (i : Nat) : Res (List α) :=
  if a.shape.length < 2 then .indexError
  else if a.shape.length > 2 then .unmodelled "a[:, i] of an array of rank > 2"
  else match colAt i a.rows with
    | some col => .ok col
    | none => .indexError

/-! ## pandas -/

/-- `pd.Series(x)` for a 1-D array given by its values -/
def pdSeries1 {α : Type} (l : List α) : Series α := l.map Cell.val

/-- `pd.Series(a)`: `ValueError` ("Data must be 1-dimensional") for rank ≠ 1 -/
def pdSeries {α : Type} (a : Arr α) : Res (Series α) :=
  if a.shape.length ≠ 1 then .valueError
  else match colAt 0 a.rows with
    | some col => .ok (col.map Cell.val)
    | none => .indexError

/-- `any(missing)`: `TypeError` on `None` -/
def anyOpt (m : Option (List Bool)) : Res Bool :=
  match m with
  | none => .typeError
  | some l => .ok (l.any id)

def maskSeries {α : Type} : Series α → List Bool → Series α
  | c :: cs, m :: ms => (if m then Cell.nan else c) :: maskSeries cs ms
  | _, _ => []

/-- `series.mask(missing)` -/
def seriesMask {α : Type} (s : Series α) (m : Option (List Bool)) : Res (Series α) :=
  match m with
  | none => .unmodelled "Series.mask(None)"
  | some l => if l.length = s.length then .ok (maskSeries s l) else .valueError

/-- `pd.DataFrame(df_dict)`: the dict's columns in insertion order (all of one length, see above) -/
def pdDataFrame {α : Type} (d : Dict α) : Dict α := d

/-- `tuple(l)` -/
def tupleOf {β : Type} (l : List β) : List β := l

/-! ## `geff_to_csv`: a world of files and warnings -/

structure World where
  fs : FS
  warnings : List String
deriving Repr, DecidableEq

def IOM (β : Type) := World → Res β × World

instance instMonadIOM : Monad IOM where
  pure v := fun w => (.ok v, w)
  bind x f := fun w =>
    match x w with
    | (.ok v, w') => f v w'
    | (.valueError, w') => (.valueError, w')
    | (.indexError, w') => (.indexError, w')
    | (.typeError, w') => (.typeError, w')
    | (.fileExists, w') => (.fileExists, w')
    | (.unmodelled s, w') => (.unmodelled s, w')

/-- the operations of pathlib / pandas that are not interpreted -/
structure CsvEnv (α : Type) where
  /-- `str(Path(p).with_suffix(s))`; `none` = `ValueError` -/
  withSuffix : String → String → Option String
  /-- the text `df.to_csv(…, index=b)` writes -/
  csvText : Bool → Dict α → String

/-- `Path(p).with_suffix(s)`, kept as its `str()` -/
def pathWithSuffix {α : Type} (env : CsvEnv α) (p s : String) : IOM String := fun w =>
  match env.withSuffix p s with
  | some r => (.ok r, w)
  | none => (.valueError, w)

/-- a call of the translated `geff_to_dataframes`: its warnings are emitted into the world (when it
raises, the warnings emitted before the exception are not recorded) -/
def callDataframes {α : Type} (r : Res (List (Dict α) × List String)) : IOM (List (Dict α)) := fun w =>
  match r with
  | .ok (frames, ws) => (.ok frames, { w with warnings := w.warnings ++ ws })
  | .valueError => (.valueError, w)
  | .indexError => (.indexError, w)
  | .typeError => (.typeError, w)
  | .fileExists => (.fileExists, w)
  | .unmodelled s => (.unmodelled s, w)

/-- `a, b = t` -/
def unpack2 {β : Type} (l : List β) : IOM (β × β) := fun w =>
  match l with
  | [a, b] => (.ok (a, b), w)
  | _ => (.valueError, w)

/-- `df.to_csv(path, mode=mode, index=index)` -/
def dfToCsv {α : Type} (env : CsvEnv α) (df : Dict α) (path mode : String) (index : Bool) : IOM Unit := fun w =>
  if mode = "w" then (.ok (), { w with fs := fsSet w.fs path (env.csvText index df) })
  else if mode = "x" then
    (if (fsGet w.fs path).isSome then (.fileExists, w)
     else (.ok (), { w with fs := fsSet w.fs path (env.csvText index df) }))
  else (.unmodelled "to_csv mode other than w / x", w)

end Geff.PyDoDf
