import GeffModel.MetaJson
/-! A small JSON-Schema layer for C08 — core Lean only (promoted from `spikes/lean/Sp/SchemaEval.lean`).

* `Sch` — typed abstract syntax for exactly the validation keywords that occur in
  `geff-schema.json`: `$ref`, `type`, `enum` (of strings), `minLength`, `pattern`, `anyOf`, `items`,
  `required`, `properties`, `propertyNames`, `additionalProperties`, and the boolean schemas.
* `ofJson` — fuelled parser from a raw JSON document.  The annotations `title`, `description`,
  `default` are dropped; **any other key makes the parse fail**, so a schema using a keyword the
  evaluator does not implement can never be mistaken for one it does.
* `parseRoot` — the root schema together with its `$defs` (keyed by the `$ref` string).
* `validates` — the evaluator, one recursive equation over per-keyword helpers.  `pattern` is an
  uninterpreted predicate `mp pattern subject` supplied by the caller (Python's `re`, trusted).

The generated schema documents (`Gen.SchemaPublished.doc`, `Gen.SchemaExported.doc`) are only ever
*computed on* by the kernel (`parseRoot doc = some Spec…` by `rfl`); all reasoning is against the
typed value. -/
namespace Geff.Meta.Schema
open Geff.Meta

inductive Sch where
  | any
  | never
  | mk (ref : Option String) (type : Option String) (enum : Option (List String)) (minLength : Option Nat)
       (pattern : Option String) (anyOf : Option (List Sch)) (items : Option Sch)
       (required : List String) (properties : List (String × Sch))
       (propertyNames : Option Sch) (additional : Option Sch)
deriving Repr, Inhabited

def validationKeys : List String :=
  ["$ref", "type", "enum", "minLength", "pattern", "anyOf", "items", "required", "properties",
   "propertyNames", "additionalProperties"]
def annotationKeys : List String := ["title", "description", "default"]

def strOf : J → Option String
  | .str s => some s
  | _ => none

def strsOf : List J → Option (List String)
  | [] => some []
  | x :: xs => match strOf x, strsOf xs with
    | some s, some ss => some (s :: ss)
    | _, _ => none

/-- an optional string-valued keyword: absent → `some none`, a string → `some (some s)`, else fail -/
def optStrKey (kvs : List (String × J)) (k : String) : Option (Option String) :=
  match lookup kvs k with
  | none => some none
  | some (.str s) => some (some s)
  | some _ => none

/-- parser from raw JSON; `extra` lists additional keys tolerated at this level (`$defs` at the root) -/
def ofJsonWith (extra : List String) : Nat → J → Option Sch
  | 0, _ => none
  | _ + 1, .bool true => some .any
  | _ + 1, .bool false => some .never
  | fuel + 1, .obj kvs =>
    let sub (k : String) : Option (Option Sch) :=
      match lookup kvs k with
      | none => some none
      | some j => (ofJsonWith [] fuel j).map some
    let subs (js : List J) : Option (List Sch) :=
      js.foldr (fun j acc => match ofJsonWith [] fuel j, acc with
        | some s, some ss => some (s :: ss)
        | _, _ => none) (some [])
    let props : Option (List (String × Sch)) :=
      match lookup kvs "properties" with
      | none => some []
      | some (.obj ps) =>
        ps.foldr (fun kj acc => match ofJsonWith [] fuel kj.2, acc with
          | some s, some ss => some ((kj.1, s) :: ss)
          | _, _ => none) (some [])
      | some _ => none
    let anyOf : Option (Option (List Sch)) :=
      match lookup kvs "anyOf" with
      | none => some none
      | some (.arr js) => (subs js).map some
      | some _ => none
    let req : Option (List String) :=
      match lookup kvs "required" with
      | none => some []
      | some (.arr js) => strsOf js
      | some _ => none
    let enum : Option (Option (List String)) :=
      match lookup kvs "enum" with
      | none => some none
      | some (.arr js) => (strsOf js).map some
      | some _ => none
    let minLength : Option (Option Nat) :=
      match lookup kvs "minLength" with
      | none => some none
      | some (.int n) => if 0 ≤ n then some (some n.toNat) else none
      | some _ => none
    if kvs.all (fun kv => validationKeys.contains kv.1 || annotationKeys.contains kv.1 || extra.contains kv.1) then
      match optStrKey kvs "$ref", optStrKey kvs "type", optStrKey kvs "pattern", minLength,
            sub "items", sub "propertyNames", sub "additionalProperties", props, anyOf, req, enum with
      | some ref, some type, some pattern, some ml, some items, some pn, some ad, some ps, some ao, some rq, some en =>
        some (.mk ref type en ml pattern ao items rq ps pn ad)
      | _, _, _, _, _, _, _, _, _, _, _ => none
    else none
  | _ + 1, _ => none

def ofJson : Nat → J → Option Sch := ofJsonWith []

/-- a schema document: the root schema and the definitions it refers to, keyed by `#/$defs/<name>` -/
structure Doc where
  root : Sch
  defs : List (String × Sch)
deriving Repr, Inhabited

def parseDefs (fuel : Nat) : List (String × J) → Option (List (String × Sch))
  | [] => some []
  | (name, j) :: rest =>
    match ofJson fuel j, parseDefs fuel rest with
    | some s, some ss => some (("#/$defs/" ++ name, s) :: ss)
    | _, _ => none

def parseRoot (fuel : Nat) (j : J) : Option Doc :=
  match j with
  | .obj kvs =>
    match ofJsonWith ["$defs"] fuel j with
    | none => none
    | some root =>
      match lookup kvs "$defs" with
      | none => some { root, defs := [] }
      | some (.obj ds) => (parseDefs fuel ds).map (fun defs => { root, defs })
      | some _ => none
  | _ => none

/-! ## evaluation -/

def typeOk (t : String) (d : J) : Bool :=
  match d with
  | .null => t == "null"
  | .bool _ => t == "boolean"
  | .int _ => t == "integer" || t == "number"
  | .flt f => t == "number" || (t == "integer" && (match f with
                                                    | .fin _ 0 => true
                                                    | _ => false))
  | .str _ => t == "string"
  | .arr _ => t == "array"
  | .obj _ => t == "object"

def refOk (defs : List (String × Sch)) (rec_ : Sch → J → Bool) (ref : Option String) (doc : J) : Bool :=
  match ref with
  | some r => (match lookup defs r with
    | some s => rec_ s doc
    | none => false)
  | none => true

def scalarOk (mp : String → String → Bool) (type : Option String) (enum : Option (List String))
    (minLength : Option Nat) (pattern : Option String) (doc : J) : Bool :=
  (match type with
   | some t => typeOk t doc
   | none => true) &&
  (match enum with
   | some vs => (match doc with
     | .str s => vs.contains s
     | _ => false)
   | none => true) &&
  (match doc with
   | .str s =>
     (match minLength with
      | some n => decide (n ≤ s.length)
      | none => true) &&
     (match pattern with
      | some p => mp p s
      | none => true)
   | _ => true)

def anyOfOk (rec_ : Sch → J → Bool) (anyOf : Option (List Sch)) (doc : J) : Bool :=
  match anyOf with
  | some ss => ss.any (fun s => rec_ s doc)
  | none => true

def itemsOk (rec_ : Sch → J → Bool) (items : Option Sch) (doc : J) : Bool :=
  match doc with
  | .arr xs => (match items with
    | some s => xs.all (fun x => rec_ s x)
    | none => true)
  | _ => true

def objOk (rec_ : Sch → J → Bool) (required : List String) (properties : List (String × Sch))
    (propertyNames additional : Option Sch) (doc : J) : Bool :=
  match doc with
  | .obj fs =>
    required.all (fun k => (lookup fs k).isSome) &&
    properties.all (fun ks => match lookup fs ks.1 with
      | some v => rec_ ks.2 v
      | none => true) &&
    (match propertyNames with
     | some s => fs.all (fun kv => rec_ s (.str kv.1))
     | none => true) &&
    (match additional with
     | some s => fs.all (fun kv => (properties.map (·.1)).contains kv.1 || rec_ s kv.2)
     | none => true)
  | _ => true

/-- evaluator on the typed syntax (`$ref` resolved through `defs`, `pattern` uninterpreted) -/
def validates (mp : String → String → Bool) (defs : List (String × Sch)) : Nat → Sch → J → Bool
  | 0, _, _ => false
  | _ + 1, .any, _ => true
  | _ + 1, .never, _ => false
  | fuel + 1, .mk ref type enum minLength pattern anyOf items required properties propertyNames additional, doc =>
    refOk defs (validates mp defs fuel) ref doc &&
    scalarOk mp type enum minLength pattern doc &&
    anyOfOk (validates mp defs fuel) anyOf doc &&
    itemsOk (validates mp defs fuel) items doc &&
    objOk (validates mp defs fuel) required properties propertyNames additional doc

/-- nesting depth that is enough for `geff-schema.json` (no recursive `$ref`) -/
def evalFuel : Nat := 12
def parseFuel : Nat := 12

/-- verdict of a raw schema document on an instance (`false` when the schema does not parse) -/
def verdict (mp : String → String → Bool) (schema : J) (inst : J) : Bool :=
  match parseRoot parseFuel schema with
  | some d => validates mp d.defs evalFuel d.root inst
  | none => false

end Geff.Meta.Schema
