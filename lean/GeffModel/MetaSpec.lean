import GeffModel.Meta
/-! The format's invariants on a metadata value (the specification side of C07/C08), decidable so
that the driver can evaluate them on the implementation's observed `model_dump()`.

Written from the property text: *the version string matches the version pattern, axis names are
unique, display hints name declared axes, each property-metadata key equals its identifier and its
dtype is one of the allowed names, an axis has min and max both or neither with min <= max, a scaled
unit comes with a scale, and a label property appears only on 'labels' objects* — plus the two
value constraints the published schema adds (axis `type` is one of the axis types, a property
identifier is non-empty, `track_node_props` keys are `lineage`/`tracklet`).

Readings (DESIGN.md §5 C07): hints are checked against the axes only when axes are declared; an
empty string is not a unit (`scaled_unit=""` needs no scale — the code tests truthiness).

The order used for `min <= max` is a parameter so that the same definition gives the specification
(`Valid`: IEEE `<=`, false for NaN) and what the validator actually enforces (`ValidCode`: "not
`min > max`", true for NaN). -/
namespace Geff.Meta

def Axis.ValidBy (ord : F → F → Bool) (a : Axis) : Prop :=
  (∀ t ∈ a.type, t ∈ Gen.ValidValues.axisTypes) ∧
  (a.min.isSome = a.max.isSome) ∧
  (∀ lo ∈ a.min, ∀ hi ∈ a.max, ord lo hi = true) ∧
  (∀ u ∈ a.scaled_unit, u ≠ "" → a.scale.isSome = true)

instance (ord : F → F → Bool) (a : Axis) : Decidable (a.ValidBy ord) := by
  unfold Axis.ValidBy; infer_instance

def PropMeta.Valid (p : PropMeta) : Prop :=
  1 ≤ p.identifier.length ∧ p.dtype ∈ Gen.ValidValues.dtypes

instance (p : PropMeta) : Decidable p.Valid := by unfold PropMeta.Valid; infer_instance

/-- every key equals the identifier of its entry, and every entry is valid -/
def PropsValid (d : List (String × PropMeta)) : Prop :=
  ∀ kv ∈ d, kv.1 = kv.2.identifier ∧ kv.2.Valid

instance (d : List (String × PropMeta)) : Decidable (PropsValid d) := by unfold PropsValid; infer_instance

/-- a label property appears only on 'labels' objects -/
def RelatedObject.Valid (r : RelatedObject) : Prop := ∀ _l ∈ r.label_prop, r.type = "labels"

instance (r : RelatedObject) : Decidable r.Valid := by unfold RelatedObject.Valid; infer_instance

/-- every axis a display hint mentions is declared -/
def HintValid (names : List String) (h : DisplayHint) : Prop :=
  h.display_horizontal ∈ names ∧ h.display_vertical ∈ names ∧
  (∀ d ∈ h.display_depth, d ∈ names) ∧ (∀ t ∈ h.display_time, t ∈ names)

instance (names : List String) (h : DisplayHint) : Decidable (HintValid names h) := by
  unfold HintValid; infer_instance

def ValidBy (ord : F → F → Bool) (env : Env) (m : Meta) : Prop :=
  env.versionOk m.geff_version = true ∧
  (∀ l ∈ m.axes, (axisNames l).Nodup ∧ (∀ a ∈ l, a.ValidBy ord) ∧
      (∀ h ∈ m.display_hints, HintValid (axisNames l) h)) ∧
  PropsValid m.node_props_metadata ∧ PropsValid m.edge_props_metadata ∧
  (∀ t ∈ m.track_node_props, ∀ kv ∈ t, kv.1 ∈ trackKeys) ∧
  (∀ l ∈ m.related_objects, ∀ r ∈ l, r.Valid)

instance (ord : F → F → Bool) (env : Env) (m : Meta) : Decidable (ValidBy ord env m) := by
  unfold ValidBy; infer_instance

/-- **the specification**: the format's invariants, `min <= max` being IEEE `<=` -/
def Valid (env : Env) (m : Meta) : Prop := ValidBy F.le env m

/-- "not `a > b`" — the order test `Axis._validate_model` actually performs -/
def ordCode (a b : F) : Bool := !F.gt a b

/-- what the validators enforce: the same with "not `min > max`" (which a NaN bound passes) -/
def ValidCode (env : Env) (m : Meta) : Prop := ValidBy ordCode env m

instance (env : Env) (m : Meta) : Decidable (Valid env m) := by unfold Valid; infer_instance
instance (env : Env) (m : Meta) : Decidable (ValidCode env m) := by unfold ValidCode; infer_instance

/-- no axis bound is NaN -/
def NoNaNBounds (m : Meta) : Prop :=
  ∀ l ∈ m.axes, ∀ a ∈ l, (∀ lo ∈ a.min, lo.isNaN = false) ∧ (∀ hi ∈ a.max, hi.isNaN = false)

instance (m : Meta) : Decidable (NoNaNBounds m) := by unfold NoNaNBounds; infer_instance

/-- which clause of the specification a value violates first (for classifying failures) -/
def firstViolation (env : Env) (m : Meta) : String :=
  if ¬ env.versionOk m.geff_version = true then "version-pattern"
  else if ¬ (∀ l ∈ m.axes, (axisNames l).Nodup) then "duplicate-axis-names"
  else if ¬ (∀ l ∈ m.axes, ∀ a ∈ l, ∀ t ∈ a.type, t ∈ Gen.ValidValues.axisTypes) then "axis-type"
  else if ¬ (∀ l ∈ m.axes, ∀ a ∈ l, a.min.isSome = a.max.isSome) then "axis-min-max-both-or-neither"
  else if ¬ NoNaNBounds m then "nan-axis-bound"
  else if ¬ (∀ l ∈ m.axes, ∀ a ∈ l, ∀ lo ∈ a.min, ∀ hi ∈ a.max, F.le lo hi = true) then "axis-min-gt-max"
  else if ¬ (∀ l ∈ m.axes, ∀ a ∈ l, ∀ u ∈ a.scaled_unit, u ≠ "" → a.scale.isSome = true) then "scaled-unit-without-scale"
  else if ¬ (∀ l ∈ m.axes, ∀ h ∈ m.display_hints, HintValid (axisNames l) h) then "display-hint-unknown-axis"
  else if ¬ (PropsValid m.node_props_metadata ∧ PropsValid m.edge_props_metadata) then "props-metadata"
  else if ¬ (∀ t ∈ m.track_node_props, ∀ kv ∈ t, kv.1 ∈ trackKeys) then "track-node-props-key"
  else if ¬ (∀ l ∈ m.related_objects, ∀ r ∈ l, r.Valid) then "label-prop-on-non-labels"
  else "valid"

end Geff.Meta
