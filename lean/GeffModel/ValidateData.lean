import GeffModel.Graph
import Gen.ValidateDispatch
/-! Model of `geff.validate.graph`, `geff.validate.shapes` (shape stage and sphere) and of the
dispatch in `geff.validate.data.validate_data` (C12), as repaired by `fixes/C12-01 … C12-03`.

Integers are mathematical (`Int`): numpy's `unique` / `isin` / `==` / `sort` are exact on
same-dtype integer arrays, which the correspondence exercises for all eight integer dtypes with
values at the limits.  Floats occur only as radii, as IEEE-754 binary64 bit patterns, and the only
operation on them is the comparison `< 0`. -/
namespace Geff.Validate
open Geff.Graph

/-! ## `validate/graph.py` -/
/-- lexicographic order of the structured view `[("", dtype)] * 2` that `np.unique` sorts by -/
def lexLe (a b : Int × Int) : Bool := decide (a.1 < b.1 ∨ (a.1 = b.1 ∧ a.2 ≤ b.2))

/-- insertion sort (structural recursion, so that `decide` can evaluate the model) -/
def insertBy {β : Type} (le : β → β → Bool) (x : β) : List β → List β
  | [] => [x]
  | y :: ys => if le x y then x :: y :: ys else y :: insertBy le x ys
def isort {β : Type} (le : β → β → Bool) : List β → List β
  | [] => []
  | x :: xs => insertBy le x (isort le xs)

/-- `np.unique`: the distinct values in ascending order -/
def npUnique (l : List Int) : List Int := isort (fun a b => decide (a ≤ b)) (dedup l)
def npUniqueRows (l : List (Int × Int)) : List (Int × Int) := isort lexLe (dedup l)

/-- `validate_unique_node_ids`: `unique_ids[counts > 1]` -/
def validateUniqueNodeIds (ids : List Int) : Bool × List Int :=
  let off := (npUnique ids).filter (fun x => 1 < ids.count x)
  (off.isEmpty, off)

/-- `validate_nodes_for_edges`: `edge_ids[~(isin(src) & isin(tgt))]` (row order and repeats kept) -/
def validateNodesForEdges (ids : List Int) (edges : List (Int × Int)) : Bool × List (Int × Int) :=
  let off := edges.filter (fun e => !(decide (e.1 ∈ ids) && decide (e.2 ∈ ids)))
  (off.isEmpty, off)

/-- `validate_no_self_edges`: `np.unique(edge_ids[src == tgt, 0])` -/
def validateNoSelfEdges (edges : List (Int × Int)) : Bool × List Int :=
  let off := npUnique ((edges.filter (fun e => e.1 = e.2)).map (·.1))
  (off.isEmpty, off)

/-- `validate_no_repeated_edges`: first occurrence of every row that `np.unique` counts twice or
more, in the sorted order of the unique rows -/
def validateNoRepeatedEdges (edges : List (Int × Int)) : Bool × List (Int × Int) :=
  let off := (npUniqueRows edges).filter (fun e => 1 < edges.count e)
  (off.isEmpty, off)

/-- `np.sort(edge_ids, axis=1)` on one row -/
def sortPair (e : Int × Int) : Int × Int := if e.1 ≤ e.2 then e else (e.2, e.1)

inductive Outcome where
  | ok
  | valueError (msg : String)
  | other (name : String)
deriving DecidableEq, Repr

/-- the `if config.graph:` block of `validate_data` (messages up to the first line break) -/
def graphStage (directed : Bool) (ids : List Int) (edges : List (Int × Int)) : Outcome :=
  if !(validateUniqueNodeIds ids).1 then .valueError "Some node ids are not unique:"
  else if !(validateNodesForEdges ids edges).1 then .valueError "Some edges are missing nodes:"
  else if !(validateNoSelfEdges edges).1 then .valueError "Self edges found in data:"
  else if !(validateNoRepeatedEdges (if directed then edges else edges.map sortPair)).1 then
    .valueError "Repeated edges found in data:"
  else .ok

/-! ## `validate/shapes.py` -/
/-- a radius entry: an integer, or a binary64 bit pattern -/
inductive Num where
  | int (v : Int)
  | f64 (bits : Nat)
deriving DecidableEq, Repr

/-- numpy's `x < 0`: for a float, sign bit set, magnitude non-zero, not a NaN (−inf included) -/
def Num.ltZero : Num → Bool
  | .int v => decide (v < 0)
  | .f64 b => decide (2 ^ 63 < b ∧ b ≤ 2 ^ 63 + 0x7FF0000000000000)

/-- `a[~missing]` along the first axis; numpy raises IndexError when the lengths differ — except
for an EMPTY boolean index, which numpy accepts on an array of any length and which selects nothing
(`np.array([1., -2.])[~np.asarray([], dtype=bool)]` is `array([])`; `zip` with `[]` is `[]`) -/
def applyMask {β : Type} (xs : List β) (missing : Option (List Bool)) : Option (List β) :=
  match missing with
  | none => some xs
  | some m =>
    if m.length = xs.length ∨ m = [] then some ((xs.zip m).filterMap fun p => if p.2 then none else some p.1)
    else none

/-- `validate_sphere(radius, missing)`: `ndim` is `radius.ndim`, `flat` the entries when 1-D -/
def validateSphere (ndim : Nat) (flat : List Num) (missing : Option (List Bool)) : Outcome :=
  if ndim ≠ 1 then .valueError "Sphere radius values must be 1D"
  else match applyMask flat missing with
    | none => .other "IndexError"
    | some r => if r.any Num.ltZero then .valueError "Sphere radius values must be non-negative." else .ok

/-- `spatial_dim`: number of axes of type "space" (`None` axes count as none) -/
def spaceAxes (axes : Option (List String)) : Nat :=
  match axes with
  | none => 0
  | some l => (l.filter (· = "space")).length

/-- the stages of `validate_ellipsoid` that precede the float linear algebra: `axes` is the list of
axis types (`none` = no axes in the metadata), `shape` the shape of the covariance array.
`ok` = the symmetric / positive-definite tests are reached. -/
def ellipsoidShapeStage (axes : Option (List String)) (shape : List Nat) : Outcome :=
  if spaceAxes axes = 0 then .valueError "Must define space axes in order to have ellipsoid data"
  else match shape with
    | [_, d1, d2] =>
      if d1 ≠ d2 then .valueError "Spatial dimensions of covariance matrix must be equal"
      else if d1 ≠ spaceAxes axes then .valueError "Ellipsoid covariance matrix must have … spatial dimensions"
      else .ok
    | _ => .valueError "Ellipsoid covariance matrix must have 3 dimensions"

/-- `validate_ellipsoid(covariance, axes, missing)` with the float linear algebra abstracted:
`sym[i]` / `pd[i]` say whether matrix `i` passes `np.allclose(A, Aᵀ)` / `all(eigvals(A) > 0)`
(both numpy tests act matrix by matrix on the stack).  Rows flagged missing are dropped after the
shape stage and before the two tests. -/
def validateEllipsoid (axes : Option (List String)) (shape : List Nat) (sym pd : List Bool)
    (missing : Option (List Bool)) : Outcome :=
  match ellipsoidShapeStage axes shape with
  | .ok =>
    match applyMask (sym.zip pd) missing with
    | none => .other "IndexError"
    | some r =>
      if !(r.all (·.1)) then .valueError "Ellipsoid covariance matrices must be symmetric"
      else if !(r.all (·.2)) then .valueError "Ellipsoid covariance matrices must be positive-definite"
      else .ok
  | e => e

/-! ## dispatch of `validate_data` -/
inductive Flag where
  | graph | sphere | ellipsoid | lineage | tracklet
deriving DecidableEq, Repr

def Flag.name : Flag → String
  | .graph => "graph" | .sphere => "sphere" | .ellipsoid => "ellipsoid"
  | .lineage => "lineage" | .tracklet => "tracklet"

/-- `ValidationConfig` -/
structure Config where
  graph : Bool := false
  sphere : Bool := false
  ellipsoid : Bool := false
  lineage : Bool := false
  tracklet : Bool := false
deriving DecidableEq, Repr

def Config.get (c : Config) : Flag → Bool
  | .graph => c.graph | .sphere => c.sphere | .ellipsoid => c.ellipsoid
  | .lineage => c.lineage | .tracklet => c.tracklet

/-- what the metadata declares: `meta.sphere` / `meta.ellipsoid` set, and the keys of
`meta.track_node_props` (`none` = the field is `None`) -/
structure Decl where
  sphere : Bool
  ellipsoid : Bool
  trackProps : Option (Bool × Bool)   -- ("tracklet" ∈ keys, "lineage" ∈ keys)
deriving DecidableEq, Repr

inductive Guard where
  | cfg (f : Flag)
  | metaSet (f : Flag)        -- `meta.sphere is not None`, `meta.ellipsoid is not None`
  | trackPropsSet             -- `meta.track_node_props is not None`
  | trackHas (f : Flag)       -- `"tracklet" in meta.track_node_props`
deriving DecidableEq, Repr

def Guard.holds (c : Config) (d : Decl) : Guard → Bool
  | .cfg f => c.get f
  | .metaSet .sphere => d.sphere
  | .metaSet .ellipsoid => d.ellipsoid
  | .metaSet _ => false
  | .trackPropsSet => d.trackProps.isSome
  | .trackHas .tracklet => match d.trackProps with | some (t, _) => t | none => false
  | .trackHas .lineage => match d.trackProps with | some (_, l) => l | none => false
  | .trackHas _ => false

/-- the validator calls (each together with its `if not valid: raise`) -/
inductive Call where
  | uniqueNodeIds | nodesForEdges | noSelfEdges | noRepeatedEdges | sphere | ellipsoid | tracklets | lineages
deriving DecidableEq, Repr

def Call.pyName : Call → String
  | .uniqueNodeIds => "validate_unique_node_ids" | .nodesForEdges => "validate_nodes_for_edges"
  | .noSelfEdges => "validate_no_self_edges" | .noRepeatedEdges => "validate_no_repeated_edges"
  | .sphere => "validate_sphere" | .ellipsoid => "validate_ellipsoid"
  | .tracklets => "validate_tracklets" | .lineages => "validate_lineages"

/-- the dispatch of `validate_data`: every call with the `if` tests that dominate it, in source
order.  `GeffProps.C12.C12_dispatch_table_current` checks that this is what the translator T7
extracts from the current source. -/
def dispatchTable : List (Call × List Guard) :=
  [(.uniqueNodeIds, [.cfg .graph]), (.nodesForEdges, [.cfg .graph]),
   (.noSelfEdges, [.cfg .graph]), (.noRepeatedEdges, [.cfg .graph]),
   (.sphere, [.cfg .sphere, .metaSet .sphere]),
   (.ellipsoid, [.cfg .ellipsoid, .metaSet .ellipsoid]),
   (.tracklets, [.trackPropsSet, .cfg .tracklet, .trackHas .tracklet]),
   (.lineages, [.trackPropsSet, .cfg .lineage, .trackHas .lineage])]

def Guard.toGen : Guard → Gen.ValidateDispatch.Atom
  | .cfg f => .cfg f.name
  | .metaSet f => .metaSet f.name
  | .trackPropsSet => .metaSet "track_node_props"
  | .trackHas f => .trackHas f.name

/-- the calls that are evaluated (as long as none raises), in order -/
def called (c : Config) (d : Decl) : List Call :=
  (dispatchTable.filter (fun p => p.2.all (Guard.holds c d))).map (·.1)

/-- first outcome that is not `ok` -/
def firstError : List Outcome → Outcome
  | [] => .ok
  | .ok :: rest => firstError rest
  | e :: _ => e

/-- `validate_data`: `result call` is what evaluating that call (and its `raise`) would produce -/
def validateData (c : Config) (d : Decl) (result : Call → Outcome) : Outcome :=
  firstError ((called c d).map result)

end Geff.Validate
