import GeffModel.Dicts
/-! # Run-time library for the source-translated dict layer (`harness/translators/t23_pydo_dict_layer.py`)

Translator T23 turns `_determine_default_value`, `dict_props_to_arr` and `write_dicts`
(`geff/core_io/_base_write.py`) statement by statement into Lean `do`-blocks in the monad
`Except Geff.Dicts.Err` (`Gen/DictLayer.lean`).  Everything the generated code calls is defined here,
one small total function per Python / numpy operation the source uses, DEFINED FROM the primitives
of the hand-written C03 model (`GeffModel/Dicts.lean`: `discover`, `joinAll`, `castRow`, `pyShape`,
`pyLeaves`, `isInt`, `inU64`, `varLenWithNone`, …) and with Python's exceptions as explicit outcomes.
`GeffProofs/DictLayerGen.lean` proves the generated functions equal to the hand-written model.

What the primitives assume about numpy (tied by the C03 correspondence, which runs the model the
generated code is proved equal to against the implementation, and by the inference tables of
`GeffModel/NpCast.lean` re-derived from the installed numpy on every run):
* `np.asarray(list)` raises `ValueError` ("inhomogeneous shape") exactly when the entries do not all
  have one shape — `None` next to a list included —, and otherwise has the joined dtype of the
  leaves (`Dicts.joinAll ∘ discover`); `None` without any list gives an object array (outside the
  model: `Err.unmodelled`);
* an array is known by its dtype, whether it is an object array of arrays (`varlen`), and its rows;
  the rows are computed lazily (`Except`): the conversion of `[2^63, 5]` to float64 that
  `np.asarray` performs before `_exact_int_array` replaces it is never observed, and a cast the model
  does not cover (`Err.unmodelled`) surfaces only where the array is stored into the result.
Core Lean only. -/
namespace Geff.PyDoDicts
open Geff.Np Geff.Dicts

/-! ## Python objects: classes, `isinstance`, `type(v)(0)` -/

/-- the builtin classes the source dispatches on -/
inductive PyClass where
  | bool | int | float | str
deriving DecidableEq, Repr

/-- `isinstance(v, C)` for one class; `bool` is a subclass of `int` -/
def instOf : PyVal → PyClass → Bool
  | .sc (.b _), .bool => true
  | .sc (.b _), .int => true
  | .sc (.i _), .int => true
  | .sc (.f _), .float => true
  | .sc (.s _), .str => true
  | _, _ => false

/-- `isinstance(v, A | B | …)` -/
def pyIsInstance (v : PyVal) (cs : List PyClass) : Bool := cs.any (instOf v)

/-- `type(v)(0)`: `False`, `0`, `0.0`, `"0"`; `NoneType(0)` and `list(0)` are `TypeError`
(`np.ndarray(0)` would be an empty array; lists and arrays are one constructor here, and the source
never reaches this call with either) -/
def typeCallZero : PyVal → Except Err PyVal
  | .sc (.b _) => .ok (.sc (.b false))
  | .sc (.i _) => .ok (.sc (.i 0))
  | .sc (.f _) => .ok (.sc (.f zeroBits))
  | .sc (.s _) => .ok (.sc (.s "0"))
  | .arr _ _ => .error .typeError
  | .none => .error .typeError

/-- `v is None` -/
abbrev isNone (v : PyVal) : Bool := v.isNone

/-! ## `dict[str, …]` -/

/-- `k in d` -/
def dictContains {α : Type} (d : List (String × α)) (k : String) : Bool := (d.lookup k).isSome

/-- `d[k]` (`KeyError`) -/
def dictGetItem {α : Type} (d : List (String × α)) (k : String) : Except Err α :=
  match d.lookup k with
  | some v => .ok v
  | none => .error .keyError

/-- `d[k] = v` on an insertion-ordered dict: an existing key keeps its position -/
def dictSetItem {α : Type} : List (String × α) → String → α → List (String × α)
  | [], k, v => [(k, v)]
  | (k', v') :: t, k, v => if k' = k then (k, v) :: t else (k', v') :: dictSetItem t k v

/-! ## arrays -/

/-- an ndarray as the dict layer sees it (rows lazily, see the header) -/
structure NArr where
  dtype : Dtype
  /-- object array of ndarrays (variable-length property) -/
  varlen : Bool
  rows : Except Err (List Row)

/-- `np.asarray(values, dtype=d)` for values of one shape -/
def asarrayAs (d : Dtype) (vals : List PyVal) : NArr :=
  { dtype := d, varlen := false, rows := mapE (fun y => castRow d (pyRow y)) vals }

/-- `np.asarray(values)` for a list of Python values -/
def npAsarray (vals : List PyVal) : Except Err NArr :=
  if vals.any PyVal.isNone then
    if vals.any PyVal.isArr then .error .valueError
    else .error (.unmodelled "object array holding None")
  else
    match vals with
    | [] => .ok { dtype := .f64, varlen := false, rows := .ok [] }
    | x :: _ =>
      if vals.all (fun y => pyShape y = pyShape x) then
        .ok (asarrayAs (joinAll ((vals.flatMap pyLeaves).map discover)) vals)
      else .error .valueError

/-- `_exact_int_array(values, arr)` for `arr = np.asarray(values)` (repairs C03-02 / C03-03): when the
inferred dtype is float64 or uint64, the array is not empty and every leaf is a Python integer (not
bool), the array is rebuilt as `np.asarray(values, dtype=np.uint64)` — `OverflowError` when a leaf
does not fit; otherwise `arr` itself -/
def exactIntArray (values : List PyVal) (arr : NArr) : Except Err NArr :=
  if (arr.dtype = .f64 ∨ arr.dtype = .u64) ∧ values.flatMap pyLeaves ≠ [] ∧ (values.flatMap pyLeaves).all isInt then
    if (values.flatMap pyLeaves).all inU64 then .ok (asarrayAs .u64 values) else .error .overflowError
  else .ok arr

/-- the result of `construct_var_len_props`: `{"values": …, "missing": … | None}` -/
structure VarLenProps where
  values : NArr
  missing : Option (List Bool)

/-- `construct_var_len_props(values)` as the hand-written model has it (`Dicts.varLenWithNone`) -/
def constructVarLenPropsModel (vals : List PyVal) : Except Err VarLenProps :=
  match varLenWithNone vals with
  | .error e => .error e
  | .ok (d, rows, m) => .ok { values := { dtype := d, varlen := true, rows := .ok rows }, missing := m }

/-- `[m or bool(n) for m, n in zip(a, b, strict=True)]` where `b` may be `None` (`TypeError`: not
iterable); `ValueError` when the lengths differ -/
def zipStrictOr (a : List Bool) (b : Option (List Bool)) : Except Err (List Bool) :=
  match b with
  | none => .error .typeError
  | some b => if a.length = b.length then .ok (orMasks a b) else .error .valueError

/-- `np.asarray(mask, dtype=bool)` of a list of Python bools -/
def asarrayBool (m : List Bool) : List Bool := m

/-- `{"missing": m, "values": v}`: the column that is stored under the property's name; this is
where the contents of the values array are needed -/
def mkPropDict (missing : Option (List Bool)) (values : NArr) : Except Err Col :=
  match values.rows with
  | .error e => .error e
  | .ok rows => .ok { dtype := values.dtype, varlen := values.varlen, rows := rows, missing := missing }

/-- `try: body  except ValueError: handler` -/
def tryExceptValueError {α : Type} (body : Except Err α) (handler : Except Err α) : Except Err α :=
  match body with
  | .error .valueError => handler
  | r => r

def raiseValueError {α : Type} : Except Err α := .error .valueError

/-! ## `write_dicts`: the id arrays -/

/-- an integer ndarray built from Python ints: the dtype numpy inferred and the ints it was built
from (for float64 — a mix of ints below and above 2^63 — the stored values are the ROUNDED ints;
`_exact_int_array` replaces such an array before its contents are used, and `astypeUint` refuses it) -/
structure IdArr where
  dtype : Dtype
  src : List Int
deriving DecidableEq, Repr

/-- an `(E, 2)` integer ndarray -/
structure EdgeArr where
  dtype : Dtype
  pairs : List (Int × Int)
deriving DecidableEq, Repr

/-- `list(x)` of a list -/
abbrev pyList {α : Type} (l : List α) : List α := l

/-- `[idx for idx, _ in data]` -/
def idsOf {α ι : Type} (data : List (α × ι)) : List α := data.map (·.1)

/-- `np.asarray(ids)` of Python ints: numpy's inference (`Dicts.discover`, `joinAll`) -/
def npAsarrayInts (ids : List Int) : IdArr := { dtype := joinAll (ids.map (fun v => discover (.i v))), src := ids }

/-- `any(arr < 0)` (the sign survives the rounding to float64 and the object dtype) -/
def anyLtZero (a : IdArr) : Bool := a.src.any (· < 0)

/-- `_exact_int_array(ids, arr)` for `arr = np.asarray(ids)` of Python ints -/
def exactIntArrayIds (values : List Int) (arr : IdArr) : Except Err IdArr :=
  if (arr.dtype = .f64 ∨ arr.dtype = .u64) ∧ values ≠ [] then
    if values.all (fun v => decide (0 ≤ v ∧ v < two64)) then .ok { dtype := .u64, src := values }
    else .error .overflowError
  else .ok arr

/-- `np.issubdtype(d, np.integer)` -/
def isIntegerDtype (d : Dtype) : Bool := d.isSigned || d.isUnsigned

/-- `arr.astype("uint")`: int64 wraps modulo 2^64, uint64 is unchanged, an object array of Python
ints raises `OverflowError` for a value outside `[0, 2^64)`… and C `long` range; the float64 case
(rounded values) is never reached from a list of Python ints and is outside the model -/
def astypeUint (a : IdArr) : Except Err IdArr :=
  match a.dtype with
  | .i64 => .ok { dtype := .u64, src := a.src.map (fun v => if v < 0 then v + two64 else v) }
  | .u64 => .ok a
  | .obj => if a.src.all (fun v => decide (0 ≤ v ∧ v < two64)) then .ok { dtype := .u64, src := a.src }
            else .error .overflowError
  | _ => .error (.unmodelled "astype(uint) of a non-integer array")

/-- `np.empty((0,), dtype=np.uint64)` -/
def emptyIds : IdArr := { dtype := .u64, src := [] }

/-- `np.asarray(edge_ids, dtype=d)` of pairs of Python ints (`OverflowError` outside the dtype) -/
def asarrayPairs (es : List (Int × Int)) (d : Dtype) : Except Err EdgeArr :=
  if d = .u64 then
    if es.all (fun e => decide (0 ≤ e.1 ∧ e.1 < two64 ∧ 0 ≤ e.2 ∧ e.2 < two64)) then .ok { dtype := .u64, pairs := es }
    else .error .overflowError
  else .error (.unmodelled "edge ids of a dtype other than uint64")

/-- `np.empty((0, 2), dtype=d)` -/
def emptyPairs (d : Dtype) : EdgeArr := { dtype := d, pairs := [] }

/-- the arguments `write_dicts` hands to `write_arrays` (fields = the callee's parameter names; the
parameters `node_props_unsquish`, `edge_props_unsquish`, `overwrite` are left at their defaults) -/
structure WriteArraysArgs (σ μ φ : Type) where
  geffStore : σ
  nodeIds : IdArr
  nodeProps : List (String × Col)
  edgeIds : EdgeArr
  edgeProps : List (String × Col)
  metadata : μ
  zarrFormat : φ
  structureValidation : Bool

end Geff.PyDoDicts
