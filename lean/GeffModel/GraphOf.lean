import GeffModel.WriteRead
import GeffModel.SpecDecode
/-! The abstract graph an in-memory geff (what `read_to_memory` returns) stands for — the abstraction
function of C02's statements: ids, edges, and per property one cell per element, `none` where the
missing mask is set. -/
namespace Geff.Spec
open Geff.Np Geff.Store Geff.WR

def bitsOf (m : Option NdArr) (n : Nat) : List Bool :=
  match m with
  | none => List.replicate n false
  | some m => m.flat.map (fun v => v == .b true)

def propD (p : PropArr) : PropD :=
  match p.values with
  | .dense a =>
    let n := a.shape.head?.getD 0
    let tail := a.shape.tail
    ⟨false, applyMask ((rowsOf (size tail) n a.flat).map (fun r => ({ dtype := a.dtype, shape := tail, flat := r } : NdArr)))
      (bitsOf p.missing n)⟩
  | .obj es => ⟨true, applyMask es (bitsOf p.missing es.length)⟩

def graphOf (r : ReadResult) : Graph :=
  ⟨r.md.directed, r.nodeIds.dtype, r.nodeIds.flat, pairs r.edgeIds.flat,
    r.nodeProps.map (fun kp => (kp.1, propD kp.2)), r.edgeProps.map (fun kp => (kp.1, propD kp.2))⟩

end Geff.Spec
