import GeffModel.Store
import GeffModel.Structure
/-! The flat store of `GeffModel/Store.lean` seen as the tree `validate_structure` is modelled on
(`GeffModel/Structure.lean`, C04): `toTarget` keeps of every array its dtype and shape, nests the
children of every group (in store order), and reads the parsed metadata off the root attributes.
With it the structural validator becomes a function of the flat store (`validate`), which is what
`write_arrays` / `read_to_memory` call in their default configuration. -/
namespace Geff.Bridge
open Geff.Np Geff.Store

def arrOf (a : NdArr) : Geff.Structure.Arr := ⟨a.dtype, a.shape⟩

/-- the members of group `p`, each seen to depth `fuel` -/
def nodeAt : Nat → St → Path → Option Geff.Structure.Node
  | 0, _, _ => none
  | fuel + 1, s, p =>
    match get s p with
    | none => none
    | some (.array a) => some (.array (arrOf a))
    | some (.group _) =>
      some (.group ((childNames s p).filterMap (fun k => (nodeAt fuel s (p ++ [k])).map (fun n => (k, n)))))

/-- a stored metadata entry as pydantic hands it to the validator: the dtype name parsed, `varlength`
defaulted -/
def propMetaOf (pm : PropMeta) : Option Geff.Structure.PropMeta :=
  (Dtype.ofName? pm.dtype).map (fun d => ⟨d, pm.varlength.getD false⟩)

def metasOf : List (String × PropMeta) → Option (List (String × Geff.Structure.PropMeta))
  | [] => some []
  | (k, pm) :: t =>
    match propMetaOf pm, metasOf t with
    | some m, some r => some ((k, m) :: r)
    | _, _ => none

/-- what `GeffMetadata.read` finds on the root group -/
def metaReadOf (s : St) : Geff.Structure.MetaRead :=
  match get s [] with
  | some (.group attrs) =>
    match ((attrs.find? (fun kv => kv.1 = "geff")).map (·.2) : Option AttrVal) with
    | none => .noGeffKey
    | some AttrVal.other => .invalid
    | some (AttrVal.geff m) =>
      match metasOf m.nodeProps, metasOf m.edgeProps with
      | some np, some ep => .ok ⟨np, ep, m.axes⟩
      | _, _ => .invalid
  | _ => .noGeffKey

/-- depth of a geff: root / nodes / props / name / values — 8 levels are more than enough -/
def depth : Nat := 8

def toTarget (s : St) : Geff.Structure.Target := .store (nodeAt depth s []) (metaReadOf s)

/-- `validate_structure(store)` on the flat store -/
def validate (s : St) : Outcome Unit :=
  match Geff.Structure.validateStructure (toTarget s) with
  | .ok () => pure ()
  | .error .valueError => throw .valueError
  | .error .fileNotFound => throw (.other "FileNotFoundError")
  | .error (.other n) => throw (.other n)

end Geff.Bridge
