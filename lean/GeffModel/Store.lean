import GeffModel.Np
/-! The zarr hierarchy as the store-level models see it (tree view, DESIGN §3.2): a *flat* finite map
from paths to entries.  An entry is a group (with its attributes) or an array (`Geff.Np.NdArr`).

Beneath this model: chunking, compression, byte order, the string codec, the key layout of zarr
formats 2 and 3 (the tree view is the same for both).  `get`/`set` laws are in `GeffProofs/Store.lean`.

Errors of the Python code are explicit: the models run in `Except Err`. -/
namespace Geff.Store
open Geff.Np

/-- the exception classes the store-level models distinguish -/
inductive Err where
  | valueError | typeError | indexError | keyError | fileExists
  | other (name : String)
deriving DecidableEq, Repr, Inhabited

def Err.name : Err → String
  | .valueError => "ValueError" | .typeError => "TypeError" | .indexError => "IndexError"
  | .keyError => "KeyError" | .fileExists => "FileExistsError" | .other n => n

abbrev Outcome := Except Err

abbrev Path := List String

/-- one entry of `node_props_metadata` / `edge_props_metadata` as stored in the attributes.
`varlength = none` means the key is omitted in the JSON document (the schema default is `false`). -/
structure PropMeta where
  identifier : String
  dtype : String
  varlength : Option Bool
deriving DecidableEq, Repr, Inhabited

/-- the part of the `geff` attribute the store-level models look at (version, units, axis ranges,
display hints, … are C07/C08/C10's subject and are not represented) -/
structure GeffAttr where
  directed : Bool
  axes : Option (List String)
  nodeProps : List (String × PropMeta)
  edgeProps : List (String × PropMeta)
deriving DecidableEq, Repr, Inhabited

/-- an attribute value: the parsed geff metadata, or anything else (a foreign attribute; under the
key `geff`: a document that is not valid metadata) -/
inductive AttrVal where
  | geff (m : GeffAttr)
  | other
deriving DecidableEq, Repr, Inhabited

abbrev Attrs := List (String × AttrVal)

inductive Entry where
  | group (attrs : Attrs)
  | array (a : NdArr)
deriving DecidableEq, Repr, Inhabited

/-- flat store: the first pair with a given path is the entry at that path -/
abbrev St := List (Path × Entry)

def get (s : St) (p : Path) : Option Entry := (s.find? (fun kv => kv.1 = p)).map (·.2)

/-- replace or insert the entry at `p` -/
def set (s : St) (p : Path) (e : Entry) : St := (p, e) :: s.filter (fun kv => kv.1 ≠ p)

/-- `q = p ++ [k]` ↦ `k` -/
def childKey (p q : Path) : Option String :=
  match q.reverse with
  | k :: r => if r.reverse = p then some k else none
  | [] => none

/-- names of the immediate children of `p` (store order, possibly with repetitions) -/
def childNames (s : St) (p : Path) : List String := s.filterMap (fun kv => childKey p kv.1)

def isGroup (s : St) (p : Path) : Bool := match get s p with | some (.group _) => true | _ => false
def isArray (s : St) (p : Path) : Bool := match get s p with | some (.array _) => true | _ => false

/-- `Group.group_keys()`: the children that are groups -/
def groupKeys (s : St) (p : Path) : List String := (childNames s p).filter (fun k => isGroup s (p ++ [k]))

/-- zarr creates missing parent groups implicitly; an existing node is left alone -/
def ensureGroup (s : St) (p : Path) : St :=
  match get s p with
  | none => set s p (.group [])
  | some _ => s

/-- `attrs[key] = v` on the attribute list (replace or append) -/
def setAttr (a : Attrs) (k : String) (v : AttrVal) : Attrs := (k, v) :: a.filter (fun kv => kv.1 ≠ k)

end Geff.Store
