/-! # Model of `geff.convert._trackmate_xml` (C16) on abstract TrackMate documents

A document is what the XML *says* after lexing: declared features (`isint`, `dimension`), spots with
attribute texts and optional ROI, tracks with edges, an optional `FilteredTracks` list, units.
Rendering the document to XML and lxml's `iterparse` cursor logic are **not** modelled (the
correspondence harness renders documents and runs the real converter on them).

Python functions modelled (same names, camelCase): `_convert_attributes`, `_convert_ROI_coordinates`,
`_add_all_nodes`, `_add_edge` (stamps `TRACK_ID`, with its assertion), `_build_tracks`,
`_get_filtered_tracks_ID` (as the list it returns), `_build_data` (the two discard rules),
`_extract_props_metadata`/`_process_feature_metadata`, `_ensure_data_metadata_consistency`, and the
part of `NxBackend.write`/`write_dicts`/`dict_props_to_arr` that turns the attribute dicts into
property columns with missing flags (dtype by numpy's inference on homogeneous columns).

`raise` is an explicit outcome (`Outcome.exc "ValueError"` …); behaviour the model does not cover is
`Outcome.exc "unmodelled:…"` (never compared as a success).  Core Lean only. -/
namespace Geff.TrackMate

inductive Outcome (α : Type) where
  | ok (v : α)
  | exc (name : String)
deriving Repr, DecidableEq

instance : Monad Outcome where
  pure := .ok
  bind x f := match x with
    | .ok v => f v
    | .exc n => .exc n

/-- an attribute text, classified by Python's `int()` / `float()`:
`int n text` — `int(text) = n` (then `float(text)` = `float(n)` as well);
`flt text` — only `float(text)` succeeds; `str text` — neither does. -/
inductive Txt where
  | int (n : Int) (text : String)
  | flt (text : String)
  | str (text : String)
deriving Repr, DecidableEq

def Txt.text : Txt → String
  | .int _ t => t
  | .flt t => t
  | .str t => t

/-- a float is never computed on: it is `float(n)` of an integer text or `float(text)` -/
inductive FTok where
  | ofInt (n : Int)
  | ofText (text : String)
deriving Repr, DecidableEq

/-- a Python value in an attribute dict -/
inductive Val where
  | i (n : Int)
  | f (t : FTok)
  | s (s : String)
  | roi (pts : List (List String))      -- list of tuples of floats (kept as their texts)
  | none                                -- Python `None` (`ROI_coords` of a spot without coordinates)
deriving Repr, DecidableEq

structure Feat where
  name : String
  isint : Option Bool        -- `none`: the `isint` attribute is absent
  dim : Option String        -- `none`: the `dimension` attribute is absent
deriving Repr, DecidableEq

structure Roi where
  nPoints : Int                               -- ROI_N_POINTS
  pts : Option (List (List String))           -- `none`: the element has no text
deriving Repr, DecidableEq

structure Spot where
  id : Option Nat
  name : Option String
  feats : List (String × Txt)
  roi : Option Roi
deriving Repr, DecidableEq

structure Edge where
  s : Nat
  t : Nat
  feats : List (String × Txt)
deriving Repr, DecidableEq

structure Track where
  id : Option Txt                 -- the TRACK_ID attribute text (`none`: absent)
  feats : List (String × Txt)     -- other attributes except `name`
  edges : List Edge
deriving Repr, DecidableEq

structure Doc where
  space : Option String
  time : Option String
  sf : List Feat
  ef : List Feat
  tf : List Feat
  spots : List Spot
  tracks : List Track
  filtered : Option (List Int)    -- `none`: no FilteredTracks section
deriving Repr, DecidableEq

abbrev Attrs := List (String × Val)

def aget? (a : Attrs) (k : String) : Option Val := (a.find? (fun kv => kv.1 == k)).map (·.2)
def ahas (a : Attrs) (k : String) : Bool := a.any (fun kv => kv.1 == k)

/-- `d[k] = v` -/
def aset (a : Attrs) (k : String) (v : Val) : Attrs :=
  if ahas a k then a.map (fun kv => if kv.1 == k then (k, v) else kv) else a ++ [(k, v)]

/-- `d.update(other)` -/
def aupdate (a b : Attrs) : Attrs := b.foldl (fun acc kv => aset acc kv.1 kv.2) a

/-- `attrs_md`: every `Feature` of the three categories in one dict (later declarations win) -/
def attrsMd (d : Doc) : List Feat := d.sf ++ d.ef ++ d.tf

def mdLookup (md : List Feat) (k : String) : Option Feat := md.reverse.find? (fun f => f.name == k)

/-- `_convert_attributes` on one attribute -/
def convertOne (md : List Feat) (k : String) (t : Txt) : Outcome Val :=
  match mdLookup md k with
  | some f =>
    match f.isint with
    | none => .exc "KeyError"                 -- attrs_metadata[key]["isint"]
    | some true =>
      match t with
      | .int n _ => .ok (.i n)
      | _ => .exc "ValueError"                -- Invalid integer value
    | some false =>
      match t with
      | .int n _ => .ok (.f (.ofInt n))
      | .flt s => .ok (.f (.ofText s))
      | .str s => .ok (.s s)                  -- "Then it's a string and no need to convert."
  | none =>
    if k == "ID" || k == "ROI_N_POINTS" then
      match t with
      | .int n _ => .ok (.i n)
      | _ => .exc "ValueError"
    else .ok (.s t.text)                      -- "name", or undeclared: stays the text (with a warning)

/-- `_convert_attributes`: the loop rewrites every value in place (XML attribute names are unique
within an element, so the dict keeps its keys and their order); the first failing attribute raises -/
def convertAttributes (md : List Feat) : List (String × Txt) → Outcome Attrs
  | [] => .ok []
  | (k, t) :: rest =>
    match convertOne md k t with
    | .exc e => .exc e
    | .ok v =>
      match convertAttributes md rest with
      | .exc e => .exc e
      | .ok a => .ok ((k, v) :: a)

/-- the attribute texts of a `Spot` element, in document order -/
def spotTexts (s : Spot) : List (String × Txt) :=
  (match s.id with | some i => [("ID", Txt.int i (toString i))] | none => []) ++
  (match s.name with | some n => [("name", Txt.str n)] | none => []) ++ s.feats ++
  (match s.roi with | some r => [("ROI_N_POINTS", Txt.int r.nPoints (toString r.nPoints))] | none => [])

/-- `_convert_ROI_coordinates` (the element has the attribute `ROI_N_POINTS`), followed by the removal
of a `None` result in `_add_all_nodes`: a spot without coordinate text gets no `ROI_coords` attribute -/
def convertRoi (r : Roi) (a : Attrs) : Outcome Attrs :=
  match r.pts with
  | none => .ok a
  | some pts =>
    if r.nPoints = 0 then .exc "ZeroDivisionError"      -- len(coords) // n_points
    else .ok (aset a "ROI_coords" (.roi pts))

structure Graph where
  nodes : List (Nat × Attrs) := []                 -- insertion order
  edges : List ((Nat × Nat) × Attrs) := []         -- insertion order
deriving Repr, DecidableEq

def Graph.hasNode (g : Graph) (n : Nat) : Bool := g.nodes.any (fun p => p.1 == n)
def Graph.nodeAttrs (g : Graph) (n : Nat) : Attrs := ((g.nodes.find? (fun p => p.1 == n)).map (·.2)).getD []

/-- `graph.add_node(n, **attrs)` -/
def Graph.addNode (g : Graph) (n : Nat) (a : Attrs) : Graph :=
  if g.hasNode n then { g with nodes := g.nodes.map (fun p => if p.1 == n then (n, aupdate p.2 a) else p) }
  else { g with nodes := g.nodes ++ [(n, a)] }

/-- `graph.add_edge(u, v)`; `nx.set_edge_attributes(graph, {(u, v): attrs})` -/
def Graph.addEdge (g : Graph) (u v : Nat) (a : Attrs) : Graph :=
  let g := g.addNode u [] |>.addNode v []
  if g.edges.any (fun e => e.1 == (u, v)) then
    { g with edges := g.edges.map (fun e => if e.1 == (u, v) then ((u, v), aupdate e.2 a) else e) }
  else { g with edges := g.edges ++ [((u, v), a)] }

def Graph.setNodeAttr (g : Graph) (n : Nat) (k : String) (v : Val) : Graph :=
  { g with nodes := g.nodes.map (fun p => if p.1 == n then (n, aset p.2 k v) else p) }

/-- `graph.remove_nodes_from(ns)` (incident edges go too) -/
def Graph.removeNodes (g : Graph) (ns : List Nat) : Graph :=
  { nodes := g.nodes.filter (fun p => !ns.contains p.1),
    edges := g.edges.filter (fun e => !ns.contains e.1.1 && !ns.contains e.1.2) }

/-- `graph.degree[n]` (a self loop counts twice) -/
def Graph.degree (g : Graph) (n : Nat) : Nat :=
  (g.edges.filter (fun e => e.1.1 == n)).length + (g.edges.filter (fun e => e.1.2 == n)).length

/-- `_add_all_nodes`: returns the graph and the `segmentation` flag -/
def addAllNodes (md : List Feat) : List Spot → Graph → Bool → Outcome (Graph × Bool)
  | [], g, seg => .ok (g, seg)
  | s :: rest, g, seg =>
    match convertAttributes md (spotTexts s) with
    | .exc e => .exc e
    | .ok attrs =>
      let withRoi : Outcome (Attrs × Bool) :=
        match s.roi with
        | some r => match convertRoi r attrs with
          | .ok a => .ok (a, true)
          | .exc e => .exc e
        | none => if seg then .exc "KeyError" else .ok (attrs, false)   -- No key 'ROI_N_POINTS'
      match withRoi with
      | .exc e => .exc e
      | .ok (attrs, seg') =>
        match s.id with
        | some i => addAllNodes md rest (g.addNode i attrs) (seg || seg')
        | none => addAllNodes md rest g (seg || seg')                   -- warning, node skipped

/-- the attribute texts of an `Edge` element -/
def edgeTexts (e : Edge) : List (String × Txt) :=
  [("SPOT_SOURCE_ID", Txt.int e.s (toString e.s)), ("SPOT_TARGET_ID", Txt.int e.t (toString e.t))] ++ e.feats

/-- the `TRACK_ID` stamping of one endpoint, with its assertion -/
def stamp (g : Graph) (n : Nat) (tid : Val) : Outcome Graph :=
  match aget? (g.nodeAttrs n) "TRACK_ID" with
  | none => .ok (g.setNodeAttr n "TRACK_ID" tid)
  | some t => if t = tid then .ok g else .exc "AssertionError"

/-- `_add_edge` -/
def addEdge (md : List Feat) (e : Edge) (g : Graph) (tid : Val) : Outcome Graph :=
  match convertAttributes md (edgeTexts e) with
  | .exc x => .exc x
  | .ok attrs =>
    let g := g.addEdge e.s e.t attrs
    match stamp g e.s tid with
    | .exc x => .exc x
    | .ok g => stamp g e.t tid

def addEdges (md : List Feat) (tid : Val) : List Edge → Graph → Outcome Graph
  | [], g => .ok g
  | e :: rest, g => match addEdge md e g tid with
    | .exc x => .exc x
    | .ok g' => addEdges md tid rest g'

/-- the attribute texts of a `Track` element -/
def trackTexts (t : Track) : List (String × Txt) :=
  (match t.id with | some i => [("TRACK_ID", i)] | none => []) ++ t.feats

/-- `_build_tracks` -/
def buildTracks (md : List Feat) : List Track → Graph → Outcome Graph
  | [], g => .ok g
  | t :: rest, g =>
    match convertAttributes md (trackTexts t) with
    | .exc x => .exc x
    | .ok attrs =>
      match aget? attrs "TRACK_ID" with
      | none => .exc "KeyError"                  -- No key 'TRACK_ID'
      | some tid =>
        match addEdges md tid t.edges g with
        | .exc x => .exc x
        | .ok g' => buildTracks md rest g'

/-- `t is None or t not in id_to_keep` -/
def notKept (keep : List Int) (a : Attrs) : Bool :=
  match aget? a "TRACK_ID" with
  | some (.i t) => !keep.contains t
  | some (.f (.ofInt t)) => !keep.contains t       -- 0.0 == 0 in Python
  | _ => true

/-- the two removal blocks of `_build_data`: lone nodes (degree 0) when `discard_filtered_spots`; then,
only when the document has a `FilteredTracks` section, the nodes whose `TRACK_ID` is absent or not
listed when `discard_filtered_tracks` -/
def discard (filtered : Option (List Int)) (discardSpots discardTracks : Bool) (g : Graph) : Graph :=
  let g := if discardSpots then g.removeNodes ((g.nodes.filter (fun p => g.degree p.1 == 0)).map (·.1)) else g
  match filtered with
  | some keep =>
    if discardTracks then g.removeNodes ((g.nodes.filter (fun p => notKept keep p.2)).map (·.1)) else g
  | none => g

/-- `_build_data`: returns the graph and the `segmentation` flag -/
def buildData (d : Doc) (discardSpots discardTracks : Bool) : Outcome (Graph × Bool) :=
  let md := attrsMd d
  match addAllNodes md d.spots {} false with
  | .exc e => .exc e
  | .ok (g, seg) =>
    match buildTracks md d.tracks g with
    | .exc e => .exc e
    | .ok g => .ok (discard d.filtered discardSpots discardTracks g, seg)

/-! ### properties metadata -/

/-- `_DIMENSION_UNIT_TEMPLATES[dimension](space, time)` -/
def unitOf (dim space time : String) : Option String :=
  match dim with
  | "NONE" | "QUALITY" | "COST" | "INTENSITY" | "INTENSITY_SQUARED" | "STRING" => some "None"
  | "POSITION" | "LENGTH" => some space
  | "TIME" => some time
  | "VELOCITY" => some (space ++ " / " ++ time)
  | "AREA" => some (space ++ "^2")
  | "ANGLE" => some "radian"
  | "RATE" => some ("1 / " ++ time)
  | "ANGLE_RATE" => some ("radian / " ++ time)
  | _ => none

structure PMeta where
  dtype : String             -- "int" / "float"
  unit : Option String
  varlength : Bool := false
deriving Repr, DecidableEq

/-- `_process_feature_metadata` over one category -/
def processFeatures (space time : String) : List Feat → List (String × PMeta) → Outcome (List (String × PMeta))
  | [], acc => .ok acc
  | f :: rest, acc =>
    if acc.any (fun kv => kv.1 == f.name) then .exc "ValueError"        -- duplicate identifier
    else match f.isint with
      | none => .exc "ValueError"                                       -- missing 'isint'
      | some b =>
        match f.dim with
        | none => .exc "ValueError"                                     -- unknown dimension 'None'
        | some dim =>
          match unitOf dim space time with
          | none => .exc "ValueError"
          | some u => processFeatures space time rest
                        (acc ++ [(f.name, { dtype := if b then "int" else "float", unit := some u })])

/-- `_check_component_props_consistency` -/
def keepPresent (md : List (String × PMeta)) (data : List Attrs) : List (String × PMeta) :=
  md.filter (fun kv => data.any (fun a => ahas a kv.1))

/-! ### attribute dicts → property columns (`dict_props_to_arr`) -/

inductive Kind where
  | int64 | uint64 | float64 | str | roiRegular | roiVarlen | unmodelled
deriving Repr, DecidableEq

structure Column where
  kind : Kind
  cells : List (Option Val)        -- `none` = flagged missing
deriving Repr, DecidableEq

def isI : Val → Bool | .i _ => true | _ => false
def isNum : Val → Bool | .i _ => true | .f _ => true | _ => false
def isS : Val → Bool | .s _ => true | _ => false
def isRoi : Val → Bool | .roi _ => true | _ => false

def roiShape : Val → Option (Nat × Option Nat)
  | .roi pts => some (pts.length, (pts.head?.map (·.length)))
  | _ => none

/-- numpy's inference on the present values of one property -/
def columnKind (cells : List (Option Val)) : Kind :=
  let vals := cells.filterMap id
  if vals.isEmpty then .unmodelled
  else if vals.all isI then                 -- numpy: Python ints ≥ 2^63 make the array uint64
    (if vals.any (fun v => match v with
      | .i n => decide (n ≥ 9223372036854775808)
      | _ => false) then .uint64 else .int64)
  else if vals.all isNum then .float64
  else if vals.all isS then .str
  else if vals.all isRoi &&                 -- missing cells are filled with the first present polygon
          vals.all (fun v => roiShape v == roiShape (vals.headD .none)) then .roiRegular
  else if vals.all (fun v => isRoi v || v == .none) then .roiVarlen
  else .unmodelled

def propNames (data : List Attrs) : List String :=
  data.foldl (fun acc a => a.foldl (fun acc kv => if acc.contains kv.1 then acc else acc ++ [kv.1]) acc) []

def columns (data : List Attrs) : List (String × Column) :=
  (propNames data).map (fun k =>
    let cells := data.map (fun a => aget? a k)
    (k, { kind := columnKind cells, cells := cells }))

/-- `graph.edges(data=True)`: by source in node order, then in insertion order -/
def nxEdges (g : Graph) : List ((Nat × Nat) × Attrs) :=
  g.nodes.flatMap (fun p => g.edges.filter (fun e => e.1.1 == p.1))

structure PropOut where
  name : String
  col : Column
  declared : Option PMeta          -- unit etc. from the FeatureDeclarations, when declared and kept
deriving Repr, DecidableEq

structure Out where
  nodes : List Nat
  edges : List (Nat × Nat)
  nodeProps : List PropOut
  edgeProps : List PropOut
  spaceUnit : String
  timeUnit : String
  lineageDeclared : Bool           -- metadata.track_node_props = {"lineage": "TRACK_ID"}
  segmentation : Bool
deriving Repr, DecidableEq

/-- `from_trackmate_xml_to_geff` up to the arrays handed to `write_arrays` -/
def convert (d : Doc) (discardSpots discardTracks : Bool) : Outcome Out :=
  match buildData d discardSpots discardTracks with
  | .exc e => .exc e
  | .ok (g, seg) =>
    let space := d.space.getD "pixel"
    let time := d.time.getD "frame"
    match processFeatures space time d.sf [] with
    | .exc e => .exc e
    | .ok nmd =>
      match processFeatures space time d.ef [] with
      | .exc e => .exc e
      | .ok emd =>
        match processFeatures space time d.tf [] with
        | .exc e => .exc e
        | .ok _ =>
          -- the ROI metadata needs the POSITION_X declaration
          if seg && !(nmd.any (fun kv => kv.1 == "POSITION_X")) then .exc "KeyError" else
          let nmd := if seg then
              nmd ++ [("ROI_N_POINTS", { dtype := "int", unit := none }),
                      ("ROI_coords", { dtype := "float", varlength := true,
                                       unit := ((nmd.find? (fun kv => kv.1 == "POSITION_X")).bind (·.2.unit)) })]
            else nmd
          let ndata := g.nodes.map (·.2)
          let es := nxEdges g
          let edata := es.map (·.2)
          let nmd := keepPresent nmd ndata
          let emd := keepPresent emd edata
          let mk (md : List (String × PMeta)) (c : String × Column) : PropOut :=
            { name := c.1, col := c.2, declared := (md.find? (fun kv => kv.1 == c.1)).map (·.2) }
          .ok { nodes := g.nodes.map (·.1), edges := es.map (·.1),
                nodeProps := (columns ndata).map (mk nmd), edgeProps := (columns edata).map (mk emd),
                spaceUnit := space, timeUnit := time,
                lineageDeclared := ndata.any (fun a => ahas a "TRACK_ID"), segmentation := seg }

end Geff.TrackMate
