import GeffModel.Structure
/-! # Run-time library for the source-translated validator (`harness/translators/t16_pydo_structure.py`)

The translator turns every function of `geff/validate/structure.py` and `expect_array` /
`expect_group` of `geff/core_io/_utils.py`, statement by statement, into Lean `do`-blocks in the
monad `Geff.Structure.Out` (`Gen/Structure.lean`).  Everything the generated code calls is defined
here: one small function per zarr / numpy / Python operation that occurs in the source, over the
store tree of `GeffModel/Structure.lean`, with Python's own exceptions as explicit outcomes —
`KeyError` for `group[name]` / `d[name]` of an absent name, `IndexError` for `shape[i]` out of range,
`AttributeError` when a value that is not a group (array) is used as one, `TypeError` for iterating
`None` — so that a guard dropped from the source makes the unrelated exception REACHABLE in the
generated code (and the equality with the hand-written model, which is proved for all inputs, fails).

What the primitives assume about zarr-python / numpy (tied by the C04 correspondence streams, which
run the model the generated code is proved equal to against the implementation):
* a key with `/` is walked component by component (`Group.get`, `in`); `keys()` / `array_keys()` are
  the direct member names; a name substituted into an f-string key (`f"{ax.name}/values"`) is ONE
  path component (member names cannot contain `/`);
* `Group.get` of an absent member is `None`, `group[name]` of an absent member raises `KeyError`;
* dtypes are numpy's dtype classes `Np.Dtype` (byte order is not part of the class, every unicode
  width and the variable-length string dtype are `str`): `np.dtype(d)` and `d.newbyteorder("=")` are
  the identity, `d.kind in ("U", "T")` is `d = str`, `np.issubdtype(d, <concrete dtype>)` is equality,
  `np.issubdtype(d, np.integer)` is `d.isInteger`.
Core Lean only (linked into `drv_C04`). -/
namespace Geff.PyDoStructure
open Geff.Np Geff.Structure

def raiseValueError {α : Type} : Out α := throw .valueError
def raiseFileNotFoundError {α : Type} : Out α := throw .fileNotFound
def raiseKeyError {α : Type} : Out α := throw (.other "KeyError")
def raiseIndexError {α : Type} : Out α := throw (.other "IndexError")
def raiseTypeError {α : Type} : Out α := throw (.other "TypeError")
def raiseAttributeError {α : Type} : Out α := throw (.other "AttributeError")

/-! ## keys and paths -/

/-- split at `/` (structural, so that it evaluates on the constants of `Gen.Paths`) -/
def splitChars : List Char → List Char → List (List Char)
  | [], cur => [cur.reverse]
  | c :: t, cur => if c = '/' then cur.reverse :: splitChars t [] else splitChars t (c :: cur)

/-- the path components of a key constant (`_path.NODE_PROPS = "nodes/props"`) -/
def keyPath (s : String) : List String := (splitChars s.toList []).map String.ofList

/-! ## zarr groups -/

/-- `group.get(key)` (`None` when there is no such member) -/
def groupGet (g : Grp) (key : List String) : Option Node := getPath g key
/-- `key in group` -/
def groupContains (g : Grp) (key : List String) : Bool := (getPath g key).isSome
/-- `group[name]`: `KeyError` for an absent member -/
def groupGetItem (g : Grp) (name : String) : Out Node := getItem g name
/-- `group.keys()` -/
def memberKeys (g : Grp) : List String := keys g
/-- `group.array_keys()`: the member names under which the group holds an array.  (A `Grp` is an
association list that denotes the mapping `get`, first entry wins; a zarr group has one member per
name.) -/
def arrayKeys (g : Grp) : List String := (keys g).filter fun k => isArrayNode (get g k)

/-- `isinstance(x, zarr.Array)` / `isinstance(x, zarr.Group)` on the result of `group.get` -/
def isZarrArray : Option Node → Bool | some (.array _) => true | _ => false
def isZarrGroup : Option Node → Bool | some (.group _) => true | _ => false
/-- the same on a member obtained with `group[name]` -/
def nodeIsArray : Node → Bool | .array _ => true | .group _ => false
def nodeIsGroup : Node → Bool | .group _ => true | .array _ => false

/-- a value used as a `zarr.Group` (method call `.get` / `.keys` / `.array_keys`, argument of a
function that takes a group): `AttributeError` when it is an array -/
def nodeAsGroup : Node → Out Grp
  | .group ch => pure ch
  | .array _ => raiseAttributeError
/-- a value used as a `zarr.Array` (`.dtype`, `.shape`, `.ndim`) -/
def nodeAsArray : Node → Out Arr
  | .array a => pure a
  | .group _ => raiseAttributeError
/-- the result of `group.get(…)` used as a group / an array: `AttributeError` on `None` too -/
def optAsGroup : Option Node → Out Grp
  | some n => nodeAsGroup n
  | none => raiseAttributeError
def optAsArray : Option Node → Out Arr
  | some n => nodeAsArray n
  | none => raiseAttributeError

/-! ## arrays and dtypes -/

/-- `a.shape[i]` for a literal index (negative from the end): `IndexError` out of range -/
def shapeIndex (a : Arr) (i : Int) : Out Nat :=
  let n := a.shape.length
  let k : Int := if i < 0 then i + n else i
  if k < 0 then raiseIndexError else
  match a.shape[k.toNat]? with
  | some d => pure d
  | none => raiseIndexError

/-- `np.dtype(d)` of something that already is a dtype (class) -/
def npDtype (d : Dtype) : Dtype := d
/-- `d.newbyteorder("=")`: byte order is not part of the dtype class -/
def newbyteorderNative (d : Dtype) : Dtype := d
/-- `d.kind in ("U", "T")` -/
def kindIsString (d : Dtype) : Bool := d == Dtype.str

/-- second argument of `np.issubdtype` -/
inductive DtClass where
  | integer                 -- `np.integer`
  | exact (d : Dtype)       -- a concrete dtype / scalar type (`np.uint64`, `np.bool_`, `np.dtype(…)`)
deriving DecidableEq, Repr

/-- `np.issubdtype(d, c)` -/
def issubdtype (d : Dtype) : DtClass → Bool
  | .integer => d.isInteger
  | .exact e => d == e

/-! ## Python containers -/

/-- `name in d` for a dict -/
def dictContains {β : Type} (d : List (String × β)) (k : String) : Bool := (lookup d k).isSome
/-- `d[name]`: `KeyError` -/
def dictGetItem {β : Type} (d : List (String × β)) (k : String) : Out β := getItem d k
/-- `for k in d` -/
def dictKeys {β : Type} (d : List (String × β)) : List String := keys d
/-- `len(d)` -/
def dictLen {β : Type} (d : List (String × β)) : Nat := d.length
/-- `x in l` for a list / a set of strings -/
def strIn (x : String) (l : List String) : Bool := l.contains x

/-- `set(l)` of a list of names: only membership is observed -/
def pySet (l : List String) : List String := l
/-- `group.group_keys()` -/
def groupKeys (g : Grp) : List String := Geff.Structure.groupKeys g

/-! ## metadata -/

/-- `Axis`: the field structural validation reads -/
structure Axis where
  name : String
deriving DecidableEq, Repr

/-- `meta.axes` as a list of `Axis` objects -/
def metaAxes (m : Meta) : Option (List Axis) := m.axes.map (·.map Axis.mk)
/-- truthiness of an optional list (`if meta.axes:`) -/
def truthyOptList {α : Type} : Option (List α) → Bool
  | some (_ :: _) => true
  | _ => false
/-- `for x in <optional list>`: `TypeError` on `None` -/
def iterOptList {α : Type} : Option (List α) → Out (List α)
  | some l => pure l
  | none => raiseTypeError

/-- `open_storelike(store)` (`core_io/_utils.py`; not translated: path / URL / zarr-version handling is
outside the abstract store) -/
def openStorelike (t : Target) : Out Grp := Geff.Structure.openStorelike t
/-- `GeffMetadata.read(store)` -/
def geffMetadataRead (t : Target) : Out Meta := readMetadata t

end Geff.PyDoStructure
