import GeffModel.Np
import GeffModel.NpCast
/-! Variable-length properties (core Lean only): executable model of

* `geff.core_io._serialization.serialize_vlen_property_data`      → `serializeVlenPy` / `serializeVlen`
* `geff.core_io._serialization._deserialize_vlen_value`           → `decodeRow`
* `geff.core_io._serialization.deserialize_vlen_property_data`    → `decodeRows` / `deserializeVlen`
* `geff.core_io._utils._get_common_type_dims`                     → `getCommonTypeDims`
* `geff.core_io._utils.construct_var_len_props`                   → `constructVarLenProps`

An element of the object array is an `Np.NdArr` (dtype, shape, C-order contents).  Python's
exceptions are explicit outcomes.  `unmodelled` marks inputs on which the model does not claim to
know what numpy does (dtype bucket `other`, number -> string formatting); it is *not* an
exception and no theorem draws a conclusion from it other than that it, too, is order independent.

The `missing` array is passed through unchanged by both (de)serialisers and is therefore not part
of their models. -/
namespace Geff.Vlen
open Geff.Np

inductive Outcome (α : Type) where
  | ok (v : α)
  | valueError
  | typeError
  | other (name : String)          -- any other Python exception (class name)
  | unmodelled (why : String)      -- outside the modelled domain (not an exception)
deriving DecidableEq, Repr

def Outcome.isOk {α} : Outcome α → Bool | .ok _ => true | _ => false

/-! ## serialisation -/

/-- an entry of the `values` object array as Python sees it -/
inductive PyElem where
  | arr (a : NdArr)
  | notArray                        -- list, scalar, None, ... : `isinstance(e, np.ndarray)` is false
deriving DecidableEq, Repr

/-- the layout: one `(offset, shape)` row per element, and the concatenated contents -/
structure Encoded where
  rows : List (Nat × List Nat)
  dtype : Dtype
  data : List Val
deriving DecidableEq, Repr

/-- the loop body's layout arithmetic: `encoded_values.append((offset, *shape))`,
`data.append(element.ravel())`, `offset += prod(shape)` -/
def encodeAux : Nat → List NdArr → List (Nat × List Nat) × List Val
  | _, [] => ([], [])
  | off, e :: es =>
    let r := encodeAux (off + prod e.shape) es
    ((off, e.shape) :: r.1, e.flat ++ r.2)

/-- dtype of `np.concatenate(data)`, resp. of `np.array([], dtype="int64")` -/
def dataDtype : List NdArr → Dtype
  | [] => .i64
  | e :: _ => e.dtype

def encode (es : List NdArr) : Encoded :=
  { rows := (encodeAux 0 es).1, dtype := dataDtype es, data := (encodeAux 0 es).2 }

/-- every element is an ndarray of the rank and dtype of the first one — what the loop of
`serialize_vlen_property_data` checks (each failure is a `ValueError`) -/
def checkElems : Option (Nat × Dtype) → List PyElem → Outcome (List NdArr)
  | _, [] => .ok []
  | _, .notArray :: _ => .valueError
  | first, .arr a :: rest =>
    match first with
    | some (nd, dt) =>
      if a.ndim ≠ nd then .valueError
      else if a.dtype ≠ dt then .valueError
      else match checkElems first rest with
        | .ok l => .ok (a :: l)
        | e => e
    | none =>
      match checkElems (some (a.ndim, a.dtype)) rest with
      | .ok l => .ok (a :: l)
      | e => e

def natVal (n : Nat) : Val := .i (Int.ofNat n)

/-- `np.asarray(encoded_values, dtype=np.uint64)`: shape `(N, ndim+1)`; the empty `(0, 2)` table
when `N = 0` (repaired: was `(0,)`) -/
def Encoded.valuesArr (e : Encoded) : NdArr :=
  match e.rows with
  | [] => { dtype := .u64, shape := [0, 2], flat := [] }
  | r :: _ =>
    { dtype := .u64, shape := [e.rows.length, r.2.length + 1],
      flat := e.rows.flatMap (fun row => (row.1 :: row.2).map natVal) }

/-- `np.concatenate(data)` / the empty int64 array -/
def Encoded.dataArr (e : Encoded) : NdArr :=
  { dtype := e.dtype, shape := [e.data.length], flat := e.data }

/-- `serialize_vlen_property_data` on the entries of `prop_dict["values"]`: `(values, data)` -/
def serializeVlenPy (es : List PyElem) : Outcome (NdArr × NdArr) :=
  match checkElems none es with
  | .ok l => .ok ((encode l).valuesArr, (encode l).dataArr)
  | .valueError => .valueError
  | .typeError => .typeError
  | .other n => .other n
  | .unmodelled w => .unmodelled w

/-- the same when every entry already is an ndarray -/
def serializeVlen (es : List NdArr) : Outcome (NdArr × NdArr) := serializeVlenPy (es.map .arr)

/-! ## deserialisation -/

/-- `_deserialize_vlen_value`: `data[offset : offset + prod(shape)].reshape(shape)`.
The slice is clipped to the data as Python slices are; `reshape` raises `ValueError` when the
slice does not hold exactly `prod shape` elements. -/
def decodeRow (dtype : Dtype) (data : List Val) (row : Nat × List Nat) : Outcome NdArr :=
  let sl := (data.drop row.1).take (prod row.2)
  if sl.length = prod row.2 then .ok { dtype := dtype, shape := row.2, flat := sl } else .valueError

def decodeRows (dtype : Dtype) (data : List Val) : List (Nat × List Nat) → Outcome (List NdArr)
  | [] => .ok []
  | r :: rs =>
    match decodeRow dtype data r with
    | .ok a =>
      match decodeRows dtype data rs with
      | .ok l => .ok (a :: l)
      | e => e
    | .valueError => .valueError
    | .typeError => .typeError
    | .other n => .other n
    | .unmodelled w => .unmodelled w

def valNat? : Val → Option Nat
  | .i v => if 0 ≤ v then some v.toNat else none
  | _ => none

/-- split the flat `values` table into `n` rows of width `w` (`w ≥ 1`): `(offset, shape)` -/
def parseRows (w : Nat) : Nat → List Val → Option (List (Nat × List Nat))
  | 0, _ => some []
  | n + 1, flat =>
    match (flat.take w).mapM valNat? with
    | some (o :: sh) =>
      match parseRows w n (flat.drop w) with
      | some rs => some ((o, sh) :: rs)
      | none => none
    | _ => none

/-- `deserialize_vlen_property_data(values, missing, data)["values"]` for a 1-D `data` array and a
`values` table of shape `(N, w)` or `(N,)`.  A non-empty 1-D table or a table of width 0 makes
`values[i][0]` raise `IndexError`. -/
def deserializeVlen (values data : NdArr) : Outcome (List NdArr) :=
  if data.shape.length ≠ 1 then .unmodelled "data is not 1-D" else
  match values.shape with
  | [n] => if n = 0 then .ok [] else .other "IndexError"
  | [n, w] =>
    if n = 0 then .ok []
    else if w = 0 then .other "IndexError"
    else match parseRows w n values.flat with
      | some rows => decodeRows data.dtype data.flat rows
      | none => .unmodelled "values table is not a well-formed array of non-negative integers"
  | _ => .unmodelled "values table is not 1-D or 2-D"

/-! ## normalisation of ragged input -/

/-- an entry of the user's sequence, as `np.asarray(entry)` sees it -/
inductive Item where
  | none                            -- Python `None`
  | arr (a : NdArr)                 -- `np.asarray(entry)` succeeded
  | inhomogeneous                   -- `np.asarray(entry)` raises ValueError (ragged nested list)
deriving DecidableEq, Repr

def Item.dtypes : List Item → List Dtype
  | [] => []
  | .arr a :: t => a.dtype :: Item.dtypes t
  | _ :: t => Item.dtypes t

def Item.ranks : List Item → List Nat
  | [] => []
  | .arr a :: t => a.ndim :: Item.ranks t
  | _ :: t => Item.ranks t

def maxRank (rs : List Nat) : Nat := rs.foldl max 0

/-- `_get_common_type_dims` (repaired, D8): the common dtype is `np.result_type` of the (distinct,
sorted) dtypes of all non-None entries, the rank is the maximum of their ranks; `(int64, 1)` when
there is no non-None entry.  `np.asarray` of a ragged entry raises `ValueError`.
Entries of dtype `object` (not a geff dtype) are outside the model: numpy 2.5's many-argument
`result_type` is itself order dependent on {float16, str/bytes, object}. -/
def getCommonTypeDims (xs : List Item) : Outcome (Dtype × Nat) :=
  if xs.contains .inhomogeneous then .valueError
  else if (Item.dtypes xs).isEmpty then .ok (.i64, 1)
  else if (Item.dtypes xs).contains .obj then .unmodelled "object dtype"
  else match Dtype.resultType (Item.dtypes xs) with
    | some d => .ok (d, maxRank (Item.ranks xs))
    | none => .unmodelled "dtype outside the tabulated ones"

/-- IEEE-754 binary64 bit pattern of a natural number, round-to-nearest-even -/
def natToF64Bits (n : Nat) : Nat :=
  if n = 0 then 0 else
  let k := n.log2
  if k ≤ 52 then (k + 1023) * 2 ^ 52 + (n * 2 ^ (52 - k) - 2 ^ 52)
  else
    let sh := k - 52
    let q := n / 2 ^ sh
    let r := n % 2 ^ sh
    let half := 2 ^ (sh - 1)
    let q' := if r > half || (r = half && q % 2 = 1) then q + 1 else q
    if q' = 2 ^ 53 then (k + 1 + 1023) * 2 ^ 52 else (k + 1023) * 2 ^ 52 + (q' - 2 ^ 52)

def hexDigit (n : Nat) : Char := "0123456789abcdef".toList.getD n '0'

def hex16 (n : Nat) : String :=
  String.ofList ((List.range 16).reverse.map (fun i => hexDigit (n / 16 ^ i % 16)))

/-- float token (16 hex digits, big endian, of the value as a binary64) of an integer -/
def intToFloatTok (v : Int) : Val :=
  if v < 0 then .f (hex16 (2 ^ 63 + natToF64Bits v.natAbs)) else .f (hex16 (natToF64Bits v.natAbs))

/-- `astype(to)` of one scalar along a *safe* cast.  Floats are tokens of their value as a
binary64, so widening a float does not change the token.  Number -> string is not modelled. -/
def castVal (src to : Dtype) (v : Val) : Option Val :=
  if src = to then some v
  else match to with
    | .obj => some v
    | .str | .bytes | .other => none
    | .bool => none
    | .f16 | .f32 | .f64 =>
      match v with
      | .b x => some (intToFloatTok (if x then 1 else 0))
      | .i x => some (intToFloatTok x)
      | .f t => some (.f t)
      | .s _ => none
    | _ =>                                   -- integer target
      match v with
      | .b x => some (.i (if x then 1 else 0))
      | .i x => some (.i x)
      | _ => none

/-- contents of `np.empty` (only ever observable for a missing rank-0 entry) -/
def uninit : Val := .s "<uninitialised>"

/-- one entry of the result: `(array, missing flag)`.
`None` → `np.empty((0,)*ndim, dtype)`; for `ndim = 0` that is a rank-0 array holding one
*uninitialised* scalar — its contents are unspecified: the model puts the token `uninit` there
and the correspondence compares shape and dtype only at missing positions.
otherwise → `np.asarray(entry, dtype)` with `ndim - entry.ndim` leading axes of extent 1. -/
def normItem (dt : Dtype) (nd : Nat) : Item → Option (NdArr × Bool)
  | .none => some ({ dtype := dt, shape := List.replicate nd 0,
                     flat := List.replicate (prod (List.replicate nd 0)) uninit }, true)
  | .inhomogeneous => none
  | .arr a =>
    match a.flat.mapM (castVal a.dtype dt) with
    | some fl => some ({ dtype := dt, shape := List.replicate (nd - a.ndim) 1 ++ a.shape, flat := fl }, false)
    | none => none

/-- the loop of `construct_var_len_props` -/
def normAll (dt : Dtype) (nd : Nat) : List Item → Option (List (NdArr × Bool))
  | [] => some []
  | x :: t =>
    match normItem dt nd x, normAll dt nd t with
    | some y, some l => some (y :: l)
    | _, _ => none

/-- `construct_var_len_props`: `(values entries, missing flags)`; Python returns `missing = None`
when no flag is set (`missingOut`). -/
def constructVarLenProps (xs : List Item) : Outcome (List NdArr × List Bool) :=
  match getCommonTypeDims xs with
  | .ok (dt, nd) =>
    match normAll dt nd xs with
    | some l => .ok (l.map (·.1), l.map (·.2))
    | none => .unmodelled "number -> string cast"
  | .valueError => .valueError
  | .typeError => .typeError
  | .other n => .other n
  | .unmodelled w => .unmodelled w

/-- `missing_arr if missing_arr.any() else None` -/
def missingOut (m : List Bool) : Option (List Bool) := if m.any id then some m else none

end Geff.Vlen
