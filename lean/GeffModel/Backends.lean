import GeffModel.Dicts
import GeffModel.Graph
/-! # The three graph-library backends (property C03)

Models of `NxBackend.construct` / `_set_property_values` / `NxBackend.write`,
`RxBackend.construct` / `RxBackend.write`, `SgBackend.construct` / `SgBackend.write` (+ the
unsquish step of `write_props_arrays` it relies on) and of the observation each backend's
`GraphAdapter` offers.  The graph containers themselves are library code; they are modelled by
the few dict / list operations geff uses:

* networkx: `_node` is an insertion-ordered dict id → attribute dict, every edge has one
  attribute dict that is found under `(u, v)` and, when undirected, under `(v, u)`;
* rustworkx: node payloads in index slots (`none` = removed index), an edge list with payloads
  (multigraph), `attrs["to_rx_id_map"]`;
* spatial-graph: typed columns, one `position` array of `ndims` columns.
-/
namespace Geff.Backends
open Geff.Np Geff.Dicts

/-! ## Shared: the per-element entries of a column as the constructs read them -/

/-- what `construct` reads from column `c` for elements `0 … n-1`: `none` = skip (missing).
Both loops index `values[idx]` and `missing[idx]`; an index beyond either array is `IndexError`. -/
def colEntries (c : Col) (n : Nat) : Except Err (List (Option PyVal)) :=
  mapE (fun i =>
    match c.rows[i]? with
    | none => .error .indexError
    | some r =>
      match c.missing with
      | none => .ok (some (rowToPy c.varlen r))
      | some ms =>
        match ms[i]? with
        | none => .error .indexError
        | some true => .ok none
        | some false => .ok (some (rowToPy c.varlen r))) (List.range n)

/-! ## networkx -/

structure NxGraph where
  directed : Bool
  nodes : List (Int × Attrs)
  edges : List ((Int × Int) × Attrs)
deriving DecidableEq, Repr, Inhabited

/-- two keys name the same networkx edge -/
def sameEdge (directed : Bool) (a b : Int × Int) : Bool :=
  a = b || (!directed && a = (b.2, b.1))

def NxGraph.hasNode (g : NxGraph) (i : Int) : Bool := g.nodes.any (·.1 = i)
def NxGraph.hasEdge (g : NxGraph) (e : Int × Int) : Bool := g.edges.any (fun x => sameEdge g.directed x.1 e)

/-- `graph.add_node(i)` -/
def NxGraph.addNode (g : NxGraph) (i : Int) : NxGraph :=
  if g.hasNode i then g else { g with nodes := g.nodes ++ [(i, [])] }

/-- `graph.add_edge(u, v)`: creates missing endpoints, keeps an existing edge -/
def NxGraph.addEdge (g : NxGraph) (e : Int × Int) : NxGraph :=
  let g := (g.addNode e.1).addNode e.2
  if g.hasEdge e then g else { g with edges := g.edges ++ [(e, [])] }

def setAt {κ : Type} (same : κ → κ → Bool) : List (κ × Attrs) → κ → String → PyVal → List (κ × Attrs)
  | [], _, _, _ => []
  | (k', a) :: t, k, n, v => if same k' k then (k', a.set n v) :: t else (k', a) :: setAt same t k n v

/-- `graph.nodes[i][name] = v` (`KeyError` when the node does not exist) -/
def NxGraph.setNodeAttr (g : NxGraph) (i : Int) (name : String) (v : PyVal) : Except Err NxGraph :=
  if g.hasNode i then .ok { g with nodes := setAt (fun a b => a = b) g.nodes i name v } else .error .keyError

/-- `graph.edges[u, v][name] = v` -/
def NxGraph.setEdgeAttr (g : NxGraph) (e : Int × Int) (name : String) (v : PyVal) : Except Err NxGraph :=
  if g.hasEdge e then .ok { g with edges := setAt (sameEdge g.directed) g.edges e name v } else .error .keyError

/-- one iteration of `_set_property_values` for nodes: skip a missing entry, else set -/
def setNodeStep (name : String) (g : NxGraph) (p : Int × Option PyVal) : Except Err NxGraph :=
  match p.2 with
  | none => .ok g
  | some v => g.setNodeAttr p.1 name v

def setEdgeStep (name : String) (g : NxGraph) (p : (Int × Int) × Option PyVal) : Except Err NxGraph :=
  match p.2 with
  | none => .ok g
  | some v => g.setEdgeAttr p.1 name v

/-- `_set_property_values(graph, ids, name, prop_dict, nodes=True)` -/
def setNodePropertyValues (g : NxGraph) (ids : List Int) (name : String) (c : Col) : Except Err NxGraph :=
  match colEntries c ids.length with
  | .error e => .error e
  | .ok es => (ids.zip es).foldlM (setNodeStep name) g

/-- `_set_property_values(graph, ids, name, prop_dict, nodes=False)` -/
def setEdgePropertyValues (g : NxGraph) (ids : List (Int × Int)) (name : String) (c : Col) : Except Err NxGraph :=
  match colEntries c ids.length with
  | .error e => .error e
  | .ok es => (ids.zip es).foldlM (setEdgeStep name) g

/-- `NxBackend.construct` -/
def nxConstruct (m : MemGeff) : Except Err NxGraph :=
  let g0 : NxGraph := { directed := m.directed, nodes := [], edges := [] }
  let g1 := m.nodeIds.foldl NxGraph.addNode g0
  match m.nodeProps.foldlM (fun g (p : String × Col) => setNodePropertyValues g m.nodeIds p.1 p.2) g1 with
  | .error e => .error e
  | .ok g2 =>
    let g3 := m.edgeIds.foldl NxGraph.addEdge g2
    m.edgeProps.foldlM (fun g (p : String × Col) => setEdgePropertyValues g m.edgeIds p.1 p.2) g3

/-- keys of all attribute dicts, first occurrence order (the `set` comprehension; order immaterial) -/
def propNames {κ : Type} (data : List (κ × Attrs)) : List String :=
  Geff.Graph.dedup (data.flatMap (fun d => d.2.map (·.1)))

/-- `NxBackend.write` up to the store: node / edge data handed to `write_dicts` -/
def nxWrite (g : NxGraph) : Except Err MemGeff :=
  writeDicts g.directed g.nodes g.edges (propNames g.nodes) (propNames g.edges)

/-- `name in d` / `d[name]` on the attribute dict of a found element (`none`: not found / has not) -/
def attrOf? {κ : Type} (q : Option (κ × Attrs)) (name : String) : Option PyVal :=
  match q with
  | none => none
  | some p => p.2.lookup name

/-- `NxGraphAdapter`: node ids, edge ids, `has_*_prop` / `get_*_prop` (`none` = has not) -/
def NxGraph.nodeAttr (g : NxGraph) (i : Int) (name : String) : Option PyVal :=
  attrOf? (g.nodes.find? (fun x => x.1 = i)) name

def NxGraph.edgeAttr (g : NxGraph) (e : Int × Int) (name : String) : Option PyVal :=
  attrOf? (g.edges.find? (fun x => sameEdge g.directed x.1 e)) name

/-! ## rustworkx -/

structure RxGraph where
  directed : Bool
  /-- node index → payload; `none` = index not in use -/
  slots : List (Option Attrs)
  /-- `weighted_edge_list()` in edge-index order -/
  edges : List ((Nat × Nat) × Attrs)
  /-- `attrs["to_rx_id_map"]` (geff id → node index) when built by `construct` -/
  idMap : Option (List (Int × Nat))
deriving DecidableEq, Repr, Inhabited

/-- `for idx, val in zip(indices[~missing], values): dicts[idx][name] = val` -/
def setColumn (name : String) : List Attrs → List (Option PyVal) → List Attrs
  | d :: ds, some v :: es => d.set name v :: setColumn name ds es
  | d :: ds, none :: es => d :: setColumn name ds es
  | ds, [] => ds
  | [], _ => []

/-- the per-element dicts `RxBackend.construct` builds from a property list -/
def fillStep (n : Nat) (ds : List Attrs) (p : String × Col) : Except Err (List Attrs) :=
  match colEntries p.2 n with
  | .error e => .error e
  | .ok es => .ok (setColumn p.1 ds es)

def fillDicts (n : Nat) (props : List (String × Col)) : Except Err (List Attrs) :=
  props.foldlM (fillStep n) (List.replicate n [])

/-- `dict(zip(keys, vals))` -/
def dictOfZip {κ υ : Type} [DecidableEq κ] : List κ → List υ → List (κ × υ)
  | k :: ks, v :: vs =>
    let rest := dictOfZip ks vs
    -- later duplicates overwrite the value but the key keeps its first position
    match rest.lookup k with
    | some v' => (k, v') :: rest.filter (·.1 ≠ k)
    | none => (k, v) :: rest
  | _, _ => []

/-- `np.vectorize(to_rx_id_map.__getitem__)` on one edge: `KeyError` for an unknown endpoint -/
def rxEdgeIdx (toRx : List (Int × Nat)) (e : Int × Int) : Except Err (Nat × Nat) :=
  match toRx.lookup e.1, toRx.lookup e.2 with
  | some a, some b => .ok (a, b)
  | _, _ => .error .keyError

/-- the edge list of `RxBackend.construct` (nothing is done when there are no edges) -/
def rxEdges (toRx : List (Int × Nat)) (edgeIds : List (Int × Int)) (edgeProps : List (String × Col)) :
    Except Err (List ((Nat × Nat) × Attrs)) :=
  if edgeIds.isEmpty then .ok []
  else
    match mapE (rxEdgeIdx toRx) edgeIds with
    | .error e => .error e
    | .ok idx =>
      match fillDicts edgeIds.length edgeProps with
      | .error e => .error e
      | .ok ds => .ok (idx.zip ds)

/-- `RxBackend.construct` -/
def rxConstruct (m : MemGeff) : Except Err RxGraph :=
  match fillDicts m.nodeIds.length m.nodeProps with
  | .error e => .error e
  | .ok payloads =>
    let toRx := dictOfZip m.nodeIds (List.range m.nodeIds.length)
    match rxEdges toRx m.edgeIds m.edgeProps with
    | .error e => .error e
    | .ok edges => .ok { directed := m.directed, slots := payloads.map some, edges := edges, idMap := some toRx }

/-- `graph.node_indices()` zipped with `graph.nodes()` -/
def RxGraph.nodeList (g : RxGraph) : List (Nat × Attrs) :=
  (List.range g.slots.length).zip g.slots |>.filterMap fun p => p.2.map fun a => (p.1, a)

/-- the node / edge data `RxBackend.write` hands to `write_dicts`: the attribute graph a rustworkx
graph denotes.  `nodeIdDict = none`: rustworkx indices are the geff ids; an index without an entry
in `node_id_dict` is `KeyError`. -/
def rxDicts (g : RxGraph) (nodeIdDict : Option (List (Nat × Int))) :
    Except Err (List (Int × Attrs) × List ((Int × Int) × Attrs)) :=
  let tr : Nat → Except Err Int := fun i =>
    match nodeIdDict with
    | none => .ok (Int.ofNat i)
    | some d => match d.lookup i with
      | some x => .ok x
      | none => .error .keyError
  if g.nodeList.isEmpty then .ok ([], [])
  else
    match mapE (fun (p : Nat × Attrs) => match tr p.1 with
        | .error e => .error e
        | .ok i => .ok (i, p.2)) g.nodeList with
    | .error e => .error e
    | .ok nodeData =>
      match mapE (fun (e : (Nat × Nat) × Attrs) => match tr e.1.1, tr e.1.2 with
          | .ok u, .ok v => .ok ((u, v), e.2)
          | .error x, _ => .error x
          | _, .error x => .error x) g.edges with
      | .error e => .error e
      | .ok edgeData => .ok (nodeData, edgeData)

/-- `RxBackend.write` up to the store -/
def rxWrite (g : RxGraph) (nodeIdDict : Option (List (Nat × Int))) : Except Err MemGeff :=
  match rxDicts g nodeIdDict with
  | .error e => .error e
  | .ok (nodeData, edgeData) =>
    writeDicts g.directed nodeData edgeData (propNames nodeData) (propNames edgeData)

/-- index of geff id `i` (`to_rx_id_map[i]`; the identity for a graph not built by `construct`) -/
def RxGraph.rxId (g : RxGraph) (i : Int) : Option Nat :=
  match g.idMap with
  | none => if 0 ≤ i then some i.toNat else none
  | some mp => mp.lookup i

/-- `RxGraphAdapter.has_node_prop / get_node_prop` (after the repair: addressed by geff id) -/
def RxGraph.nodeAttr (g : RxGraph) (i : Int) (name : String) : Option PyVal :=
  match g.rxId i with
  | none => none
  | some k => match g.slots[k]? with
    | some (some a) => a.lookup name
    | _ => none

def RxGraph.hasNode (g : RxGraph) (i : Int) : Bool :=
  match g.rxId i with
  | none => false
  | some k => match g.slots[k]? with
    | some (some _) => true
    | _ => false

/-- `graph.get_edge_data(u, v)` looks the pair up in either orientation when undirected -/
def RxGraph.edgeAttr (g : RxGraph) (e : Int × Int) (name : String) : Option PyVal :=
  match g.rxId e.1, g.rxId e.2 with
  | some a, some b =>
    attrOf? (g.edges.find? (fun x => x.1 = (a, b) || (!g.directed && x.1 = (b, a)))) name
  | _, _ => none

/-- `(u, v) in adapter.get_edge_ids()` (either orientation when undirected) -/
def RxGraph.hasEdge (g : RxGraph) (e : Int × Int) : Bool :=
  match g.rxId e.1, g.rxId e.2 with
  | some a, some b => g.edges.any (fun x => x.1 = (a, b) || (!g.directed && x.1 = (b, a)))
  | _, _ => false

/-! ## spatial-graph -/

structure SgGraph where
  directed : Bool
  ndims : Nat
  posDtype : Dtype
  nodes : List Int
  /-- `position`, one row of `ndims` leaves per node -/
  position : List (List Val)
  nodeAttrs : List (String × Col)
  edges : List (Int × Int)
  edgeAttrs : List (String × Col)
deriving DecidableEq, Repr, Inhabited

/-- dtypes spatial-graph accepts as attribute / position base type -/
def sgDtypeOk (d : Dtype) : Bool := d.isInteger || d = .f32 || d = .f64

/-- a column spatial-graph can hold: numeric, regular (scalar or 1-d per element) -/
def sgColOk (c : Col) : Bool :=
  sgDtypeOk c.dtype && !c.varlen && c.rows.all (fun r => r.1.length ≤ 1)

/-- the leaf of a scalar row (`.unmodelled` for a vector-valued axis column: `np.stack` would give
a rank-3 position; `ValueError` for a column shorter than the node list) -/
def scalarAt (i : Nat) (c : Col) : Except Err Val :=
  match c.rows[i]? with
  | some ([], [v]) => .ok v
  | some _ => .error (.unmodelled "non-scalar axis column")
  | none => .error .valueError

/-- `np.stack([cols…], axis=1)` of scalar columns of one dtype -/
def stackCols (n : Nat) (cols : List Col) : Except Err (List (List Val)) :=
  mapE (fun i => mapE (scalarAt i) cols) (List.range n)

/-- `metadata.axes` names; without axes only an empty graph can be constructed (`ValueError`) -/
def axisNamesOf (m : MemGeff) (axes : Option (List String)) : Except Err (List String) :=
  match axes with
  | none => if m.nodeIds.isEmpty then .ok [] else .error .valueError
  | some [] => if m.nodeIds.isEmpty then .ok [] else .error .valueError
  | some (a :: t) => .ok (a :: t)

/-- `node_attrs[name]` for an axis name (`KeyError` when it is no node property) -/
def axisCol (props : List (String × Col)) (a : String) : Except Err Col :=
  match props.lookup a with
  | some c => .ok c
  | none => .error .keyError

/-- dtype of the stacked `position`: the axes' common dtype; different dtypes are promoted by
numpy, which the model does not cover (known finding `C03:sg-mixed-axis-dtypes`) -/
def posDtypeOf (cols : List Col) : Except Err Dtype :=
  match cols with
  | [] => .error (.unmodelled "np.stack of nothing")
  | c :: cs =>
    if cs.all (fun c' => c'.dtype = c.dtype) ∧ sgDtypeOk c.dtype then .ok c.dtype
    else .error (.unmodelled "axes of different dtypes are promoted")

/-- `SgBackend.construct` (`axes = metadata.axes` names; `none` / `[]` = no axes) -/
def sgConstruct (m : MemGeff) (axes : Option (List String)) : Except Err SgGraph :=
  match axisNamesOf m axes with
  | .error e => .error e
  | .ok names =>
    match mapE (axisCol m.nodeProps) names with
    | .error e => .error e
    | .ok cols =>
      let rest := m.nodeProps.filter (fun p => !names.contains p.1)
      if !(rest.all (fun p => sgColOk p.2) && m.edgeProps.all (fun p => sgColOk p.2)) then
        .error (.unmodelled "non-numeric or var-length attribute")
      else if m.nodeIds.isEmpty then
        .ok { directed := m.directed, ndims := 1, posDtype := .f64, nodes := [], position := [],
              nodeAttrs := rest, edges := [], edgeAttrs := m.edgeProps }
      else
        match posDtypeOf cols with
        | .error e => .error e
        | .ok pd =>
          match stackCols m.nodeIds.length cols with
          | .error e => .error e
          | .ok pos =>
            .ok { directed := m.directed, ndims := names.length, posDtype := pd, nodes := m.nodeIds,
                  position := pos, nodeAttrs := rest, edges := m.edgeIds, edgeAttrs := m.edgeProps }

/-- column `k` of `position` as the scalar property `name` (`values[:, k]`; `IndexError` beyond
the width of `position`) -/
def cellRow (k : Nat) (r : List Val) : Except Err Row :=
  match r[k]? with
  | some v => .ok ([], [v])
  | none => .error .indexError

def axisColumn (g : SgGraph) (name : String) (k : Nat) : Except Err (String × Col) :=
  match mapE (cellRow k) g.position with
  | .error e => .error e
  | .ok rows => .ok (name, { dtype := g.posDtype, varlen := false, rows := rows, missing := none })

/-- `enumerate(axis_names)` -/
def enumNames (l : List String) : List (String × Nat) := l.zip (List.range l.length)

/-- `SgBackend.write` + the unsquish of `write_props_arrays`: the in-memory geff handed to the
store.  `ValueError` when `ndims` differs from the number of axis names (non-empty graph); column
`i` of `position` becomes the property `axis_names[i]` (`props.update`: an axis name replaces an
attribute of the same name), `position` itself is deleted. -/
def sgWrite (g : SgGraph) (axisNames : List String) : Except Err MemGeff :=
  if g.ndims ≠ axisNames.length ∧ !g.nodes.isEmpty then .error .valueError
  else
    match mapE (fun (p : String × Nat) => axisColumn g p.1 p.2) (enumNames axisNames) with
    | .error e => .error e
    | .ok axisCols =>
      .ok { directed := g.directed, nodeIds := g.nodes, edgeIds := g.edges,
            nodeProps := g.nodeAttrs.filter (fun p => !axisNames.contains p.1) ++ axisCols,
            edgeProps := g.edgeAttrs }

/-- `SgGraphAdapter.get_node_prop`: an axis name indexes `position`, anything else the attribute
(`has_node_prop` is always true: spatial-graph has no missing values) -/
def SgGraph.nodeAttr (g : SgGraph) (axes : List String) (i : Int) (name : String) : Option PyVal :=
  match g.nodes.findIdx? (fun x => x = i) with
  | none => none
  | some k =>
    match axes.findIdx? (fun x => x = name) with
    | some a => match g.position[k]? with
      | some r => (r[a]?).map PyVal.sc
      | none => none
    | none => match g.nodeAttrs.lookup name with
      | some c => (c.rows[k]?).map (rowToPy false)
      | none => none

def SgGraph.edgeAttr (g : SgGraph) (e : Int × Int) (name : String) : Option PyVal :=
  match g.edges.findIdx? (fun x => sameEdge g.directed x e) with
  | none => none
  | some k => match g.edgeAttrs.lookup name with
    | some c => (c.rows[k]?).map (rowToPy false)
    | none => none

def SgGraph.hasNode (g : SgGraph) (i : Int) : Bool := g.nodes.any (fun x => x = i)
def SgGraph.hasEdge (g : SgGraph) (e : Int × Int) : Bool := g.edges.any (fun x => sameEdge g.directed x e)

end Geff.Backends
