import GeffModel.Np
import GeffModel.Vlen
/-! Partial reads (core Lean only): executable model of `geff.core_io._base_read.GeffReader`

* `GeffReader.__init__`                      → `Reader.init`
* `GeffReader.read_node_props/read_edge_props` → `readNodeProps` / `readEdgeProps`
* `GeffReader._mask_to_indices`              → `maskToIndices`   (`np.where(mask)[0]` + length check)
* `GeffReader._load_zarr_subset`             → `loadZarrSubset`  (`zarr_arr.oindex[indices]`)
* `GeffReader._load_prop_to_memory`          → `loadPropToMemory`
* `GeffReader.build`                         → `build`
* `read_to_memory` (no data validation)      → `readToMemory`

The store is modelled by its *contents* as the reader sees them: the id arrays, per property the
rows of `values` (one row per node/edge, trailing axes flattened), the optional `missing` mask and
the optional flat `data` array, and the property metadata.  A zarr array handle held by the
reader is modelled by the contents it would deliver.  Python exceptions are explicit outcomes
(`Err`).  The element-wise dtype cast `np.array(x, dtype=…)` is a parameter `cast` of the model
(the theorems hold for every element-wise function; the driver instantiates it with the identity,
which is what it is on stores whose metadata dtype equals the stored dtype).

This is the behaviour after the repair of D1/D23 (`fixes/C09-01-…`): masks become integer indices,
an empty selection is handled explicitly and the flat var-length `data` array is never subset. -/
namespace Geff.PRead
open Geff.Np

inductive Err where
  | valueError
  | typeError
  | other (name : String)        -- any other Python exception (class name)
  | unmodelled (why : String)    -- outside the modelled domain (not an exception)
deriving DecidableEq, Repr

abbrev Res := Except Err

def ofVlen {α} : Geff.Vlen.Outcome α → Res α
  | .ok v => .ok v
  | .valueError => .error .valueError
  | .typeError => .error .typeError
  | .other n => .error (.other n)
  | .unmodelled w => .error (.unmodelled w)

/-! ## store contents -/

/-- a stored array with a leading node/edge axis: `shape = rows.length :: trail`, every row holds
the `prod trail` scalars of one element in C order -/
structure Arr where
  trail : List Nat
  rows : List (List Val)
deriving DecidableEq, Repr

/-- `ZarrPropDict`: the arrays of one property group -/
structure ZarrProp where
  values : Arr
  missing : Option (List Bool)
  data : Option (List Val)
deriving DecidableEq, Repr

/-- the fields of `PropMetadata` the reader looks at; `rest` is an opaque token standing for
identifier/unit/name/description (carried through unchanged) -/
structure PropMeta where
  dtype : Dtype
  varlength : Bool
  rest : String
deriving DecidableEq, Repr

structure Store where
  ids : List Int
  edges : List (Int × Int)
  nodeProps : List (String × ZarrProp)      -- `nodes/props` in `group_keys()` order
  edgeProps : List (String × ZarrProp)
  nodeMeta : List (String × PropMeta)       -- `metadata.node_props_metadata`
  edgeMeta : List (String × PropMeta)
  metaRest : String                         -- every other metadata field (opaque)
deriving DecidableEq, Repr

/-! ## in-memory result -/

inductive Values where
  | dense (dtype : Dtype) (trail : List Nat) (rows : List (List Val))
  | object (elems : List NdArr)
deriving DecidableEq, Repr

/-- `PropDictNpArray` -/
structure MemProp where
  values : Values
  missing : Option (List Bool)
deriving DecidableEq, Repr

/-- `InMemoryGeff` -/
structure InMem where
  nodeIds : List Int
  edgeIds : List (Int × Int)
  nodeProps : List (String × MemProp)       -- dict in insertion order
  edgeProps : List (String × MemProp)
  nodeMeta : List (String × PropMeta)
  edgeMeta : List (String × PropMeta)
  metaRest : String
deriving DecidableEq, Repr

/-! ## dict helpers (insertion-ordered association lists) -/

def lookup {β} (k : String) : List (String × β) → Option β
  | [] => none
  | (k', v) :: t => if k' = k then some v else lookup k t

def hasKey {β} (k : String) (d : List (String × β)) : Bool := d.any (fun p => p.1 = k)

/-- `d[k] = v`: replace in place when the key exists, append otherwise -/
def insert {β} (d : List (String × β)) (k : String) (v : β) : List (String × β) :=
  if hasKey k d then d.map (fun p => if p.1 = k then (k, v) else p) else d ++ [(k, v)]

def keys {β} (d : List (String × β)) : List String := d.map (·.1)

/-! ## masks -/

/-- `a[mask]` for a boolean mask of the same length (stops at the shorter of the two) -/
def filterByMask {α} : List α → List Bool → List α
  | x :: xs, b :: bs => if b then x :: filterByMask xs bs else filterByMask xs bs
  | _, _ => []

def whereFrom (i : Nat) : List Bool → List Nat
  | [] => []
  | b :: bs => if b then i :: whereFrom (i + 1) bs else whereFrom (i + 1) bs

/-- `np.where(mask)[0]` -/
def whereIdx (mask : List Bool) : List Nat := whereFrom 0 mask

/-- `_mask_to_indices`: `None` stays `None`; a mask of the wrong length is an `IndexError` -/
def maskToIndices (mask : Option (List Bool)) (length : Nat) : Res (Option (List Nat)) :=
  match mask with
  | none => .ok none
  | some m => if m.length = length then .ok (some (whereIdx m)) else .error (.other "IndexError")

/-- `_load_zarr_subset`: the whole array, or `oindex[indices]` (bounds-checked by zarr; the
explicit empty case of the code is the empty instance of the same function) -/
def loadZarrSubset {α} (rows : List α) (indices : Option (List Nat)) : Res (List α) :=
  match indices with
  | none => .ok rows
  | some is => is.mapM (fun i => match rows[i]? with
      | some r => .ok r
      | none => .error (.other "IndexError"))

/-! ## `_load_prop_to_memory` -/

/-- one row `[offset, *shape]` of a var-length `values` table, decoded against the FULL data -/
def decodeValuesRow (dtype : Dtype) (data : List Val) (row : List Val) : Res NdArr :=
  match row.mapM Geff.Vlen.valNat? with
  | some (o :: sh) => ofVlen (Geff.Vlen.decodeRow dtype data (o, sh))
  | _ => .error (.unmodelled "values row is not [offset, *shape] of non-negative integers")

/-- `deserialize_vlen_property_data(values, missing, data)["values"]` on the row representation -/
def deserialize (dtype : Dtype) (trail : List Nat) (rows : List (List Val)) (data : List Val) :
    Res (List NdArr) :=
  if rows.isEmpty then .ok []
  else match trail with
    | [] => .error (.other "IndexError")                 -- `values[i][0]` on a scalar
    | [w] => if w = 0 then .error (.other "IndexError") else rows.mapM (decodeValuesRow dtype data)
    | _ => .error (.unmodelled "values table is not 1-D or 2-D")

/-- the second half of `_load_prop_to_memory`: cast to the metadata dtype (`uint64` for the table of
a var-length property), then deserialise against the data array or return the arrays as they are.
`rows`/`missing` are the (subset of the) `values`/`missing` arrays that were loaded; the flat
`data` array is always loaded in full, whatever the mask. -/
def assemble (cast : Dtype → Val → Val) (zp : ZarrProp) (pm : PropMeta) (rows : List (List Val))
    (missing : Option (List Bool)) : Res MemProp :=
  let valuesDtype := if pm.varlength then Dtype.u64 else pm.dtype
  let values := rows.map (·.map (cast valuesDtype))
  let data := zp.data.map (·.map (cast pm.dtype))
  if pm.varlength then
    match data with
    | none => .error .valueError
    | some d => do
      let elems ← deserialize pm.dtype zp.values.trail values d
      pure { values := .object elems, missing := missing }
  else
    pure { values := .dense pm.dtype zp.values.trail values, missing := missing }

def loadPropToMemory (cast : Dtype → Val → Val) (zp : ZarrProp) (mask : Option (List Bool))
    (pm : PropMeta) : Res MemProp := do
  let indices ← maskToIndices mask zp.values.rows.length
  let rows ← loadZarrSubset zp.values.rows indices
  let missing ← match zp.missing with
    | some m => (loadZarrSubset m indices).map some
    | none => pure none
  assemble cast zp pm rows missing

/-! ## the reader -/

structure Reader where
  store : Store
  nodeProps : List (String × ZarrProp)      -- `self.node_props`
  edgeProps : List (String × ZarrProp)      -- `self.edge_props`
deriving DecidableEq, Repr

def Reader.init (s : Store) : Reader := { store := s, nodeProps := [], edgeProps := [] }

/-- the loop `for name in names: self.props[name] = self._read_prop(name)`; an unknown name raises
(`GroupNotFoundError`) and leaves the names read so far loaded -/
def readLoop (avail : List (String × ZarrProp)) :
    List (String × ZarrProp) → List String → List (String × ZarrProp) × Option Err
  | cur, [] => (cur, none)
  | cur, n :: ns =>
    match lookup n avail with
    | some zp => readLoop avail (insert cur n zp) ns
    | none => (cur, some (.other "GroupNotFoundError"))

/-- `read_node_props(names)`; `none` = all stored node properties -/
def readNodeProps (r : Reader) (names : Option (List String)) : Reader × Option Err :=
  let res := readLoop r.store.nodeProps r.nodeProps (names.getD (keys r.store.nodeProps))
  ({ r with nodeProps := res.1 }, res.2)

def readEdgeProps (r : Reader) (names : Option (List String)) : Reader × Option Err :=
  let res := readLoop r.store.edgeProps r.edgeProps (names.getD (keys r.store.edgeProps))
  ({ r with edgeProps := res.1 }, res.2)

/-- the loop over `self.node_props.items()` / `self.edge_props.items()` in `build` -/
def loadProps (cast : Dtype → Val → Val) (md : List (String × PropMeta))
    (mask : Option (List Bool)) : List (String × ZarrProp) → Res (List (String × MemProp))
  | [] => .ok []
  | (name, zp) :: t => do
    let pm ← match lookup name md with
      | some pm => pure pm
      | none => .error (.other "KeyError")
    let p ← loadPropToMemory cast zp mask pm
    let rest ← loadProps cast md mask t
    pure ((name, p) :: rest)

/-- `np.isin(edges, nodes).all(axis=1)` -/
def endpointsIn (nodes : List Int) (edges : List (Int × Int)) : List Bool :=
  edges.map (fun e => nodes.contains e.1 && nodes.contains e.2)

/-- the effective edge mask of `build` -/
def combineEdgeMask (nodeMask edgeMask : Option (List Bool)) (nodes : List Int)
    (edges : List (Int × Int)) : Option (List Bool) :=
  match nodeMask with
  | none => edgeMask
  | some _ =>
    let removed := endpointsIn nodes edges
    match edgeMask with
    | some m => some (List.zipWith (· && ·) m removed)
    | none => some removed

def pruneMeta (md : List (String × PropMeta)) (loaded : List (String × ZarrProp)) :
    List (String × PropMeta) :=
  md.filter (fun p => hasKey p.1 loaded)

def build (cast : Dtype → Val → Val) (r : Reader) (nodeMask edgeMask : Option (List Bool)) :
    Res InMem := do
  let s := r.store
  let nodeIndices ← maskToIndices nodeMask s.ids.length
  let nodes ← loadZarrSubset s.ids nodeIndices
  let nodeProps ← loadProps cast s.nodeMeta nodeMask r.nodeProps
  let edges := s.edges
  let _ ← maskToIndices edgeMask edges.length
  let edgeMask' := combineEdgeMask nodeMask edgeMask nodes edges
  let edges' := match edgeMask' with
    | some m => filterByMask edges m
    | none => edges
  let edgeProps ← loadProps cast s.edgeMeta edgeMask' r.edgeProps
  pure { nodeIds := nodes, edgeIds := edges', nodeProps := nodeProps, edgeProps := edgeProps,
         nodeMeta := pruneMeta s.nodeMeta r.nodeProps, edgeMeta := pruneMeta s.edgeMeta r.edgeProps,
         metaRest := s.metaRest }

/-- the reader after `read_node_props(None); read_edge_props(None)` on a fresh reader -/
def readAll (s : Store) : Reader :=
  (readEdgeProps (readNodeProps (Reader.init s) none).1 none).1

/-- `read_to_memory(store)` (all properties, no masks) — the *full read* -/
def readToMemory (cast : Dtype → Val → Val) (s : Store) : Res InMem :=
  build cast (readAll s) none none

/-! ## reader call sequences -/

inductive Call where
  | nodes (names : Option (List String))
  | edges (names : Option (List String))
deriving DecidableEq, Repr

/-- run a sequence of `read_*_props` calls; a raising call is caught by the caller and the
sequence goes on (the reader keeps what it had loaded) -/
def runCalls (r : Reader) : List Call → Reader
  | [] => r
  | .nodes ns :: t => runCalls (readNodeProps r ns).1 t
  | .edges ns :: t => runCalls (readEdgeProps r ns).1 t

/-! ## the specification: restriction of a full read -/

/-- the mask as a total list: `None` selects everything -/
def selMask (mask : Option (List Bool)) (n : Nat) : List Bool :=
  match mask with
  | some m => m
  | none => List.replicate n true

def restrictValues (mask : List Bool) : Values → Values
  | .dense dt tr rows => .dense dt tr (filterByMask rows mask)
  | .object es => .object (filterByMask es mask)

def restrictProp (mask : List Bool) (p : MemProp) : MemProp :=
  { values := restrictValues mask p.values, missing := p.missing.map (filterByMask · mask) }

def restrictProps (sel : List String) (mask : List Bool) (full : List (String × MemProp)) :
    List (String × MemProp) :=
  sel.filterMap (fun n => (lookup n full).map (fun p => (n, restrictProp mask p)))

/-- which edges of the full read survive: selected by the edge mask, both endpoints kept -/
def edgeKeep (kept : List Int) (edgeMask : Option (List Bool)) (edges : List (Int × Int)) : List Bool :=
  List.zipWith (fun b e => b && (kept.contains e.1 && kept.contains e.2))
    (selMask edgeMask edges.length) edges

/-- `restrict nsel esel nm em full`: the restriction of the full read `full` to the selected
property names and to the nodes/edges selected by the masks -/
def restrict (nsel esel : List String) (nodeMask edgeMask : Option (List Bool)) (full : InMem) : InMem :=
  let nm := selMask nodeMask full.nodeIds.length
  let kept := filterByMask full.nodeIds nm
  let ek := edgeKeep kept edgeMask full.edgeIds
  { nodeIds := kept,
    edgeIds := filterByMask full.edgeIds ek,
    nodeProps := restrictProps nsel nm full.nodeProps,
    edgeProps := restrictProps esel ek full.edgeProps,
    nodeMeta := full.nodeMeta.filter (fun p => nsel.contains p.1),
    edgeMeta := full.edgeMeta.filter (fun p => esel.contains p.1),
    metaRest := full.metaRest }

/-- what `validate_structure` guarantees and the proofs consume: property names are unique per
group and every `values`/`missing` array has one row per node (edge) -/
def nodupB : List String → Bool
  | [] => true
  | k :: t => !t.contains k && nodupB t

def propsWF (n : Nat) (ps : List (String × ZarrProp)) : Bool :=
  nodupB (keys ps) &&
  ps.all (fun p => p.2.values.rows.length = n && (match p.2.missing with
    | some m => m.length = n
    | none => true))

def Store.WF (s : Store) : Bool := propsWF s.ids.length s.nodeProps && propsWF s.edges.length s.edgeProps

/-- every stored edge joins two stored nodes -/
def Store.edgesClosed (s : Store) : Bool :=
  s.edges.all (fun e => s.ids.contains e.1 && s.ids.contains e.2)

end Geff.PRead
