/-! Executable model of the *directory layer* of `geff.convert._ctc.from_ctc_to_geff` (core Lean only).

What the converter does with the CTC directory before any pixel is read:

```
if not ctc_path.exists(): raise FileNotFoundError
for tracks_file in ["man_track.txt", "res_track.txt"]:
    if (ctc_path / tracks_file).exists(): break
else: raise FileNotFoundError
...
sorted_files = sorted(ctc_path.glob("*.tif"))
for t, filepath in enumerate(sorted_files): ...
```

Abstract input: does the directory exist, and its *listing* — the names of the regular files in it
(a directory has no two entries of the same name).  A name is the list of its Unicode code points
(`Name = List Nat`): `sorted` on `Path` objects of one directory compares the names as Python strings,
i.e. lexicographically by code point (`lexLe`), and `glob("*.tif")` keeps exactly the names that end
in the four characters `.tif` — case sensitive, hidden files and the bare name `.tif` included (read
off the real `pathlib` on every run by the correspondence stream `dir` of `harness/corr/C15.py`).
The candidate track-file names and the glob suffix are parameters so that the property theorems can
instantiate them with the literals translator T8c regenerates from `_ctc.py`. -/
namespace Geff.CtcDir

abbrev Name := List Nat

inductive Outcome (α : Type) where
  | ok (v : α)
  | fileNotFound
deriving Repr, DecidableEq

/-- Python `str.__le__` on code-point lists -/
def lexLe : Name → Name → Bool
  | [], _ => true
  | _ :: _, [] => false
  | a :: as, b :: bs => if a < b then true else if b < a then false else lexLe as bs

def insertBy {α : Type} (le : α → α → Bool) (x : α) : List α → List α
  | [] => [x]
  | y :: ys => if le x y then x :: y :: ys else y :: insertBy le x ys

/-- `sorted(xs)` (the elements are pairwise distinct here, so stability is not observable) -/
def sortBy {α : Type} (le : α → α → Bool) : List α → List α
  | [] => []
  | x :: xs => insertBy le x (sortBy le xs)

/-- `enumerate(xs, start)` -/
def enumFrom' {α : Type} : Nat → List α → List (Nat × α)
  | _, [] => []
  | k, x :: xs => (k, x) :: enumFrom' (k + 1) xs

/-- `.tif` -/
def tifSuffix : Name := [46, 116, 105, 102]
/-- `man_track.txt` -/
def manTrack : Name := [109, 97, 110, 95, 116, 114, 97, 99, 107, 46, 116, 120, 116]
/-- `res_track.txt` -/
def resTrack : Name := [114, 101, 115, 95, 116, 114, 97, 99, 107, 46, 116, 120, 116]

/-- `fnmatch(name, "*" + suffix)` -/
def globStar (suffix : Name) (n : Name) : Bool := suffix.isSuffixOf n

/-- the `for … in candidates: if exists: break / else: raise FileNotFoundError` loop -/
def firstExisting (listing : List Name) : List Name → Outcome Name
  | [] => .fileNotFound
  | c :: cs => if listing.contains c then .ok c else firstExisting listing cs

/-- `sorted(ctc_path.glob("*" + suffix))` -/
def sortedFilesOf (suffix : Name) (listing : List Name) : List Name :=
  sortBy lexLe (listing.filter (globStar suffix))

structure Found where
  trackFile : Name
  frames : List (Nat × Name)       -- `enumerate(sorted_files)`: (frame index `t`, file name)
deriving Repr, DecidableEq

/-- the directory layer with the candidate list and the glob suffix as parameters -/
def discoverWith (cands : List Name) (suffix : Name) (dirExists : Bool) (listing : List Name) :
    Outcome Found :=
  if dirExists = false then .fileNotFound
  else match firstExisting listing cands with
    | .fileNotFound => .fileNotFound
    | .ok f => .ok ⟨f, enumFrom' 0 (sortedFilesOf suffix listing)⟩

def sortedFiles (listing : List Name) : List Name := sortedFilesOf tifSuffix listing

/-- the directory layer of `from_ctc_to_geff` -/
def discover (dirExists : Bool) (listing : List Name) : Outcome Found :=
  discoverWith [manTrack, resTrack] tifSuffix dirExists listing

/-! ### the CTC naming convention: `<prefix><T as w decimal digits>.tif` -/

/-- `n` as exactly `w` decimal digits, most significant first (`"%0wd" % n` for `n < 10^w`) -/
def pad : Nat → Nat → Name
  | 0, _ => []
  | w + 1, n => (48 + n / 10 ^ w % 10) :: pad w (n % 10 ^ w)

def ctcName (pre : Name) (w i : Nat) : Name := pre ++ pad w i ++ tifSuffix

/-- Python `"%0wd" % n` for every `n`: at least `w` digits, more when `n ≥ 10^w` (fuel = number of
digits ever needed) -/
def decimal : Nat → Nat → Name
  | 0, _ => []
  | fuel + 1, n => if n < 10 then [48 + n] else decimal fuel (n / 10) ++ [48 + n % 10]

def fmtPad (w n : Nat) : Name :=
  let d := decimal (n + 1) n
  List.replicate (w - d.length) 48 ++ d

end Geff.CtcDir
