import GeffModel.MetaSpec
/-! Histories of a metadata object: how one is obtained (`Init`), what can then be done to it
(`Op`), and the small-step semantics `step` returning the outcome **and** the current object
afterwards.  For the copying helpers of `utils.py` the current object becomes the returned one on
success and stays the (untouched) argument on failure. -/
namespace Geff.Meta

inductive Init where
  /-- `GeffMetadata(**doc)` / `GeffMetadata.model_validate(doc)` / `model_validate_json(text)` -/
  | parse (doc : J)
  /-- `GeffMetadata.read(store)` on a group whose attributes are `attrs` -/
  | attrs (attrs : Attrs)
  /-- `create_or_update_metadata(None, directed, axes)` -/
  | create (directed : Bool) (axes : Option J)

inductive Op where
  /-- `obj.f = v` -/
  | assign (f : String) (v : J)
  /-- continue with `obj.model_copy()` / `copy.deepcopy(obj)` -/
  | copy
  /-- continue with `update_metadata_axes(obj, names, units, types, scales, scaled_units, offset)` -/
  | updateAxes (names : List String) (units types : Option (List (Option String)))
      (scales : Option (List (Option F))) (scaledUnits : Option (List (Option String)))
      (offset : Option (List (Option F)))
  /-- continue with `create_or_update_metadata(obj, directed, axes)` -/
  | createOrUpdate (directed : Bool) (axes : Option J)
  /-- continue with `add_or_update_props_metadata(obj, props, c_type)` -/
  | addProps (props : List J) (cType : String)
  /-- continue with `compute_and_add_axis_min_max(obj, node_props)`; `cols` is what the helper sees of the
  node-property columns (see `MinMaxCol`) -/
  | minMax (cols : List (String × MinMaxCol))

/-- well-formedness of an operation's inputs: the reduced bounds of `minMax` satisfy "not `lo > hi`" -/
def Op.WF : Op → Prop
  | .minMax cols => ∀ c ∈ cols, c.2.WF
  | _ => True

instance (op : Op) : Decidable op.WF := by cases op <;> unfold Op.WF <;> infer_instance

def start (env : Env) : Init → Except Err MetaObj
  | .parse doc => parse env doc
  | .attrs a => readAttrs env a
  | .create directed axes => createOrUpdateMetadata env none directed axes

def ofExcept (o : MetaObj) : Except Err MetaObj → Option Err × MetaObj
  | .ok o' => (none, o')
  | .error e => (some e, o)

def step (env : Env) (o : MetaObj) : Op → Option Err × MetaObj
  | .assign f v => assign env o f v
  | .copy => (none, copy o)
  | .updateAxes names units types scales scaledUnits offset =>
    ofExcept o (updateMetadataAxes env o names units types scales scaledUnits offset)
  | .createOrUpdate directed axes => ofExcept o (createOrUpdateMetadata env (some o) directed axes)
  | .addProps props cType => ofExcept o (addOrUpdatePropsMetadata env o props cType)
  | .minMax cols => ofExcept o (computeAndAddAxisMinMax o cols)

/-- the object after a whole history -/
def run (env : Env) (o : MetaObj) (ops : List Op) : MetaObj :=
  ops.foldl (fun o op => (step env o op).2) o

/-- outcome and object after every step (what the correspondence compares) -/
def trace (env : Env) : MetaObj → List Op → List (Option Err × MetaObj)
  | _, [] => []
  | o, op :: ops =>
    let r := step env o op
    r :: trace env r.2 ops

end Geff.Meta
