import GeffModel.Np
/-! Segmentation consistency checks (core Lean only): executable model of the five functions of
`geff.validate.segmentation` (after the repair of D11).

* A **label volume** is its shape and the list of its cells `(multi-index, label)`; `Vol.WF` says the
  cells are exactly the multi-indices inside the shape, each once.  (The harness sends
  `np.ndindex(shape)` with the labels.)
* numpy's integer indexing is modelled *with* its negative-index wrap-around (`wrapIndex`,
  `npIndex`, `npTakeLabels`) and its `IndexError`; the repaired functions guard every index so that
  neither the wrap nor the exception is reachable (theorems `C19_*`).
* Numbers that Python treats as floats (scale factors, coordinates, axis maxima) are **exact dyadic
  rationals** `Dy = m / 2^e` — every finite binary64 is one.  Products and comparisons are exact in
  the model; the implementation rounds a product that is not representable, so the correspondence
  is claimed (and checked) only where `c * s` is exact, and other scales are covered differentially.
* Every early return carries a message; messages are structured (`Msg`) and the harness parses
  the implementation's strings into the same structure.
* A Python exception escaping a function is the outcome `other name`. -/
namespace Geff.Seg
open Geff.Np

/-! ## exact dyadic numbers -/

structure Dy where
  m : Int
  e : Nat
deriving Repr

namespace Dy
def ofInt (i : Int) : Dy := ⟨i, 0⟩
def mul (a b : Dy) : Dy := ⟨a.m * b.m, a.e + b.e⟩
/-- `a < b` by cross multiplication (denominators are positive) -/
def lt (a b : Dy) : Bool := decide (a.m * 2 ^ b.e < b.m * 2 ^ a.e)
def le (a b : Dy) : Bool := decide (a.m * 2 ^ b.e ≤ b.m * 2 ^ a.e)
/-- `int(x)` for `x ≥ 0`, i.e. the floor -/
def floor (a : Dy) : Int := a.m / 2 ^ a.e
/-- the order of the rationals `m / 2^e`, by cross multiplication (denominators are positive) -/
def Lt (a b : Dy) : Prop := a.m * 2 ^ b.e < b.m * 2 ^ a.e
def Le (a b : Dy) : Prop := a.m * 2 ^ b.e ≤ b.m * 2 ^ a.e
end Dy

/-! ## outcomes and messages -/

inductive Msg where
  | missingSegId                       -- "Missing seg_id property in Zarr store"
  | nonIntegerDtype                    -- "'seg_id' array has non-integer dtype: .."
  | missingEntries                     -- "Mismatch in number of node IDs and seg_ids."
  | noAxes                             -- "No axes metadata found in this geff."
  | scaleLength (n nd : Nat)           -- "Length of scale factor list (n does not match .. (nd)"
  | axesLength (n nd : Nat)            -- "Number of axes in the geff metadata (n) does not match .. (nd)"
  | axisOutOfBounds (i : Nat)          -- "Graph axis i is out of bounds with value .."
  | noAxisMax                          -- "No axis 'max' value found in this geff metadata."
  | timeOutOfBounds (t : Int)          -- "Time point t is out of bounds: .."
  | missingLabel (id t : Int)          -- "Missing seg_id id at time t"
  | lengthMismatch                     -- "Coordinate list must have the same length as .."
  | coordLength (k : Nat)              -- "Coords .. do not have one value per dimension .."   (k-th pair)
  | coordOutOfBounds (k : Nat)         -- "Coords .. are out of bounds for segmentation data .." (k-th pair)
deriving DecidableEq, Repr

/-- the `(bool, errors)` pair every function returns -/
structure Result where
  ok : Bool
  errors : List Msg
deriving DecidableEq, Repr

inductive Outcome (α : Type) where
  | ok (v : α)
  | other (name : String)              -- a Python exception escapes
deriving DecidableEq, Repr

/-! ## label volumes and numpy indexing -/

structure Vol where
  shape : List Nat
  cells : List (List Nat × Int)
deriving Repr

/-- a multi-index lies inside a shape -/
def inShape : List Nat → List Nat → Bool
  | [], [] => true
  | i :: is, n :: ns => decide (i < n) && inShape is ns
  | _, _ => false

/-- the cells are exactly the multi-indices inside the shape, each with one label -/
def Vol.WF (v : Vol) : Prop :=
  (∀ idx, (∃ l, (idx, l) ∈ v.cells) ↔ inShape idx v.shape = true) ∧
  (∀ idx l l', (idx, l) ∈ v.cells → (idx, l') ∈ v.cells → l = l')

def Vol.ndim (v : Vol) : Nat := v.shape.length

/-- all multi-indices inside a shape, in C order (`np.ndindex(shape)`) -/
def indices : List Nat → List (List Nat)
  | [] => [[]]
  | n :: ns => (List.range n).flatMap (fun i => (indices ns).map (i :: ·))

/-- the volume of a C-ordered flat label list (`segmentation.ravel()`) -/
def Vol.ofFlat (shape : List Nat) (flat : List Int) : Vol := ⟨shape, (indices shape).zip flat⟩

/-- numpy's treatment of one integer index against an axis of extent `n`: negative indices count
from the end, anything outside `[-n, n)` is an `IndexError` -/
def wrapIndex (n : Nat) (i : Int) : Option Nat :=
  if 0 ≤ i ∧ i < n then some i.toNat
  else if -(n : Int) ≤ i ∧ i < 0 then some (i + n).toNat
  else none

def wrapAll : List Nat → List Int → Option (List Nat)
  | [], [] => some []
  | n :: ns, i :: is =>
    match wrapIndex n i, wrapAll ns is with
    | some j, some js => some (j :: js)
    | _, _ => none
  | _, _ => none

/-- `segmentation[tuple(idx)]` for a full-rank integer index -/
def npIndex (v : Vol) (idx : List Int) : Outcome Int :=
  if idx.length ≠ v.ndim then .other "unmodelled: partial index"
  else match wrapAll v.shape idx with
    | none => .other "IndexError"
    | some j =>
      match v.cells.lookup j with
      | some l => .ok l
      | none => .other "ill-formed volume"

/-- `np.unique(np.take(segmentation, indices=t, axis=axis)).tolist()` as a list of labels (with
repeats, in cell order — only membership is used): `AxisError`/`IndexError` are both `IndexError`s -/
def npTakeLabels (v : Vol) (axis : Nat) (t : Int) : Outcome (List Int) :=
  match v.shape[axis]? with
  | none => .other "IndexError"
  | some n =>
    match wrapIndex n t with
    | none => .other "IndexError"
    | some j => .ok ((v.cells.filter (fun c => c.1[axis]? == some j)).map (·.2))

/-! ## metadata as the checks see it -/

structure Axis where
  type : Option String
  max : Option Dy
deriving Repr

structure PropInfo where
  dtype : Dtype
  missing : Option (List Bool)
deriving Repr

/-! ## the five functions -/

/-- `has_valid_seg_id(memory_geff, seg_id)`; `props` is `memory_geff["node_props"]` -/
def hasValidSegId (props : List (String × PropInfo)) (segId : String) : Outcome Result :=
  match props.lookup segId with
  | none => .ok ⟨false, [.missingSegId]⟩
  | some info =>
    if !info.dtype.isInteger then .ok ⟨false, [.nonIntegerDtype]⟩
    else match info.missing with
      | some m => if m.any id then .ok ⟨false, [.missingEntries]⟩ else .ok ⟨true, []⟩
      | none => .ok ⟨true, []⟩

/-- Python truthiness of `metadata.axes` (`None` and `[]` are falsy) -/
def truthyAxes : Option (List Axis) → Option (List Axis)
  | some (a :: as) => some (a :: as)
  | _ => none

/-- `axes_match_seg_dims(memory_geff, segmentation)`; `nd = segmentation.ndim` -/
def axesMatchSegDims (axes : Option (List Axis)) (nd : Nat) : Outcome Result :=
  match truthyAxes axes with
  | some ax => .ok ⟨decide (nd = ax.length), []⟩
  | none => .ok ⟨false, [.noAxes]⟩

/-- the loop of `graph_is_in_seg_bounds` from axis `i` on; `seg_shape[i]` / `scale[i]` raise
`IndexError` when `i` is out of range -/
def boundsLoop (shape : List Nat) (scale : List Dy) : Nat → List Axis → Outcome Result
  | _, [] => .ok ⟨true, []⟩
  | i, ax :: rest =>
    match ax.max with
    | some mx =>
      match shape[i]?, scale[i]? with
      | some n, some s =>
        if (Dy.mul (Dy.ofInt n) s).le mx then .ok ⟨false, [.axisOutOfBounds i]⟩
        else boundsLoop shape scale (i + 1) rest
      | _, _ => .other "IndexError"
    | none => .ok ⟨false, [.noAxisMax]⟩

/-- `scale = [1.0] * ndim if scale is None` -/
def defaultScale (scale : Option (List Dy)) (nd : Nat) : List Dy :=
  match scale with
  | some s => s
  | none => List.replicate nd (Dy.ofInt 1)

/-- `graph_is_in_seg_bounds(memory_geff, segmentation, scale)` -/
def graphIsInSegBounds (axes : Option (List Axis)) (shape : List Nat) (scale : Option (List Dy)) :
    Outcome Result :=
  let sc := defaultScale scale shape.length
  if sc.length ≠ shape.length then .ok ⟨false, [.scaleLength sc.length shape.length]⟩
  else match truthyAxes axes with
    | none => .ok ⟨false, [.noAxes]⟩
    | some ax =>
      if ax.length ≠ shape.length then .ok ⟨false, [.axesLength ax.length shape.length]⟩
      else boundsLoop shape sc 0 ax

/-- positions of the axes whose type is "time" -/
def timeIndices : Nat → List Axis → List Nat
  | _, [] => []
  | i, ax :: rest => if ax.type == some "time" then i :: timeIndices (i + 1) rest else timeIndices (i + 1) rest

/-- the time axis: the position of the only axis of type "time", else 0 -/
def timeIndex (axes : Option (List Axis)) : Nat :=
  match truthyAxes axes with
  | some ax => match timeIndices 0 ax with
    | [i] => i
    | _ => 0
  | none => 0

/-- `seg_id_group[t]`: the seg ids paired (non-strict zip) with time point `t`, in order -/
def groupAt (pairs : List (Int × Int)) (t : Int) : List Int :=
  (pairs.filter (fun p => p.1 == t)).map (·.2)

/-- the loop over `time_points` -/
def timeLoop (v : Vol) (ti : Nat) (pairs : List (Int × Int)) :
    List Int → List Msg → Bool → Outcome Result
  | [], errs, anyMissing => .ok ⟨!anyMissing, errs⟩
  | t :: rest, errs, anyMissing =>
    -- the guard of the repaired code: `time_index >= ndim or not 0 <= t < shape[time_index]`
    match v.shape[ti]? with
    | none => .ok ⟨false, errs ++ [.timeOutOfBounds t]⟩
    | some n =>
      if ¬ (0 ≤ t ∧ t < n) then .ok ⟨false, errs ++ [.timeOutOfBounds t]⟩
      else match npTakeLabels v ti t with
        | .other e => .other e
        | .ok labels =>
          let miss := (groupAt pairs t).filter (fun id => !labels.contains id)
          timeLoop v ti pairs rest (errs ++ miss.map (fun id => .missingLabel id t))
            (anyMissing || !miss.isEmpty)

/-- `has_seg_ids_at_time_points(segmentation, time_points, seg_ids, metadata)`; `axes` is
`metadata.axes` (`none` also when no metadata is given) -/
def hasSegIdsAtTimePoints (v : Vol) (timePoints segIds : List Int) (axes : Option (List Axis)) :
    Outcome Result :=
  timeLoop v (timeIndex axes) (timePoints.zip segIds) timePoints [] false

/-- `all(0 <= c < dim for c, dim in zip(scaled, shape, strict=True))` for equal lengths -/
def allInRange : List Dy → List Nat → Bool
  | [], [] => true
  | c :: cs, n :: ns => (Dy.ofInt 0).le c && c.lt (Dy.ofInt n) && allInRange cs ns
  | _, _ => false

/-- `[c * s for c, s in zip(coord, scale, strict=True)]`; `ValueError` on different lengths -/
def scaleCoord : List Dy → List Dy → Outcome (List Dy)
  | [], [] => .ok []
  | c :: cs, s :: ss =>
    match scaleCoord cs ss with
    | .ok r => .ok (c.mul s :: r)
    | .other e => .other e
  | _, _ => .other "ValueError"

/-- the loop over `zip(coords, seg_ids)`; `k` counts the pairs -/
def coordLoop (v : Vol) (scale : List Dy) : Nat → List (List Dy × Int) → Bool → Outcome Result
  | _, [], anyMissing => .ok ⟨!anyMissing, []⟩
  | k, (coord, id) :: rest, anyMissing =>
    if coord.length ≠ v.ndim then .ok ⟨false, [.coordLength k]⟩
    else match scaleCoord coord scale with
      | .other e => .other e
      | .ok sc =>
        if !allInRange sc v.shape then .ok ⟨false, [.coordOutOfBounds k]⟩
        else match npIndex v (sc.map Dy.floor) with
          | .other e => .other e
          | .ok value => coordLoop v scale (k + 1) rest (anyMissing || value != id)

/-- `has_seg_ids_at_coords(segmentation, coords, seg_ids, scale)` -/
def hasSegIdsAtCoords (v : Vol) (coords : List (List Dy)) (segIds : List Int)
    (scale : Option (List Dy)) : Outcome Result :=
  if coords.length ≠ segIds.length then .ok ⟨false, [.lengthMismatch]⟩
  else
    let sc := defaultScale scale v.ndim
    if sc.length ≠ v.ndim then .ok ⟨false, [.scaleLength sc.length v.ndim]⟩
    else coordLoop v sc 0 (coords.zip segIds) false

end Geff.Seg
