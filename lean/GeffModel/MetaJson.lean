/-! JSON values as the metadata models (C07, C08) see them — core Lean only.

* `F` — a float.  The models never compute on floats; they move them, compare them for equality
  and — for `Axis.min <= Axis.max` only — order them.  A finite float is therefore carried as the
  *exact* dyadic rational `num / 2^k` that Python's `float.as_integer_ratio()` reports (lowest
  terms), so the order is decided by integer cross-multiplication with no rounding anywhere.
  `-0.0`, the infinities and NaN are separate tokens.
* `J` — a JSON document.  Integers and floats are different constructors (Python keeps `1` and
  `1.0` apart inside the free-form `extra`); objects are association lists in document order.
-/
namespace Geff.Meta

inductive F where
  | fin (num : Int) (k : Nat)
  | nzero
  | pinf
  | ninf
  | nan
deriving DecidableEq, Repr, Inhabited

namespace F
/-- IEEE `a <= b` (false as soon as one side is NaN) -/
def le : F → F → Bool
  | nan, _ => false
  | _, nan => false
  | ninf, _ => true
  | _, pinf => true
  | pinf, _ => false
  | _, ninf => false
  | nzero, nzero => true
  | nzero, fin b _ => decide (0 ≤ b)
  | fin a _, nzero => decide (a ≤ 0)
  | fin a j, fin b k => decide (a * 2 ^ k ≤ b * 2 ^ j)

/-- IEEE `a > b` (false as soon as one side is NaN) — what `Axis._validate_model` tests -/
def gt : F → F → Bool
  | nan, _ => false
  | _, nan => false
  | ninf, _ => false
  | _, pinf => false
  | pinf, _ => true
  | _, ninf => true
  | nzero, nzero => false
  | nzero, fin b _ => decide (b < 0)
  | fin a _, nzero => decide (0 < a)
  | fin a j, fin b k => decide (b * 2 ^ j < a * 2 ^ k)

def isNaN : F → Bool
  | nan => true
  | _ => false

/-- away from NaN, `<=` is exactly "not `>`" -/
theorem le_iff_not_gt (a b : F) (ha : a.isNaN = false) (hb : b.isNaN = false) :
    le a b = true ↔ gt a b = false := by
  cases a <;> cases b <;> simp_all [le, gt, isNaN, Int.not_lt]

theorem le_not_nan (a b : F) (h : le a b = true) : a.isNaN = false ∧ b.isNaN = false := by
  cases a <;> cases b <;> simp_all [le, isNaN]
end F

inductive J where
  | null
  | bool (b : Bool)
  | int (i : Int)
  | flt (f : F)
  | str (s : String)
  | arr (xs : List J)
  | obj (kvs : List (String × J))
deriving Repr, Inhabited

/-- first value stored under `k` (Python dicts have no repeated keys; the models never build one) -/
def lookup {α : Type} (kvs : List (String × α)) (k : String) : Option α :=
  match kvs with
  | [] => none
  | (k', v) :: rest => if k' == k then some v else lookup rest k

/-- `d[k] = v` on an insertion-ordered dict: replace in place or append -/
def setKey {α : Type} (kvs : List (String × α)) (k : String) (v : α) : List (String × α) :=
  match kvs with
  | [] => [(k, v)]
  | (k', v') :: rest => if k' == k then (k, v) :: rest else (k', v') :: setKey rest k v

theorem lookup_setKey_same {α : Type} (kvs : List (String × α)) (k : String) (v : α) :
    lookup (setKey kvs k v) k = some v := by
  induction kvs with
  | nil => simp [setKey, lookup]
  | cons p t ih =>
    obtain ⟨k', v'⟩ := p
    by_cases h : k' = k <;> simp [setKey, lookup, h, ih]

theorem lookup_setKey_other {α : Type} (kvs : List (String × α)) (k k2 : String) (v : α) (h : k2 ≠ k) :
    lookup (setKey kvs k v) k2 = lookup kvs k2 := by
  induction kvs with
  | nil => simp [setKey, lookup, Ne.symm h]
  | cons p t ih =>
    obtain ⟨k', v'⟩ := p
    by_cases h1 : k' = k
    · subst h1; simp [setKey, lookup, Ne.symm h]
    · by_cases h2 : k' = k2
      · subst h2; simp [setKey, lookup, h1]
      · simp [setKey, lookup, h1, h2, ih]

theorem lookup_mem {α : Type} (kvs : List (String × α)) (k : String) (v : α)
    (h : lookup kvs k = some v) : (k, v) ∈ kvs := by
  induction kvs with
  | nil => simp [lookup] at h
  | cons p t ih =>
    obtain ⟨k', v'⟩ := p
    by_cases h1 : k' = k
    · subst h1; simp [lookup] at h; simp [h]
    · simp [lookup, h1] at h; simp [ih h]

/-! ### decidable equality of documents (the derive handler does not cover nested inductives) -/
mutual
def J.beq : J → J → Bool
  | .null, .null => true
  | .bool a, .bool b => a == b
  | .int a, .int b => a == b
  | .flt a, .flt b => a == b
  | .str a, .str b => a == b
  | .arr xs, .arr ys => J.beqList xs ys
  | .obj xs, .obj ys => J.beqKvs xs ys
  | _, _ => false
def J.beqList : List J → List J → Bool
  | [], [] => true
  | x :: xs, y :: ys => J.beq x y && J.beqList xs ys
  | _, _ => false
def J.beqKvs : List (String × J) → List (String × J) → Bool
  | [], [] => true
  | (k, x) :: xs, (l, y) :: ys => (k == l) && J.beq x y && J.beqKvs xs ys
  | _, _ => false
end

mutual
theorem J.eq_of_beq : ∀ (a b : J), J.beq a b = true → a = b
  | .null, b, h => by cases b <;> simp_all [J.beq]
  | .bool _, b, h => by cases b <;> simp_all [J.beq]
  | .int _, b, h => by cases b <;> simp_all [J.beq]
  | .flt _, b, h => by cases b <;> simp_all [J.beq]
  | .str _, b, h => by cases b <;> simp_all [J.beq]
  | .arr xs, b, h => by
    cases b <;> simp [J.beq] at h
    rename_i ys
    exact congrArg J.arr (J.eq_of_beqList xs ys h)
  | .obj xs, b, h => by
    cases b <;> simp [J.beq] at h
    rename_i ys
    exact congrArg J.obj (J.eq_of_beqKvs xs ys h)
theorem J.eq_of_beqList : ∀ (xs ys : List J), J.beqList xs ys = true → xs = ys
  | [], ys, h => by cases ys <;> simp_all [J.beqList]
  | x :: xs, ys, h => by
    cases ys with
    | nil => simp [J.beqList] at h
    | cons y ys =>
      simp [J.beqList] at h
      rw [J.eq_of_beq x y h.1, J.eq_of_beqList xs ys h.2]
theorem J.eq_of_beqKvs : ∀ (xs ys : List (String × J)), J.beqKvs xs ys = true → xs = ys
  | [], ys, h => by cases ys <;> simp_all [J.beqKvs]
  | (k, x) :: xs, ys, h => by
    cases ys with
    | nil => simp [J.beqKvs] at h
    | cons p ys =>
      obtain ⟨l, y⟩ := p
      simp [J.beqKvs] at h
      rw [h.1.1, J.eq_of_beq x y h.1.2, J.eq_of_beqKvs xs ys h.2]
end

mutual
theorem J.beq_refl : ∀ (a : J), J.beq a a = true
  | .null => by simp [J.beq]
  | .bool _ => by simp [J.beq]
  | .int _ => by simp [J.beq]
  | .flt _ => by simp [J.beq]
  | .str _ => by simp [J.beq]
  | .arr xs => by simp [J.beq, J.beqList_refl xs]
  | .obj xs => by simp [J.beq, J.beqKvs_refl xs]
theorem J.beqList_refl : ∀ (xs : List J), J.beqList xs xs = true
  | [] => by simp [J.beqList]
  | x :: xs => by simp [J.beqList, J.beq_refl x, J.beqList_refl xs]
theorem J.beqKvs_refl : ∀ (xs : List (String × J)), J.beqKvs xs xs = true
  | [] => by simp [J.beqKvs]
  | (k, x) :: xs => by simp [J.beqKvs, J.beq_refl x, J.beqKvs_refl xs]
end

instance : DecidableEq J := fun a b =>
  if h : J.beq a b = true then isTrue (J.eq_of_beq a b h)
  else isFalse (fun e => h (e ▸ J.beq_refl a))

end Geff.Meta
