import GeffModel.Proto
import GeffModel.Backends
/-! JSON transport of the C03 model's values (driver side only; nothing here is reasoned about).

Values are tagged lists as in `harness/corr/C03.py`:
`["b",true] | ["i","123"] | ["f","<16 hex>"] | ["s","text"] | ["a",[shape…],[leaf…]]`. -/
namespace Geff.DictsJson
open Lean Geff.Np Geff.Dicts Geff.Backends Geff.Proto

def getNat (j : Json) : Except String Nat := do
  let i ← getInt? j
  if i < 0 then throw "negative" else return i.toNat

def valOfJson (j : Json) : Except String Val := do
  let a ← j.getArr?
  if a.size < 2 then throw "tagged value expected"
  let tag ← a[0]!.getStr?
  match tag with
  | "b" => return .b (← a[1]!.getBool?)
  | "i" => return .i (← getInt? a[1]!)
  | "f" => return .f (← a[1]!.getStr?)
  | "s" => return .s (← a[1]!.getStr?)
  | t => throw s!"bad scalar tag {t}"

def pyOfJson (j : Json) : Except String PyVal := do
  let a ← j.getArr?
  if a.size < 1 then throw "tagged value expected"
  let tag ← a[0]!.getStr?
  if tag = "z" then return .none
  if tag = "a" then
    if a.size < 3 then throw "array value expected"
    let sh ← (← a[1]!.getArr?).toList.mapM getNat
    let fl ← (← a[2]!.getArr?).toList.mapM valOfJson
    return .arr sh fl
  else return .sc (← valOfJson j)

def valToJson : Val → Json
  | .b x => Json.arr #[Json.str "b", Json.bool x]
  | .i x => Json.arr #[Json.str "i", Json.str (toString x)]
  | .f x => Json.arr #[Json.str "f", Json.str x]
  | .s x => Json.arr #[Json.str "s", Json.str x]

def natsJson (l : List Nat) : Json := Json.arr (l.map (fun n => Json.num (JsonNumber.fromNat n))).toArray

def pyToJson : PyVal → Json
  | .sc v => valToJson v
  | .arr sh fl => Json.arr #[Json.str "a", natsJson sh, Json.arr (fl.map valToJson).toArray]
  | .none => Json.arr #[Json.str "z"]

def attrsOfJson (j : Json) : Except String Attrs := do
  let o ← j.getObj?
  o.toList.mapM fun (k, v) => do return (k, ← pyOfJson v)

def attrsToJson (a : Attrs) : Json := Json.mkObj (a.map fun (k, v) => (k, pyToJson v))

def idStr (i : Int) : Json := Json.str (toString i)

def nodeDataOfJson (j : Json) : Except String (List (Int × Attrs)) := do
  (← j.getArr?).toList.mapM fun p => do
    let q ← p.getArr?
    if q.size ≠ 2 then throw "node entry"
    return (← getInt? q[0]!, ← attrsOfJson q[1]!)

def pairOfJson (j : Json) : Except String (Int × Int) := do
  let q ← j.getArr?
  if q.size ≠ 2 then throw "pair"
  return (← getInt? q[0]!, ← getInt? q[1]!)

def edgeDataOfJson (j : Json) : Except String (List ((Int × Int) × Attrs)) := do
  (← j.getArr?).toList.mapM fun p => do
    let q ← p.getArr?
    if q.size ≠ 2 then throw "edge entry"
    return (← pairOfJson q[0]!, ← attrsOfJson q[1]!)

def nodeDataToJson (l : List (Int × Attrs)) : Json :=
  Json.arr (l.map fun (i, a) => Json.arr #[idStr i, attrsToJson a]).toArray

def edgeDataToJson (l : List ((Int × Int) × Attrs)) : Json :=
  Json.arr (l.map fun (e, a) => Json.arr #[Json.arr #[idStr e.1, idStr e.2], attrsToJson a]).toArray

def dtypeOfJson (j : Json) : Except String Dtype := do
  let s ← j.getStr?
  match Dtype.ofName? s with
  | some d => return d
  | none => throw s!"dtype {s}"

def rowOfJson (j : Json) : Except String Row := do
  let q ← j.getArr?
  if q.size ≠ 2 then throw "row"
  return ((← (← q[0]!.getArr?).toList.mapM getNat), (← (← q[1]!.getArr?).toList.mapM valOfJson))

def colOfJson (j : Json) : Except String Col := do
  let d ← dtypeOfJson (← j.getObjVal? "dtype")
  let vl ← (← j.getObjVal? "varlen").getBool?
  let rows ← (← (← j.getObjVal? "rows").getArr?).toList.mapM rowOfJson
  let mj ← j.getObjVal? "missing"
  let miss ← match mj with
    | Json.null => pure none
    | x => do pure (some (← (← x.getArr?).toList.mapM (·.getBool?)))
  return { dtype := d, varlen := vl, rows := rows, missing := miss }

def colToJson (c : Col) : Json :=
  Json.mkObj [("dtype", Json.str c.dtype.name), ("varlen", Json.bool c.varlen),
    ("rows", Json.arr (c.rows.map fun r => Json.arr #[natsJson r.1, Json.arr (r.2.map valToJson).toArray]).toArray),
    ("missing", match c.missing with
      | none => Json.null
      | some ms => Json.arr (ms.map Json.bool).toArray)]

def propsOfJson (j : Json) : Except String (List (String × Col)) := do
  (← j.getObj?).toList.mapM fun (k, v) => do return (k, ← colOfJson v)

def propsToJson (p : List (String × Col)) : Json := Json.mkObj (p.map fun (k, c) => (k, colToJson c))

def memOfJson (j : Json) : Except String MemGeff := do
  return { directed := ← (← j.getObjVal? "directed").getBool?,
           nodeIds := ← getIntList (← j.getObjVal? "node_ids"),
           edgeIds := ← getIntPairs (← j.getObjVal? "edge_ids"),
           nodeProps := ← propsOfJson (← j.getObjVal? "node_props"),
           edgeProps := ← propsOfJson (← j.getObjVal? "edge_props") }

def memToJson (m : MemGeff) : Json :=
  Json.mkObj [("directed", Json.bool m.directed),
    ("node_ids", Json.arr (m.nodeIds.map idStr).toArray),
    ("edge_ids", Json.arr (m.edgeIds.map fun e => Json.arr #[idStr e.1, idStr e.2]).toArray),
    ("node_props", propsToJson m.nodeProps), ("edge_props", propsToJson m.edgeProps)]

def errName : Err → String
  | .valueError => "ValueError" | .overflowError => "OverflowError" | .keyError => "KeyError"
  | .indexError => "IndexError" | .typeError => "TypeError"
  | .unmodelled w => "unmodelled: " ++ w

/-- `{"ok": …}` or `{"exc": "ValueError"}` / `{"unmodelled": why}` -/
def outcome {α : Type} (f : α → Json) : Except Err α → Json
  | .ok a => Json.mkObj [("ok", f a)]
  | .error (.unmodelled w) => Json.mkObj [("unmodelled", Json.str w)]
  | .error e => Json.mkObj [("exc", Json.str (errName e))]

def nxToJson (g : NxGraph) : Json :=
  Json.mkObj [("directed", Json.bool g.directed), ("nodes", nodeDataToJson g.nodes), ("edges", edgeDataToJson g.edges)]

def nxOfJson (j : Json) : Except String NxGraph := do
  return { directed := ← (← j.getObjVal? "directed").getBool?,
           nodes := ← nodeDataOfJson (← j.getObjVal? "nodes"),
           edges := ← edgeDataOfJson (← j.getObjVal? "edges") }

def rxToJson (g : RxGraph) : Json :=
  Json.mkObj [("directed", Json.bool g.directed),
    ("slots", Json.arr (g.slots.map fun s => match s with
      | none => Json.null
      | some a => attrsToJson a).toArray),
    ("edges", Json.arr (g.edges.map fun (e, a) => Json.arr #[natsJson [e.1, e.2], attrsToJson a]).toArray),
    ("id_map", match g.idMap with
      | none => Json.null
      | some mp => Json.arr (mp.map fun (i, k) => Json.arr #[idStr i, Json.num (JsonNumber.fromNat k)]).toArray)]

def rxOfJson (j : Json) : Except String RxGraph := do
  let slots ← (← (← j.getObjVal? "slots").getArr?).toList.mapM fun s => match s with
    | Json.null => pure none
    | x => do pure (some (← attrsOfJson x))
  let edges ← (← (← j.getObjVal? "edges").getArr?).toList.mapM fun p => do
    let q ← p.getArr?
    if q.size ≠ 2 then throw "rx edge"
    let e ← (← q[0]!.getArr?).toList.mapM getNat
    match e with
    | [a, b] => return ((a, b), ← attrsOfJson q[1]!)
    | _ => throw "rx edge key"
  return { directed := ← (← j.getObjVal? "directed").getBool?, slots := slots, edges := edges, idMap := none }

def sgToJson (g : SgGraph) : Json :=
  Json.mkObj [("directed", Json.bool g.directed), ("ndims", Json.num (JsonNumber.fromNat g.ndims)),
    ("pos_dtype", Json.str g.posDtype.name),
    ("nodes", Json.arr (g.nodes.map idStr).toArray),
    ("position", Json.arr (g.position.map fun r => Json.arr (r.map valToJson).toArray).toArray),
    ("node_attrs", propsToJson g.nodeAttrs),
    ("edges", Json.arr (g.edges.map fun e => Json.arr #[idStr e.1, idStr e.2]).toArray),
    ("edge_attrs", propsToJson g.edgeAttrs)]

def sgOfJson (j : Json) : Except String SgGraph := do
  return { directed := ← (← j.getObjVal? "directed").getBool?,
           ndims := ← getNat (← j.getObjVal? "ndims"),
           posDtype := ← dtypeOfJson (← j.getObjVal? "pos_dtype"),
           nodes := ← getIntList (← j.getObjVal? "nodes"),
           position := ← (← (← j.getObjVal? "position").getArr?).toList.mapM fun r => do
             (← r.getArr?).toList.mapM valOfJson,
           nodeAttrs := ← propsOfJson (← j.getObjVal? "node_attrs"),
           edges := ← getIntPairs (← j.getObjVal? "edges"),
           edgeAttrs := ← propsOfJson (← j.getObjVal? "edge_attrs") }

def strList (j : Json) : Except String (List String) := do
  (← j.getArr?).toList.mapM (·.getStr?)

end Geff.DictsJson
