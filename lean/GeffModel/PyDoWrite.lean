import GeffModel.WriteRead
import GeffModel.PyDo
/-! # Run-time library for the source-translated writer (`harness/translators/t22_pydo_base_write.py`)

Translator T22 turns `write_id_arrays`, `write_props_arrays` and `write_arrays` of
`geff/core_io/_base_write.py` statement by statement into Lean `do`-blocks (`Gen/BaseWrite.lean`) in
the outcome monad of `GeffModel/WriteRead.lean` (`Geff.Store.Outcome = Except Err`).  The zarr store
is threaded explicitly: the Python variable `geff_store` is a token (`StoreRef`), the *content* of
the store is the value `s : St` that every store operation receives and returns; a zarr group handle
(`geff_root`, `props_group`, `prop_group`) is the path of the group.  A dict that the Python code
edits in place (`props`, `node_props`) is returned together with the result.

Everything the generated code calls is defined here, FROM the primitives of `GeffModel/Store.lean`
and `GeffModel/WriteRead.lean` (so that their lemmas apply), one function per zarr / numpy / Python
operation of the source, with Python's exception as an explicit outcome where there is one.

What the primitives assume (tied by the C01 correspondence, which compares the store the real
writer leaves behind with the store of the model that the generated code is proved equal to):
* `zarr.open_group(store, mode="a")` creates the root group when absent and otherwise leaves the
  store alone; `require_group("a/b")` creates the missing groups of the path and raises
  `ContainsArrayError` when an array is in the way; `create_group(name)` refuses an existing node
  (`ContainsGroupError` / `ContainsArrayError`) and the names zarr refuses (`ValueError`);
* `group["a/b"] = array` creates the parent group when absent and replaces what was at the path;
* `del group[name]` removes the whole subtree and raises `KeyError` when there is none;
* `check_for_geff` on a store object: the root carries a `geff` attribute (the path flavour and the
  guard layer are C06's subject: `Gen/StoreGuard.lean`);
* `delete_geff` on a store object that has no file-system path: both groups are deleted, then the
  `geff` attribute (the `rmtree` flavour removes the root as well; what a following write leaves
  behind is the same up to foreign root attributes);
* messages of exceptions and warnings are not represented.
Core Lean only. -/
namespace Geff.PyDoWrite
open Geff.Np Geff.Store Geff.WR

/-- the Python variable `geff_store`: the one store of the model (its content is the threaded `St`) -/
inductive StoreRef where
  | theStore
deriving DecidableEq, Repr, Inhabited

/-- `zarr_format` -/
inductive Fmt where
  | v2 | v3
deriving DecidableEq, Repr, Inhabited

/-- a zarr group handle: the path of the group -/
abbrev Group := Path

/-- `props_unsquish` -/
abbrev UnsquishDict := List (String × List String)

def raiseTypeError {α : Type} : Outcome α := throw .typeError
def raiseValueError {α : Type} : Outcome α := throw .valueError
def raiseFileExistsError {α : Type} : Outcome α := throw .fileExists

/-- `remove_tilde`: `~` expansion of a path; nothing for the store model -/
def removeTilde (r : StoreRef) : StoreRef := r

/-- `np.issubdtype(d, np.integer)` -/
def issubdtypeInteger (d : Dtype) : Bool := d.isInteger
/-- `np.issubdtype(d, np.object_)` -/
def issubdtypeObject (d : Dtype) : Bool := d == .obj

/-- `len(a)` of an ndarray: `TypeError` for a 0-d array -/
def lenArr (a : NdArr) : Outcome Nat :=
  match a.len? with
  | some n => pure n
  | none => throw .typeError

/-! ### the store -/

/-- `setup_zarr_group(store, zarr_format)` = `zarr.open_group(store, mode="a", …)`: the root group is
created when absent -/
def setupZarrGroup (s : St) (_store : StoreRef) (_fmt : Fmt) : Outcome (St × Group) :=
  pure (ensureGroup s [], [])

/-- the groups of a relative path, created where absent -/
def ensurePath (s : St) (g : Group) : List String → St
  | [] => s
  | k :: ks => ensurePath (ensureGroup s (g ++ [k])) (g ++ [k]) ks

/-- `g.require_group("a/b")` -/
def requireGroup (s : St) (g : Group) (rel : List String) : Outcome (St × Group) :=
  let s' := ensurePath s g rel
  match get s' (g ++ rel) with
  | some (.group _) => pure (s', g ++ rel)
  | _ => throw (.other "ContainsArrayError")

/-- `g.create_group(name)`: zarr refuses `.`/`..` (ValueError) and an existing node; names with a
separator or equal to a metadata key of the format are outside the model -/
def createGroup (s : St) (g : Group) (name : String) : Outcome (St × Group) := do
  if name = "." ∨ name = ".." then throw .valueError
  if !validName name then throw (unmodelled "node-name")
  match get s (g ++ [name]) with
  | some (.group _) => throw (.other "ContainsGroupError")
  | some (.array _) => throw (.other "ContainsArrayError")
  | none => pure ()
  pure (set s (g ++ [name]) (.group []), g ++ [name])

/-- `g["a/b"] = array` -/
def groupSetItem (s : St) (g : Group) (rel : List String) (a : NdArr) : Outcome St :=
  match rel.getLast? with
  | some k => pure (setArray s (g ++ rel.dropLast) k a)
  | none => throw .valueError

/-- the same for the `values` entry of a property dict: an object array cannot be stored -/
def groupSetItemVals (s : St) (g : Group) (rel : List String) (v : PVals) : Outcome St :=
  match v with
  | .dense a => groupSetItem s g rel a
  | .obj _ => throw (unmodelled "object-array-to-zarr")

/-- the subtree at `p` removed -/
def deletePrefix (s : St) (p : Path) : St := s.filter (fun kv => !(p.isPrefixOf kv.1))

/-- `del g[name]` -/
def groupDelItem (s : St) (g : Group) (name : String) : Outcome St :=
  match get s (g ++ [name]) with
  | some _ => pure (deletePrefix s (g ++ [name]))
  | none => throw .keyError

/-- `check_for_geff(store)` for a store object -/
def checkForGeff (s : St) (_store : StoreRef) : Outcome Bool := pure (hasGeff s)

/-- `del root.attrs["geff"]` -/
def delAttrGeff (s : St) : Outcome St :=
  match get s [] with
  | some (.group attrs) =>
    if attrs.any (fun kv => kv.1 = "geff") then pure (set s [] (.group (attrs.filter (fun kv => kv.1 ≠ "geff"))))
    else throw .keyError
  | _ => throw .keyError

/-- `delete_geff(store, zarr_format)` for a store object without a file-system path -/
def deleteGeff (s : St) (store : StoreRef) (fmt : Fmt) : Outcome St := do
  let r ← setupZarrGroup s store fmt
  let s ← groupDelItem r.1 r.2 Gen.Paths.NODES
  let s ← groupDelItem s r.2 Gen.Paths.EDGES
  delAttrGeff s

/-- `metadata.write(store)` -/
def metadataWrite (s : St) (md : CallerMeta) (_store : StoreRef) : Outcome St :=
  pure (writeMeta s ⟨md.directed, md.axes, md.nodeProps, md.edgeProps⟩)

/-! ### property dicts -/

/-- `values.shape` / `values.dtype` of the `values` entry (an object array is 1-D) -/
def pvShape : PVals → List Nat
  | .dense a => a.shape
  | .obj es => [es.length]
def pvDtype : PVals → Dtype
  | .dense a => a.dtype
  | .obj _ => .obj

/-- `values[:, i]`: `IndexError` unless 2-D with more than `i` columns -/
def columnAt (v : PVals) (i : Nat) : Outcome PVals :=
  match v with
  | .dense a =>
    match column a i with
    | some col => pure (.dense col)
    | none => throw .indexError
  | .obj _ => throw .indexError

/-- `d[k]` -/
def dictGetItem {β : Type} (d : List (String × β)) (k : String) : Outcome β :=
  match lookupKey k d with
  | some v => pure v
  | none => throw .keyError
/-- `k in d` -/
def dictContains {β : Type} (d : List (String × β)) (k : String) : Bool := d.any (fun kv => kv.1 = k)
/-- `d[k] = v` -/
def dictSetItem (d : Props) (k : String) (v : PropArr) : Props := dictSet d k v
/-- `d.update(e)` -/
def dictUpdate (d e : Props) : Props := e.foldl (fun acc kv => dictSet acc kv.1 kv.2) d
/-- `del d[k]` -/
def dictDelItem (d : Props) (k : String) : Outcome Props :=
  if d.any (fun kv => kv.1 = k) then pure (d.filter (fun kv => kv.1 ≠ k)) else throw .keyError

def enumFrom {α : Type} : Nat → List α → List (Nat × α)
  | _, [] => []
  | n, x :: xs => (n, x) :: enumFrom (n + 1) xs
/-- `enumerate(l)` -/
def enumerate {α : Type} (l : List α) : List (Nat × α) := enumFrom 0 l

/-- `np.empty(shape, dtype)` for a shape with a zero extent -/
def npEmptyZero (shape : List Nat) (d : Dtype) : NdArr := { dtype := d, shape := shape, flat := [] }

/-- truthiness of an optional Boolean (`None` is falsy) -/
def isTrue (b : Option Bool) : Bool := b == some true

/-- an axis of the caller's metadata is represented by its name -/
def axisName (ax : String) : String := ax

/-- the argument of `serialize_vlen_property_data`: the elements of the object array.  (The branch is
taken only when `create_props_metadata` said `varlength`, i.e. for an object array; what iterating a
dense array would give is outside the model.) -/
def vlenDict (p : PropArr) : Outcome (Geff.PyDo.PropDict (Option NdArr)) :=
  match p.values with
  | .obj es => pure ⟨es.map .arr, p.missing⟩
  | .dense _ => throw (unmodelled "serialize-dense")

/-! ### metadata -/

/-- `add_or_update_props_metadata(metadata, props_md, c_type)` -/
def addOrUpdatePropsMetadata (md : CallerMeta) (pms : List PropMeta) (cType : String) : Outcome CallerMeta :=
  if cType = "node" then pure { md with nodeProps := addOrUpdate md.nodeProps pms }
  else if cType = "edge" then pure { md with edgeProps := addOrUpdate md.edgeProps pms }
  else throw .valueError

/-- `compute_and_add_axis_min_max(metadata, node_props)`: its outcome (the bounds themselves are
C10's subject and are not represented in `CallerMeta`) -/
def computeAndAddAxisMinMax (md : CallerMeta) (nodeProps : Props) : Outcome CallerMeta := do
  checkAxes md.axes (some nodeProps)
  pure md

end Geff.PyDoWrite
