import GeffModel.Ctc
/-! Executable model of how `from_ctc_to_geff` reads the track table **as text** (core Lean only):

```
tracks_table = np.loadtxt(tracks_file_path, dtype=int, ndmin=2)
tracks_table = tracks_table[tracks_table[:, -1] > 0]
for row in tracks_table: child = row[0]; parent = row[-1]; ...
```

Input: the decoded characters of `man_track.txt` / `res_track.txt` as code points.  The file is opened
in text mode, so `\r\n` and a lone `\r` arrive as `\n` (`universalNewlines`).  Lexical subset modelled
(everything else is `unsupported`, the parser refuses instead of guessing): printable ASCII, tab, `\n`,
`\r`.  Inside it the model follows what `np.loadtxt` does with `delimiter=None`, `comments='#'`:
a line is cut at the first `#`, split at runs of space/tab, lines without a token are skipped; a token
must be an optional sign followed by one or more decimal digits (no `1.0`, `1e2`, `0x10`, `1_0`) with a
value in the int64 range, else `ValueError`; every row must have as many tokens as the first one, else
`ValueError`; no row at all gives the empty table (numpy warns "input contained no data").  Read off
the real numpy on every run by the correspondence stream `text` of `harness/corr/C15.py`. -/
namespace Geff.CtcTable
open Geff.Ctc (Row)

inductive Outcome (α : Type) where
  | ok (v : α)
  | valueError
  | unsupported          -- a character outside the modelled lexical subset
deriving Repr, DecidableEq

def isWs (c : Nat) : Bool := c = 32 || c = 9
def isNl (c : Nat) : Bool := c = 10
def isDigit (c : Nat) : Bool := decide (48 ≤ c) && decide (c ≤ 57)
def supported (c : Nat) : Bool := c = 10 || c = 13 || c = 9 || (decide (32 ≤ c) && decide (c ≤ 126))

/-- text-mode decoding of line ends: `\r\n` → `\n`, lone `\r` → `\n`; the flag says that the previous
character was a `\r` (already emitted as `\n`) -/
def unl : Bool → List Nat → List Nat
  | _, [] => []
  | prevCR, c :: r =>
    if c = 13 then 10 :: unl true r
    else if c = 10 then (if prevCR then unl false r else 10 :: unl false r)
    else c :: unl false r

def universalNewlines (text : List Nat) : List Nat := unl false text

/-- split at every character satisfying `p` (the pieces may be empty; always at least one piece) -/
def splitP (p : Nat → Bool) : List Nat → List (List Nat)
  | [] => [[]]
  | c :: r =>
    if p c then [] :: splitP p r
    else match splitP p r with
      | [] => [[c]]
      | l :: ls => (c :: l) :: ls

/-- `line.split('#')[0]` -/
def stripComment (l : List Nat) : List Nat := l.takeWhile (fun c => c != 35)

/-- whitespace-separated tokens of a line -/
def tokens (l : List Nat) : List (List Nat) := (splitP isWs l).filter (fun t => !t.isEmpty)

def digitStep (acc : Option Nat) (c : Nat) : Option Nat :=
  acc.bind fun v => if isDigit c then some (v * 10 + (c - 48)) else none

/-- value of a string of decimal digits (`none` when another character occurs) -/
def digitsVal (cs : List Nat) : Option Nat := cs.foldl digitStep (some 0)

def inInt64 (i : Int) : Bool := decide (-9223372036854775808 ≤ i) && decide (i ≤ 9223372036854775807)

/-- optional sign: (is negative, remaining characters) -/
def signSplit : List Nat → Bool × List Nat
  | [] => (false, [])
  | c :: r => if c = 45 then (true, r) else if c = 43 then (false, r) else (false, c :: r)

def mkInt (neg : Bool) (n : Nat) : Int := if neg then -(Int.ofNat n) else Int.ofNat n

def checkRange (i : Int) : Option Int := if inInt64 i then some i else none

/-- numpy's integer field parser: optional sign, one or more digits, int64 range -/
def parseInt (tok : List Nat) : Option Int :=
  if (signSplit tok).2.isEmpty then none
  else (digitsVal (signSplit tok).2).bind fun n => checkRange (mkInt (signSplit tok).1 n)

def mapM? {α β : Type} (f : α → Option β) : List α → Option (List β)
  | [] => some []
  | x :: xs => match f x, mapM? f xs with
    | some y, some ys => some (y :: ys)
    | _, _ => none

/-- the token rows of the text: comment stripped, split, blank lines dropped -/
def tokenRows (text : List Nat) : List (List (List Nat)) :=
  ((splitP isNl (universalNewlines text)).map (fun l => tokens (stripComment l))).filter (fun r => !r.isEmpty)

/-- `np.loadtxt(path, dtype=int, ndmin=2)` as a list of rows -/
def parseTable (text : List Nat) : Outcome (List (List Int)) :=
  if text.all supported = false then .unsupported
  else match mapM? (mapM? parseInt) (tokenRows text) with
    | none => .valueError                                   -- "could not convert string … to int64"
    | some rows =>
      match rows with
      | [] => .ok []                                        -- "input contained no data" (a warning)
      | r :: rs => if rs.all (fun r' => r'.length = r.length) then .ok (r :: rs)
                   else .valueError                         -- "the number of columns changed"

/-- what the table loop reads of a row: `row[0]` and `row[-1]` (for the four CTC columns also `B`, `E`,
which the converter never reads: `GeffProps.C15Table.C15_table_BE_ignored`).  A row is never empty. -/
def toRow : List Int → Option Row
  | [] => none
  | [l, b, e, p] => some ⟨l, b, e, p⟩
  | l :: r => some ⟨l, 0, 0, (l :: r).getLast (by simp)⟩

/-- text → the `table` of the abstract dataset -/
def tableOfText (text : List Nat) : Outcome (List Row) :=
  match parseTable text with
  | .ok rows => match mapM? toRow rows with
    | some t => .ok t
    | none => .valueError          -- unreachable (`tokenRows` drops empty rows)
  | .valueError => .valueError
  | .unsupported => .unsupported

/-! ### rendering (the inverse direction, used by the round-trip theorems) -/

/-- decimal digits of `n`, most significant first (fuel ≥ number of digits; `n + 1` always suffices) -/
def decimal : Nat → Nat → List Nat
  | 0, _ => []
  | fuel + 1, n => if n < 10 then [48 + n] else decimal fuel (n / 10) ++ [48 + n % 10]

def renderNat (n : Nat) : List Nat := decimal (n + 1) n

def renderInt : Int → List Nat
  | .ofNat n => renderNat n
  | .negSucc n => 45 :: renderNat (n + 1)

/-- the tokens of a row joined by the separator `sep` -/
def renderRowWith (sep : List Nat) : List Int → List Nat
  | [] => []
  | [x] => renderInt x
  | x :: xs => renderInt x ++ sep ++ renderRowWith sep xs

/-- one row per line, single spaces, every line ended by `\n` (how CTC software writes the table) -/
def render : List (List Int) → List Nat
  | [] => []
  | r :: rs => renderRowWith [32] r ++ 10 :: render rs

/-- a line of a laid-out table: a row with leading / separating / trailing white space and an optional
comment, or a line without tokens (blank or comment only) -/
inductive Line where
  | row (lead sep trail : List Nat) (comment : Option (List Nat)) (vals : List Int)
  | blank (ws : List Nat) (comment : Option (List Nat))
deriving Repr

def renderComment : Option (List Nat) → List Nat
  | none => []
  | some c => 35 :: c

def Line.text : Line → List Nat
  | .row lead sep trail c vals => lead ++ renderRowWith sep vals ++ trail ++ renderComment c
  | .blank ws c => ws ++ renderComment c

/-- lines joined by the line end `eol` (`\n` or `\r\n`), the last line ended too iff `final` -/
def renderLines (eol : List Nat) (final : Bool) : List Line → List Nat
  | [] => []
  | [l] => l.text ++ (if final then eol else [])
  | l :: ls => l.text ++ eol ++ renderLines eol final ls

def Line.vals? : Line → Option (List Int)
  | .row _ _ _ _ vals => some vals
  | .blank _ _ => none

end Geff.CtcTable
