import GeffModel.ValidateData
/-! Exact model of the symmetric / positive-definite stage of `validate_ellipsoid`
(`geff/validate/shapes.py`) over the rationals (C12, deepening).

Every finite binary64 / binary32 / integer entry is an exact (dyadic) rational, so a covariance
stack without NaN / ±inf *is* a stack of rational matrices.  Three layers:

* the **specification-exact** stage: `isSymmetric` (entrywise equality with the transpose) and
  `sylvester` (all leading principal minors positive).  For a symmetric real matrix "all
  eigenvalues > 0" (what `np.linalg.eigvals(cov) > 0` asks) is positive-definiteness by the spectral
  theorem — the documented reading; positive-definiteness is what `GeffProps.C12Ellipsoid` proves
  equivalent to `sylvester` for sides 1, 2, 3;
* the **numpy criterion** of `np.allclose(cov, covᵀ)` in exact arithmetic: `npIsClose a b`
  = `|a − b| ≤ atol + rtol·|b|` with the binary64 values of the defaults `rtol = 1e-5`, `atol = 1e-8`
  (asymmetric in `a`, `b`; applied to both orders of every index pair);
* the **margin**: decidable predicates saying that a matrix is *robustly* inside or outside, i.e. so
  far from the boundary of either test that binary64 rounding inside `np.allclose` /
  `np.linalg.eigvals` cannot change the verdict.  The correspondence compares the real validator
  with the exact model on robust matrices and only checks exception-freedom on the others.

No Mathlib: this file is linked into the driver. -/
namespace Geff.Validate

/-- a matrix as its list of rows -/
abbrev Mat := List (List Rat)

/-- entry `(i, j)`; `none` outside the matrix -/
def Mat.get? (A : Mat) (i j : Nat) : Option Rat := A[i]?.bind (·[j]?)

/-- `n × n`: `n` rows, each of length `n` -/
def Mat.isSquare (A : Mat) (n : Nat) : Bool := A.length == n && A.all (·.length == n)

/-- `p i j` for all `i, j < n` -/
def allPairs (n : Nat) (p : Nat → Nat → Bool) : Bool :=
  (List.range n).all fun i => (List.range n).all fun j => p i j

/-- exact symmetry: `A[i][j] = A[j][i]` for all index pairs (a non-square matrix is not symmetric) -/
def isSymmetric (A : Mat) : Bool := allPairs A.length fun i j => A.get? i j == A.get? j i

/-! ### determinant, leading principal minors, Sylvester's criterion -/
/-- alternating sum `x₀ − x₁ + x₂ − …` -/
def altSum : List Rat → Rat
  | [] => 0
  | x :: xs => x - altSum xs

/-- Laplace expansion along the first row; the fuel is the number of rows (the 0 × 0 determinant is 1) -/
def detAux : Nat → Mat → Rat
  | n + 1, row :: rest =>
    altSum (row.zipIdx.map fun p => p.1 * detAux n (rest.map (·.eraseIdx p.2)))
  | _, _ => 1

def det (A : Mat) : Rat := detAux A.length A

/-- the leading principal `k × k` submatrix -/
def leading (k : Nat) (A : Mat) : Mat := (A.take k).map (·.take k)

/-- `k`-th leading principal minor -/
def minor (k : Nat) (A : Mat) : Rat := det (leading k A)

/-- Sylvester's criterion: every leading principal minor is positive -/
def sylvester (A : Mat) : Bool := (List.range A.length).all fun k => decide (0 < minor (k + 1) A)

/-! ### quadratic form (specification side) -/
def dot : List Rat → List Rat → Rat
  | x :: xs, y :: ys => x * y + dot xs ys
  | _, _ => 0

/-- `xᵀ A x` -/
def quadForm (A : Mat) (x : List Rat) : Rat := dot x (A.map (dot · x))

/-! ### `np.allclose(cov, covᵀ)` read exactly -/
def rabs (x : Rat) : Rat := if x < 0 then -x else x

/-- binary64 value of the default `rtol = 1e-5` (`0x1.4f8b588e368f1p-17`) -/
def rtolQ : Rat := (5902958103587057 : Rat) / 590295810358705651712
/-- binary64 value of the default `atol = 1e-8` (`0x1.5798ee2308c3ap-27`) -/
def atolQ : Rat := (3022314549036573 : Rat) / 302231454903657293676544

/-- numpy's `isclose(a, b)` for finite values: `|a − b| ≤ atol + rtol·|b|` -/
def npIsClose (a b : Rat) : Bool := decide (rabs (a - b) ≤ atolQ + rtolQ * rabs b)

/-- `p a b` for every index pair, `a = A[i][j]`, `b = Aᵀ[i][j] = A[j][i]` (false off a square matrix) -/
def pairsAll (A : Mat) (p : Rat → Rat → Bool) : Bool :=
  allPairs A.length fun i j =>
    match A.get? i j, A.get? j i with
    | some a, some b => p a b
    | _, _ => false

/-- `np.allclose(A, Aᵀ)` in exact arithmetic -/
def allcloseSym (A : Mat) : Bool := pairsAll A npIsClose

/-! ### the margin -/
/-- relative safety factor `2^-30` around the `allclose` threshold (binary64 evaluation of
`|a − b| ≤ atol + rtol·|b|` commits three roundings, relative error < `2^-50`) -/
def symSlack : Rat := (1 : Rat) / 1073741824

/-- some pair violates the `allclose` inequality by more than the slack: rejected whatever the rounding -/
def symRobustlyRejectedBy (slack : Rat) (A : Mat) : Bool :=
  !(pairsAll A fun a b => decide (rabs (a - b) ≤ (atolQ + rtolQ * rabs b) * (1 + slack)))
def symRobustlyRejected (A : Mat) : Bool := symRobustlyRejectedBy symSlack A

/-- every pair satisfies the `allclose` inequality with room to spare: accepted whatever the rounding -/
def symRobustlyAcceptedBy (slack : Rat) (A : Mat) : Bool :=
  pairsAll A fun a b => decide (rabs (a - b) ≤ (atolQ + rtolQ * rabs b) * (1 - slack))
def symRobustlyAccepted (A : Mat) : Bool := symRobustlyAcceptedBy symSlack A

/-- the exact and the tolerant symmetry tests provably agree: the matrix is exactly symmetric, or
robustly rejected by `allclose` (`GeffProps.C12Ellipsoid.C12_allclose_agrees_when_robust`) -/
def symRobust (A : Mat) : Bool := isSymmetric A || symRobustlyRejected A

/-- an asymmetry that the relative term alone would not excuse: `|a − b| > rtol·|b|` for some pair -/
def visiblyAsymmetric (A : Mat) : Bool := !(pairsAll A fun a b => decide (rabs (a - b) ≤ rtolQ * rabs b))

/-- largest absolute entry -/
def maxAbs (A : Mat) : Rat := (A.flatten.map rabs).foldl (fun m x => if m < x then x else m) 0

/-- margin of the eigenvalue test relative to the entry magnitude: `2^-20` -/
def pdEps : Rat := (1 : Rat) / 1048576

/-- every leading minor `Δ_k ≥ ε·M^k` (`M` = largest |entry|): for a symmetric matrix of side ≤ 3 the
smallest eigenvalue is then ≥ `ε·M/9`, nine orders of magnitude above the backward error of binary64
`eigvals` for `ε = 2^-20` (the correspondence uses a coarser `ε`, `slack` for binary32 stacks) -/
def pdRobustlyInsideBy (eps : Rat) (A : Mat) : Bool :=
  decide (0 < maxAbs A) &&
  (List.range A.length).all fun k => decide (eps * maxAbs A ^ (k + 1) ≤ minor (k + 1) A)
def pdRobustlyInside (A : Mat) : Bool := pdRobustlyInsideBy pdEps A

/-- some leading minor `Δ_k ≤ −ε·M^k`: an eigenvalue ≤ `−ε·M/9` (interlacing) -/
def pdRobustlyOutsideBy (eps : Rat) (A : Mat) : Bool :=
  decide (0 < maxAbs A) &&
  (List.range A.length).any fun k => decide (minor (k + 1) A ≤ -(eps * maxAbs A ^ (k + 1)))
def pdRobustlyOutside (A : Mat) : Bool := pdRobustlyOutsideBy pdEps A

def pdRobust (A : Mat) : Bool := pdRobustlyInside A || pdRobustlyOutside A

/-! ### `validate_ellipsoid` with the stage instantiated -/
/-- `validate_ellipsoid(covariance, axes, missing)` for a stack of rational matrices: shape stage,
rows flagged missing dropped, then the symmetry test `symTest` and the positive-definiteness test
`pdTest` on every remaining matrix (numpy evaluates both on the whole stack: `allclose` = all
entries close, `np.all(eigvals > 0)` = all eigenvalues of all matrices). -/
def validateEllipsoidWith (symTest pdTest : Mat → Bool) (axes : Option (List String))
    (shape : List Nat) (mats : List Mat) (missing : Option (List Bool)) : Outcome :=
  validateEllipsoid axes shape (mats.map symTest) (mats.map pdTest) missing

/-- specification-exact instance: exact symmetry, Sylvester's criterion -/
def validateEllipsoidExact := validateEllipsoidWith isSymmetric sylvester

/-- numpy-criterion instance: `allclose` read exactly, Sylvester's criterion -/
def validateEllipsoidTol := validateEllipsoidWith allcloseSym sylvester

/-- the stack is an array of shape `shape`: when the rank is 3, `n` matrices of `d1` rows of `d2` entries -/
def stackWF (shape : List Nat) (mats : List Mat) : Bool :=
  match shape with
  | [n, d1, d2] => mats.length == n && mats.all fun A => A.length == d1 && A.all (·.length == d2)
  | _ => true

end Geff.Validate
